"""Shared machinery of /verif/bin/check.

Stages every property check is built from:
  Ctx.tlc(...)         run TLC on a spec (model check / case generation / trace validation)
  Ctx.build(pkg)       compile a harness package inside /repo's module through `go build -overlay`
  Ctx.harness(...)     run a harness binary, read its summary
  Ctx.finish(...)      classify violations against known_findings.json, write replay files and
                       evidence, print VIOLATION / KNOWN-FINDING lines, choose the exit status

Exit status: 0 property held on everything explored; 1 a violation observed on the REAL code;
2 infrastructure / model-only problem (never a violation).
"""
import glob
import json
import os
import re
import shutil
import subprocess
import sys
import tempfile
import time

VERIF = os.path.dirname(os.path.dirname(os.path.abspath(__file__)))
REPO = os.environ.get("VERIF_REPO", "/repo")
GOENV = {"GOFLAGS": "-mod=mod", "GOPROXY": "off", "GOSUMDB": "off", "GOTOOLCHAIN": "local"}
NCPU = os.cpu_count() or 4


class Infra(Exception):
    pass


class Ctx:
    def __init__(self, prop, tier, seed, keep=False):
        self.prop = prop
        self.tier = tier
        self.seed = seed
        self.keep = keep
        self.t0 = time.time()
        self.scratch = tempfile.mkdtemp(prefix="verif-%s-" % prop.lower())
        self.tlc_runs = []      # dicts with stats of every TLC run
        self.states = 0
        self.transitions = 0
        self.summaries = []     # harness summaries
        self.violations = []    # dicts: check, sig, detail, case
        self.infra = []
        self.notes = []
        self.traces_validated = 0
        self.extra_cov = {}
        self.env = dict(os.environ)
        self.env.update(GOENV)
        # never touch the user's files
        for k in ("HOME_SCRATCH",):
            pass
        self.env["XDG_CONFIG_HOME"] = os.path.join(self.scratch, "xdg")
        self.env["PPROF_TMPDIR"] = os.path.join(self.scratch, "pproftmp")
        self.env["PPROF_BINARY_PATH"] = os.path.join(self.scratch, "binpath")
        for d in ("xdg", "pproftmp", "binpath", "bin"):
            os.makedirs(os.path.join(self.scratch, d), exist_ok=True)

    # ------------------------------------------------------------------ go
    def overlay(self):
        rep = {}
        for path in glob.glob(os.path.join(VERIF, "harness", "*", "*.go")):
            pkg = os.path.basename(os.path.dirname(path))
            rep[os.path.join(REPO, "internal", "zzverif", pkg, os.path.basename(path))] = path
        ov = os.path.join(self.scratch, "overlay.json")
        with open(ov, "w") as f:
            json.dump({"Replace": rep}, f)
        return ov

    def build(self, pkg, race=False, tags="verif"):
        out = os.path.join(self.scratch, "bin", pkg + ("-race" if race else ""))
        cmd = ["go", "build", "-overlay", self.overlay(), "-tags", tags, "-o", out]
        if race:
            cmd.append("-race")
        cmd.append("github.com/google/pprof/internal/zzverif/" + pkg)
        p = subprocess.run(cmd, cwd=REPO, env=self.env, capture_output=True, text=True)
        if p.returncode != 0:
            raise Infra("harness build failed:\n" + p.stdout + p.stderr)
        return out

    def build_pprof(self, race=False):
        out = os.path.join(self.scratch, "bin", "pprof" + ("-race" if race else ""))
        cmd = ["go", "build", "-tags", "verif", "-o", out]
        if race:
            cmd.append("-race")
        cmd.append(".")
        p = subprocess.run(cmd, cwd=REPO, env=self.env, capture_output=True, text=True)
        if p.returncode != 0:
            raise Infra("pprof build failed:\n" + p.stdout + p.stderr)
        return out

    def harness(self, binary, cases=None, trace=None, n=None, extra=None, timeout=3000, name=None, env=None):
        out = os.path.join(self.scratch, "sum-%d.json" % len(self.summaries))
        cmd = [binary, "-seed", str(self.seed), "-tier", self.tier, "-out", out]
        if cases:
            cmd += ["-cases", cases]
        if trace:
            cmd += ["-trace", trace]
        if n is not None:
            cmd += ["-n", str(n)]
        if extra:
            cmd += ["-extra", extra]
        e = dict(self.env)
        if env:
            e.update(env)
        try:
            p = subprocess.run(cmd, cwd=self.scratch, env=e, capture_output=True, text=True, errors="replace", timeout=timeout)
        except subprocess.TimeoutExpired:
            raise Infra("harness timed out: " + " ".join(cmd))
        if p.returncode != 0 or not os.path.exists(out):
            crash = go_crash_in_repo(p.stderr)
            if crash:
                # a panic nobody can recover (a goroutine started by pprof itself) or a fatal runtime error raised from
                # pprof's own code killed the harness process: that is behaviour of the real code, not of the machinery
                self.violate("process", "process-crash:" + crash[0],
                             "the process died in pprof code (%s) while running %s:\n%s" % (crash[0], os.path.basename(binary), crash[1]),
                             {"harness": os.path.basename(binary), "args": cmd[1:]})
                raise Crashed("harness process killed by a crash in %s" % crash[0])
            raise Infra("harness failed (%d): %s\n%s" % (p.returncode, " ".join(cmd), (p.stdout + p.stderr)[-4000:]))
        with open(out) as f:
            s = json.load(f)
        s["_name"] = name or os.path.basename(binary)
        s["_stderr"] = p.stderr[-2000:]
        self.summaries.append(s)
        for v in s.get("violations") or []:
            self.violations.append(v)
        for m in s.get("infra_errors") or []:
            self.infra.append("%s: %s" % (s["_name"], m))
        return s

    # ------------------------------------------------------------------ tlc
    def tlc(self, module, cfg, consts=None, workers=None, timeout=900, emit_to=None, files=None,
            simulate=None, depth=None, coverage=False, expect_ok=True, dfs=False, name=None):
        """Run TLC on spec/<module>.tla with spec/<cfg> (constants overridden by `consts`).

        emit_to: path that receives the JSON lines printed by the spec (PrintT(ToJson(..))).
        files:   {name: path} copied next to the spec (trace files read by ndJsonDeserialize).
        Returns a dict: ok, states, distinct, violated (name or None), out (tail), printed (list of
        non-JSON PrintT lines).
        """
        wd = tempfile.mkdtemp(prefix="tlc-", dir=self.scratch)
        for f in glob.glob(os.path.join(VERIF, "spec", "*.tla")):
            shutil.copy(f, wd)
        cfgtxt = open(os.path.join(VERIF, "spec", cfg)).read()
        for k, v in (consts or {}).items():
            if isinstance(v, bool):
                vs = "TRUE" if v else "FALSE"
            elif isinstance(v, int):
                vs = str(v)
            else:
                vs = '"%s"' % v
            cfgtxt, n = re.subn(r"(?m)^(\s*%s\s*=\s*).*$" % re.escape(k), lambda m: m.group(1) + vs, cfgtxt)
            if n == 0:
                raise Infra("constant %s not in %s" % (k, cfg))
        with open(os.path.join(wd, "run.cfg"), "w") as f:
            f.write(cfgtxt)
        for nme, path in (files or {}).items():
            shutil.copy(path, os.path.join(wd, nme))
        w = str(workers or NCPU)
        cmd = ["timeout", str(timeout), "tlc", "-workers", w, "-metadir", os.path.join(wd, "md"), "-config", "run.cfg"]
        if simulate:
            cmd += ["-simulate", simulate]
        if depth:
            cmd += ["-depth", str(depth)]
        if coverage:
            cmd += ["-coverage", "1"]
        cmd.append(module + ".tla")
        env = dict(self.env)
        # TLC leaves tlc-<n> directories in java.io.tmpdir; the JVM's default heap limit (a quarter of the RAM) times
        # 16 parallel trace shards invites the OOM killer, so single-worker runs get 3 GB, the others 12 GB
        jto = "-Xss64m -Xmx%s -Djava.io.tmpdir=%s" % ("3g" if w == "1" else "12g", wd)
        if dfs:
            jto += " -Dtlc2.tool.queue.IStateQueue=StateDeque"
        env["JAVA_TOOL_OPTIONS"] = jto
        logp = os.path.join(wd, "tlc.log")
        t0 = time.time()
        with open(logp, "w") as log:
            p = subprocess.run(cmd, cwd=wd, env=env, stdout=log, stderr=subprocess.STDOUT)
        res = {"module": module, "cfg": cfg, "consts": consts or {}, "rc": p.returncode, "wall_s": round(time.time() - t0, 1),
               "states": 0, "distinct": 0, "violated": None, "printed": [], "name": name or module, "json_lines": 0}
        emit = open(emit_to, "w") if emit_to else None
        tail = []
        with open(logp, errors="replace") as f:
            for line in f:
                if line.startswith('"{') or line.startswith('"['):
                    res["json_lines"] += 1
                    if emit:
                        emit.write(line)
                    continue
                tail.append(line)
                if len(tail) > 400:
                    tail = tail[-200:]
                m = re.match(r"(\d+) states generated, (\d+) distinct states found", line)
                if m:
                    res["states"], res["distinct"] = int(m.group(1)), int(m.group(2))
                m = re.search(r"Invariant (\S+) is violated", line)
                if m:
                    res["violated"] = m.group(1)
                m = re.search(r"Action property (\S+) is violated|Temporal properties were violated|property (\S+) is violated", line)
                if m and not res["violated"]:
                    res["violated"] = m.group(1) or m.group(2) or "temporal"
                if "The postcondition is false" in line or "POSTCONDITION" in line and "violated" in line.lower():
                    res["violated"] = res["violated"] or "postcondition"
                if line.startswith("<<") or line.startswith('"VERIF'):
                    res["printed"].append(line.rstrip("\n"))
        if emit:
            emit.close()
        res["out"] = "".join(tail[-60:])
        try:
            res["text"] = "".join(l for l in open(logp, errors="replace") if not (l.startswith('"{') or l.startswith('"[')))
        except OSError:
            res["text"] = ""
        completed = "Model checking completed. No error has been found." in res["out"] or \
            (simulate and p.returncode in (0, 124) and res["violated"] is None and "Error:" not in res["out"])
        res["ok"] = bool(completed)
        if p.returncode == 124 and not simulate:
            res["ok"] = False
            res["timeout"] = True
        self.tlc_runs.append({k: res[k] for k in ("name", "module", "cfg", "consts", "states", "distinct", "violated", "ok", "wall_s", "json_lines")})
        self.states += res["distinct"]
        self.transitions += res["states"]
        if expect_ok and not res["ok"]:
            if res["violated"]:
                raise Infra("MODEL-ONLY: TLC reports %s violated in %s/%s (a problem of the model, not a verdict on the code)\n%s"
                            % (res["violated"], module, cfg, res["out"][-3000:]))
            # a trace specification that stopped with an evaluation error after it had already REJECTED recorded events:
            # those rejections are complete verdicts on real behaviour and stand; the rest of the trace is unexamined
            whys = re.findall(r'"VERIF-WHY",\s*(\d+),\s*\{([^}]*)\}', res.get("text") or "", re.S)
            if module.startswith("Trace") and whys and "evaluating" in res["out"]:
                for ln, why in whys[:20]:
                    self.violate("trace", "%s:rejected:%s" % (module, ",".join(sorted(re.findall(r'"(\w+)"', why)))),
                                 "%s rejected recorded event %s (%s) before it stopped with an evaluation error on a later event; "
                                 "the trace file of this run holds the event" % (module, ln, why.strip()), {"module": module, "line": int(ln)})
                raise Crashed("%s stopped with an evaluation error after rejecting %d event(s); the remaining events were not examined" % (module, len(whys)))
            raise Infra("TLC failed on %s/%s (rc=%d)\n%s" % (module, cfg, p.returncode, res["out"][-3000:]))
        if not self.keep:
            shutil.rmtree(os.path.join(wd, "md"), ignore_errors=True)
        return res

    # ------------------------------------------------------------------ verdict
    def violate(self, check, sig, detail, case=None):
        self.violations.append({"check": check, "sig": sig, "detail": detail, "case": case})

    def finish(self, level, rule=None, assumptions=None, samples=None, exhaustive=None, extra=None):
        known = load_known(self.prop)
        evid_dir = os.environ.get("VERIF_EVIDENCE") or os.path.join(VERIF, "evidence")
        rep_dir = os.path.join(evid_dir, "replay")
        os.makedirs(rep_dir, exist_ok=True)
        for old in glob.glob(os.path.join(rep_dir, "%s-*.json" % self.prop)):
            os.remove(old)
        new_viol, known_hit = [], {}
        for v in self.violations:
            k = match_known(known, v)
            if k is not None:
                known_hit.setdefault(k["id"], (k, 0))
                known_hit[k["id"]] = (k, known_hit[k["id"]][1] + 1)
            else:
                new_viol.append(v)
        lines = []
        for kid, (k, n) in sorted(known_hit.items()):
            lines.append("KNOWN-FINDING: property=%s %s [%s; seen %d time(s) in this run]" % (self.prop, k["what"], kid, n))
        seen_sig = {}
        for v in new_viol:
            n = seen_sig.get(v["sig"], 0)
            seen_sig[v["sig"]] = n + 1
            if n >= 2:
                continue
            path = os.path.join(rep_dir, "%s-%s-%d.json" % (self.prop, re.sub(r"[^A-Za-z0-9_.-]+", "_", v["sig"])[:60], n))
            with open(path, "w") as f:
                json.dump({"property": self.prop, "check": v.get("check"), "sig": v["sig"], "detail": v.get("detail"),
                           "case": v.get("case"), "conc": v.get("conc"), "seed": self.seed, "tier": self.tier}, f, indent=1)
            lines.append("VIOLATION property=%s replay=%s  # %s: %s" % (self.prop, path, v["sig"], (v.get("detail") or "")[:200].replace("\n", " ")))
        evals = sum(s.get("evaluations", 0) for s in self.summaries)
        nontriv = sum(s.get("distinct_nontrivial", 0) for s in self.summaries)
        smp = list(samples or [])
        for s in self.summaries:
            smp += (s.get("samples") or [])[:2]
        rules = [rule] if rule else []
        rules += [s.get("rule") for s in self.summaries if s.get("rule")]
        cov = {
            "states": self.states, "transitions": self.transitions,
            "traces_validated_against_impl": self.traces_validated,
            "evaluations": evals, "distinct_nontrivial": nontriv,
            "rule": " || ".join(rules),
            "samples": smp[:6] if smp else [{"note": "no sample recorded"}],
            "tlc_runs": self.tlc_runs,
            "harness": [{"name": s["_name"], "evaluations": s.get("evaluations"), "cases_replayed": s.get("cases_replayed"),
                         "trace_events": s.get("trace_events"), "counters": s.get("counters")} for s in self.summaries],
            "known_findings_seen": sorted(known_hit.keys()),
        }
        if exhaustive is not None:
            cov["exhaustive"] = exhaustive
        cov.update(self.extra_cov)
        if extra:
            cov.update(extra)
        ev = {"property_id": self.prop, "tier": self.tier, "seed": self.seed, "level": level, "coverage": cov,
              "assumptions": list(assumptions or []) + self.notes, "wall_s": round(time.time() - self.t0, 1),
              "violations": len(new_viol)}
        if self.infra:
            ev["coverage"]["infra_errors"] = self.infra[:10]
        with open(os.path.join(evid_dir, "%s.json" % self.prop), "w") as f:
            json.dump(ev, f, indent=1)
        for l in lines:
            print(l)
        status = 1 if new_viol else (2 if self.infra else 0)
        print("%s %s tier=%s seed=%d: %d evaluations, %d TLC states, %d trace events validated, %d violation(s), %d known finding(s), %.0fs"
              % ("FAIL" if status == 1 else ("INFRA" if status == 2 else "OK"), self.prop, self.tier, self.seed, evals, self.states,
                 self.traces_validated, len(new_viol), len(known_hit), time.time() - self.t0))
        if status == 2:
            for m in self.infra[:10]:
                print("INFRA: " + m, file=sys.stderr)
        return status

    def cleanup(self):
        if not self.keep:
            shutil.rmtree(self.scratch, ignore_errors=True)
        else:
            print("scratch kept at", self.scratch, file=sys.stderr)


class Crashed(Infra):
    """Exploration ended early but violations established on the real code have been recorded and stand: the harness
    process was killed by a crash inside the code under test, or a trace specification stopped with an evaluation
    error after it had rejected recorded events."""


def go_crash_in_repo(stderr):
    """If stderr holds a Go panic / fatal error whose first frame inside the repository is NOT harness code, return
    (function, excerpt); else None."""
    m = re.search(r"(?m)^(panic: .*|fatal error: .*)$", stderr or "")
    if not m:
        return None
    tail = stderr[m.start():]
    fn = None
    lines = tail.splitlines()
    for i, ln in enumerate(lines):
        fm = re.match(r"^\t(\S+\.go):\d+", ln)
        if not fm:
            continue
        path = fm.group(1)
        if "/runtime/" in path or path.startswith(os.path.join(os.environ.get("GOROOT", "/usr/local/go"), "")):
            continue
        if "github.com/google/pprof" in (lines[i - 1] if i else "") or path.startswith(REPO):
            if "/internal/zzverif/" in path:
                return None          # the harness itself is at fault: an infrastructure problem
            fn = re.sub(r"\([^()]*\)$", "", lines[i - 1].strip()) if i else path
            fn = fn.replace("github.com/google/pprof/", "")
            break
        if "/internal/zzverif/" in path:
            return None
    if not fn:
        return None
    return fn, tail[:1500]


def load_known(prop):
    path = os.path.join(VERIF, "known_findings.json")
    if not os.path.exists(path):
        return []
    with open(path) as f:
        d = json.load(f)
    return [k for k in d.get("known", []) if k.get("property") == prop]


def match_known(known, v):
    for k in known:
        m = k.get("match", {})
        if "sig" in m and m["sig"] != v.get("sig"):
            continue
        if "sig_prefix" in m and not (v.get("sig") or "").startswith(m["sig_prefix"]):
            continue
        if "sig_regex" in m and not re.fullmatch(m["sig_regex"], v.get("sig") or ""):
            continue
        if "check" in m and m["check"] != v.get("check"):
            continue
        return k
    return None


def trace_verdict(ctx, res, trace_path, aux_path=None, check="trace", describe=None, key="n", only=None):
    """Interpret the output of a Trace*.tla run: the spec prints <<"VERIF-REJECTED", {line numbers}>> and
    <<"VERIF-CONSUMED", n>>; every rejected line becomes a violation carrying the recorded event
    (and the concrete input from the aux file, when there is one)."""
    # TLC wraps long values over several lines: match over the whole output, not line by line
    consumed, rejected, whys = None, None, {}
    text = res.get("text") or "\n".join(res["printed"])
    for m in re.finditer(r'"VERIF-WHY",\s*(\d+),\s*\{([^}]*)\}', text, re.S):
        whys[int(m.group(1))] = ",".join(sorted(re.findall(r'"(\w+)"', m.group(2))))
    m = re.search(r'"VERIF-CONSUMED",\s*(\d+)', text)
    if m:
        consumed = int(m.group(1))
    m = re.search(r'"VERIF-REJECTED",\s*\{([^}]*)\}', text, re.S)
    if m:
        rejected = [int(x) for x in re.findall(r"\d+", m.group(1))]
    if rejected is None:
        raise Infra("trace validation printed no VERIF-REJECTED set\n%s" % res["out"][-2000:])
    if whys and set(whys) != set(rejected):
        raise Infra("trace validation: rejected set %s and explained set %s disagree" % (sorted(rejected)[:10], sorted(whys)[:10]))
    nlines = sum(1 for _ in open(trace_path))
    if consumed is None or consumed != nlines:
        raise Infra("trace validation did not consume the whole trace (%s of %d)\n%s" % (consumed, nlines, res["out"][-2000:]))
    ctx.traces_validated += consumed
    if rejected:
        events = open(trace_path).read().splitlines()
        aux = {}
        if aux_path and os.path.exists(aux_path):
            for l in open(aux_path):
                try:
                    a = json.loads(l)
                    aux[a.get("n")] = a
                except Exception:
                    pass
        shown = 0
        for ln in rejected:
            ev = json.loads(events[ln - 1])
            if only and not only(ev):
                continue      # this kind of event is another property's subject (reported by that property's check)
            shown += 1
            if shown > 20:
                break
            sig = describe(ev) if describe else "trace-rejected"
            if ln in whys:
                sig += ":" + whys[ln]
            case = aux.get(ev.get(key), ev)
            ctx.violate(check, sig, "TLC rejects recorded event %d: %s" % (ln, json.dumps(ev)[:600]), case)
    return consumed, rejected


def sharded_trace(ctx, module, cfg, trace_path, aux_path=None, check="trace", describe=None, key="n", shards=None, timeout=3000,
                  group_start=None, only=None):
    """Validate a long trace of independent events in parallel: split it into shards, one TLC (1 worker) per shard.
    group_start(event) -> True marks the first event of a group of lines that must stay together, in order
    (a whole run of a stateful trace specification)."""
    import concurrent.futures
    lines = open(trace_path).read().splitlines()
    shards = shards or min(NCPU, max(1, len(lines) // 200))
    if group_start:
        groups = []
        for ln in lines:
            if group_start(json.loads(ln)) or not groups:
                groups.append([])
            groups[-1].append(ln)
        parts = [[] for _ in range(shards)]
        for i, g in enumerate(groups):
            parts[i % shards].extend(g)
    else:
        parts = [lines[i::shards] for i in range(shards)]
    paths = []
    for i, part in enumerate(parts):
        p = "%s.shard%d" % (trace_path, i)
        with open(p, "w") as f:
            f.write("\n".join(part) + ("\n" if part else ""))
        paths.append(p)

    def one(i):
        if not parts[i]:
            return None
        return ctx.tlc(module, cfg, workers=1, files={"trace.ndjson": paths[i]}, timeout=timeout, name="%s[%d/%d]" % (module, i, shards))
    with concurrent.futures.ThreadPoolExecutor(max_workers=shards) as ex:
        results = list(ex.map(one, range(shards)))
    total = 0
    for i, res in enumerate(results):
        if res is None:
            continue
        c, _ = trace_verdict(ctx, res, paths[i], aux_path, check=check, describe=describe, key=key, only=only)
        total += c
    return total


def main(run_fn, prop):
    import argparse
    ap = argparse.ArgumentParser()
    ap.add_argument("--tier", default=os.environ.get("VERIF_TIER", "quick"))
    ap.add_argument("--replay")
    ap.add_argument("--keep", action="store_true")
    a = ap.parse_args(sys.argv[2:])
    seed = int(os.environ.get("VERIF_SEED", "1") or 1)
    ctx = Ctx(prop, a.tier, seed, keep=a.keep)
    try:
        status = run_fn(ctx, a.replay)
    except Crashed as e:
        ctx.notes.append(str(e))
        status = ctx.finish("exploration")
    except Infra as e:
        print("INFRA %s: %s" % (prop, e), file=sys.stderr)
        status = 2
    finally:
        ctx.cleanup()
    sys.exit(status)
