package main

import (
	"fmt"
	"os"
	"path/filepath"
	"strings"

	"github.com/google/pprof/internal/zzverif/vdrv"
	"github.com/google/pprof/profile"
)

func main() {
	dir, _ := os.MkdirTemp("", "probe-src-")
	defer os.RemoveAll(dir)
	src := filepath.Join(dir, "dup.c")
	var sb strings.Builder
	for i := 1; i <= 60; i++ {
		fmt.Fprintf(&sb, "/* line %d */\n", i)
	}
	os.WriteFile(src, []byte(sb.String()), 0o644)
	m := &profile.Mapping{ID: 1, Start: 0x1000, Limit: 0x2000, File: "bin1", HasFunctions: true, HasFilenames: true, HasLineNumbers: true}
	f1 := &profile.Function{ID: 1, Name: "dup", SystemName: "dup", Filename: src, StartLine: 10}
	f2 := &profile.Function{ID: 2, Name: "dup", SystemName: "dup", Filename: src, StartLine: 5}
	l1 := &profile.Location{ID: 1, Mapping: m, Address: 0x1010, Line: []profile.Line{{Function: f1, Line: 12}}}
	l2 := &profile.Location{ID: 2, Mapping: m, Address: 0x1020, Line: []profile.Line{{Function: f2, Line: 30}}}
	p := &profile.Profile{SampleType: []*profile.ValueType{{Type: "samples", Unit: "count"}}, PeriodType: &profile.ValueType{Type: "cpu", Unit: "ns"}, Period: 1,
		Mapping: []*profile.Mapping{m}, Function: []*profile.Function{f1, f2}, Location: []*profile.Location{l1, l2},
		Sample: []*profile.Sample{{Location: []*profile.Location{l1}, Value: []int64{3}}, {Location: []*profile.Location{l2}, Value: []int64{5}}}}
	seen := map[string]int{}
	for k := 0; k < 40; k++ {
		res := vdrv.Run(vdrv.Opts{Args: []string{"-list=dup", "-output=out", "src"}, Fetch: func(string) (*profile.Profile, error) { return p.Copy(), nil }})
		seen[string(res.Files["out"])]++
	}
	for o, n := range seen {
		fmt.Println(n, "times:\n"+o)
	}
}
