package main

import (
	"bytes"
	"fmt"
	"os"

	"github.com/google/pprof/internal/zzverif/vlib"
	"github.com/google/pprof/profile"
)

func main() {
	b, _ := os.ReadFile(os.Args[1])
	p, err := profile.ParseData(b)
	fmt.Println("err:", err)
	if err != nil {
		return
	}
	var w bytes.Buffer
	p.WriteUncompressed(&w)
	q, err := profile.ParseUncompressed(w.Bytes())
	fmt.Println("reparse err:", err)
	a, c := vlib.ProjectFull(p), vlib.ProjectFull(q)
	if !a.Equal(c) {
		for i := range a.Samples {
			if fmt.Sprint(a.Samples[i]) != fmt.Sprint(c.Samples[i]) {
				fmt.Println("sample", i, a.Samples[i], "=>", c.Samples[i])
			}
		}
		fmt.Println(a.Period, c.Period, a.ST, c.ST, a.PT, c.PT)
	}
}
