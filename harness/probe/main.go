package main

import (
	"fmt"
	"os"

	"github.com/google/pprof/internal/zzverif/vdrv"
	"github.com/google/pprof/internal/zzverif/vlib"
	"github.com/google/pprof/profile"
)

func main() {
	f0 := vlib.AFn{Name: "f", Sys: "f", File: "a.c", Start: 1}
	g := vlib.AFn{Name: "g", Sys: "g", File: "a.c", Start: 5}
	m := vlib.AMap{Build: "B1", File: "bin", Start: 16, Size: 8}
	lf := vlib.ALoc{Map: m, Rel: 3, Lines: []vlib.ALine{{Fn: f0, Line: 10, Col: 1}}}
	lg := vlib.ALoc{Map: m, Rel: 4, Lines: []vlib.ALine{{Fn: g, Line: 20, Col: 1}, {Fn: f0, Line: 11, Col: 1}}}
	ap := vlib.AProf{ST: []vlib.AVT{{T: "samples", U: "count"}, {T: "t2", U: "u2"}}, Samples: []vlib.ASample{
		{Locs: []vlib.ALoc{lg, lf}, Vals: []int64{3, 7}, Lab: []vlib.ASLab{{K: "k", V: []string{"x"}}}},
		{Locs: []vlib.ALoc{lf}, Vals: []int64{-2, 100000}},
	}}
	p := vlib.NewConc(0).Profile(ap)
	for _, args := range [][]string{{"-top"}, {"-top", "-sample_index=1"}, {"-tree"}, {"-traces"}, {"-dot"}, {"-callgrind"}, {"-peek=f"}, {"-tags"}, {"-raw"}, {"-top", "-mean", "-sample_index=1"}} {
		a := append(append([]string{}, args...), "-nodecount=0", "-nodefraction=0", "-edgefraction=0", "-functions", "-flat", "-output=out", "src")
		r := vdrv.Run(vdrv.Opts{Args: a, Fetch: func(string) (*profile.Profile, error) { return p.Copy(), nil }})
		fmt.Println("=====", args, "err:", r.Err, "panic:", r.Panic, "uierr:", r.UIErr)
		os.Stdout.Write(r.Files["out"])
	}
}
