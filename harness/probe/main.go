package main

import (
	"fmt"

	"github.com/google/pprof/internal/symbolizer"
	"github.com/google/pprof/profile"
)

func main() {
	p := &profile.Profile{Function: []*profile.Function{{ID: 3, Name: "(a::b)", SystemName: "(a::b)"}, {ID: 1, Name: "named", SystemName: ""}}}
	symbolizer.Demangle(p, false, "")
	fmt.Printf("%q %q\n", p.Function[0].Name, p.Function[1].Name)
	symbolizer.Demangle(p, true, "full")
	fmt.Printf("%q %q\n", p.Function[0].Name, p.Function[1].Name)
}
