package main

import (
	"bytes"
	"encoding/hex"
	"encoding/json"
	"fmt"
	"os"

	"github.com/google/pprof/internal/zzverif/vlib"
	"github.com/google/pprof/profile"
)

func main() {
	var r struct {
		Case struct {
			Hex string `json:"hex"`
		} `json:"case"`
	}
	b, _ := os.ReadFile(os.Args[1])
	json.Unmarshal(b, &r)
	data, _ := hex.DecodeString(r.Case.Hex)
	fmt.Printf("%d bytes\n%s\n", len(data), string(data[:min(len(data), 400)]))
	p, err := profile.ParseData(data)
	fmt.Println("parse:", err)
	if err != nil {
		return
	}
	var w bytes.Buffer
	p.Copy().WriteUncompressed(&w)
	q, err := profile.ParseUncompressed(w.Bytes())
	fmt.Println("reparse:", err)
	a, c := vlib.ProjectFull(p), vlib.ProjectFull(q)
	fmt.Println("equal:", a.Equal(c))
	ja, _ := json.Marshal(a)
	jc, _ := json.Marshal(c)
	for i := 0; i < len(ja) && i < len(jc); i++ {
		if ja[i] != jc[i] {
			lo := i - 200
			if lo < 0 {
				lo = 0
			}
			fmt.Printf("first diff at %d:\nA: %s\nB: %s\n", i, ja[lo:min(i+200, len(ja))], jc[lo:min(i+200, len(jc))])
			break
		}
	}
	fmt.Println(len(ja), len(jc))
}
