package main

import (
	"encoding/json"
	"fmt"
	"os"

	"github.com/google/pprof/internal/zzverif/vdrv"
	"github.com/google/pprof/internal/zzverif/vlib"
	"github.com/google/pprof/profile"
)

func main() {
	b, _ := os.ReadFile(os.Args[1])
	var r struct {
		Case struct {
			Samples []vlib.ASample `json:"samples"`
			Opts    []string       `json:"opts"`
			Form    string         `json:"form"`
		} `json:"case"`
	}
	json.Unmarshal(b, &r)
	p := vlib.NewConc(0).Profile(vlib.AProf{ST: []vlib.AVT{{T: "s1", U: "count"}, {T: "s2", U: "count"}}, Samples: r.Case.Samples})
	for _, opts := range [][]string{r.Case.Opts, {"-cum", "-nodecount=0", "-nodefraction=0", "-edgefraction=0", "-functions", "-sample_index=s2"}} {
		args := append([]string{"-" + r.Case.Form}, opts...)
		args = append(args, "-output=o", "src")
		res := vdrv.Run(vdrv.Opts{Args: args, Fetch: func(string) (*profile.Profile, error) { return p.Copy(), nil }})
		fmt.Println(args, res.Err)
		fmt.Println(res.File("o"))
	}
}
