package main

import (
	"fmt"

	"github.com/google/pprof/internal/zzverif/vdrv"
	"github.com/google/pprof/internal/zzverif/vlib"
	"github.com/google/pprof/profile"
)

func main() {
	f := vlib.AFn{Name: "f", Sys: "f", File: "a.c"}
	m := vlib.AMap{Build: "B01", File: "bin", Start: 16, Size: 8}
	p := vlib.NewConc(0).Profile(vlib.AProf{ST: []vlib.AVT{{T: "s1", U: "count"}}, Samples: []vlib.ASample{{Locs: []vlib.ALoc{{Map: m, Rel: 3, Lines: []vlib.ALine{{Fn: f, Line: 10}}}}, Vals: []int64{1}}}})
	for _, lines := range [][]string{{"lines", "top >o"}, {"lines=true", "top >o"}, {"cum", "top >o"}, {"granularity=lines", "top >o"}, {"compact_labels", "o"}} {
		res := vdrv.Run(vdrv.Opts{Args: []string{"-functions", "-flat", "src"}, Lines: lines, Fetch: func(string) (*profile.Profile, error) { return p.Copy(), nil }})
		fmt.Println(lines, "err:", res.Err, "uierr:", res.UIErr)
		fmt.Println(res.File("o"))
	}
}
