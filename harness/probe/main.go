package main

import (
	"encoding/json"
	"fmt"
	"os"

	"github.com/google/pprof/internal/zzverif/vdrv"
	"github.com/google/pprof/internal/zzverif/vlib"
	"github.com/google/pprof/profile"
)

func main() {
	var r struct {
		Case struct {
			Samples []vlib.ASample `json:"samples"`
		} `json:"case"`
	}
	b, _ := os.ReadFile(os.Args[1])
	json.Unmarshal(b, &r)
	p := vlib.NewConc(0).Profile(vlib.AProf{ST: []vlib.AVT{{T: "s1", U: "count"}, {T: "s2", U: "count"}}, Samples: r.Case.Samples})
	for _, nf := range []string{"0", "0.5"} {
		args := []string{"-tree", "-functions", "-flat", "-sample_index=s2", "-nodecount=0", "-edgefraction=0", "-nodefraction=" + nf, "-output=out", "src"}
		res := vdrv.Run(vdrv.Opts{Args: args, Fetch: func(string) (*profile.Profile, error) { return p.Copy(), nil }})
		fmt.Println(args, res.Err)
		fmt.Println(res.File("out"))
	}
}
