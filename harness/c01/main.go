// C01 harness: every Codec.tla profile is concretised (extreme int64/uint64
// values, huge sparse ids, empty / non-UTF8 strings), written and parsed back
// with every public entry point, and compared at representation level (every
// table with ids and order) with the specification's Norm(profile); what the
// parser returns must survive another round trip unchanged and re-serialise to
// identical bytes (Binding A). Random larger profiles are round-tripped and
// recorded for TraceCodec.tla (Binding B).
package main

import (
	"bytes"
	"encoding/json"
	"fmt"
	"strings"

	"github.com/google/pprof/internal/zzverif/vdrv"
	"github.com/google/pprof/internal/zzverif/vlib"
	"github.com/google/pprof/profile"
)

type ccase struct {
	P   vlib.Table `json:"p"`
	Exp vlib.Table `json:"exp"`
}

var run *vlib.Run

func main() {
	run = vlib.NewRun("C01")
	run.EachCase(func(i int, raw json.RawMessage) {
		var c ccase
		if err := json.Unmarshal(raw, &c); err != nil {
			run.Infra("case decode: " + err.Error())
			return
		}
		for _, tc := range []vlib.TConc{{}, {Extreme: true, StrMode: 1 + (i+int(run.Seed))%3}, {Wire: 1 + (i+int(run.Seed))%18}} {
			check(raw, &c, tc, i)
		}
		if i%800 == 0 {
			run.Sample(json.RawMessage(raw))
		}
	})
	randomDriver()
	bulkPart()
	run.Finish("cases = Codec.tla catalogue: label shapes (0..3 values per key, every order of empty/non-empty string values and of {0,n} x {no unit, unit}), ids around the dense/sparse threshold incl. huge ones, unused and shared entities, 0..3 inline lines, 0..4 locations per sample and 0..4 sample types (packed threshold), header variants, nil/empty period type; each concretised three times (plain; int64/uint64 extremes + decorated/non-UTF8 strings; values and addresses at the varint length boundaries 2^7k - 1, 2^7k of the wire format) and pushed through Write/WriteUncompressed x Parse/ParseData/ParseUncompressed, Copy and `pprof -proto`; non-trivial = profile for which Norm changes something or that uses sparse ids, packed fields or multi-valued labels, distinct by profile")
}

// bulkPart: the same round-trip law on valid profiles that are large and extremely redundant (the compressed form is
// hundreds of times smaller than the serialisation): 200k identical unaggregated samples; a name of one megabyte
func bulkPart() {
	mk := func(name string, n int) *profile.Profile {
		fn := &profile.Function{ID: 1, Name: name, SystemName: name, Filename: "f.c"}
		m := &profile.Mapping{ID: 1, Start: 0x1000, Limit: 0x2000, File: "bin"}
		loc := &profile.Location{ID: 1, Mapping: m, Address: 0x1010, Line: []profile.Line{{Function: fn, Line: 3}}}
		p := &profile.Profile{SampleType: []*profile.ValueType{{Type: "samples", Unit: "count"}}, PeriodType: &profile.ValueType{Type: "cpu", Unit: "ns"}, Period: 1,
			Function: []*profile.Function{fn}, Mapping: []*profile.Mapping{m}, Location: []*profile.Location{loc}}
		for i := 0; i < n; i++ {
			p.Sample = append(p.Sample, &profile.Sample{Location: []*profile.Location{loc}, Value: []int64{1}})
		}
		return p
	}
	for _, c := range []struct {
		what string
		p    *profile.Profile
	}{{"200k-identical-samples", mk("f", 200000)}, {"megabyte-name", mk(strings.Repeat("a", 1<<20), 3)}} {
		for _, v := range variants() {
			func() {
				defer func() {
					if r := recover(); r != nil {
						run.Violate(v.name, "panic:"+v.name, fmt.Sprint(c.what, ": ", r), c.what, nil)
					}
				}()
				run.Count("bulk|" + c.what + "|" + v.name)
				q, err := v.fn(c.p)
				if err != nil {
					run.Violate(v.name, "error:"+v.name, fmt.Sprintf("[bulk %s] %v", c.what, err), c.what, nil)
					return
				}
				if len(q.Sample) != len(c.p.Sample) || len(q.Function) != 1 || q.Function[0].Name != c.p.Function[0].Name {
					run.Violate(v.name, "roundtrip:bulk", fmt.Sprintf("[bulk %s %s] %d samples, %d functions after the round trip of %d samples", c.what, v.name, len(q.Sample), len(q.Function), len(c.p.Sample)), c.what, nil)
					return
				}
				for i, s := range q.Sample {
					if len(s.Value) != 1 || s.Value[0] != 1 || len(s.Location) != 1 || s.Location[0].Address != 0x1010 {
						run.Violate(v.name, "roundtrip:bulk", fmt.Sprintf("[bulk %s %s] sample %d changed", c.what, v.name, i), c.what, nil)
						return
					}
				}
			}()
		}
	}
}

func nontrivial(c *ccase) string {
	a, _ := json.Marshal(c.P)
	b, _ := json.Marshal(c.Exp)
	nt := string(a) != string(b)
	for _, f := range c.P.Fns {
		if f.ID > int64(len(c.P.Fns)) {
			nt = true
		}
	}
	for _, l := range c.P.Locs {
		if l.ID > int64(len(c.P.Locs)) || len(l.Lines) > 1 {
			nt = true
		}
	}
	for _, s := range c.P.Samples {
		if len(s.Locs) > 2 || len(s.Vals) > 2 {
			nt = true
		}
		for _, l := range s.Lab {
			if len(l.V) > 1 {
				nt = true
			}
		}
		for _, l := range s.Num {
			if len(l.V) > 1 {
				nt = true
			}
		}
	}
	if !nt {
		return ""
	}
	return string(a)
}

type variant struct {
	name string
	fn   func(p *profile.Profile) (*profile.Profile, error)
}

// the caller's buffer belongs to the caller: it is reused (overwritten) as soon as the parser has returned, and
// the parsed profile must not change with it
func reused(p *profile.Profile, err error, b []byte) (*profile.Profile, error) {
	for i := range b {
		b[i] = 'A'
	}
	return p, err
}

func variants() []variant {
	wr := func(p *profile.Profile) ([]byte, error) {
		var b bytes.Buffer
		err := p.Write(&b)
		return b.Bytes(), err
	}
	wu := func(p *profile.Profile) ([]byte, error) {
		var b bytes.Buffer
		err := p.WriteUncompressed(&b)
		return b.Bytes(), err
	}
	return []variant{
		{"Write+Parse", func(p *profile.Profile) (*profile.Profile, error) {
			b, err := wr(p)
			if err != nil {
				return nil, err
			}
			q, err := profile.Parse(bytes.NewReader(b))
			return reused(q, err, b)
		}},
		{"Write+ParseData", func(p *profile.Profile) (*profile.Profile, error) {
			b, err := wr(p)
			if err != nil {
				return nil, err
			}
			q, err := profile.ParseData(b)
			return reused(q, err, b)
		}},
		{"WriteUncompressed+ParseUncompressed", func(p *profile.Profile) (*profile.Profile, error) {
			b, err := wu(p)
			if err != nil {
				return nil, err
			}
			q, err := profile.ParseUncompressed(b)
			return reused(q, err, b)
		}},
		{"WriteUncompressed+ParseData", func(p *profile.Profile) (*profile.Profile, error) {
			b, err := wu(p)
			if err != nil {
				return nil, err
			}
			q, err := profile.ParseData(b)
			return reused(q, err, b)
		}},
		{"Copy", func(p *profile.Profile) (*profile.Profile, error) { return p.Copy(), nil }},
	}
}

func rawBytes(p *profile.Profile) []byte {
	var b bytes.Buffer
	p.WriteUncompressed(&b)
	return b.Bytes()
}

func check(raw json.RawMessage, c *ccase, tc vlib.TConc, idx int) {
	run.Count(nontrivial(c))
	want := vlib.ProjectFull(tc.Profile(c.Exp))
	tag := "plain"
	if tc.Extreme {
		tag = "extreme"
	}
	if tc.Wire > 0 {
		tag = "wire"
	}
	for _, v := range variants() {
		func() {
			defer func() {
				if r := recover(); r != nil {
					run.Violate(v.name, "panic:"+v.name, fmt.Sprint(r), raw, nil)
				}
			}()
			p := tc.Profile(c.P)
			if err := p.CheckValid(); err != nil {
				run.Infra("catalogue profile is not valid: " + err.Error())
				return
			}
			before := vlib.ProjectFull(p)
			q, err := v.fn(p)
			if err != nil {
				run.Violate(v.name, "error:"+v.name, fmt.Sprintf("[%s] %v", tag, err), raw, nil)
				return
			}
			if !vlib.ProjectFull(p).Equal(before) {
				run.Violate(v.name, "input-modified:"+v.name, "serialising changed the profile being written", raw, nil)
			}
			got := vlib.ProjectFull(q)
			if !got.Equal(want) {
				run.Violate(v.name, "roundtrip:"+what(got, want), fmt.Sprintf("[%s %s] got  %s\nwant %s", tag, v.name, got.JSON(), want.JSON()), raw, nil)
				return
			}
			// anything the parser returns survives write-then-parse unchanged and re-serialises to identical bytes
			q2, err := v.fn(q)
			if err != nil {
				run.Violate(v.name, "fixpoint-error:"+v.name, err.Error(), raw, nil)
				return
			}
			if g2 := vlib.ProjectFull(q2); !g2.Equal(got) {
				run.Violate(v.name, "fixpoint:"+what(g2, got), fmt.Sprintf("[%s %s] second round trip differs:\n%s\nvs\n%s", tag, v.name, g2.JSON(), got.JSON()), raw, nil)
			}
			if !bytes.Equal(rawBytes(q), rawBytes(q2)) {
				run.Violate(v.name, "bytes-differ", fmt.Sprintf("[%s %s] re-serialisation is not byte-identical", tag, v.name), raw, nil)
			}
			// a parsed profile is an ordinary value: edited in memory (the labels of every other sample removed, a
			// comment added) and written again, the reader gets the edited profile - nothing of the old encoding
			edited := false
			for i, s := range q.Sample {
				if i%2 == 0 && (len(s.Label) > 0 || len(s.NumLabel) > 0) {
					s.Label, s.NumLabel, s.NumUnit = nil, nil, nil
					edited = true
				}
			}
			q.Comments = append(q.Comments, "edited")
			wantE := vlib.ProjectFull(q)
			q3, err := v.fn(q)
			if err != nil {
				run.Violate(v.name, "edited-error:"+v.name, err.Error(), raw, nil)
				return
			}
			if g3 := vlib.ProjectFull(q3); !g3.Equal(wantE) {
				run.Violate(v.name, "edited:"+what(g3, wantE), fmt.Sprintf("[%s %s] after editing a parsed profile in memory (labels removed: %v) the round trip gives\n%s\nwant\n%s", tag, v.name, edited, g3.JSON(), wantE.JSON()), raw, nil)
			}
		}()
	}
	// through the CLI path: pprof -proto output re-read
	if idx%5 == int(run.Seed)%5 && len(c.P.ST) > 0 && distinctTypes(c.P.ST) {
		defer func() {
			if r := recover(); r != nil {
				run.Violate("driver", "panic:driver", fmt.Sprint(r), raw, nil)
			}
		}()
		p := tc.Profile(c.P)
		r := vdrv.Run(vdrv.Opts{Args: []string{"-proto", "-output=out", "src"}, Fetch: func(string) (*profile.Profile, error) { return p.Copy(), nil }})
		if r.Err != nil || r.Panic != nil {
			run.Violate("driver", "driver-proto-error", fmt.Sprint(r.Err, r.Panic), raw, nil)
			return
		}
		q, err := profile.Parse(bytes.NewReader(r.Files["out"]))
		if err != nil {
			run.Violate("driver", "driver-proto-unparsable", err.Error(), raw, nil)
			return
		}
		// the driver compacts and removes nothing else: compare the id-free denotation
		if d := vlib.BagOf(vlib.Project(q)).Diff(vlib.BagOf(vlib.Project(tc.Profile(c.Exp)))); d != "" {
			run.Violate("driver", "driver-proto-content", d, raw, nil)
		}
	}
}

// distinctTypes: the driver aligns sample types BY NAME before reporting (C07), which is only
// meaningful when the names are distinct.
func distinctTypes(st []vlib.AVT) bool {
	seen := map[string]bool{}
	for _, v := range st {
		if seen[v.T] {
			return false
		}
		seen[v.T] = true
	}
	return true
}

func what(a, b vlib.Full) string {
	j := func(v interface{}) string { x, _ := json.Marshal(v); return string(x) }
	switch {
	case j(a.ST) != j(b.ST):
		return "sample-types"
	case j(a.PT) != j(b.PT):
		return "period-type"
	case j(a.Fns) != j(b.Fns):
		return "functions"
	case j(a.Maps) != j(b.Maps):
		return "mappings"
	case j(a.Locs) != j(b.Locs):
		return "locations"
	case len(a.Samples) != len(b.Samples):
		return "sample-count"
	}
	for i := range a.Samples {
		x, y := a.Samples[i], b.Samples[i]
		switch {
		case j(x.Locs) != j(y.Locs):
			return "sample-locations"
		case j(x.Vals) != j(y.Vals):
			return "sample-values"
		case j(x.Lab) != j(y.Lab):
			return "string-labels"
		case j(x.Num) != j(y.Num):
			return "numeric-labels"
		}
	}
	return "header"
}

// ---- Binding B ----

type rtEvent struct {
	Op    string     `json:"op"`
	N     int        `json:"n"`
	In    vlib.Table `json:"in"`
	Out   vlib.Table `json:"out"`
	Fix   bool       `json:"fix"`
	Bytes bool       `json:"bytes"`
	Via   string     `json:"via"`
}

func randomDriver() {
	r := vlib.NewRand(run.Seed + 11)
	strs := []string{"", "a", "b", "k", "x", "y", "u", "f.c"}
	vs := variants()
	for it := 0; it < run.N; it++ {
		t := vlib.Table{ST: []vlib.AVT{}, Comments: []string{}, Fns: []vlib.TFn{}, Maps: []vlib.TMap{}, Locs: []vlib.TLoc{}, Samples: []vlib.TSmp{}}
		nst := r.Intn(4)
		for i := 0; i < nst; i++ {
			t.ST = append(t.ST, vlib.AVT{T: r.Pick(strs), U: r.Pick(strs)})
		}
		t.PT = vlib.TPT{Nil: r.Intn(4) == 0}
		if !t.PT.Nil {
			t.PT.T, t.PT.U = r.Pick(strs), r.Pick(strs)
		}
		t.Period, t.Time, t.Dur = int64(r.Intn(5)-1), int64(r.Intn(3)), int64(r.Intn(3))
		for i := r.Intn(4); i > 0; i-- {
			t.Comments = append(t.Comments, r.Pick(strs))
		}
		t.Dflt, t.Doc, t.Drop, t.Keep = r.Pick(strs), r.Pick(strs), r.Pick(strs), r.Pick(strs)
		ids := func(n int) []int64 {
			out := make([]int64, 0, n)
			used := map[int64]bool{}
			for len(out) < n {
				id := int64(1 + r.Intn(2*n+2))
				if !used[id] {
					used[id] = true
					out = append(out, id)
				}
			}
			return out
		}
		nf, nm, nl := r.Intn(4), r.Intn(3), r.Intn(5)
		fids, mids, lids := ids(nf), ids(nm), ids(nl)
		for _, id := range fids {
			t.Fns = append(t.Fns, vlib.TFn{ID: id, Name: r.Pick(strs), Sys: r.Pick(strs), File: r.Pick(strs), Start: int64(r.Intn(3))})
		}
		for _, id := range mids {
			t.Maps = append(t.Maps, vlib.TMap{ID: id, Start: int64(r.Intn(50)), Limit: int64(50 + r.Intn(50)), Off: int64(r.Intn(3)), File: r.Pick(strs), Build: r.Pick(strs),
				HasFn: r.Bool(), HasFile: r.Bool(), HasLine: r.Bool(), HasInl: r.Bool()})
		}
		for _, id := range lids {
			l := vlib.TLoc{ID: id, Addr: int64(r.Intn(100)), Folded: r.Intn(5) == 0, Lines: []vlib.TLine{}}
			if nm > 0 && r.Intn(3) > 0 {
				l.Map = mids[r.Intn(nm)]
			}
			if nf > 0 {
				for k := r.Intn(4); k > 0; k-- {
					l.Lines = append(l.Lines, vlib.TLine{Fn: fids[r.Intn(nf)], Line: int64(r.Intn(9) - 2), Col: int64(r.Intn(3))})
				}
			}
			t.Locs = append(t.Locs, l)
		}
		for i := r.Intn(6); i > 0; i-- {
			s := vlib.TSmp{Locs: []int64{}, Vals: []int64{}, Lab: []vlib.ASLab{}, Num: []vlib.ANLab{}}
			for k := 0; k < nst; k++ {
				s.Vals = append(s.Vals, int64(r.Intn(7)-3))
			}
			if nl > 0 {
				for k := r.Intn(5); k > 0; k-- {
					s.Locs = append(s.Locs, lids[r.Intn(nl)])
				}
			}
			keys := []string{"k", "", "n"}
			for _, k := range keys {
				if r.Intn(3) == 0 {
					l := vlib.ASLab{K: k}
					for n := 1 + r.Intn(3); n > 0; n-- {
						l.V = append(l.V, r.Pick([]string{"", "x", "y"}))
					}
					s.Lab = append(s.Lab, l)
				}
				if r.Intn(3) == 0 {
					l := vlib.ANLab{K: k}
					for n := 1 + r.Intn(3); n > 0; n-- {
						l.V = append(l.V, int64(r.Intn(3)))
						l.U = append(l.U, r.Pick([]string{"", "", "u", "w"}))
					}
					s.Num = append(s.Num, l)
				}
			}
			t.Samples = append(t.Samples, s)
		}
		p := vlib.TConc{}.Profile(t)
		if p.CheckValid() != nil {
			continue
		}
		v := vs[it%len(vs)]
		func() {
			defer func() {
				if r := recover(); r != nil {
					run.Violate("random", "panic:random:"+v.name, fmt.Sprint(r), t, nil)
				}
			}()
			q, err := v.fn(p)
			if err != nil {
				run.Violate("random", "random-error:"+v.name, err.Error(), t, nil)
				return
			}
			ev := rtEvent{Op: "roundtrip", N: it, In: t, Out: vlib.TableOf(q), Via: v.name}
			func() {
				defer func() { recover() }() // a crash of the second trip is recorded as fix = bytes = false
				q2, err := v.fn(q)
				if err == nil {
					ev.Fix = vlib.ProjectFull(q2).Equal(vlib.ProjectFull(q))
					ev.Bytes = bytes.Equal(rawBytes(q), rawBytes(q2))
				}
			}()
			run.Counter("random_roundtrips", 1)
			run.Event(ev)
			run.Aux(map[string]interface{}{"n": it, "p": t, "via": v.name})
		}()
	}
}
