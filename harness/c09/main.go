// C09 harness (command line side): every (odd profile class, command, option
// value) triple of CliGrammar.tla is turned into a real profile and a real
// in-process pprof invocation; the only acceptable outcomes are output or an
// error. Before each case its index is written to a progress file so that a
// crash of the whole process (a panic on a goroutine nobody can recover) is
// attributed to the case that caused it by bin/check.
package main

import (
	"encoding/json"
	"fmt"
	"math"
	"os"
	"strconv"
	"strings"
	"time"

	"github.com/google/pprof/internal/zzverif/vdrv"
	"github.com/google/pprof/internal/zzverif/vlib"
	"github.com/google/pprof/profile"
)

type ccase struct {
	Prof string `json:"prof"`
	Cmd  string `json:"cmd"`
	Flag string `json:"flag"`
	Val  string `json:"val"`
}

var run *vlib.Run

func oddProfile(class string) *profile.Profile {
	f := vlib.AFn{Name: "f", Sys: "f", File: "a.c", Start: 1}
	g := vlib.AFn{Name: "g", Sys: "g", File: "a.c", Start: 5}
	m := vlib.AMap{Build: "B01", File: "bin", Start: 16, Size: 8}
	lf := vlib.ALoc{Map: m, Rel: 3, Lines: []vlib.ALine{{Fn: f, Line: 10}}}
	lg := vlib.ALoc{Map: m, Rel: 4, Lines: []vlib.ALine{{Fn: g, Line: 20}, {Fn: f, Line: 11}}}
	ap := vlib.AProf{ST: []vlib.AVT{{T: "s1", U: "count"}, {T: "s2", U: "nanoseconds"}}, Samples: []vlib.ASample{
		{Locs: []vlib.ALoc{lg, lf}, Vals: []int64{1, 10}, Lab: []vlib.ASLab{{K: "k", V: []string{"x"}}}},
		{Locs: []vlib.ALoc{lf}, Vals: []int64{2, 5}, Num: []vlib.ANLab{{K: "bytes", V: []int64{64}, U: []string{"bytes"}}}},
		// g reached from a second caller (a graph that is no tree)
		{Locs: []vlib.ALoc{{Map: m, Rel: 6, Lines: []vlib.ALine{{Fn: g, Line: 21}}}, {Map: m, Rel: 7, Lines: []vlib.ALine{{Fn: vlib.AFn{Name: "h", Sys: "h", File: "b.c", Start: 9}, Line: 30}}}}, Vals: []int64{1, 1}},
	}}
	p := vlib.NewConc(0).Profile(ap)
	switch class {
	case "buildid0":
		p.Mapping[0].BuildID = ""
	case "buildid1":
		p.Mapping[0].BuildID = "a"
	case "buildid2":
		p.Mapping[0].BuildID = "ab"
	case "buildid3":
		p.Mapping[0].BuildID = "abc"
	case "emptynames":
		for _, fn := range p.Function {
			fn.Name, fn.SystemName, fn.Filename = "", "", ""
		}
		p.Mapping[0].File = ""
	case "hugeids":
		for i, fn := range p.Function {
			fn.ID = 1<<63 + uint64(i)
		}
		for i, l := range p.Location {
			l.ID = ^uint64(0) - uint64(i)
		}
		p.Mapping[0].ID = 1 << 62
	case "emptylabelkey":
		p.Sample[0].Label = map[string][]string{"": {""}, "k": {"", "x"}}
		p.Sample[1].NumLabel = map[string][]int64{"": {0, -1}}
		p.Sample[1].NumUnit = map[string][]string{"": {"", ""}}
	case "edgeaddresses":
		p.Location[0].Address = p.Mapping[0].Start
		p.Location[1].Address = p.Mapping[0].Limit
		p.Location = append(p.Location, &profile.Location{ID: 77, Mapping: p.Mapping[0], Address: 0},
			&profile.Location{ID: 78, Mapping: p.Mapping[0], Address: ^uint64(0)})
		p.Sample = append(p.Sample, &profile.Sample{Location: []*profile.Location{p.Location[2], p.Location[3]}, Value: []int64{1, 1}})
	case "nomappings":
		p.Mapping = nil
		for _, l := range p.Location {
			l.Mapping = nil
		}
	case "nosamples":
		p.Sample = nil
	case "negativevalues":
		for _, s := range p.Sample {
			for i := range s.Value {
				s.Value[i] = -s.Value[i] * (1 << 40)
			}
		}
	case "nofunctions":
		for _, l := range p.Location {
			l.Line = nil
		}
		p.Function = nil
	case "nilmapping":
		p.Location[0].Mapping = nil
	case "weirdstrings":
		p.Function[0].Name = "a\"b\\c\n<d>&\xff"
		p.Function[0].Filename = "/x/\x00/../y z.go"
		p.Mapping[0].File = "/bin/\"q\"\n"
		p.Comments = []string{"c\"1\n", "\xfe"}
		p.Sample[0].Label = map[string][]string{"k\"": {"v\n<"}}
		p.DropFrames, p.KeepFrames = "(", "["
	case "extremevalues":
		// the extremes of int64 in sample values and numeric labels (negating MinInt64 gives MinInt64 again)
		p.Sample[0].Value = []int64{math.MinInt64, math.MaxInt64}
		p.Sample[1].Value = []int64{math.MaxInt64, math.MinInt64}
		p.Sample[1].NumLabel = map[string][]int64{"bytes": {math.MinInt64, math.MaxInt64}}
		p.Sample[1].NumUnit = map[string][]string{"bytes": {"bytes", "bytes"}}
	case "partialunits":
		// several numeric values under one key of which only an earlier one has a unit
		p.Sample[1].NumLabel = map[string][]int64{"bytes": {16, 32, 64}}
		p.Sample[1].NumUnit = map[string][]string{"bytes": {"kilobytes", "", ""}}
		p.Sample[0].NumLabel = map[string][]int64{"latency": {5, 7}}
		p.Sample[0].NumUnit = map[string][]string{"latency": {"", "ms"}}
	case "zerocount":
		// nothing in the first column (the divisor of -mean), something in the second
		p.Sample[0].Value = []int64{0, 70}
		p.Sample[1].Value = []int64{0, 5}
	case "oddlines":
		// line numbers no source file has, on locations without an address (listings are then built from the lines)
		odd := []int64{-5, math.MaxInt64, math.MinInt64, 0}
		k := 0
		for _, l := range p.Location {
			l.Address = 0
			for i := range l.Line {
				l.Line[i].Line = odd[k%len(odd)]
				k++
			}
		}
	case "zerovalues":
		for _, s := range p.Sample {
			for i := range s.Value {
				s.Value[i] = 0
			}
		}
	}
	return p
}

func argsOf(c ccase, p *profile.Profile) []string {
	var a []string
	if k := strings.Index(c.Cmd, "@addr"); k > 0 {
		addr := uint64(0x1234)
		if len(p.Location) > 0 {
			addr = p.Location[0].Address
		}
		rest := argsOf(ccase{Prof: c.Prof, Cmd: "top", Flag: c.Flag, Val: c.Val}, p)[1:]
		return append([]string{fmt.Sprintf("-%s=%#x", c.Cmd[:k], addr)}, rest...)
	}
	switch c.Cmd {
	case "list", "disasm", "weblist", "peek":
		a = append(a, "-"+c.Cmd+"=.")
	default:
		a = append(a, "-"+c.Cmd)
	}
	if k := strings.Index(c.Flag, "+"); k > 0 {
		// two options at once: "a+b" with value "x" stands for -a -b=x
		a = append(a, "-"+c.Flag[:k], "-"+c.Flag[k+1:]+"="+c.Val)
	} else if c.Flag != "" {
		switch c.Val {
		case "true":
			a = append(a, "-"+c.Flag)
		default:
			a = append(a, "-"+c.Flag+"="+c.Val)
		}
	}
	hasGran, hasSort := false, false
	switch c.Flag {
	case "lines", "files", "addresses", "filefunctions":
		hasGran = true
	case "cum":
		hasSort = true
	}
	if !hasGran {
		a = append(a, "-functions")
	}
	if !hasSort {
		a = append(a, "-flat")
	}
	return append(a, "-output=out", "src")
}

func main() {
	run = vlib.NewRun("C09")
	skip := 0
	progress := ""
	for _, kv := range strings.Split(run.Extra, ",") {
		if strings.HasPrefix(kv, "skip=") {
			skip, _ = strconv.Atoi(strings.TrimPrefix(kv, "skip="))
		}
		if strings.HasPrefix(kv, "progress=") {
			progress = strings.TrimPrefix(kv, "progress=")
		}
	}
	run.EachCase(func(i int, raw json.RawMessage) {
		if i < skip {
			return
		}
		var c ccase
		if err := json.Unmarshal(raw, &c); err != nil {
			run.Infra("case decode: " + err.Error())
			return
		}
		if progress != "" {
			os.WriteFile(progress, []byte(fmt.Sprintf("%d\n%s\n", i, raw)), 0o644)
		}
		p := oddProfile(c.Prof)
		args := argsOf(c, p)
		done := make(chan *vdrv.Result, 1)
		go func() {
			done <- vdrv.Run(vdrv.Opts{Args: args, RealSym: true, Fetch: func(string) (*profile.Profile, error) { return p.Copy(), nil }})
		}()
		var r *vdrv.Result
		select {
		case r = <-done:
		case <-time.After(20 * time.Second):
			run.Violate("cli", "hang:"+c.Cmd+":"+c.Flag, fmt.Sprintf("pprof %v did not return within 20 s", args), raw, nil)
			return
		}
		key := ""
		if c.Flag != "" || c.Prof != "plain" {
			key = c.Prof + "|" + c.Flag + "=" + c.Val
		}
		run.Count(key)
		if r.Panic != nil {
			run.Violate("cli", "panic:"+c.Prof+":"+c.Cmd+":"+c.Flag, fmt.Sprintf("pprof %v: panic: %v", args, r.Panic), raw, nil)
			return
		}
		if r.Err != nil {
			run.Counter("errors", 1)
		} else {
			run.Counter("outputs", 1)
		}
		if i%1300 == 0 {
			run.Sample(map[string]interface{}{"case": c, "args": args, "error": fmt.Sprint(r.Err)})
		}
	})
	if progress != "" {
		os.WriteFile(progress, []byte("done\n"), 0o644)
	}
	run.Finish("command line: every (odd profile class, command, option value) triple of CliGrammar.tla - 16 profile classes (build ids of length 0..3, empty names, huge ids, empty label keys/units, addresses at and beyond mapping edges, no mappings/samples/functions, negative and zero values, strings with quotes/newlines/NUL/non-UTF8, invalid drop/keep expressions) x 16 commands x ~330 option values (regexps incl. invalid ones, tag ranges incl. beyond int64 and mixed units, numbers incl. NaN/Inf/empty/non-numeric, sample_index, unit, symbolize, tools, buildid, ...) run in-process; non-trivial = distinct (profile class, option value) other than the plain default")
}
