// C13 harness: for every layout/mapping case of ElfLoad.tla a minimal ELF file
// (header + program headers) is written and opened through the exported
// binutils.Binutils.Open with the runtime mapping; ObjAddr of every address
// must be the link-time address (runtime address minus load bias) or an error,
// and an error only when the owning segment is ambiguous. Symbol tables are
// served by a fake `nm` (selected through SetTools) and looked up through the
// nm-based ObjFile.
package main

import (
	"bytes"
	"debug/elf"
	"encoding/binary"
	"encoding/json"
	"fmt"
	"os"
	"path/filepath"
	"sort"

	"github.com/google/pprof/internal/binutils"
	"github.com/google/pprof/internal/elfexec"
	"github.com/google/pprof/internal/symbolizer"
	"github.com/google/pprof/internal/zzverif/vlib"
	"github.com/google/pprof/profile"
)

type seg struct {
	Off    uint64 `json:"off"`
	Vaddr  uint64 `json:"vaddr"`
	Filesz uint64 `json:"filesz"`
	Memsz  uint64 `json:"memsz"`
	X      bool   `json:"x"`
}
type addrCase struct {
	X      uint64 `json:"x"`
	Want   uint64 `json:"want"`
	Unique bool   `json:"unique"`
}
type sym struct {
	A    uint64 `json:"a"`
	Size uint64 `json:"size"`
	Data bool   `json:"data"`
}
type query struct {
	Q      uint64 `json:"q"`
	Best   uint64 `json:"best"`
	Beyond bool   `json:"beyond"`
}
type ecase struct {
	Kind     string     `json:"kind"`
	Layout   []seg      `json:"layout"`
	Type     string     `json:"type"`
	Bias     int64      `json:"bias"` // may be negative: an object loaded below its link-time address
	MapStart uint64     `json:"mapstart"`
	MapLimit uint64     `json:"maplimit"`
	MapOff   uint64     `json:"mapoff"`
	Addrs    []addrCase `json:"addrs"`
	Seg      int        `json:"seg"` // 1-based index of the segment the mapping belongs to
	Table    []sym      `json:"table"`
	// kernel images (GenKernel): link addresses are relative to kernelHigh, runtime addresses to the relocation symbol
	Stext     uint64  `json:"stext"`
	Text      uint64  `json:"text"`
	TextSec   uint64  `json:"textsec"`
	Reloc     string  `json:"reloc"`
	Named     bool    `json:"named"`
	Mode      string  `json:"mode"`
	Slide     uint64  `json:"slide"`
	OffMode   string  `json:"offmode"`
	RelocAddr uint64  `json:"relocaddr"`
	MapSize   uint64  `json:"mapsize"`
	Queries   []query `json:"queries"`
}

const a2lScript = `#!/bin/sh
while read a; do
  echo "0x$a"
  case "$a" in
    ffffffffffffffff|1f|3f) echo '??'; echo '??:0';;
    *) echo "s$a"; echo "src.c:7";;
  esac
done
`

var (
	run *vlib.Run
	dir string
)

func writeELF(path string, c *ecase) error {
	var b bytes.Buffer
	typ := elf.ET_EXEC
	if c.Type == "DYN" {
		typ = elf.ET_DYN
	}
	h := elf.Header64{Type: uint16(typ), Machine: uint16(elf.EM_X86_64), Version: 1, Entry: c.Layout[0].Vaddr, Phoff: 64, Ehsize: 64, Phentsize: 56, Phnum: uint16(len(c.Layout)), Shentsize: 64}
	copy(h.Ident[:], []byte{0x7f, 'E', 'L', 'F', byte(elf.ELFCLASS64), byte(elf.ELFDATA2LSB), 1})
	binary.Write(&b, binary.LittleEndian, h)
	var end uint64
	for _, s := range c.Layout {
		fl := uint32(elf.PF_R)
		if s.X {
			fl |= uint32(elf.PF_X)
		} else {
			fl |= uint32(elf.PF_W)
		}
		binary.Write(&b, binary.LittleEndian, elf.Prog64{Type: uint32(elf.PT_LOAD), Flags: fl, Off: s.Off, Vaddr: s.Vaddr, Paddr: s.Vaddr, Filesz: s.Filesz, Memsz: s.Memsz, Align: 4096})
		if s.Off+s.Filesz > end {
			end = s.Off + s.Filesz
		}
	}
	out := b.Bytes()
	if uint64(len(out)) < end {
		out = append(out, make([]byte, end-uint64(len(out)))...)
	}
	return os.WriteFile(path, out, 0o755)
}

func elfCase(raw json.RawMessage, c *ecase, idx int) {
	path := filepath.Join(dir, fmt.Sprintf("bin%d", idx))
	if err := writeELF(path, c); err != nil {
		run.Infra(err.Error())
		return
	}
	defer os.Remove(path)
	// ET_DYN: the real load bias is large; the relative geometry is what the specification enumerates
	var shift uint64
	if c.Type == "DYN" {
		switch (idx + int(run.Seed)) % 3 {
		case 0:
			shift = 0x7f1200000000 // x86-64 style
		case 1:
			shift = 0xffff9c000000 // above 2^47: 48-bit virtual addresses (arm64), still user space
		}
	}
	sort.Slice(c.Addrs, func(i, j int) bool { return c.Addrs[i].X < c.Addrs[j].X })
	orders := [][]addrCase{c.Addrs}
	rev := append([]addrCase{}, c.Addrs...)
	for i, j := 0, len(rev)-1; i < j; i, j = i+1, j-1 {
		rev[i], rev[j] = rev[j], rev[i]
	}
	orders = append(orders, rev)
	orders = append(orders, nil) // third pass: a fresh ObjFile asked only about addresses just outside the mapping
	for oi, order := range orders {
		bu := &binutils.Binutils{}
		f, err := bu.Open(path, c.MapStart+shift, c.MapLimit+shift, c.MapOff, "")
		if err != nil {
			run.Violate("elf", "open-error", err.Error(), raw, nil)
			return
		}
		if oi == 2 {
			// an address outside [start, limit) is refused, not translated with some neighbouring segment's base
			// (asked on an ObjFile of their own: the real code decides the base once, from the first address it
			// is asked about, and remembers a refusal as well - see DESIGN 12.13)
			for _, out := range []uint64{c.MapLimit + shift, c.MapStart + shift - 1} {
				if got, err := f.ObjAddr(out); err == nil {
					run.Violate("elf", sigOf(c, "outside-accepted"), fmt.Sprintf("ObjAddr(%#x) = %#x for a mapping [%#x, %#x): the address is outside the mapping", out, got, c.MapStart+shift, c.MapLimit+shift), raw, nil)
				}
			}
			// and on one more ObjFile: after a refused SourceLine, an address inside the mapping is translated
			// correctly or refused as well - never translated with a base that was not computed
			if f2, err := bu.Open(path, c.MapStart+shift, c.MapLimit+shift, c.MapOff, ""); err == nil {
				f2.SourceLine(c.MapLimit + shift)
				for _, a := range c.Addrs {
					if got, err := f2.ObjAddr(a.X + shift); err == nil && got != a.Want {
						run.Violate("elf", sigOf(c, "wrong-address-after-refusal"), fmt.Sprintf("after SourceLine(%#x) was refused, ObjAddr(%#x) = %#x; the loader put link address %#x there", c.MapLimit+shift, a.X+shift, got, a.Want), raw, nil)
						break
					}
				}
				f2.Close()
			}
		}
		for _, a := range order {
			got, err := f.ObjAddr(a.X + shift)
			key := fmt.Sprintf("%s|%d|%d|%d|%d", c.Type, len(c.Layout), c.MapStart-uint64(c.Bias), c.MapLimit-uint64(c.Bias), a.Want)
			run.Count(key)
			switch {
			case err != nil && a.Unique:
				run.Violate("elf", sigOf(c, "error-although-unique"), fmt.Sprintf("order %d: ObjAddr(%#x) failed although exactly one segment backs the address: %v", oi, a.X+shift, err), raw, nil)
			case err == nil && got != a.Want:
				run.Violate("elf", sigOf(c, "wrong-address"), fmt.Sprintf("order %d: ObjAddr(%#x) = %#x, the loader put link address %#x there (bias %#x)", oi, a.X+shift, got, a.Want, uint64(c.Bias)+shift), raw, nil)
			}
		}
		f.Close()
	}
	// the exported pieces directly: the headers that can back the mapping must include the executable one
	var phdrs []elf.ProgHeader
	for _, s := range c.Layout {
		fl := elf.PF_R
		if s.X {
			fl |= elf.PF_X
		}
		phdrs = append(phdrs, elf.ProgHeader{Type: elf.PT_LOAD, Flags: fl, Off: s.Off, Vaddr: s.Vaddr, Filesz: s.Filesz, Memsz: s.Memsz})
	}
	// the formula proved for unbounded integers in ElfBase.tla (Apalache) is the one the code evaluates:
	// GetBase with the owning segment must return the load bias exactly
	for k, s := range c.Layout {
		if k != c.Seg-1 {
			continue
		}
		typ := elf.ET_EXEC
		if c.Type == "DYN" {
			typ = elf.ET_DYN
		}
		base, err := elfexec.GetBase(&elf.FileHeader{Type: typ}, &phdrs[k], nil, c.MapStart+shift, c.MapLimit+shift, c.MapOff)
		run.Count(fmt.Sprintf("getbase|%s|%d|%d|%d", c.Type, len(c.Layout), c.MapStart-uint64(c.Bias), c.MapOff))
		if err != nil {
			run.Violate("elf", sigOf(c, "getbase-error"), err.Error(), raw, nil)
		} else if base != uint64(c.Bias)+shift {
			run.Violate("elf", sigOf(c, "getbase-not-bias"), fmt.Sprintf("GetBase(start=%#x, offset=%#x, segment off=%#x vaddr=%#x) = %#x, the load bias is %#x", c.MapStart+shift, c.MapOff, s.Off, s.Vaddr, base, uint64(c.Bias)+shift), raw, nil)
		}
	}
	hs := elfexec.ProgramHeadersForMapping(phdrs, c.MapOff, c.MapLimit-c.MapStart)
	found := false
	for _, h := range hs {
		if c.Seg >= 1 && c.Seg <= len(phdrs) && h.Off == phdrs[c.Seg-1].Off && h.Vaddr == phdrs[c.Seg-1].Vaddr {
			found = true
		}
	}
	if !found {
		run.Violate("elf", sigOf(c, "owning-segment-not-a-candidate"), fmt.Sprintf("ProgramHeadersForMapping(off=%#x, size=%#x) does not offer the segment the mapping belongs to (%d)", c.MapOff, c.MapLimit-c.MapStart, c.Seg), raw, nil)
	}
}

const kernelHigh = 0xffffffff80000000

// writeKernelELF writes an image with program headers, a .text section inside the executable segment and a symbol
// table naming _text (start of the text segment), _stext and a few ordinary functions; all link addresses are
// shifted into the kernel half of the address space.
func writeKernelELF(path string, c *ecase) error {
	typ := elf.ET_EXEC
	if c.Type == "DYN" {
		typ = elf.ET_DYN
	}
	var end uint64 = 64 + 56*uint64(len(c.Layout))
	for _, s := range c.Layout {
		if s.Off+s.Filesz > end {
			end = s.Off + s.Filesz
		}
	}
	shstr := []byte("\x00.text\x00.symtab\x00.strtab\x00.shstrtab\x00")
	names := map[string]uint32{".text": 1, ".symtab": 7, ".strtab": 15, ".shstrtab": 23}
	strtab := []byte{0}
	var syms bytes.Buffer
	binary.Write(&syms, binary.LittleEndian, elf.Sym64{})
	addSym := func(name string, value uint64) {
		off := uint32(len(strtab))
		strtab = append(strtab, append([]byte(name), 0)...)
		binary.Write(&syms, binary.LittleEndian, elf.Sym64{Name: off, Info: byte(elf.STB_GLOBAL)<<4 | byte(elf.STT_FUNC), Shndx: 1, Value: value, Size: 8})
	}
	// ordinary symbols before and after the relocation symbols, so that position in the table decides nothing
	addSym("startup_64", c.Text+kernelHigh+8)
	addSym("_text", c.Text+kernelHigh)
	addSym("_stext", c.Stext+kernelHigh)
	addSym("_etext", c.Text+kernelHigh+12000)
	addSym("start_kernel", c.Stext+kernelHigh+64)
	var exec seg
	for _, s := range c.Layout {
		if s.X {
			exec = s
		}
	}
	shstrOff := end
	strOff := shstrOff + uint64(len(shstr))
	symOff := (strOff + uint64(len(strtab)) + 7) &^ 7
	shOff := (symOff + uint64(syms.Len()) + 7) &^ 7
	secs := []elf.Section64{
		{},
		{Name: names[".text"], Type: uint32(elf.SHT_PROGBITS), Flags: uint64(elf.SHF_ALLOC | elf.SHF_EXECINSTR), Addr: c.TextSec + kernelHigh, Off: exec.Off + (c.TextSec - exec.Vaddr), Size: exec.Vaddr + exec.Filesz - c.TextSec, Addralign: 8},
		{Name: names[".symtab"], Type: uint32(elf.SHT_SYMTAB), Off: symOff, Size: uint64(syms.Len()), Link: 3, Info: 1, Addralign: 8, Entsize: 24},
		{Name: names[".strtab"], Type: uint32(elf.SHT_STRTAB), Off: strOff, Size: uint64(len(strtab)), Addralign: 1},
		{Name: names[".shstrtab"], Type: uint32(elf.SHT_STRTAB), Off: shstrOff, Size: uint64(len(shstr)), Addralign: 1},
	}
	var b bytes.Buffer
	h := elf.Header64{Type: uint16(typ), Machine: uint16(elf.EM_X86_64), Version: 1, Entry: c.Text + kernelHigh, Phoff: 64, Shoff: shOff, Ehsize: 64, Phentsize: 56, Phnum: uint16(len(c.Layout)), Shentsize: 64, Shnum: uint16(len(secs)), Shstrndx: 4}
	copy(h.Ident[:], []byte{0x7f, 'E', 'L', 'F', byte(elf.ELFCLASS64), byte(elf.ELFDATA2LSB), 1})
	binary.Write(&b, binary.LittleEndian, h)
	for _, s := range c.Layout {
		fl := uint32(elf.PF_R)
		if s.X {
			fl |= uint32(elf.PF_X)
		} else {
			fl |= uint32(elf.PF_W)
		}
		binary.Write(&b, binary.LittleEndian, elf.Prog64{Type: uint32(elf.PT_LOAD), Flags: fl, Off: s.Off, Vaddr: s.Vaddr + kernelHigh, Paddr: s.Vaddr, Filesz: s.Filesz, Memsz: s.Memsz, Align: 4096})
	}
	out := b.Bytes()
	out = append(out, make([]byte, shOff-uint64(len(out)))...)
	copy(out[shstrOff:], shstr)
	copy(out[strOff:], strtab)
	copy(out[symOff:], syms.Bytes())
	var sb bytes.Buffer
	binary.Write(&sb, binary.LittleEndian, secs)
	out = append(out, sb.Bytes()...)
	return os.WriteFile(path, out, 0o755)
}

// kernelCase: a kernel image run at link address + slide (or remapped into page 0), its perf-style mapping starting at
// the relocation symbol; every address must come back as its link-time address, through the nm-backed ObjFile and
// through the addr2line-backed one (same mapping arithmetic, different constructors).
func kernelCase(raw json.RawMessage, c *ecase, idx int, nmDir string) {
	name := "vmlinux"
	if !c.Named {
		name = "kernel.img"
	}
	kdir := filepath.Join(dir, fmt.Sprintf("k%d", idx))
	os.MkdirAll(kdir, 0o755)
	defer os.RemoveAll(kdir)
	path := filepath.Join(kdir, name)
	if err := writeKernelELF(path, c); err != nil {
		run.Infra(err.Error())
		return
	}
	// self-check of the writer: the standard library must see the symbol table and the .text section
	if ef, err := elf.Open(path); err != nil {
		run.Infra("kernel ELF writer: " + err.Error())
		return
	} else {
		ss, err := ef.Symbols()
		th := elfexec.FindTextProgHeader(ef)
		ef.Close()
		if err != nil || len(ss) != 5 || th == nil {
			run.Infra(fmt.Sprintf("kernel ELF writer: symbols %d (%v), text header %v", len(ss), err, th))
			return
		}
	}
	var start uint64
	switch c.Mode {
	case "kaslr":
		start = c.RelocAddr + kernelHigh + c.Slide
	case "remap0":
		start = (c.RelocAddr + kernelHigh) % 4096
	}
	limit := start + c.MapSize
	var offset uint64
	switch c.OffMode {
	case "start":
		offset = start
	case "ppc64":
		offset = 0xc000000000000000
	}
	for _, tools := range []string{"nm", "addr2line"} {
		bu := &binutils.Binutils{}
		if tools == "nm" {
			bu.SetTools("nm:" + nmDir)
			bu.SetFastSymbolization(true)
		} else {
			bu.SetTools("addr2line:" + nmDir + ",nm:" + nmDir)
		}
		f, err := bu.Open(path, start, limit, offset, c.Reloc)
		if err != nil {
			run.Violate("kernel", sigOf(c, "kernel-open-error:"+c.Mode), fmt.Sprintf("%s: Open(start=%#x limit=%#x offset=%#x reloc=%q): %v", tools, start, limit, offset, c.Reloc, err), raw, nil)
			continue
		}
		for _, a := range c.Addrs {
			x := start + a.X
			got, err := f.ObjAddr(x)
			run.Count(fmt.Sprintf("kernel|%s|%s|%d|%d|%s|%s|%d|%s|%d", tools, c.Type, len(c.Layout), c.Stext-c.Text, c.Reloc, c.Mode, c.Slide, c.OffMode, a.X))
			if err != nil {
				run.Violate("kernel", sigOf(c, "kernel-error:"+c.Mode), fmt.Sprintf("%s: ObjAddr(%#x) failed: %v", tools, x, err), raw, nil)
				break
			}
			if got != a.Want+kernelHigh {
				run.Violate("kernel", sigOf(c, "kernel-wrong-address:"+c.Mode+":"+tools), fmt.Sprintf("%s: mapping [%#x, %#x) offset %#x named after %q (_stext at %#x, text segment at %#x): ObjAddr(%#x) = %#x, the image has link address %#x there", tools, start, limit, offset, c.Reloc, c.Stext+kernelHigh, c.Text+kernelHigh, x, got, a.Want+kernelHigh), raw, nil)
				break
			}
		}
		f.Close()
	}
}

type quietUI struct{}

func (quietUI) ReadLine(string) (string, error)     { return "", fmt.Errorf("no input") }
func (quietUI) Print(...interface{})                {}
func (quietUI) PrintErr(...interface{})             {}
func (quietUI) IsTerminal() bool                    { return false }
func (quietUI) WantBrowser() bool                   { return false }
func (quietUI) SetAutoComplete(func(string) string) {}

// one shared object loaded TWICE at different biases (two processes in a merged profile, dlmopen): the local symbolizer
// asks the tools about every location with the link-time address of ITS mapping - the scripted addr2line names the
// function after the address it is asked about, so the name shows which base was subtracted
func twoBiasesPart(nmDir string) {
	path := filepath.Join(dir, "twice.so")
	if err := writeELF(path, &ecase{Type: "DYN", Layout: []seg{{Off: 0, Vaddr: 0, Filesz: 4096, Memsz: 0x10000, X: true}}}); err != nil {
		run.Infra(err.Error())
		return
	}
	defer os.Remove(path)
	os.WriteFile(filepath.Join(nmDir, "table"), nil, 0o644)
	oldPath := os.Getenv("PATH")
	os.Setenv("PATH", nmDir)
	defer os.Setenv("PATH", oldPath)
	for _, order := range [][2]uint64{{0x7f0000000000, 0x7e0000000000}, {0x7e0000000000, 0x7f0000000000}, {0x7f0000000000, 0x7f0000100000}} {
		m1 := &profile.Mapping{ID: 1, Start: order[0], Limit: order[0] + 0x10000, File: path, BuildID: "abc123"}
		m2 := &profile.Mapping{ID: 2, Start: order[1], Limit: order[1] + 0x10000, File: path, BuildID: "abc123"}
		rel := []uint64{0x2468, 0x1234, 0x2468, 0x3000}
		maps := []*profile.Mapping{m1, m2, m2, m1}
		p := &profile.Profile{SampleType: []*profile.ValueType{{Type: "samples", Unit: "count"}}, PeriodType: &profile.ValueType{Type: "cpu", Unit: "ns"}, Period: 1,
			Mapping: []*profile.Mapping{m1, m2}}
		for i := range rel {
			l := &profile.Location{ID: uint64(i + 1), Mapping: maps[i], Address: maps[i].Start + rel[i]}
			p.Location = append(p.Location, l)
			p.Sample = append(p.Sample, &profile.Sample{Location: []*profile.Location{l}, Value: []int64{1}})
		}
		bu := &binutils.Binutils{}
		bu.SetTools("addr2line:" + nmDir + ",nm:" + nmDir)
		sym := &symbolizer.Symbolizer{Obj: bu, UI: quietUI{}}
		if err := sym.Symbolize("local", nil, p); err != nil {
			run.Violate("a2l", "two-biases-error", err.Error(), fmt.Sprint(order), nil)
			continue
		}
		run.Count(fmt.Sprintf("two-biases|%x|%x", order[0], order[1]))
		for i, l := range p.Location {
			got := ""
			if len(l.Line) > 0 && l.Line[len(l.Line)-1].Function != nil {
				got = l.Line[len(l.Line)-1].Function.Name
			}
			if want := fmt.Sprintf("s%x", rel[i]); got != want {
				run.Violate("a2l", "two-biases-wrong-address", fmt.Sprintf("one shared object mapped at %#x and at %#x: the location at %#x (mapping %d, link address %#x) was named %q; the tool asked about the link address answers %q", order[0], order[1], l.Address, l.Mapping.ID, rel[i], got, want), fmt.Sprint(order), nil)
			}
		}
	}
}

func sigOf(c *ecase, what string) string {
	return fmt.Sprintf("%s:%s:%dseg", what, c.Type, len(c.Layout))
}

func nmCase(raw json.RawMessage, c *ecase, idx int, nmDir string) {
	// an ET_EXEC file with one executable segment covering the symbol range; mapping = the segment, bias 0
	l := &ecase{Type: "EXEC", Layout: []seg{{Off: 0, Vaddr: 0, Filesz: 4096, Memsz: 4096, X: true}}}
	path := filepath.Join(dir, fmt.Sprintf("nmbin%d", idx))
	if err := writeELF(path, l); err != nil {
		run.Infra(err.Error())
		return
	}
	defer os.Remove(path)
	var tb bytes.Buffer
	// every other case: a small function below all others that has the SAME NAME as the last symbol of the table
	// (file-local functions of different compilation units): symbols are told apart by address, not by name
	homonym := ""
	if idx%2 == 1 && len(c.Table) > 0 {
		last := len(c.Table) - 1
		homonym = fmt.Sprintf("sym%d_%x", last, c.Table[last].A)
		fmt.Fprintf(&tb, "%s T %x %x\n", homonym, 4, 4)
	}
	for i, s := range c.Table {
		t := "T"
		if s.Data {
			t = "D"
		}
		fmt.Fprintf(&tb, "sym%d_%x %s %x %x\n", i, s.A, t, s.A, s.Size)
	}
	os.WriteFile(filepath.Join(nmDir, "table"), tb.Bytes(), 0o644)
	bu := &binutils.Binutils{}
	bu.SetTools("nm:" + nmDir)
	bu.SetFastSymbolization(true)
	f, err := bu.Open(path, 0x1000, 0x2000, 0, "")
	if err != nil {
		run.Violate("nm", "nm-open-error", err.Error(), raw, nil)
		return
	}
	defer f.Close()
	// the same binary seen through a second mapping at another address (another process in a merged profile):
	// every symbol table lookup is relative to ITS mapping's base
	f2, err := bu.Open(path, 0x5000, 0x6000, 0, "")
	if err != nil {
		run.Violate("nm", "nm-open-error", err.Error(), raw, nil)
		return
	}
	defer f2.Close()
	for qi, q := range c.Queries {
		run.Count(fmt.Sprintf("nm|%v|%d", c.Table, q.Q))
		// the file is ET_EXEC with vaddr 0 mapped at 0x1000: link address = runtime - 0x1000
		fr, err := f.SourceLine(q.Q + 0x1000)
		if qi%2 == 1 {
			fr, err = f2.SourceLine(q.Q + 0x5000)
		}
		if err != nil {
			run.Violate("nm", "nm-error", err.Error(), raw, nil)
			continue
		}
		got := ""
		if len(fr) > 0 {
			got = fr[0].Func
		}
		// acceptable answers: a symbol starting at the greatest start <= q, unless it is a data symbol
		// that does not contain q; nothing if no symbol starts at or below q
		ok := false
		if q.Best == 0 && len(c.Table) > 0 && q.Q < c.Table[0].A {
			ok = got == "" || (homonym != "" && q.Q >= 4 && got == homonym)
		} else {
			for i, s := range c.Table {
				if s.A != q.Best {
					continue
				}
				name := fmt.Sprintf("sym%d_%x", i, s.A)
				if s.Data && q.Q >= s.A+s.Size {
					if got == "" {
						ok = true
					}
				} else if got == name {
					ok = true
				}
			}
			if q.Beyond && got == "" {
				ok = true // past the end of the last symbol: "no symbol" is acceptable as well
			}
		}
		if !ok {
			run.Violate("nm", "nm-lookup", fmt.Sprintf("table %v: lookup of %#x returned %q; the symbol with the greatest start <= the address starts at %#x", c.Table, q.Q, got, q.Best), raw, nil)
		}
	}
}

// the addr2line + nm path (no llvm-symbolizer): addr2line is asked for the link-time address, and the name it
// gives is completed from the nm table, which must be consulted with the same address the caller passed
func a2lCase(raw json.RawMessage, c *ecase, idx int, nmDir string) {
	l := &ecase{Type: "EXEC", Layout: []seg{{Off: 0, Vaddr: 0, Filesz: 4096, Memsz: 4096, X: true}}}
	path := filepath.Join(dir, fmt.Sprintf("a2lbin%d", idx))
	if err := writeELF(path, l); err != nil {
		run.Infra(err.Error())
		return
	}
	defer os.Remove(path)
	var tb bytes.Buffer
	for i, s := range c.Table {
		t := "T"
		if s.Data {
			t = "D"
		}
		fmt.Fprintf(&tb, "symbol_number_%d_at_%x %s %x %x\n", i, s.A, t, s.A, s.Size)
	}
	os.WriteFile(filepath.Join(nmDir, "table"), tb.Bytes(), 0o644)
	oldPath := os.Getenv("PATH")
	os.Setenv("PATH", nmDir) // no llvm-symbolizer anywhere: the addr2line path is taken
	defer os.Setenv("PATH", oldPath)
	bu := &binutils.Binutils{}
	bu.SetTools("addr2line:" + nmDir + ",nm:" + nmDir)
	f, err := bu.Open(path, 0x1000, 0x2000, 0, "")
	if err != nil {
		run.Violate("a2l", "a2l-open-error", err.Error(), raw, nil)
		return
	}
	defer f.Close()
	for _, q := range c.Queries {
		run.Count(fmt.Sprintf("a2l|%v|%d", c.Table, q.Q))
		fr, err := f.SourceLine(q.Q + 0x1000)
		if err != nil {
			run.Violate("a2l", "a2l-error", err.Error(), raw, nil)
			continue
		}
		got := ""
		if len(fr) > 0 {
			got = fr[len(fr)-1].Func
		}
		plain := fmt.Sprintf("s%x", q.Q) // what the scripted addr2line answers for the link-time address
		if q.Q == 0x1f || q.Q == 0x3f {
			// addresses the scripted addr2line knows nothing about ("??" / "??:0", exactly its answer to the sentinel):
			// no frame for them - and the conversation stays in step: the queries that follow get their own answers
			if got != "" {
				run.Violate("a2l", "a2l-unknown-address", fmt.Sprintf("table %v: addr2line answered ?? for %#x; SourceLine names %q", c.Table, q.Q, got), raw, nil)
			}
			continue
		}
		ok := got == plain && (len(c.Table) == 0 || q.Q < c.Table[0].A || q.Beyond)
		for i, s := range c.Table {
			if s.A != q.Best || q.Q < s.A {
				continue
			}
			name := fmt.Sprintf("symbol_number_%d_at_%x", i, s.A)
			if s.Data && q.Q >= s.A+s.Size {
				if got == plain {
					ok = true
				}
			} else if got == name {
				ok = true
			}
		}
		if !ok {
			run.Violate("a2l", "a2l-lookup", fmt.Sprintf("table %v: SourceLine(%#x) (link address %#x) names %q; addr2line answered %q and the nm symbol with the greatest start <= the address starts at %#x", c.Table, q.Q+0x1000, q.Q, got, plain, q.Best), raw, nil)
		}
	}
}

func main() {
	run = vlib.NewRun("C13")
	var err error
	dir, err = os.MkdirTemp("", "c13-")
	if err != nil {
		run.Infra(err.Error())
	}
	defer os.RemoveAll(dir)
	nmDir := filepath.Join(dir, "tools")
	os.MkdirAll(nmDir, 0o755)
	os.WriteFile(filepath.Join(nmDir, "nm"), []byte("#!/bin/sh\n/bin/cat \""+filepath.Join(nmDir, "table")+"\"\n"), 0o755)
	// a scripted addr2line: echoes the address it is asked for and names the function after it
	os.WriteFile(filepath.Join(nmDir, "addr2line"), []byte(a2lScript), 0o755)
	run.EachCase(func(i int, raw json.RawMessage) {
		var c ecase
		if err := json.Unmarshal(raw, &c); err != nil {
			run.Infra("case decode: " + err.Error())
			return
		}
		func() {
			defer func() {
				if r := recover(); r != nil {
					run.Violate(c.Kind, "panic:"+c.Kind, fmt.Sprint(r), raw, nil)
				}
			}()
			if c.Kind == "elf" {
				elfCase(raw, &c, i)
			} else if c.Kind == "kernel" {
				kernelCase(raw, &c, i, nmDir)
			} else {
				nmCase(raw, &c, i, nmDir)
				a2lCase(raw, &c, i, nmDir)
			}
		}()
		if i%80 == 0 {
			run.Sample(json.RawMessage(raw))
		}
	})
	twoBiasesPart(nmDir)
	run.Finish("cases = ElfLoad.tla: 10 segment layouts (program headers in vaddr order but not in file order, ld-style page-aligned, lld-style segments sharing file pages, bss, executable segment starting mid page after read-only data, huge-page vaddr gap, executable segments with a zero-filled tail of several pages) x {ET_EXEC, ET_DYN with biases 0 / 5 / 77 pages, optionally plus a 47-bit constant} x page-granular splits of the executable mapping x addresses at segment and page edges, each translated through binutils.Open + ObjAddr in ascending and descending order on one ObjFile; symbol tables of 1-2 (thorough 3) symbols with duplicates, zero sizes, code and data x 12 lookup addresses through a fake nm, and through a scripted addr2line whose names are completed from the nm table (PATH emptied so that no llvm-symbolizer is found); kernel images (GenKernel: 3 layouts x ET_EXEC/ET_DYN x _stext at 0 / 0x198 / 0x1000 / 0x1198 past the text segment x relocation symbol unnamed / _stext / _text x KASLR slides 0 / 64 KiB / 16 MiB with mapping offset 0 / start / ppc64 PAGE_OFFSET, or remapped into page 0) written with a .text section and a symbol table, opened as nm-backed and as addr2line-backed object; non-trivial = distinct (type, layout, mapping, address) / (table, query)")
}
