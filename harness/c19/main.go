// C19 harness. Modes (-extra):
//
//	child=<query>     one /saveconfig or /deleteconfig request against the real handlers, then exit
//	                  (run under strace by bin/check to record / perturb the syscall sequence)
//	(default)         sequential histories (TLC-generated) replayed through the handlers and compared
//	                  with the specification's final settings; option<->URL round trips; gated
//	                  concurrent pairs (read(a) read(b) write(a) write(b)) via the verif hook.
//
// The settings file lives under $XDG_CONFIG_HOME, which bin/check points into scratch.
package main

import (
	"encoding/json"
	"fmt"
	"html"
	"net/http"
	"net/http/httptest"
	"net/url"
	"os"
	"path/filepath"
	"regexp"
	"sort"
	"strconv"
	"strings"
	"sync"
	"time"

	"github.com/google/pprof/internal/driver"
	"github.com/google/pprof/internal/plugin"
	"github.com/google/pprof/internal/zzverif/vdrv"
	"github.com/google/pprof/internal/zzverif/vlib"
	"github.com/google/pprof/profile"
)

var run *vlib.Run

func prof() *profile.Profile {
	f := vlib.AFn{Name: "f", Sys: "f", File: "a.c"}
	m := vlib.AMap{Build: "B01", File: "bin", Start: 16, Size: 8}
	ap := vlib.AProf{ST: []vlib.AVT{{T: "s1", U: "count"}, {T: "s2", U: "count"}}, Samples: []vlib.ASample{{Locs: []vlib.ALoc{{Map: m, Rel: 1, Lines: []vlib.ALine{{Fn: f, Line: 1}}}}, Vals: []int64{1, 2},
		Lab: []vlib.ASLab{{K: "k", V: []string{"x"}}}}}}
	return vlib.NewConc(0).Profile(ap)
}

type server struct{ h map[string]http.Handler }

func (s *server) get(path string) (int, string) {
	p := path
	if i := strings.Index(p, "?"); i >= 0 {
		p = p[:i]
	}
	rec := httptest.NewRecorder()
	req, err := http.NewRequest("GET", "http://localhost"+path, nil)
	if err != nil {
		return 400, err.Error()
	}
	s.h[p].ServeHTTP(rec, req)
	return rec.Code, rec.Body.String()
}

func withServer(f func(s *server)) *vdrv.Result { return withServerArgs(nil, f) }

func withServerArgs(extra []string, f func(s *server)) *vdrv.Result {
	p := prof()
	args := append([]string{"-functions", "-flat"}, extra...)
	return vdrv.Run(vdrv.Opts{Args: append(args, "-http=localhost:18767", "-no_browser", "src"),
		Fetch: func(string) (*profile.Profile, error) { return p.Copy(), nil },
		HTTP: func(a *plugin.HTTPServerArgs) error {
			f(&server{a.Handlers})
			return nil
		}})
}

func settingsPath() string {
	return filepath.Join(os.Getenv("XDG_CONFIG_HOME"), "pprof", "settings.json")
}

type saved struct {
	Configs []map[string]interface{} `json:"configs"`
}

func readFile() (saved, error) {
	var s saved
	b, err := os.ReadFile(settingsPath())
	if err != nil {
		if os.IsNotExist(err) {
			return s, nil
		}
		return s, err
	}
	err = json.Unmarshal(b, &s)
	return s, err
}

// abstract configurations of Settings.tla
var cfgQuery = map[int]string{1: "f=f", 2: "h=g&n=3", 3: ""}
var cfgFields = map[int]map[string]interface{}{1: {"focus": "f"}, 2: {"hide": "g", "nodecount": float64(3)}, 3: {}}

type hcase struct {
	Serial []struct {
		Op   string `json:"op"`
		Name string `json:"name"`
		Cfg  int    `json:"cfg"`
	} `json:"serial"`
	Final []struct {
		Name string `json:"name"`
		Cfg  int    `json:"cfg"`
	} `json:"final"`
	Kind string `json:"kind"`
}

func reset() {
	os.RemoveAll(filepath.Join(os.Getenv("XDG_CONFIG_HOME"), "pprof"))
}

func fileMatches(final []struct {
	Name string `json:"name"`
	Cfg  int    `json:"cfg"`
}) string {
	s, err := readFile()
	if err != nil {
		return "settings file unreadable: " + err.Error()
	}
	if len(s.Configs) != len(final) {
		return fmt.Sprintf("%d configurations in the file, want %d (%v)", len(s.Configs), len(final), s.Configs)
	}
	for i, want := range final {
		got := s.Configs[i]
		if got["name"] != want.Name {
			return fmt.Sprintf("entry %d is %v, want %s", i, got["name"], want.Name)
		}
		for _, f := range []string{"focus", "hide", "nodecount", "ignore", "show"} {
			w, has := cfgFields[want.Cfg][f]
			g, hasG := got[f]
			if f == "nodecount" && !has {
				w, has = float64(-1), true // the default node count is stored explicitly
			}
			if has != hasG || (has && fmt.Sprint(w) != fmt.Sprint(g)) {
				return fmt.Sprintf("configuration %s: %s = %v (present=%v), want %v (present=%v)", want.Name, f, g, hasG, w, has)
			}
		}
	}
	return ""
}

func doReq(s *server, op, name string, cfg int) (int, string) {
	if op == "save" {
		q := "config=" + name
		if cfgQuery[cfg] != "" {
			q += "&" + cfgQuery[cfg]
		}
		return s.get("/saveconfig?" + q)
	}
	return s.get("/deleteconfig?config=" + name)
}

func history(raw json.RawMessage, c *hcase) {
	reset()
	withServer(func(s *server) {
		// the specification's initial file: one saved configuration "a" with default options
		if code, body := doReq(s, "save", "a", 3); code != 200 {
			run.Infra("initial save failed: " + body)
			return
		}
		for _, r := range c.Serial {
			if code, body := doReq(s, r.Op, r.Name, r.Cfg); code != 200 {
				run.Violate("history", "request-failed:"+r.Op, fmt.Sprintf("%s %s: %d %s", r.Op, r.Name, code, body), raw, nil)
				return
			}
		}
		if d := fileMatches(c.Final); d != "" {
			run.Violate("history", "sequential-history", d, raw, nil)
		}
	})
	b, _ := json.Marshal(c.Serial)
	run.Count(string(b))
}

var menuRE = regexp.MustCompile(`href="(\?[^"]*)"[^>]*>\s*([^<]*?)\s*<`)

// roundTrips: save a configuration with URL parameters, read its URL from the page's config menu, follow
// it and compare the options in effect (C19: restored with every saved option intact; URL round trip).
func roundTrips() {
	params := []struct{ k, v string }{{"f", "foo"}, {"i", "bar"}, {"h", "hid"}, {"s", "shw"}, {"sf", "frm"}, {"tf", "k:x"}, {"ti", "k:y"}, {"ts", "k"}, {"th", "j"}, {"prunefrom", "prn"},
		{"n", "7"}, {"nf", "0.25"}, {"ef", "0.5"}, {"trim", "f"}, {"trim", "t"}, {"calltree", "t"}, {"dropneg", "t"}, {"rel", "t"}, {"unit", "ms"}, {"compact", "t"}, {"intel", "t"}, {"mean", "t"},
		{"noinlines", "t"}, {"showcolumns", "t"}, {"g", "lines"}, {"g", "files"}, {"s", ""}, {"sort", "cum"}, {"f", "a b&c=d"}, {"f", "é\"<"}, {"n", "0"}, {"nf", "0"},
		// fractions with many significant digits, very small ones: restored exactly
		// text options whose value looks like a boolean or a number
		{"f", "true"}, {"i", "false"}, {"h", "t"}, {"tf", "f"}, {"sf", "1"}, {"unit", "true"},
		// regular expressions that begin or end with a blank (a blank is a character the expression matches)
		{"f", "operator "}, {"i", " const$"}, {"h", " "}, {"sf", "a\tb\t"}, {"tf", " k:x"},
		{"nf", "0.0001234567"}, {"ef", "0.12345678"}, {"nf", "1e-07"}, {"ef", "0.30000000000000004"}, {"nf", "0.1234567890123"}}
	reset()
	withServer(func(s *server) {
		for i, p := range params {
			for _, extra := range []string{"", "&h=zz", "&trim=f&n=1"} {
				name := fmt.Sprintf("c%d_%d", i, len(extra))
				q := url.Values{}
				q.Set("config", name)
				q.Set(p.k, p.v)
				saveURL := "/saveconfig?" + q.Encode() + extra
				if code, body := s.get(saveURL); code != 200 {
					if p.k == "sort" || p.k == "s" && p.v == "" {
						continue
					}
					run.Violate("roundtrip", "save-failed:"+p.k, fmt.Sprintf("%s: %d %s", saveURL, code, body), saveURL, nil)
					continue
				}
				run.Count("rt|" + p.k + "=" + p.v + extra)
				// the saved entry, as the menu of a plain page offers it
				_, page := s.get("/top")
				var link string
				for _, m := range menuRE.FindAllStringSubmatch(page, -1) {
					if html.UnescapeString(m[2]) == name {
						link = html.UnescapeString(m[1])
					}
				}
				if link == "" {
					run.Violate("roundtrip", "not-in-menu:"+p.k, "saved configuration "+name+" is not offered by the config menu", saveURL, nil)
					continue
				}
				want, _ := url.ParseQuery(strings.TrimPrefix(saveURL[strings.Index(saveURL, "?")+1:], ""))
				want.Del("config")
				got, _ := url.ParseQuery(strings.TrimPrefix(link, "?"))
				// following the link must put every saved option in effect: compare the parameters that differ from the defaults
				for k, v := range want {
					if isDefault(k, v[0]) {
						continue
					}
					same := len(got[k]) > 0 && got[k][0] == v[0]
					if !same && len(got[k]) > 0 && (k == "nf" || k == "ef") {
						a, e1 := strconv.ParseFloat(got[k][0], 64)
						b, e2 := strconv.ParseFloat(v[0], 64)
						same = e1 == nil && e2 == nil && a == b
					}
					if !same {
						run.Violate("roundtrip", "option-lost:"+k, fmt.Sprintf("saved with %s=%q; the menu link for it is %q", k, v[0], link), saveURL, nil)
					}
				}
				for k, v := range got {
					if _, ok := want[k]; !ok && !isDefault(k, v[0]) {
						run.Violate("roundtrip", "option-invented:"+k, fmt.Sprintf("saved with %q; the menu link %q sets %s=%q", saveURL, link, k, v[0]), saveURL, nil)
					}
				}
			}
		}
		// saving X twice from different views: the second save replaces the first entirely
		s.get("/saveconfig?config=twice&h=bar&n=10")
		s.get("/saveconfig?config=twice&f=only")
		st, _ := readFile()
		for _, c := range st.Configs {
			if c["name"] == "twice" {
				if _, has := c["hide"]; has || fmt.Sprint(c["nodecount"]) == "10" || c["focus"] != "only" {
					run.Violate("roundtrip", "resave-keeps-old-options", fmt.Sprintf("after saving 'twice' with h=bar&n=10 and again with f=only the entry is %v", c), "twice", nil)
				}
			}
		}
		// deleting one configuration leaves the others byte-for-byte alone
		before, _ := readFile()
		s.get("/deleteconfig?config=twice")
		after, _ := readFile()
		j := func(v interface{}) string { b, _ := json.Marshal(v); return string(b) }
		var keep []map[string]interface{}
		for _, c := range before.Configs {
			if c["name"] != "twice" {
				keep = append(keep, c)
			}
		}
		if j(keep) != j(after.Configs) {
			run.Violate("roundtrip", "delete-alters-others", "deleting one configuration changed others", "delete", nil)
		}
	})
}

// crossSession: names that differ only in case are different configurations; options that only the command line
// can set (tagroot, tagleaf) are saved with a configuration and survive sessions that were started without them
func crossSession() {
	reset()
	entry := func(name string) map[string]interface{} {
		st, _ := readFile()
		for _, c := range st.Configs {
			if c["name"] == name {
				return c
			}
		}
		return nil
	}
	withServer(func(s *server) {
		s.get("/saveconfig?config=cpu&f=foo")
		s.get("/saveconfig?config=CPU&f=bar")
		run.Count("case-names")
		a, b := entry("cpu"), entry("CPU")
		if a == nil || b == nil || a["focus"] != "foo" || b["focus"] != "bar" {
			run.Violate("roundtrip", "names-differing-in-case", fmt.Sprintf("after saving cpu (f=foo) and CPU (f=bar): cpu=%v CPU=%v", a, b), "case", nil)
		}
		s.get("/deleteconfig?config=CPU")
		if a := entry("cpu"); a == nil || a["focus"] != "foo" || entry("CPU") != nil {
			run.Violate("roundtrip", "names-differing-in-case", fmt.Sprintf("after deleting CPU: cpu=%v CPU=%v", entry("cpu"), entry("CPU")), "case", nil)
		}
	})
	withServerArgs([]string{"-tagroot=k", "-tagleaf=j"}, func(s *server) {
		s.get("/saveconfig?config=withtags&h=hid")
	})
	saved := entry("withtags")
	run.Count("session-only-options")
	if saved == nil || saved["tagroot"] != "k" || saved["tagleaf"] != "j" {
		run.Violate("roundtrip", "session-option-not-saved", fmt.Sprintf("saved from a session started with -tagroot=k -tagleaf=j: %v", saved), "tags", nil)
		return
	}
	// a later session without those flags reads the file, shows its menu and saves something else
	withServer(func(s *server) {
		s.get("/top")
		s.get("/saveconfig?config=other&f=x")
		s.get("/deleteconfig?config=other")
	})
	if after := entry("withtags"); after == nil || after["tagroot"] != "k" || after["tagleaf"] != "j" || after["hide"] != "hid" {
		run.Violate("roundtrip", "saved-option-lost-by-later-session", fmt.Sprintf("configuration withtags was saved with tagroot=k tagleaf=j hide=hid; after another session saved and deleted a different configuration it is %v", after), "tags", nil)
	}
}

// emptyParams: an option given with an empty value counts as unset: the request is accepted and the saved
// configuration holds the default for that option
func emptyParams() {
	reset()
	withServer(func(s *server) {
		s.get("/saveconfig?config=plain")
		for _, k := range []string{"n", "nf", "ef", "trim", "calltree", "dropneg", "rel", "unit", "compact", "intel", "mean", "noinlines", "showcolumns", "g", "sort", "norm"} {
			name := "empty_" + k
			code, body := s.get("/saveconfig?config=" + name + "&" + k + "=")
			run.Count("empty|" + k)
			if code != 200 {
				run.Violate("roundtrip", "empty-param-rejected:"+k, fmt.Sprintf("saving with %s= (empty): %d %s", k, code, body), k, nil)
				continue
			}
			st, _ := readFile()
			var plain, got map[string]interface{}
			for _, c := range st.Configs {
				if c["name"] == "plain" {
					plain = c
				}
				if c["name"] == name {
					got = c
				}
			}
			if plain == nil || got == nil {
				run.Violate("roundtrip", "empty-param-not-saved:"+k, "configuration missing from the file", k, nil)
				continue
			}
			for f, v := range plain {
				if f == "name" {
					continue
				}
				if fmt.Sprint(got[f]) != fmt.Sprint(v) {
					run.Violate("roundtrip", "empty-param-not-unset:"+k, fmt.Sprintf("saved with %s= (empty): field %s is %v, the default is %v", k, f, got[f], v), k, nil)
				}
			}
			for f := range got {
				if _, ok := plain[f]; !ok {
					run.Violate("roundtrip", "empty-param-not-unset:"+k, fmt.Sprintf("saved with %s= (empty): field %s = %v appears, absent by default", k, f, got[f]), k, nil)
				}
			}
		}
	})
}

func isDefault(k, v string) bool {
	d := map[string]string{"trim": "t", "n": "-1", "nf": "0.005", "ef": "0.001", "unit": "minimum", "sort": "flat", "calltree": "f", "dropneg": "f", "rel": "f", "compact": "f",
		"intel": "f", "mean": "f", "noinlines": "f", "showcolumns": "f", "g": ""}
	if v == "" || (k == "g" && v == "functions") { // sessions of this harness start with -functions
		return true
	}
	dv, ok := d[k]
	return ok && dv == v
}

// concurrentPairs forces read(a) read(b) write(a) write(b) with the gate between read and write.
func concurrentPairs() {
	pairs := [][2]string{{"/saveconfig?config=x&f=1", "/saveconfig?config=y&f=2"}, {"/saveconfig?config=x&f=1", "/deleteconfig?config=seed"},
		{"/deleteconfig?config=seed", "/saveconfig?config=y&h=2"}, {"/saveconfig?config=seed&f=new", "/saveconfig?config=z&n=4"}}
	for _, pr := range pairs {
		reset()
		withServer(func(s *server) {
			s.get("/saveconfig?config=seed&h=keep")
			var mu sync.Mutex
			arrived := 0
			both := make(chan struct{})
			driver.VerifGate = func(point string) {
				if point != "editSettings:afterRead" {
					return
				}
				mu.Lock()
				arrived++
				if arrived == 2 {
					close(both)
				}
				mu.Unlock()
				// hold the request between its read and its write until the other one has read too
				// (or give up after a while: with a lock around the read-modify-write the other never arrives)
				select {
				case <-both:
				case <-time.After(300 * time.Millisecond):
				}
			}
			var wg sync.WaitGroup
			codes := make([]int, 2)
			for i := 0; i < 2; i++ {
				wg.Add(1)
				go func(i int) {
					defer wg.Done()
					codes[i], _ = s.get(pr[i])
				}(i)
			}
			wg.Wait()
			driver.VerifGate = nil
			st, err := readFile()
			if err != nil {
				run.Violate("concurrent", "concurrent-torn", err.Error(), pr, nil)
				return
			}
			names := []string{}
			for _, c := range st.Configs {
				names = append(names, fmt.Sprint(c["name"]))
			}
			sort.Strings(names)
			// both acknowledged requests must have taken effect (as if one after the other)
			want := map[string]bool{"seed": true}
			for i, u := range pr {
				if codes[i] != 200 {
					continue
				}
				pu, _ := url.Parse(u)
				n := pu.Query().Get("config")
				if strings.HasPrefix(u, "/saveconfig") {
					want[n] = true
				} else {
					delete(want, n)
				}
			}
			var wn []string
			for n := range want {
				wn = append(wn, n)
			}
			sort.Strings(wn)
			run.Count("pair|" + pr[0] + "|" + pr[1])
			if strings.Join(names, ",") != strings.Join(wn, ",") {
				run.Violate("concurrent", "lost-update", fmt.Sprintf("requests %v both answered 200 under the schedule read read write write; the file holds %v, any serial order gives %v", pr, names, wn), pr, nil)
			}
		})
	}
}

func main() {
	run = vlib.NewRun("C19")
	if strings.HasPrefix(run.Extra, "child=") {
		q := strings.TrimPrefix(run.Extra, "child=")
		withServer(func(s *server) {
			code, body := s.get(q)
			fmt.Fprintf(os.Stderr, "child: %s -> %d %s\n", q, code, strings.TrimSpace(body))
		})
		run.Finish("child")
		return
	}
	run.EachCase(func(i int, raw json.RawMessage) {
		var c hcase
		if err := json.Unmarshal(raw, &c); err != nil {
			run.Infra("case decode: " + err.Error())
			return
		}
		if c.Kind != "ok" {
			return
		}
		history(raw, &c)
		if i%40 == 0 {
			run.Sample(json.RawMessage(raw))
		}
	})
	roundTrips()
	crossSession()
	emptyParams()
	concurrentPairs()
	run.Finish("sequential histories = every commit order of up to 3 save/delete requests reachable in Settings.tla (rename+lock design), replayed through the real /saveconfig and /deleteconfig handlers and compared with the specification's final settings value; option<->URL: 32 parameter values x 3 combinations saved, read back from the page's config menu and compared; re-save and delete isolation; 4 request pairs forced through read(a) read(b) write(a) write(b) with the verif gate; non-trivial = distinct history / parameter / pair")
}
