// C08 harness.
// Part 1 (Binding A): every tie-rich set emitted by Orders.tla is given to the
// real comparators (Nodes.Sort, EdgeMap.Sort, SortTags) in EVERY input
// permutation: all outputs must be identical and ordered by the pinned keys.
// Part 2: tie-rich profiles (equal magnitudes of opposite sign, equal flat and
// cum, equal names in different binaries, equal tag weights) are rendered by
// every format repeatedly in-process (Go re-randomises every map range), and
// multi-source runs are repeated under opposite fetch completion orders; all
// bytes must agree. Profiles are also dumped for fresh-process repeats.
package main

import (
	"bytes"
	"encoding/json"
	"fmt"
	"os"
	"path/filepath"
	"regexp"
	"sort"
	"strings"
	"time"

	"github.com/google/pprof/internal/graph"
	"github.com/google/pprof/internal/plugin"
	"github.com/google/pprof/internal/zzverif/vdrv"
	"github.com/google/pprof/internal/zzverif/vlib"
	"github.com/google/pprof/profile"
)

type elem struct {
	Kind string `json:"kind"`
	Flat int64  `json:"flat"`
	Cum  int64  `json:"cum"`
	Name int    `json:"name"`
	Obj  int    `json:"obj"`
	Addr uint64 `json:"addr"`
	W    int64  `json:"w"`
	Src  int    `json:"src"`
	Dst  int    `json:"dst"`
	DObj int    `json:"dobj"`
	SObj int    `json:"sobj"`
}
type ocase struct {
	Order     string    `json:"order"`
	Elems     []elem    `json:"elems"`
	Pinned    [][]int64 `json:"pinned"`
	Canonical []elem    `json:"canonical"`
}

var run *vlib.Run

func key(e elem) string { b, _ := json.Marshal(e); return string(b) }

// sortReal sorts one arrangement with the real comparator and returns the element keys in output order.
func sortReal(order string, es []elem) []string {
	switch order {
	case "flat", "cum":
		ns := graph.Nodes{}
		back := map[*graph.Node]string{}
		for _, e := range es {
			n := &graph.Node{Info: graph.NodeInfo{Name: fmt.Sprintf("n%d", e.Name), Objfile: fmt.Sprintf("o%d", e.Obj), Address: e.Addr}, Flat: e.Flat, Cum: e.Cum}
			ns = append(ns, n)
			back[n] = key(e)
		}
		o := graph.FlatNameOrder
		if order == "cum" {
			o = graph.CumNameOrder
		}
		ns.Sort(o)
		var out []string
		for _, n := range ns {
			out = append(out, back[n])
		}
		return out
	case "edges":
		// Go gives no control over map iteration, so the edge list is sorted from every arrangement by
		// building the map afresh many times; each build iterates in a fresh random order
		em := graph.EdgeMap{}
		back := map[*graph.Edge]string{}
		for _, e := range es {
			ed := &graph.Edge{Src: &graph.Node{Info: graph.NodeInfo{Name: fmt.Sprintf("n%d", e.Src), Objfile: fmt.Sprintf("o%d", e.SObj)}},
				Dest: &graph.Node{Info: graph.NodeInfo{Name: fmt.Sprintf("n%d", e.Dst), Objfile: fmt.Sprintf("o%d", e.DObj)}}, Weight: e.W}
			em[&graph.Node{}] = ed
			back[ed] = key(e)
		}
		var out []string
		for _, ed := range em.Sort() {
			out = append(out, back[ed])
		}
		return out
	default:
		var ts []*graph.Tag
		back := map[*graph.Tag]string{}
		for _, e := range es {
			t := &graph.Tag{Name: fmt.Sprintf("t%d", e.Name), Flat: e.Flat, Cum: e.Cum}
			ts = append(ts, t)
			back[t] = key(e)
		}
		var out []string
		for _, t := range graph.SortTags(ts, order == "tagsflat") {
			out = append(out, back[t])
		}
		return out
	}
}

func pinnedOf(order string, e elem) []int64 {
	abs := func(x int64) int64 {
		if x < 0 {
			return -x
		}
		return x
	}
	switch order {
	case "flat":
		return []int64{-abs(e.Flat), int64(e.Name), -abs(e.Cum)}
	case "cum":
		return []int64{-abs(e.Cum), int64(e.Name), -abs(e.Flat)}
	case "edges":
		return []int64{-abs(e.W), int64(e.Src), int64(e.Dst)}
	case "tagscum":
		return []int64{-abs(e.Cum), -abs(e.Flat), int64(e.Name)}
	}
	return []int64{-abs(e.Flat), int64(e.Name)}
}

func comparatorCase(raw json.RawMessage, c *ocase, seen map[string]bool) {
	ks := make([]string, len(c.Elems))
	for i, e := range c.Elems {
		ks[i] = key(e)
	}
	sort.Strings(ks)
	id := c.Order + strings.Join(ks, "")
	if seen[id] {
		return
	}
	seen[id] = true
	byKey := map[string]elem{}
	for _, e := range c.Elems {
		byKey[key(e)] = e
	}
	tie := false
	for i := 1; i < len(c.Pinned); i++ {
		if fmt.Sprint(c.Pinned[i]) == fmt.Sprint(c.Pinned[i-1]) || c.Pinned[i][0] == c.Pinned[i-1][0] {
			tie = true
		}
	}
	nt := ""
	if tie {
		nt = id
	}
	run.Count(nt)
	var first []string
	reps := 1
	if c.Order == "edges" {
		reps = 6 // fresh maps: fresh iteration orders
	}
	for _, perm := range vlib.Perms(len(c.Elems)) {
		es := make([]elem, len(perm))
		for i, j := range perm {
			es[i] = c.Elems[j]
		}
		for r := 0; r < reps; r++ {
			var got []string
			func() {
				defer func() {
					if x := recover(); x != nil {
						run.Violate("comparator", "panic:"+c.Order, fmt.Sprint(x), raw, nil)
					}
				}()
				got = sortReal(c.Order, es)
			}()
			if got == nil {
				return
			}
			// ordered by the pinned keys, as the specification's canonical order is
			for i := range got {
				if fmt.Sprint(pinnedOf(c.Order, byKey[got[i]])) != fmt.Sprint(c.Pinned[i]) {
					run.Violate("comparator", "order:"+c.Order, fmt.Sprintf("input %v sorted to %v: position %d has pinned key %v, the order demands %v", es, got, i, pinnedOf(c.Order, byKey[got[i]]), c.Pinned[i]), raw, nil)
					return
				}
			}
			if first == nil {
				first = got
			} else if strings.Join(first, "|") != strings.Join(got, "|") {
				run.Violate("comparator", "nondeterministic:"+c.Order, fmt.Sprintf("the same set sorts to %v and to %v depending on the input order", first, got), raw, nil)
				return
			}
		}
	}
}

// ---- part 2: whole pipeline ----

func fn(name, file string) vlib.AFn { return vlib.AFn{Name: name, Sys: name, File: file} }

func tieProfiles(r *vlib.Rand) []vlib.AProf {
	m1 := vlib.AMap{Build: "B01", File: "bin1", Start: 16, Size: 8}
	m2 := vlib.AMap{Build: "B02", File: "bin2", Start: 32, Size: 8}
	loc := func(m vlib.AMap, rel int64, f vlib.AFn, line int64) vlib.ALoc {
		return vlib.ALoc{Map: m, Rel: rel, Lines: []vlib.ALine{{Fn: f, Line: line}}}
	}
	st := []vlib.AVT{{T: "samples", U: "count"}, {T: "cpu", U: "nanoseconds"}}
	var out []vlib.AProf
	names := []string{"helper", "main", "work", "alloc"}
	for v := 0; v < 8; v++ {
		var ss []vlib.ASample
		ns := 4 + r.Intn(4)
		for i := 0; i < ns; i++ {
			w := int64(1 + r.Intn(2))
			if i%2 == 1 {
				w = -w // equal magnitudes of opposite sign, as in a profile diff
			}
			caller := loc(m1, 1, fn("main", "m.c"), 1)
			callee := loc([]vlib.AMap{m1, m2}[i%2], int64(2+i%3), fn(names[i%2*0], "h.c"), int64(10+i%2))
			s := vlib.ASample{Vals: []int64{w, w * 10}, Locs: []vlib.ALoc{callee, caller}, Lab: []vlib.ASLab{}, Num: []vlib.ANLab{}}
			if v%2 == 0 {
				s.Lab = append(s.Lab, vlib.ASLab{K: "tag", V: []string{fmt.Sprintf("v%d", i)}})
			}
			if v%3 == 0 {
				s.Num = append(s.Num, vlib.ANLab{K: "bytes", V: []int64{int64(8 << uint(i%2))}, U: []string{"bytes"}})
			}
			if v%3 == 1 {
				// several string and numeric label keys on one sample: every map the encoder walks has more than one key
				s.Lab = append(s.Lab, vlib.ASLab{K: "zone", V: []string{"z"}}, vlib.ASLab{K: "app", V: []string{"a", "b"}})
				s.Num = append(s.Num, vlib.ANLab{K: "bytes", V: []int64{16}, U: []string{"bytes"}}, vlib.ANLab{K: "align", V: []int64{8}, U: []string{"bytes"}},
					vlib.ANLab{K: "request", V: []int64{int64(i)}, U: []string{""}}, vlib.ANLab{K: "latency", V: []int64{3}, U: []string{"ms"}})
			}
			if v >= 4 {
				s.Locs = []vlib.ALoc{loc(m2, int64(7+i), fn(names[1+i%3], "w.c"), 5), callee, caller}
			}
			ss = append(ss, s)
		}
		out = append(out, vlib.AProf{ST: st, Samples: ss, Hdr: vlib.AHdr{Comments: []string{fmt.Sprintf("c%d", v)}}})
	}
	return out
}

// ---- disassembly reports over a scripted object file with symbols that share a name and tie in weight

type fakeObj struct{}
type fakeFile struct{ name string }

var fakeSyms = []*plugin.Sym{
	{Name: []string{"dup"}, File: "bin1", Start: 0x1100, End: 0x110f},
	{Name: []string{"dup"}, File: "bin1", Start: 0x1200, End: 0x120f},
	{Name: []string{"dup"}, File: "bin1", Start: 0x1300, End: 0x130f},
	{Name: []string{"other"}, File: "bin1", Start: 0x1400, End: 0x140f},
	{Name: []string{"again", "alias"}, File: "bin1", Start: 0x1500, End: 0x150f},
}

func (fakeObj) Open(file string, start, limit, offset uint64, rel string) (plugin.ObjFile, error) {
	return fakeFile{file}, nil
}
func (fakeObj) Disasm(file string, start, end uint64, intel bool) ([]plugin.Inst, error) {
	var out []plugin.Inst
	for a := start; a <= end; a += 4 {
		out = append(out, plugin.Inst{Addr: a, Text: fmt.Sprintf("op %x", a&0xf), Function: "fn", File: "src.c", Line: int(a & 0xff)})
	}
	return out, nil
}
// strippedObj: a disassembler that knows no function, file or line for its instructions (a stripped binary): the
// listing takes them from the profile's samples at that address
type strippedObj struct{ fakeObj }

func (strippedObj) Disasm(file string, start, end uint64, intel bool) ([]plugin.Inst, error) {
	var out []plugin.Inst
	for a := start; a <= end; a += 4 {
		out = append(out, plugin.Inst{Addr: a, Text: fmt.Sprintf("op %x", a&0xf)})
	}
	return out, nil
}

// several report entries at ONE address (an inlined call: callee and caller frames of the same instruction, in
// different files): whose name, file and line annotate the instruction must not depend on map iteration
func disasmInlinedPart(reps int) {
	m := &profile.Mapping{ID: 1, Start: 0x1000, Limit: 0x2000, File: "bin1"}
	p := &profile.Profile{SampleType: []*profile.ValueType{{Type: "samples", Unit: "count"}}, PeriodType: &profile.ValueType{Type: "cpu", Unit: "ns"}, Period: 1,
		Mapping: []*profile.Mapping{m}}
	id := uint64(0)
	for _, a := range []uint64{0x1104, 0x1108, 0x110c} {
		l := &profile.Location{ID: a, Mapping: m, Address: a}
		for k, name := range []string{"inlined_leaf", "inlined_mid", "dup"} {
			id++
			fn := &profile.Function{ID: id, Name: name, SystemName: name, Filename: fmt.Sprintf("file%d.c", k)}
			p.Function = append(p.Function, fn)
			l.Line = append(l.Line, profile.Line{Function: fn, Line: int64(10*(k+1)) + int64(a&0xf)})
		}
		p.Location = append(p.Location, l)
		p.Sample = append(p.Sample, &profile.Sample{Location: []*profile.Location{l}, Value: []int64{5}})
	}
	var first []byte
	for k := 0; k < reps*6; k++ {
		res := vdrv.Run(vdrv.Opts{Args: []string{"-disasm=dup", "-output=out", "src"}, Obj: strippedObj{}, Fetch: func(string) (*profile.Profile, error) { return p.Copy(), nil }})
		if res.Panic != nil || res.Err != nil {
			run.Note(fmt.Sprintf("disasm of inlined frames: %v %v", res.Err, res.Panic))
			return
		}
		run.Count("disasm-inlined")
		if first == nil {
			first = res.Files["out"]
			if !bytes.Contains(first, []byte("inlined_")) && !bytes.Contains(first, []byte("file")) {
				run.Note("disasm of inlined frames: the listing carries no annotation from the samples:\n" + clip(first))
			}
		} else if !bytes.Equal(first, res.Files["out"]) {
			run.Violate("pipeline", "nondeterministic-output:disasm-inlined", fmt.Sprintf("run %d of -disasm=dup (three frames per address, disassembler without line information) differs from run 0:\n%s\nvs\n%s", k, clip(first), clip(res.Files["out"])), nil, nil)
			return
		}
	}
}

func (f fakeFile) Name() string                        { return f.name }
func (f fakeFile) ObjAddr(addr uint64) (uint64, error) { return addr, nil }
func (f fakeFile) BuildID() string                     { return "" }
func (f fakeFile) Close() error                        { return nil }
func (f fakeFile) SourceLine(addr uint64) ([]plugin.Frame, error) {
	return []plugin.Frame{{Func: "fn", File: "src.c", Line: int(addr & 0xff)}}, nil
}
func (f fakeFile) Symbols(r *regexp.Regexp, addr uint64) ([]*plugin.Sym, error) {
	var out []*plugin.Sym
	for _, s := range fakeSyms {
		if (r == nil || r.MatchString(s.Name[0])) && (addr == 0 || (addr >= s.Start && addr <= s.End)) {
			c := *s
			out = append(out, &c)
		}
	}
	return out, nil
}

// trimmed graphs with several residual edges into one node whose sources call each other: which of them is
// "redundant" depends on the order in which they are examined, so that order must not come from a map
func redundantEdgesPart(reps int) {
	m := vlib.AMap{Build: "B01", File: "bin1", Start: 16, Size: 8}
	loc := func(name string, rel int64) vlib.ALoc {
		return vlib.ALoc{Map: m, Rel: rel, Lines: []vlib.ALine{{Fn: fn(name, name+".c"), Line: 1}}}
	}
	a, b, n, x1, x2, x3, c := loc("a", 1), loc("b", 2), loc("n", 3), loc("x1", 4), loc("x2", 5), loc("x3", 6), loc("c", 7)
	ap := vlib.AProf{ST: []vlib.AVT{{T: "samples", U: "count"}}, Samples: []vlib.ASample{
		{Locs: []vlib.ALoc{n, x1, a, b}, Vals: []int64{10}}, // b > a > x1 > n
		{Locs: []vlib.ALoc{n, x2, b, a}, Vals: []int64{5}},  // a > b > x2 > n
		{Locs: []vlib.ALoc{n, x3, c, a, c}, Vals: []int64{7}},
		{Locs: []vlib.ALoc{n, x3, a, c}, Vals: []int64{7}},
		{Locs: []vlib.ALoc{a}, Vals: []int64{100}}, {Locs: []vlib.ALoc{b}, Vals: []int64{100}}, {Locs: []vlib.ALoc{c}, Vals: []int64{90}},
	}}
	p := vlib.NewConc(0).Profile(ap)
	for _, f := range [][]string{{"-dot", "-nodecount=4"}, {"-dot", "-nodecount=3"}, {"-dot", "-nodefraction=0.06"}, {"-tree", "-nodecount=4"}} {
		var first []byte
		for k := 0; k < reps*3; k++ {
			args := append(append([]string{"-functions", "-flat"}, f...), "-edgefraction=0", "-output=out", "src")
			res := vdrv.Run(vdrv.Opts{Args: args, Fetch: func(string) (*profile.Profile, error) { return p.Copy(), nil }})
			if res.Err != nil || res.Panic != nil {
				run.Violate("pipeline", "pipeline-error:"+strings.Join(f, ""), fmt.Sprint(res.Err, res.Panic), ap, nil)
				break
			}
			run.Count("redundant" + strings.Join(f, ""))
			if first == nil {
				first = res.Files["out"]
			} else if !bytes.Equal(first, res.Files["out"]) {
				run.Violate("pipeline", "nondeterministic-output:trimmed-"+strings.TrimLeft(f[0], "-"), fmt.Sprintf("run %d of %v differs from run 0:\n%s\nvs\n%s", k, f, clip(first), clip(res.Files["out"])), ap, nil)
				break
			}
		}
	}
}

func disasmPart(reps int) {
	m := &profile.Mapping{ID: 1, Start: 0x1000, Limit: 0x2000, File: "bin1"}
	p := &profile.Profile{SampleType: []*profile.ValueType{{Type: "samples", Unit: "count"}}, PeriodType: &profile.ValueType{Type: "cpu", Unit: "ns"}, Period: 1,
		Mapping: []*profile.Mapping{m}}
	for i, a := range []uint64{0x1104, 0x1204, 0x1304, 0x1404, 0x1504, 0x1208} {
		l := &profile.Location{ID: uint64(i + 1), Mapping: m, Address: a}
		name := "dup"
		switch a >> 8 {
		case 0x14:
			name = "other"
		case 0x15:
			name = "again"
		}
		fn := &profile.Function{ID: uint64(i + 1), Name: name, SystemName: name, Filename: "src.c"}
		p.Function = append(p.Function, fn)
		l.Line = []profile.Line{{Function: fn, Line: int64(a & 0xff)}}
		p.Location = append(p.Location, l)
		v := int64(5)
		if i == 5 {
			v = 0 // keeps the flat sums of the same-named symbols equal
		}
		p.Sample = append(p.Sample, &profile.Sample{Location: []*profile.Location{l}, Value: []int64{v}})
	}
	for _, f := range [][]string{{"-disasm=."}, {"-disasm=dup"}, {"-disasm=^(dup|again)$"}} {
		var first []byte
		for k := 0; k < reps*2; k++ {
			args := append(append([]string{"-flat"}, f...), "-output=out", "src")
			res := vdrv.Run(vdrv.Opts{Args: args, Obj: fakeObj{}, Fetch: func(string) (*profile.Profile, error) { return p.Copy(), nil }})
			if res.Panic != nil {
				run.Violate("pipeline", "pipeline-error:"+f[0], fmt.Sprint(res.Panic), nil, nil)
				break
			}
			if res.Err != nil {
				run.Note(fmt.Sprintf("%v: %v", f, res.Err))
				break
			}
			run.Count("disasm" + f[0])
			if first == nil {
				first = res.Files["out"]
			} else if !bytes.Equal(first, res.Files["out"]) {
				run.Violate("pipeline", "nondeterministic-output:"+strings.TrimLeft(f[0], "-"), fmt.Sprintf("run %d of %v differs from run 0:\n%s\nvs\n%s", k, f, clip(first), clip(res.Files["out"])), nil, nil)
				break
			}
		}
	}
}

var formats = [][]string{{"-top"}, {"-top", "-cum"}, {"-tree"}, {"-peek=."}, {"-dot"}, {"-dot", "-call_tree"}, {"-callgrind"}, {"-tags"}, {"-traces"}, {"-raw"}, {"-proto"}, {"-topproto"},
	{"-top", "-lines"}, {"-dot", "-files"}, {"-tree", "-addresses"}}

func pipeline(reps int, dump string) {
	r := vlib.NewRand(run.Seed + 8)
	conc := vlib.NewConc(0)
	profs := tieProfiles(r)
	for pi, ap := range profs {
		p := conc.Profile(ap)
		if dump != "" {
			var b bytes.Buffer
			p.Write(&b)
			os.WriteFile(filepath.Join(dump, fmt.Sprintf("p%d.pb.gz", pi)), b.Bytes(), 0o644)
		}
		for _, f := range formats {
			var first []byte
			for k := 0; k < reps; k++ {
				args := append(append([]string{}, f...), "-nodecount=0", "-nodefraction=0", "-edgefraction=0", "-output=out", "src")
				if !hasGran(f) {
					args = append([]string{"-functions"}, args...)
				}
				if !hasSort(f) {
					args = append([]string{"-flat"}, args...)
				}
				res := vdrv.Run(vdrv.Opts{Args: args, Fetch: func(string) (*profile.Profile, error) { return p.Copy(), nil }})
				if res.Err != nil && strings.Contains(res.Err.Error(), "no matches found") {
					break // an empty report is a legitimate answer for peek
				}
				if res.Err != nil || res.Panic != nil {
					run.Violate("pipeline", "pipeline-error:"+strings.Join(f, ""), fmt.Sprint(res.Err, res.Panic), ap, nil)
					break
				}
				run.Count(fmt.Sprintf("p%d%s", pi, strings.Join(f, "")))
				if first == nil {
					first = res.Files["out"]
				} else if !bytes.Equal(first, res.Files["out"]) {
					run.Violate("pipeline", "nondeterministic-output:"+strings.TrimLeft(f[0], "-"), fmt.Sprintf("run %d of %v differs from run 0:\n%s\nvs\n%s", k, f, clip(first), clip(res.Files["out"])), ap, nil)
					break
				}
			}
		}
	}
	redundantEdgesPart(reps)
	disasmPart(reps)
	disasmInlinedPart(reps)
	mergeRepeatPart(reps)
	legacyParseRepeatPart(reps)
	symbolizeRepeatPart(reps)
	listRepeatPart(reps)
	messagesRepeatPart(reps)
	// fetch completion order: three sources finishing in opposite orders
	delays := [][]time.Duration{{0, 15 * time.Millisecond, 30 * time.Millisecond}, {30 * time.Millisecond, 15 * time.Millisecond, 0}}
	for _, f := range [][]string{{"-proto"}, {"-raw"}, {"-top"}} {
		var outs [][]byte
		for _, d := range delays {
			d := d
			fetch := func(src string) (*profile.Profile, error) {
				i := int(src[len(src)-1] - '0')
				time.Sleep(d[i])
				return conc.Profile(profs[i+4]).Copy(), nil
			}
			args := append(append([]string{"-functions", "-flat"}, f...), "-nodecount=0", "-output=out", "s0", "s1", "s2")
			res := vdrv.Run(vdrv.Opts{Args: args, Fetch: fetch})
			if res.Err != nil || res.Panic != nil {
				run.Violate("fetch-order", "fetch-order-error", fmt.Sprint(res.Err, res.Panic), nil, nil)
				continue
			}
			run.Count("fetchorder" + f[0] + fmt.Sprint(d))
			outs = append(outs, res.Files["out"])
		}
		if len(outs) == 2 && !bytes.Equal(outs[0], outs[1]) {
			run.Violate("fetch-order", "fetch-completion-order:"+strings.TrimLeft(f[0], "-"), fmt.Sprintf("%v output depends on which fetch completes first:\n%s\nvs\n%s", f, clip(outs[0]), clip(outs[1])), nil, nil)
		}
	}
}

// merging is where samples meet: the same (stack, labels) several times within a source and across sources, with
// every number of string and numeric label keys from 0 to 4 (the keys of the maps the merge key is built from),
// several comments per source; the combined outputs must be byte-identical run after run
func mergeRepeatPart(reps int) {
	m := vlib.AMap{Build: "B01", File: "bin1", Start: 16, Size: 8}
	loc := func(name string, rel int64) vlib.ALoc {
		return vlib.ALoc{Map: m, Rel: rel, Lines: []vlib.ALine{{Fn: fn(name, name+".c"), Line: 1}}}
	}
	skeys := []string{"zone", "app", "tag", "user"}
	nkeys := []string{"align", "request", "latency", "bytes"} // two numeric keys: none of them is "bytes"
	mk := func(which int) vlib.AProf {
		var ss []vlib.ASample
		for ns := 0; ns <= 4; ns++ {
			for nn := 0; nn <= 4; nn += 2 {
				s := vlib.ASample{Vals: []int64{int64(1 + ns + which), int64(10 * (1 + nn))}, Locs: []vlib.ALoc{loc("leaf", int64(1+ns)), loc("root", 7)},
					Lab: []vlib.ASLab{}, Num: []vlib.ANLab{}}
				for k := 0; k < ns; k++ {
					s.Lab = append(s.Lab, vlib.ASLab{K: skeys[k], V: []string{fmt.Sprintf("v%d", k)}})
				}
				for k := 0; k < nn; k++ {
					s.Num = append(s.Num, vlib.ANLab{K: nkeys[k], V: []int64{int64(8 + k)}, U: []string{"bytes"}})
				}
				ss = append(ss, s, s) // twice within the source
			}
		}
		return vlib.AProf{ST: []vlib.AVT{{T: "samples", U: "count"}, {T: "cpu", U: "nanoseconds"}}, Samples: ss,
			Hdr: vlib.AHdr{Comments: []string{fmt.Sprintf("first of %d", which), "shared remark", fmt.Sprintf("last of %d", which)}}}
	}
	conc := vlib.NewConc(0)
	p0, p1 := conc.Profile(mk(0)), conc.Profile(mk(1))
	for _, srcs := range [][]string{{"s0"}, {"s0", "s1"}, {"-base=s1", "s0"}, {"-diff_base=s1", "s0"}} {
		for _, f := range [][]string{{"-proto"}, {"-raw"}, {"-traces"}, {"-tags"}, {"-top"}, {"-comments"}, {"-dot"}, {"-dot", "-call_tree"}} {
			var first []byte
			for k := 0; k < reps*3; k++ {
				args := append(append([]string{"-functions", "-flat"}, f...), "-nodecount=0", "-output=out")
				args = append(args, srcs...)
				res := vdrv.Run(vdrv.Opts{Args: args, Fetch: func(src string) (*profile.Profile, error) {
					if src == "s1" {
						return p1.Copy(), nil
					}
					return p0.Copy(), nil
				}})
				if res.Err != nil || res.Panic != nil {
					run.Violate("merge-repeat", "merge-repeat-error:"+f[0], fmt.Sprint(res.Err, res.Panic), nil, nil)
					break
				}
				run.Count("mergerepeat" + f[0] + strings.Join(srcs, ","))
				if first == nil {
					first = res.Files["out"]
				} else if !bytes.Equal(first, res.Files["out"]) {
					run.Violate("merge-repeat", "nondeterministic-merge:"+strings.TrimLeft(f[0], "-"), fmt.Sprintf("run %d of %v %v differs from run 0:\n%s\nvs\n%s", k, f, srcs, clip(first), clip(res.Files["out"])), nil, nil)
					break
				}
			}
		}
	}
}

// symOnly answers SourceLine with a name that depends on the binary and the address; nothing else
type symObj struct{}
type symFile struct{ name string }

func (symObj) Open(file string, start, limit, offset uint64, rel string) (plugin.ObjFile, error) {
	return symFile{file}, nil
}
func (symObj) Disasm(file string, start, end uint64, intel bool) ([]plugin.Inst, error) {
	return nil, fmt.Errorf("no disassembler")
}
func (f symFile) Name() string                        { return f.name }
func (f symFile) ObjAddr(addr uint64) (uint64, error) { return addr, nil }
func (f symFile) BuildID() string                     { return "" }
func (f symFile) Close() error                        { return nil }
func (f symFile) SourceLine(addr uint64) ([]plugin.Frame, error) {
	return []plugin.Frame{{Func: fmt.Sprintf("%s_fn%x", f.name, addr&0xff), File: f.name + ".c", Line: int(addr & 0xff)}}, nil
}
func (f symFile) Symbols(r *regexp.Regexp, addr uint64) ([]*plugin.Sym, error) { return nil, nil }

// an unsymbolized profile over several binaries, symbolized by the driver's own symbolizer: the function table it
// builds (ids, order) and with it the bytes of -proto are the same in every run
func symbolizeRepeatPart(reps int) {
	p := &profile.Profile{SampleType: []*profile.ValueType{{Type: "samples", Unit: "count"}}, PeriodType: &profile.ValueType{Type: "cpu", Unit: "ns"}, Period: 1}
	for mi, file := range []string{"bin1", "libz", "libc", "liba", "libm"} {
		m := &profile.Mapping{ID: uint64(mi + 1), Start: uint64(0x1000 * (mi + 1)), Limit: uint64(0x1000 * (mi + 2)), File: file}
		p.Mapping = append(p.Mapping, m)
		for k := 0; k < 3; k++ {
			l := &profile.Location{ID: uint64(len(p.Location) + 1), Mapping: m, Address: m.Start + uint64(0x10*(k+1))}
			p.Location = append(p.Location, l)
			p.Sample = append(p.Sample, &profile.Sample{Location: []*profile.Location{l}, Value: []int64{int64(1 + mi + k)}})
		}
	}
	for _, f := range [][]string{{"-proto"}, {"-raw"}, {"-top"}} {
		var first []byte
		for k := 0; k < reps*3; k++ {
			args := append(append([]string{"-functions", "-flat"}, f...), "-nodecount=0", "-output=out", "src")
			res := vdrv.Run(vdrv.Opts{Args: args, Obj: symObj{}, RealSym: true, Fetch: func(string) (*profile.Profile, error) { return p.Copy(), nil }})
			if res.Err != nil || res.Panic != nil {
				run.Violate("pipeline", "symbolize-repeat-error:"+f[0], fmt.Sprint(res.Err, res.Panic), nil, nil)
				break
			}
			run.Count("symrepeat" + f[0])
			if k == 0 && f[0] == "-top" && !strings.Contains(string(res.Files["out"]), "libz_fn10") {
				run.Infra("symbolize-repeat: the profile was not symbolized:\n" + clip(res.Files["out"]))
				break
			}
			if first == nil {
				first = res.Files["out"]
			} else if !bytes.Equal(first, res.Files["out"]) {
				run.Violate("pipeline", "nondeterministic-symbolization:"+strings.TrimLeft(f[0], "-"), fmt.Sprintf("run %d of %v differs from run 0:\n%s\nvs\n%s", k, f, clip(first), clip(res.Files["out"])), nil, nil)
				break
			}
		}
	}
}

// source listings: two functions of one name in one file (overloads, file-local functions of included files), the
// second starting earlier and sampled later than the first; the listing covers the lines of both, in every run
func listRepeatPart(reps int) {
	dir, err := os.MkdirTemp("", "c08-src-")
	if err != nil {
		run.Infra(err.Error())
		return
	}
	defer os.RemoveAll(dir)
	src := filepath.Join(dir, "dup.c")
	var sb strings.Builder
	for i := 1; i <= 60; i++ {
		fmt.Fprintf(&sb, "/* line %d */\n", i)
	}
	os.WriteFile(src, []byte(sb.String()), 0o644)
	m := &profile.Mapping{ID: 1, Start: 0x1000, Limit: 0x2000, File: "bin1", HasFunctions: true, HasFilenames: true, HasLineNumbers: true}
	f1 := &profile.Function{ID: 1, Name: "dup", SystemName: "dup", Filename: src, StartLine: 10}
	f2 := &profile.Function{ID: 2, Name: "dup", SystemName: "dup", Filename: src, StartLine: 5}
	l1 := &profile.Location{ID: 1, Mapping: m, Address: 0x1010, Line: []profile.Line{{Function: f1, Line: 12}}}
	l2 := &profile.Location{ID: 2, Mapping: m, Address: 0x1020, Line: []profile.Line{{Function: f2, Line: 30}}}
	p := &profile.Profile{SampleType: []*profile.ValueType{{Type: "samples", Unit: "count"}}, PeriodType: &profile.ValueType{Type: "cpu", Unit: "ns"}, Period: 1,
		Mapping: []*profile.Mapping{m}, Function: []*profile.Function{f1, f2}, Location: []*profile.Location{l1, l2},
		Sample: []*profile.Sample{{Location: []*profile.Location{l1}, Value: []int64{3}}, {Location: []*profile.Location{l2}, Value: []int64{5}}}}
	var first []byte
	for k := 0; k < reps*10; k++ {
		res := vdrv.Run(vdrv.Opts{Args: []string{"-list=dup", "-output=out", "src"}, Fetch: func(string) (*profile.Profile, error) { return p.Copy(), nil }})
		if res.Err != nil || res.Panic != nil {
			run.Violate("pipeline", "list-repeat-error", fmt.Sprint(res.Err, res.Panic), nil, nil)
			return
		}
		run.Count("listrepeat")
		out := res.Files["out"]
		if k == 0 && !bytes.Contains(out, []byte("/* line 12 */")) {
			run.Infra("list-repeat: no source in the listing:\n" + clip(out))
			return
		}
		// every sampled line is in the listing
		for _, ln := range []string{"/* line 12 */", "/* line 30 */"} {
			if !bytes.Contains(out, []byte(ln)) {
				run.Violate("pipeline", "list-sampled-line-missing", fmt.Sprintf("run %d: the listing of dup lacks the sampled %s\n%s", k, ln, clip(out)), nil, nil)
				return
			}
		}
		if first == nil {
			first = out
		} else if !bytes.Equal(first, out) {
			run.Violate("pipeline", "nondeterministic-output:list", fmt.Sprintf("run %d of -list=dup differs from run 0:\n%s\nvs\n%s", k, clip(first), clip(out)), nil, nil)
			return
		}
	}
}

// what pprof tells the user is output too (the terminal shows it, the web UI embeds it in every page): a profile in
// which several numeric tags were recorded with conflicting units gives the same diagnostics, in the same order, every time
func messagesRepeatPart(reps int) {
	fn := &profile.Function{ID: 1, Name: "f", SystemName: "f", Filename: "f.c"}
	l := &profile.Location{ID: 1, Line: []profile.Line{{Function: fn, Line: 1}}}
	p := &profile.Profile{SampleType: []*profile.ValueType{{Type: "samples", Unit: "count"}}, PeriodType: &profile.ValueType{Type: "cpu", Unit: "ns"}, Period: 1,
		Function: []*profile.Function{fn}, Location: []*profile.Location{l}}
	for i, k := range []string{"alpha", "beta", "gamma", "delta", "epsilon"} {
		p.Sample = append(p.Sample,
			&profile.Sample{Location: []*profile.Location{l}, Value: []int64{int64(i + 1)}, NumLabel: map[string][]int64{k: {8}}, NumUnit: map[string][]string{k: {"bytes"}}},
			&profile.Sample{Location: []*profile.Location{l}, Value: []int64{int64(i + 2)}, NumLabel: map[string][]int64{k: {9}}, NumUnit: map[string][]string{k: {"kilobytes"}}})
	}
	first := ""
	for k := 0; k < reps*10; k++ {
		res := vdrv.Run(vdrv.Opts{Args: []string{"-top", "-output=out", "src"}, Fetch: func(string) (*profile.Profile, error) { return p.Copy(), nil }})
		if res.Err != nil || res.Panic != nil {
			run.Violate("pipeline", "messages-repeat-error", fmt.Sprint(res.Err, res.Panic), nil, nil)
			return
		}
		run.Count("messagesrepeat")
		msgs := strings.Join(res.UIErr, "\n")
		if k == 0 {
			if strings.Count(msgs, "also encountered unit") < 2 {
				run.Infra("messages-repeat: the unit-conflict diagnostics did not appear:\n" + msgs)
				return
			}
			first = msgs
		} else if msgs != first {
			run.Violate("pipeline", "nondeterministic-output:messages", fmt.Sprintf("run %d of -top on the same profile prints its diagnostics in another order:\n%s\nvs run 0\n%s", k, msgs, first), nil, nil)
			return
		}
	}
}

// parsing is deterministic too: small legacy binary CPU profiles (1..4 samples whose callers differ or agree; the
// parser's heuristics count frames in maps) parsed again and again give the same profile
func legacyParseRepeatPart(reps int) {
	mk := func(stacks [][]uint64) []byte {
		w := []uint64{0, 3, 0, 100, 0}
		for _, st := range stacks {
			w = append(w, 1, uint64(len(st)))
			w = append(w, st...)
		}
		w = append(w, 0, 1, 0)
		var b bytes.Buffer
		for _, x := range w {
			var le [8]byte
			for i := 0; i < 8; i++ {
				le[i] = byte(x >> (8 * uint(i)))
			}
			b.Write(le[:])
		}
		b.WriteString("00400000-00500000 r-xp 00000000 00:00 0 /bin/prog\n")
		return b.Bytes()
	}
	docs := map[string][]byte{
		"two-different-callers":   mk([][]uint64{{0x400010, 0x400020}, {0x400030, 0x400040}}),
		"two-deep":                mk([][]uint64{{0x400010, 0x400020, 0x400050}, {0x400030, 0x400040, 0x400050}}),
		"two-same-caller":         mk([][]uint64{{0x400010, 0x400020}, {0x400030, 0x400020}}),
		"three-different-callers": mk([][]uint64{{0x400010, 0x400020}, {0x400030, 0x400040}, {0x400050, 0x400060}}),
		"one":                     mk([][]uint64{{0x400010, 0x400020}}),
		"four-two-and-two":        mk([][]uint64{{0x400010, 0x400020}, {0x400030, 0x400020}, {0x400050, 0x400040}, {0x400060, 0x400040}}),
	}
	for name, doc := range docs {
		first := ""
		for k := 0; k < reps*10; k++ {
			p, err := profile.ParseData(doc)
			got := ""
			if err != nil {
				got = "error: " + err.Error()
			} else {
				got = p.String()
			}
			run.Count("legacyparse|" + name)
			if k == 0 {
				first = got
			} else if got != first {
				run.Violate("parse-repeat", "nondeterministic-parse:"+name, fmt.Sprintf("parse %d of the same bytes differs from parse 0:\n%s\nvs\n%s", k, clip([]byte(first)), clip([]byte(got))), nil, nil)
				break
			}
		}
	}
}

func hasGran(f []string) bool {
	for _, a := range f {
		switch a {
		case "-lines", "-files", "-addresses", "-functions", "-filefunctions":
			return true
		}
	}
	return false
}
func hasSort(f []string) bool {
	for _, a := range f {
		if a == "-cum" || a == "-flat" {
			return true
		}
	}
	return false
}

func clip(b []byte) string {
	if len(b) > 1500 {
		return string(b[:1500]) + "..."
	}
	return string(b)
}

func main() {
	run = vlib.NewRun("C08")
	seen := map[string]bool{}
	run.EachCase(func(i int, raw json.RawMessage) {
		var c ocase
		if err := json.Unmarshal(raw, &c); err != nil {
			run.Infra("case decode: " + err.Error())
			return
		}
		comparatorCase(raw, &c, seen)
		if len(seen)%900 == 1 {
			run.Sample(json.RawMessage(raw))
		}
	})
	reps := 12
	if run.Tier == "thorough" {
		reps = 24
	}
	dump := ""
	if strings.HasPrefix(run.Extra, "dump=") {
		dump = strings.TrimPrefix(run.Extra, "dump=")
	}
	pipeline(reps, dump)
	run.Finish("part 1: every set of 2 (thorough: 3) elements from tie-rich attribute domains (weights of equal magnitude and opposite sign, equal flat and cum, equal names in different object files, equal tag weights) for the node orders flat/cum, the edge order and the tag orders, each sorted by the real comparator from EVERY input permutation (edges: fresh maps); part 2: 8 tie-rich profiles x 15 format/option combinations rendered 12 (24) times in-process, 3 formats under opposite fetch completion orders; non-trivial = set with a tie in its most significant key, or pipeline run, counted distinct")
}
