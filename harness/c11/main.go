// C11 harness: replays Prune.tla's cases on the real Prune / PruneFrom /
// RemoveUninteresting (anchored compilation of the profile's own
// drop_frames/keep_frames) and through `pprof -proto` / `-prune_from`.
package main

import (
	"bytes"
	"encoding/json"
	"fmt"
	"regexp"
	"sort"
	"strings"

	"github.com/google/pprof/internal/zzverif/vdrv"
	"github.com/google/pprof/internal/zzverif/vlib"
	"github.com/google/pprof/profile"
)

type pcase struct {
	Op      string         `json:"op"`
	Samples []vlib.ASample `json:"samples"`
	Drop    []string       `json:"drop"`
	Keep    []string       `json:"keep"`
	Exp     []vlib.AAbs    `json:"exp"`
	Cls     []string       `json:"cls"`
	SCls    [][]string     `json:"scls"` // per sample: its own classes and those of the samples it shares a location with
}

var (
	run  *vlib.Run
	conc = vlib.NewConc(0)
)

func main() {
	run = vlib.NewRun("C11")
	run.EachCase(func(i int, raw json.RawMessage) {
		var c pcase
		if err := json.Unmarshal(raw, &c); err != nil {
			run.Infra("case decode: " + err.Error())
			return
		}
		check(raw, &c, i)
		if i%2500 == 0 {
			run.Sample(json.RawMessage(raw))
		}
	})
	run.Finish("cases = TLC-enumerated profiles (first sample: every stack shape of depth 1..3 over single-line, 2-line and 3-line inlined locations whose names are drawn from {a, b, u, .a, a(int), ab, xb} and an unsymbolised location; second sample shares the first one's root-most location in a position where the rule applies differently) x every drop set over {a, b, ab} x keep sets, for Prune and PruneFrom; each replayed through RemoveUninteresting (expression as an unparenthesised alternation), Prune/PruneFrom with compiled regexps, with shared and with duplicated locations, and through the driver; non-trivial = case in which a frame is removed, distinct by (expression, expected result)")
}

// alternation renders a set of simplified names as drop_frames text: a bare
// alternation (no parentheses), as profiles in the wild carry it.
func alternation(names []string) string {
	var q []string
	for _, n := range names {
		q = append(q, regexp.QuoteMeta(n))
	}
	sort.Strings(q)
	return strings.Join(q, "|")
}

func seqDiff(exp []vlib.AAbs, got []vlib.AAbs) string {
	badSample = -1
	if len(exp) != len(got) {
		return fmt.Sprintf("%d samples, want %d (the number of samples must not change)", len(got), len(exp))
	}
	for i := range exp {
		e := conc.ExpKey(exp[i].Key).Canon() + fmt.Sprint(exp[i].Vals)
		g := got[i].Key.Canon() + fmt.Sprint(got[i].Vals)
		if e != g {
			badSample = i
			return fmt.Sprintf("sample %d:\n got  %s\n want %s", i, g, e)
		}
	}
	return ""
}

// badSample is the index of the first differing sample found by the last seqDiff call (-1: the count differs)
var badSample = -1

// classify names the class of the failing input as computed by the specification
// (Prune.tla Classes): "plain" when the location-granular mechanism can follow the definition.
func classify(c *pcase, d string) string {
	cls := c.Cls
	if badSample >= 0 && badSample < len(c.SCls) {
		cls = c.SCls[badSample]
	} else if badSample < 0 {
		cls = nil // a changed number of samples is never excused
	}
	if len(cls) == 0 {
		return "plain"
	}
	s := append([]string{}, cls...)
	sort.Strings(s)
	return strings.Join(s, "+")
}

func nontrivial(c *pcase) string {
	in := 0
	for _, s := range c.Samples {
		for _, l := range s.Locs {
			if len(l.Lines) == 0 {
				in++
			}
			in += len(l.Lines)
		}
	}
	out := 0
	for _, a := range c.Exp {
		out += len(a.Key.Frames)
	}
	if in == out {
		return ""
	}
	b, _ := json.Marshal([]interface{}{c.Op, c.Drop, c.Keep, c.Exp})
	return string(b)
}

func check(raw json.RawMessage, c *pcase, idx int) {
	run.Count(nontrivial(c))
	ap := vlib.AProf{ST: []vlib.AVT{{T: "s1", U: "u1"}, {T: "s2", U: "u2"}}, Samples: c.Samples}
	for _, share := range []int{1, 0} {
		cc := *conc
		cc.Share = share
		func() {
			defer func() {
				if r := recover(); r != nil {
					run.Violate("api", c.Op+":panic", fmt.Sprint(r), raw, &cc)
				}
			}()
			p := cc.Profile(ap)
			switch c.Op {
			case "prune":
				p.DropFrames = alternation(c.Drop)
				p.KeepFrames = alternation(c.Keep)
				if err := p.RemoveUninteresting(); err != nil {
					run.Violate("api", "prune:error", err.Error(), raw, &cc)
					return
				}
			case "prunefrom":
				p.PruneFrom(regexp.MustCompile("^(" + alternation(c.Drop) + ")$"))
			}
			if err := p.CheckValid(); err != nil {
				run.Violate("api", c.Op+":invalid", err.Error(), raw, &cc)
			}
			if d := seqDiff(c.Exp, vlib.Project(p)); d != "" {
				run.Violate("api", fmt.Sprintf("%s:%s", c.Op, classify(c, d)), d, raw, &cc)
			}
		}()
	}
	// through the driver (a third of the cases): drop/keep frames travel in the profile, prune_from is an option
	if idx%3 == int(run.Seed)%3 {
		p := conc.Profile(ap)
		args := []string{"-proto"}
		if c.Op == "prune" {
			p.DropFrames = alternation(c.Drop)
			p.KeepFrames = alternation(c.Keep)
		} else {
			args = append(args, "-prune_from=^("+alternation(c.Drop)+")$")
		}
		args = append(args, "-output=out", "src")
		r := vdrv.Run(vdrv.Opts{Args: args, Fetch: func(string) (*profile.Profile, error) { return p.Copy(), nil }})
		if r.Err != nil || r.Panic != nil {
			run.Violate("driver", c.Op+":driver-error", fmt.Sprint(r.Err, r.Panic), raw, conc)
			return
		}
		q, err := profile.Parse(bytes.NewReader(r.Files["out"]))
		if err != nil {
			run.Violate("driver", c.Op+":driver-output-unparsable", err.Error(), raw, conc)
			return
		}
		if d := seqDiff(c.Exp, vlib.Project(q)); d != "" {
			run.Violate("driver", fmt.Sprintf("%s:%s", c.Op, classify(c, d)), d, raw, conc)
		}
	}
}
