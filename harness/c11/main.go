// C11 harness: replays Prune.tla's cases on the real Prune / PruneFrom /
// RemoveUninteresting (anchored compilation of the profile's own
// drop_frames/keep_frames) and through `pprof -proto` / `-prune_from`.
package main

import (
	"bytes"
	"encoding/json"
	"fmt"
	"regexp"
	"sort"
	"strings"

	"github.com/google/pprof/internal/zzverif/vdrv"
	"github.com/google/pprof/internal/zzverif/vlib"
	"github.com/google/pprof/profile"
)

type pcase struct {
	Op      string         `json:"op"`
	Samples []vlib.ASample `json:"samples"`
	Drop    []string       `json:"drop"`
	Keep    []string       `json:"keep"`
	Exp     []vlib.AAbs    `json:"exp"`
	Cls     []string       `json:"cls"`
	SCls    [][]string     `json:"scls"` // per sample: its own classes and those of the samples it shares a location with
}

var (
	run  *vlib.Run
	conc = vlib.NewConc(0)
)

func main() {
	run = vlib.NewRun("C11")
	run.EachCase(func(i int, raw json.RawMessage) {
		var c pcase
		if err := json.Unmarshal(raw, &c); err != nil {
			run.Infra("case decode: " + err.Error())
			return
		}
		check(raw, &c, i)
		if i%2500 == 0 {
			run.Sample(json.RawMessage(raw))
		}
	})
	legacyTables()
	run.Finish("cases = TLC-enumerated profiles (first sample: every stack shape of depth 1..3 over single-line, 2-line and 3-line inlined locations whose names are drawn from {a, b, u, .a, a(int), ab, xb} and an unsymbolised location; second sample shares the first one's root-most location in a position where the rule applies differently) x every drop set over {a, b, ab} x keep sets, for Prune and PruneFrom; each replayed through RemoveUninteresting (expression as an unparenthesised alternation), Prune/PruneFrom with compiled regexps, with shared and with duplicated locations, and through the driver; non-trivial = case in which a frame is removed, distinct by (expression, expected result)")
}

// legacyTables: the built-in expressions a legacy profile gets, observed through what they do. The parsed profile's
// single stack is given names afterwards (root -> leaf: main, <middle>, work, <leaf>) and RemoveUninteresting is
// applied: a profiler-internal leaf goes, a Go runtime frame the heap tables name as "keep" stays with all below it.
func legacyTables() {
	docs := map[string]string{
		"heap":       "heap profile: 1: 16 [1: 16] @ heapprofile\n1: 16 [1: 16] @ 0x10 0x20 0x30 0x40\n",
		"contention": "--- contentionz 1 ---\ncycles/second = 1000000000\nsampling period = 1\n100 1 @ 0x10 0x20 0x30 0x40\n",
		"gocount":    "goroutine profile: total 1\n1 @ 0x10 0x20 0x30 0x40\n",
	}
	type probe struct {
		kind, middle, leaf string
		want               []string // root -> leaf after pruning
	}
	probes := []probe{
		{"heap", "helper", "malloc", []string{"main", "helper", "work"}},
		{"heap", "helper", "tc_new", []string{"main", "helper", "work"}},
		{"heap", "runtime.panic", "malloc", []string{"main", "runtime.panic", "work"}}, // kept although runtime.* is dropped
		{"heap", "runtime.call32", "runtime.mallocgc", []string{"main", "runtime.call32", "work"}},
		{"heap", "runtime.reflectcall", "calloc", []string{"main", "runtime.reflectcall", "work"}},
		{"heap", "runtime.gopark", "malloc", []string{"main"}}, // an ordinary runtime frame is dropped with all below it
		{"contention", "helper", "Mutex::Unlock", []string{"main", "helper", "work"}},
		{"contention", "runtime.panic", "RecordLockProfileData", []string{"main", "runtime.panic", "work"}},
		{"contention", "helper", "malloc", []string{"main", "helper", "work", "malloc"}}, // not a lock-profiler frame
		{"gocount", "helper", "__pthread_sighandler", []string{"main", "helper", "work"}},
		{"gocount", "helper", "malloc", []string{"main", "helper", "work", "malloc"}},
	}
	for _, pr := range probes {
		p, err := profile.ParseData([]byte(docs[pr.kind]))
		run.Count("legacytables|" + pr.kind + "|" + pr.middle + "|" + pr.leaf)
		if err != nil || len(p.Sample) != 1 || len(p.Sample[0].Location) != 4 {
			run.Infra(fmt.Sprintf("legacy tables: %s document: %v", pr.kind, err))
			continue
		}
		names := []string{pr.leaf, "work", pr.middle, "main"} // leaf first, as the sample lists its locations
		for i, l := range p.Sample[0].Location {
			fn := &profile.Function{ID: uint64(i + 1), Name: names[i], SystemName: names[i]}
			p.Function = append(p.Function, fn)
			l.Line = []profile.Line{{Function: fn}}
		}
		if err := p.RemoveUninteresting(); err != nil {
			run.Violate("api", "legacy-tables:error", err.Error(), pr, nil)
			continue
		}
		var got []string
		for i := len(p.Sample[0].Location) - 1; i >= 0; i-- {
			for j := len(p.Sample[0].Location[i].Line) - 1; j >= 0; j-- {
				got = append(got, p.Sample[0].Location[i].Line[j].Function.Name)
			}
		}
		if strings.Join(got, ">") != strings.Join(pr.want, ">") {
			run.Violate("api", "legacy-tables:"+pr.kind, fmt.Sprintf("legacy %s profile with stack main > %s > work > %s: after the built-in frame dropping %v, want %v (drop_frames %q, keep_frames %q)", pr.kind, pr.middle, pr.leaf, got, pr.want, p.DropFrames, p.KeepFrames), pr, nil)
		}
	}
}

// alternation renders a set of simplified names as drop_frames text: a bare
// alternation (no parentheses), as profiles in the wild carry it.
func alternation(names []string) string {
	var q []string
	for _, n := range names {
		q = append(q, regexp.QuoteMeta(n))
	}
	sort.Strings(q)
	return strings.Join(q, "|")
}

func seqDiff(exp []vlib.AAbs, got []vlib.AAbs) string {
	badSample = -1
	if len(exp) != len(got) {
		return fmt.Sprintf("%d samples, want %d (the number of samples must not change)", len(got), len(exp))
	}
	for i := range exp {
		e := conc.ExpKey(exp[i].Key).Canon() + fmt.Sprint(exp[i].Vals)
		g := got[i].Key.Canon() + fmt.Sprint(got[i].Vals)
		if e != g {
			badSample = i
			return fmt.Sprintf("sample %d:\n got  %s\n want %s", i, g, e)
		}
	}
	return ""
}

// badSample is the index of the first differing sample found by the last seqDiff call (-1: the count differs)
var badSample = -1

// classify names the class of the failing input as computed by the specification
// (Prune.tla Classes): "plain" when the location-granular mechanism can follow the definition.
func classify(c *pcase, d string) string {
	cls := c.Cls
	if badSample >= 0 && badSample < len(c.SCls) {
		cls = c.SCls[badSample]
	} else if badSample < 0 {
		cls = nil // a changed number of samples is never excused
	}
	if len(cls) == 0 {
		return "plain"
	}
	s := append([]string{}, cls...)
	sort.Strings(s)
	return strings.Join(s, "+")
}

func nontrivial(c *pcase) string {
	in := 0
	for _, s := range c.Samples {
		for _, l := range s.Locs {
			if len(l.Lines) == 0 {
				in++
			}
			in += len(l.Lines)
		}
	}
	out := 0
	for _, a := range c.Exp {
		out += len(a.Key.Frames)
	}
	if in == out {
		return ""
	}
	b, _ := json.Marshal([]interface{}{c.Op, c.Drop, c.Keep, c.Exp})
	return string(b)
}

func check(raw json.RawMessage, c *pcase, idx int) {
	run.Count(nontrivial(c))
	ap := vlib.AProf{ST: []vlib.AVT{{T: "s1", U: "u1"}, {T: "s2", U: "u2"}}, Samples: c.Samples}
	for _, share := range []int{1, 0} {
		cc := *conc
		cc.Share = share
		func() {
			defer func() {
				if r := recover(); r != nil {
					run.Violate("api", c.Op+":panic", fmt.Sprint(r), raw, &cc)
				}
			}()
			p := cc.Profile(ap)
			switch c.Op {
			case "prune":
				p.DropFrames = alternation(c.Drop)
				p.KeepFrames = alternation(c.Keep)
				if err := p.RemoveUninteresting(); err != nil {
					run.Violate("api", "prune:error", err.Error(), raw, &cc)
					return
				}
			case "prunefrom":
				p.PruneFrom(regexp.MustCompile("^(" + alternation(c.Drop) + ")$"))
			}
			if err := p.CheckValid(); err != nil {
				run.Violate("api", c.Op+":invalid", err.Error(), raw, &cc)
			}
			if d := seqDiff(c.Exp, vlib.Project(p)); d != "" {
				run.Violate("api", fmt.Sprintf("%s:%s", c.Op, classify(c, d)), d, raw, &cc)
			}
		}()
	}
	// RemoveUninteresting is a function of the profile's CURRENT drop_frames / keep_frames and samples: a profile
	// object that was pruned before under other expressions (the other keep set with the same drop set, or the other
	// drop set with the same keep set), then given its samples back and the case's expressions, gives the case's result
	if c.Op == "prune" {
		func() {
			defer func() {
				if r := recover(); r != nil {
					run.Violate("api", "prune:panic", fmt.Sprint(r), raw, conc)
				}
			}()
			p := conc.Profile(ap)
			orig := p.Copy()
			other := func(names []string) string {
				if len(names) == 0 {
					return "a|b|ab|u|xb"
				}
				return ""
			}
			if idx%2 == 0 {
				p.DropFrames, p.KeepFrames = alternation(c.Drop), other(c.Keep)
			} else {
				p.DropFrames, p.KeepFrames = other(c.Drop), alternation(c.Keep)
			}
			if err := p.RemoveUninteresting(); err != nil {
				return
			}
			p.Sample, p.Location, p.Function, p.Mapping = orig.Sample, orig.Location, orig.Function, orig.Mapping
			p.DropFrames, p.KeepFrames = alternation(c.Drop), alternation(c.Keep)
			if err := p.RemoveUninteresting(); err != nil {
				run.Violate("api", "prune:error", err.Error(), raw, conc)
				return
			}
			// (compared with a fresh object under the same expressions, so that the recorded findings about what
			// Prune itself does are not reported a second time here)
			fresh := conc.Profile(ap)
			fresh.DropFrames, fresh.KeepFrames = alternation(c.Drop), alternation(c.Keep)
			if err := fresh.RemoveUninteresting(); err != nil {
				return
			}
			jf, _ := json.Marshal(vlib.Project(fresh))
			jp, _ := json.Marshal(vlib.Project(p))
			if !bytes.Equal(jf, jp) {
				run.Violate("api", "prune:after-earlier-prune", fmt.Sprintf("second RemoveUninteresting on the same profile object, expressions changed in between: %s; a fresh profile gives %s", jp, jf), raw, conc)
			}
		}()
	}
	// through the driver (a third of the cases): drop/keep frames travel in the profile, prune_from is an option
	if idx%3 == int(run.Seed)%3 {
		p := conc.Profile(ap)
		args := []string{"-proto"}
		if c.Op == "prune" {
			p.DropFrames = alternation(c.Drop)
			p.KeepFrames = alternation(c.Keep)
		} else {
			args = append(args, "-prune_from=^("+alternation(c.Drop)+")$")
		}
		args = append(args, "-output=out", "src")
		r := vdrv.Run(vdrv.Opts{Args: args, Fetch: func(string) (*profile.Profile, error) { return p.Copy(), nil }})
		if r.Err != nil || r.Panic != nil {
			run.Violate("driver", c.Op+":driver-error", fmt.Sprint(r.Err, r.Panic), raw, conc)
			return
		}
		q, err := profile.Parse(bytes.NewReader(r.Files["out"]))
		if err != nil {
			run.Violate("driver", c.Op+":driver-output-unparsable", err.Error(), raw, conc)
			return
		}
		if d := seqDiff(c.Exp, vlib.Project(q)); d != "" {
			run.Violate("driver", fmt.Sprintf("%s:%s", c.Op, classify(c, d)), d, raw, conc)
		}
	}
}
