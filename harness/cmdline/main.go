// Command cmdline replays the command lines enumerated by Cmdline.tla on the real
// driver.PProf and compares what the driver did with what the specification says the
// command line means: error class, mode, sources fetched, sample type, granularity,
// order and the number of ignored value selections.
package main

import (
	"encoding/json"
	"fmt"
	"regexp"
	"sort"
	"strings"
	"sync"

	"github.com/google/pprof/internal/plugin"
	"github.com/google/pprof/internal/zzverif/vdrv"
	"github.com/google/pprof/internal/zzverif/vlib"
	"github.com/google/pprof/profile"
)

type ccase struct {
	Flags   []string `json:"flags"`
	Nargs   int      `json:"nargs"`
	ExecOK  bool     `json:"execok"`
	Err     string   `json:"err"`
	Mode    string   `json:"mode"`
	SI      string   `json:"si"`
	Ignored int      `json:"ignored"`
	Fetched []string `json:"fetched"`
	Gran    string   `json:"gran"`
	Sort    string   `json:"sort"`
}

var run *vlib.Run

func mkProfile(base bool) *profile.Profile {
	fn := func(id uint64, name, file string) *profile.Function {
		return &profile.Function{ID: id, Name: name, SystemName: name, Filename: file}
	}
	f, g, h := fn(1, "f", "a.go"), fn(2, "g", "b.go"), fn(3, "h", "c.go")
	m := &profile.Mapping{ID: 1, Start: 0x1000, Limit: 0x9000, File: "bin", HasFunctions: true, HasFilenames: true, HasLineNumbers: true}
	loc := func(id uint64, fn *profile.Function, line int64) *profile.Location {
		return &profile.Location{ID: id, Mapping: m, Address: 0x1000 + id*16, Line: []profile.Line{{Function: fn, Line: line}}}
	}
	lf, lg, lh := loc(1, f, 1), loc(2, g, 2), loc(3, h, 3)
	p := &profile.Profile{
		SampleType: []*profile.ValueType{{Type: "alloc_objects", Unit: "count"}, {Type: "alloc_space", Unit: "count"},
			{Type: "inuse_objects", Unit: "count"}, {Type: "inuse_space", Unit: "count"}},
		PeriodType: &profile.ValueType{Type: "space", Unit: "bytes"},
		Period:     1,
		Function:   []*profile.Function{f, g, h},
		Mapping:    []*profile.Mapping{m},
		Location:   []*profile.Location{lf, lg, lh},
	}
	if base {
		p.Sample = []*profile.Sample{{Location: []*profile.Location{lf, lg}, Value: []int64{100, 100, 100, 100}}}
	} else {
		p.Sample = []*profile.Sample{
			{Location: []*profile.Location{lf, lg}, Value: []int64{10, 20, 30, 40}},
			{Location: []*profile.Location{lh}, Value: []int64{4, 5, 6, 7}},
		}
	}
	return p
}

type obj struct{ ok bool }
type ofile struct{ name string }

func (o obj) Open(file string, start, limit, offset uint64, rel string) (plugin.ObjFile, error) {
	if o.ok && file == "a0" {
		return ofile{file}, nil
	}
	return nil, fmt.Errorf("cannot open %s", file)
}
func (obj) Disasm(file string, start, end uint64, intel bool) ([]plugin.Inst, error) {
	return nil, fmt.Errorf("no disassembler")
}
func (f ofile) Name() string                                   { return f.name }
func (f ofile) ObjAddr(addr uint64) (uint64, error)            { return addr, nil }
func (f ofile) BuildID() string                                { return "" }
func (f ofile) SourceLine(addr uint64) ([]plugin.Frame, error) { return nil, nil }
func (f ofile) Symbols(r *regexp.Regexp, addr uint64) ([]*plugin.Sym, error) {
	return nil, nil
}
func (f ofile) Close() error { return nil }

var errClass = []struct{ class, text string }{
	{"nosource", "no profile source specified"},
	{"conflict", "conflicting options set"},
	{"manyformats", "must set at most one output format"},
	{"httpformat", "-http is not compatible with an output format"},
	{"nobrowser", "-no_browser only makes sense with -http"},
	{"bothbases", "-base and -diff_base flags cannot both be specified"},
	{"normnobase", "must have base profile to normalize by"},
}

func classify(err error) string {
	if err == nil {
		return ""
	}
	for _, e := range errClass {
		if strings.Contains(err.Error(), e.text) {
			return e.class
		}
	}
	return "other:" + err.Error()
}

func one(raw json.RawMessage, c *ccase) {
	has := map[string]bool{}
	for _, f := range c.Flags {
		has[f] = true
	}
	var args []string
	// a fixed but arbitrary order of the flags on the line: the meaning does not depend on it
	names := append([]string{}, c.Flags...)
	sort.Strings(names)
	if run.Seed%2 == 0 {
		for i, j := 0, len(names)-1; i < j; i, j = i+1, j-1 {
			names[i], names[j] = names[j], names[i]
		}
	}
	for _, f := range names {
		switch f {
		case "peek":
			args = append(args, "-peek=.")
		case "http":
			args = append(args, "-http=localhost:0")
		case "base":
			args = append(args, "-base=b0")
		case "diff_base":
			args = append(args, "-diff_base=b0")
		case "sample_index":
			args = append(args, "-sample_index=alloc_objects")
		default:
			args = append(args, "-"+f)
		}
	}
	args = append(args, "-output=out0")
	for i := 0; i < c.Nargs; i++ {
		args = append(args, fmt.Sprintf("a%d", i))
	}
	// The driver's option store is process-global and the choice flags (-lines, -cum ...) have no value of their
	// own to fall back to: a line that gives none of them inherits what the previous in-process run left. A real
	// command line starts in a fresh process, so the store is put back to its initial choices first.
	vdrv.Run(vdrv.Opts{Args: []string{"-functions", "-flat", "-top", "-output=reset", "r0"},
		Fetch: func(src string) (*profile.Profile, error) { return mkProfile(false), nil }})
	var mu sync.Mutex
	fetched := map[string]bool{}
	httpCalled := false
	res := vdrv.Run(vdrv.Opts{
		Args: args,
		Fetch: func(src string) (*profile.Profile, error) {
			mu.Lock()
			fetched[src] = true
			mu.Unlock()
			return mkProfile(src == "b0"), nil
		},
		Obj:   obj{c.ExecOK},
		Lines: []string{"top"},
		HTTP: func(a *plugin.HTTPServerArgs) error {
			httpCalled = true
			return nil
		},
	})
	key := strings.Join(names, ",") + fmt.Sprintf("/%d/%v", c.Nargs, c.ExecOK)
	run.Count(c.Err + ":" + c.Mode + ":" + key)
	bad := func(sig, detail string) {
		run.Violate("cmdline", sig, fmt.Sprintf("pprof %s: %s", strings.Join(args, " "), detail), raw, nil)
	}
	if res.Panic != nil {
		bad("panic", fmt.Sprint(res.Panic))
		return
	}
	got := classify(res.Err)
	if got != c.Err {
		bad("error:"+c.Err+":"+strings.SplitN(got, ":", 2)[0], fmt.Sprintf("specification: error class %q, driver: %q (%v)", c.Err, got, res.Err))
		return
	}
	var fl []string
	for s := range fetched {
		fl = append(fl, s)
	}
	sort.Strings(fl)
	want := append([]string{}, c.Fetched...)
	sort.Strings(want)
	if strings.Join(fl, ",") != strings.Join(want, ",") {
		bad("fetched:"+c.Mode, fmt.Sprintf("specification: sources %v fetched, driver fetched %v", want, fl))
	}
	if c.Err != "" {
		if len(res.Files) > 0 || httpCalled {
			bad("rejected-but-acted", fmt.Sprintf("a rejected command line produced output %v / started the web server %v", res.Order, httpCalled))
		}
		return
	}
	ign := 0
	for _, l := range res.UIErr {
		if strings.Contains(l, "Multiple value selections") {
			ign++
		}
	}
	if ign != c.Ignored {
		bad("ignored-selections", fmt.Sprintf("specification: %d value selection(s) reported as ignored, driver reported %d (%v)", c.Ignored, ign, res.UIErr))
	}
	mode := "interactive"
	out := strings.Join(res.UIOut, "\n")
	switch {
	case httpCalled:
		mode = "http"
	case res.Prompt == 0 && len(res.Files) > 0:
		mode = "cli"
	}
	if len(res.Files) > 0 {
		out = res.File("out0") // -output applies to the commands of an interactive session as well
	}
	if mode != c.Mode {
		bad("mode:"+c.Mode+":"+mode, fmt.Sprintf("specification: mode %s, driver: %s", c.Mode, mode))
		return
	}
	if mode == "http" {
		if len(res.Files) > 0 {
			bad("http-wrote-report", fmt.Sprintf("web mode wrote %v", res.Order))
		}
		return
	}
	// the legend is part of a command-line report; an interactive session prints it once, at its start
	if !strings.Contains(out+"\n"+strings.Join(res.UIOut, "\n"), "Type: "+c.SI+"\n") {
		bad("sample-type:"+c.SI, fmt.Sprintf("specification: report of sample type %s; output:\n%s", c.SI, out))
		return
	}
	if (mode == "cli" && !has["top"]) || has["base"] || has["diff_base"] {
		return // rows are read from top reports of the plain profile only
	}
	_, rows, err := vdrv.ParseTop(out)
	if err != nil {
		bad("top-unreadable", err.Error()+"\n"+out)
		return
	}
	idx := map[string]int{}
	for i, r := range rows {
		idx[r.Name] = i + 1
	}
	var nf, ng, nh string
	switch c.Gran {
	case "functions":
		nf, ng, nh = "f", "g", "h"
	case "files":
		nf, ng, nh = "a.go", "b.go", "c.go"
	case "lines":
		nf, ng, nh = "f a.go:1", "g b.go:2", "h c.go:3"
	}
	if idx[nf] == 0 || idx[ng] == 0 || idx[nh] == 0 {
		bad("granularity:"+c.Gran, fmt.Sprintf("specification: rows at granularity %s (%q, %q, %q); rows: %+v\n%s", c.Gran, nf, ng, nh, rows, out))
		return
	}
	gotSort := "flat"
	if idx[ng] < idx[nh] {
		gotSort = "cum"
	}
	if gotSort != c.Sort {
		bad("sort:"+c.Sort, fmt.Sprintf("specification: rows ordered by %s; rows: %+v", c.Sort, rows))
	}
}

func main() {
	run = vlib.NewRun("CMDLINE")
	run.EachCase(func(i int, raw json.RawMessage) {
		var c ccase
		if err := json.Unmarshal(raw, &c); err != nil {
			run.Infra("case decode: " + err.Error())
			return
		}
		one(raw, &c)
		if i%500 == 0 {
			run.Sample(raw)
		}
	})
	run.Finish("cases = Cmdline.tla: every set of command-line flags out of {top, traces, peek, lines, files, flat, cum, inuse_space, inuse_objects, alloc_space, http, no_browser, base, diff_base, normalize, sample_index} (quick: at most 4 of them) x 0..2 positional arguments x first argument opens as a binary or not; non-trivial = distinct (outcome, command line)")
}
