// C03 harness: replays TLC-generated merge cases on the real profile.Merge /
// Compact (Binding A) and records random merges as a trace for TraceMerge.tla
// (Binding B).
package main

import (
	"encoding/json"
	"fmt"
	"sort"
	"strings"

	"github.com/google/pprof/internal/zzverif/vlib"
	"github.com/google/pprof/profile"
)

type mcase struct {
	Kind  string       `json:"kind"`
	Profs []vlib.AProf `json:"profs"`
	Exp   struct {
		Bag    []vlib.AAbs `json:"bag"`
		Totals []int64     `json:"totals"`
		Hdr    vlib.AHdr   `json:"hdr"`
		N      int         `json:"nsamples"`
	} `json:"exp"`
}

var run *vlib.Run

func main() {
	run = vlib.NewRun("C03")
	run.EachCase(func(i int, raw json.RawMessage) {
		var c mcase
		if err := json.Unmarshal(raw, &c); err != nil {
			run.Infra("case decode: " + err.Error())
			return
		}
		var rc struct {
			Conc *vlib.Conc `json:"conc"`
		}
		if json.Unmarshal(raw, &rc); rc.Conc != nil { // replay of a recorded violation
			checkCase(raw, &c, rc.Conc, i)
			return
		}
		// two concretisations per case: the plain one and a seed/case dependent one
		checkCase(raw, &c, vlib.NewConc(0), i)
		checkCase(raw, &c, vlib.NewConc(run.Seed*7919+int64(i)), i)
		// a quarter of the cases once more with every mapping in the kernel half of the address space (addresses
		// beyond 2^63 are rebased like any others when the same binary is mapped elsewhere in another input)
		if i%4 == int(run.Seed)%4 {
			hc := vlib.NewConc(run.Seed*31 + int64(i))
			hc.MapBase = 0xffffffff80000000
			checkCase(raw, &c, hc, i)
		}
		if i%5000 == 0 {
			run.Sample(c)
		}
	})
	randomDriver()
	nilPeriodProbe()
	run.Finish("cases = TLC-enumerated (base stack, single-attribute variant stack) pairs x label pairs x value pairs x split into 1..3 profiles, plus header tuples; each replayed under every permutation of the inputs and 2 concretisations (ids dense/reversed/sparse, shared/duplicated entities, decorated strings); non-trivial = case whose inputs contain two samples with equal stack identity, or a sum that cancels to zero, or stacks differing in exactly one attribute (distinct by expected bag + split)")
}

func nontrivialKey(c *mcase) string {
	n := 0
	for _, p := range c.Profs {
		n += len(p.Samples)
	}
	if c.Kind == "hdr" {
		b, _ := json.Marshal(c.Profs)
		return "hdr:" + string(b)
	}
	if n >= 2 {
		b, _ := json.Marshal(c.Exp.Bag)
		return fmt.Sprintf("%d:%d:%s", len(c.Profs), n, b)
	}
	return ""
}

func hdrOf(p *profile.Profile) vlib.AHdr {
	return vlib.AHdr{Period: p.Period, Time: p.TimeNanos, Dur: p.DurationNanos, Comments: append([]string{}, p.Comments...),
		Dflt: p.DefaultSampleType, Doc: p.DocURL, Drop: p.DropFrames, Keep: p.KeepFrames}
}

func checkCase(raw json.RawMessage, c *mcase, base *vlib.Conc, idx int) {
	run.Count(nontrivialKey(c))
	perms := vlib.Perms(len(c.Profs))
	for pi, perm := range perms {
		func() {
			defer func() {
				if r := recover(); r != nil {
					run.Violate("panic", "panic", fmt.Sprint(r), raw, base)
				}
			}()
			ps := make([]*profile.Profile, len(perm))
			snaps := make([]vlib.Full, len(perm))
			for i, src := range perm {
				cc := *base
				cc.ProfIdx = src
				ps[i] = cc.Profile(c.Profs[src])
				snaps[i] = vlib.ProjectFull(ps[i])
			}
			out, err := profile.Merge(ps)
			if err != nil {
				run.Violate("merge-error", "merge-error", err.Error(), raw, base)
				return
			}
			if err := out.CheckValid(); err != nil {
				run.Violate("valid", "result-invalid", err.Error(), raw, base)
			}
			exp := base.ExpBag(c.Exp.Bag)
			obs := vlib.BagOf(vlib.Project(out))
			if d := exp.Diff(obs); d != "" {
				run.Violate("conservation", bagSig(exp, obs), fmt.Sprintf("perm %v: %s", perm, d), raw, base)
			}
			// as many samples as the specification's identity (Merge.tla SampleKey: mapping sizes by page count, ...)
			// tells apart: fewer = conflated, more = left unmerged
			if len(out.Sample) != c.Exp.N {
				run.Violate("conservation", fmt.Sprintf("sample-count:%+d", len(out.Sample)-c.Exp.N), fmt.Sprintf("perm %v: the result has %d samples, the identity rules give %d", perm, len(out.Sample), c.Exp.N), raw, base)
			}
			// nothing identical in every attribute may be left unmerged; no zero sample may remain
			seen := map[string]bool{}
			for _, s := range out.Sample {
				id := vlib.FullIdentity(s)
				if seen[id] {
					run.Violate("under-merge", "under-merge", "two result samples identical in every attribute: "+id, raw, base)
				}
				seen[id] = true
				z := true
				for _, v := range s.Value {
					if v != 0 {
						z = false
					}
				}
				if z {
					run.Violate("zero-left", "zero-left", "all-zero sample in the result", raw, base)
				}
			}
			// totals
			tot := make([]int64, len(c.Exp.Totals))
			for _, s := range out.Sample {
				for i, v := range s.Value {
					if i < len(tot) {
						tot[i] += v
					}
				}
			}
			if fmt.Sprint(tot) != fmt.Sprint(c.Exp.Totals) {
				run.Violate("totals", "totals", fmt.Sprintf("totals %v want %v", tot, c.Exp.Totals), raw, base)
			}
			// header rules: order-independent ones under every permutation, first-profile precedence on the identity permutation
			h := hdrOf(out)
			e := c.Exp.Hdr
			if h.Period != e.Period {
				run.Violate("header", "hdr.period", fmt.Sprintf("perm %v period %d want %d (maximum)", perm, h.Period, e.Period), raw, base)
			}
			if h.Time != e.Time {
				run.Violate("header", "hdr.time", fmt.Sprintf("perm %v time %d want %d (earliest non-zero)", perm, h.Time, e.Time), raw, base)
			}
			if h.Dur != e.Dur {
				run.Violate("header", "hdr.dur", fmt.Sprintf("perm %v duration %d want %d (sum)", perm, h.Dur, e.Dur), raw, base)
			}
			cs := func(x []string) string {
				y := append([]string{}, x...)
				sort.Strings(y)
				return strings.Join(y, "\x00")
			}
			if cs(h.Comments) != cs(base.Strs(e.Comments)) {
				run.Violate("header", "hdr.comments.set", fmt.Sprintf("perm %v comments %q want the set of %q", perm, h.Comments, e.Comments), raw, base)
			}
			if pi == 0 {
				if strings.Join(h.Comments, "\x00") != strings.Join(base.Strs(e.Comments), "\x00") {
					run.Violate("header", "hdr.comments.order", fmt.Sprintf("comments %q want %q", h.Comments, e.Comments), raw, base)
				}
				if h.Dflt != e.Dflt || h.Doc != e.Doc || h.Drop != e.Drop || h.Keep != e.Keep {
					run.Violate("header", "hdr.first", fmt.Sprintf("header %+v want %+v", h, e), raw, base)
				}
			}
			// compaction: same bag, idempotent
			c1 := out.Compact()
			c2 := c1.Compact()
			if d := obs.Diff(vlib.BagOf(vlib.Project(c1))); d != "" {
				run.Violate("compact", "compact-changes-bag", d, raw, base)
			}
			if !vlib.ProjectFull(c1).Equal(vlib.ProjectFull(c2)) {
				run.Violate("compact", "compact-not-idempotent", vlib.ProjectFull(c1).JSON()+" vs "+vlib.ProjectFull(c2).JSON(), raw, base)
			}
			// "nothing else is added": a stack that cancelled out leaves no location, function or mapping behind
			if len(out.Location) != len(c1.Location) || len(out.Function) != len(c1.Function) || len(out.Mapping) != len(c1.Mapping) {
				run.Violate("compact", "leftover-entities", fmt.Sprintf("the merge result holds %d/%d/%d locations/functions/mappings, of which only %d/%d/%d are referenced",
					len(out.Location), len(out.Function), len(out.Mapping), len(c1.Location), len(c1.Function), len(c1.Mapping)), raw, base)
			}
			// inputs neither modified ...
			for i := range ps {
				if !vlib.ProjectFull(ps[i]).Equal(snaps[i]) {
					run.Violate("inputs", "input-modified", fmt.Sprintf("input %d changed by Merge", perm[i]), raw, base)
				}
			}
			// ... nor aliased by the output
			vlib.Scribble(out)
			for i := range ps {
				if now := vlib.ProjectFull(ps[i]); !now.Equal(snaps[i]) {
					run.Violate("inputs", "input-aliased:"+aliasWhat(snaps[i], now), fmt.Sprintf("writing through the result changed input %d", perm[i]), raw, base)
				}
			}
			// Merge is a function of what its inputs ARE when it is called: a merge result whose samples are relabelled
			// afterwards (as the driver does for -diff_base) and merged again, next to a copy that still has the old
			// labels, gives what fresh copies of the two give
			if pi == 0 {
				if m1, err := profile.Merge(ps); err == nil {
					old := m1.Copy()
					for _, s := range m1.Sample {
						s.Label, s.NumLabel, s.NumUnit = map[string][]string{"relabelled": {"yes"}}, nil, nil
					}
					got, err1 := profile.Merge([]*profile.Profile{m1, old})
					ref, err2 := profile.Merge([]*profile.Profile{m1.Copy(), old.Copy()})
					if err1 != nil || err2 != nil {
						run.Violate("merge-error", "merge-error:remerge", fmt.Sprint(err1, err2), raw, base)
					} else if d := vlib.BagOf(vlib.Project(ref)).Diff(vlib.BagOf(vlib.Project(got))); d != "" || len(got.Sample) != len(ref.Sample) {
						run.Violate("conservation", "remerge-after-relabel", fmt.Sprintf("a merge result relabelled and merged again (%d samples) differs from the merge of fresh copies (%d samples): %s", len(got.Sample), len(ref.Sample), d), raw, base)
					}
				}
			}
		}()
	}
}

func aliasWhat(a, b vlib.Full) string {
	var w []string
	j := func(v interface{}) string { x, _ := json.Marshal(v); return string(x) }
	if j(a.ST) != j(b.ST) {
		w = append(w, "SampleType")
	}
	if j(a.PT) != j(b.PT) {
		w = append(w, "PeriodType")
	}
	if j(a.Comments) != j(b.Comments) {
		w = append(w, "Comments")
	}
	if j(a.Fns) != j(b.Fns) {
		w = append(w, "Function")
	}
	if j(a.Maps) != j(b.Maps) {
		w = append(w, "Mapping")
	}
	if j(a.Locs) != j(b.Locs) {
		w = append(w, "Location")
	}
	if j(a.Samples) != j(b.Samples) {
		w = append(w, "Sample")
	}
	return strings.Join(w, "+")
}

// bagSig names the class of a conservation failure: which attribute distinguishes
// two stacks that were conflated, when that is what happened.
func bagSig(exp, obs vlib.Bag) string {
	var missing, wrong []string
	for k, v := range exp {
		o, ok := obs[k]
		if !ok {
			missing = append(missing, k)
		} else if fmt.Sprint(o) != fmt.Sprint(v) {
			wrong = append(wrong, k)
		}
	}
	extra := 0
	for k := range obs {
		if _, ok := exp[k]; !ok {
			extra++
		}
	}
	sort.Strings(missing)
	sort.Strings(wrong)
	if len(missing) == 1 && len(wrong) <= 1 && extra <= 1 {
		// find the stack it was folded into
		var into string
		if len(wrong) == 1 {
			into = wrong[0]
		} else {
			for k := range obs {
				if _, ok := exp[k]; !ok {
					into = k
				}
			}
		}
		if into != "" {
			return "conflated:" + keyDiff(missing[0], into)
		}
	}
	return fmt.Sprintf("bag-mismatch:missing=%d,wrong=%d,extra=%d", len(missing), len(wrong), extra)
}

func keyDiff(a, b string) string {
	var x, y vlib.AKey
	json.Unmarshal([]byte(a), &x)
	json.Unmarshal([]byte(b), &y)
	var d []string
	if len(x.Frames) != len(y.Frames) {
		d = append(d, "depth")
	} else {
		for i := range x.Frames {
			f, g := x.Frames[i], y.Frames[i]
			at := fmt.Sprintf("@%d/%d", f.Pos, f.Of)
			if f.Bin != g.Bin {
				d = append(d, "bin"+at)
			}
			if f.Rel != g.Rel {
				d = append(d, "rel"+at)
			}
			if f.Name != g.Name {
				d = append(d, "name"+at)
			}
			if f.Sys != g.Sys {
				d = append(d, "sys"+at)
			}
			if f.File != g.File {
				d = append(d, "file"+at)
			}
			if f.Start != g.Start {
				d = append(d, "start"+at)
			}
			if f.Line != g.Line {
				d = append(d, "line"+at)
			}
			if f.Col != g.Col {
				d = append(d, "col"+at)
			}
			if f.Folded != g.Folded {
				d = append(d, "folded"+at)
			}
			if f.Pos != g.Pos || f.Of != g.Of {
				d = append(d, "nesting"+at)
			}
		}
	}
	jl := func(v interface{}) string { s, _ := json.Marshal(v); return string(s) }
	if jl(x.Lab) != jl(y.Lab) {
		d = append(d, "label")
	}
	if jl(x.Num) != jl(y.Num) {
		d = append(d, "numlabel")
	}
	return strings.Join(d, ",")
}

// ---- Binding B: random merges recorded for TraceMerge.tla ----

type mergeEvent struct {
	Op      string        `json:"op"`
	N       int           `json:"n"`
	Ins     [][]vlib.AAbs `json:"ins"`
	Out     []vlib.AAbs   `json:"out"`
	Hdrs    []vlib.AHdr   `json:"hdrs"`
	Hdr     vlib.AHdr     `json:"hdr"`
	Valid   bool          `json:"valid"`
	Intact  bool          `json:"intact"`  // inputs unchanged after the call and after scribbling over the result
	Compact bool          `json:"compact"` // Compact(Compact(out)) == Compact(out), same bag
	Dups    int           `json:"dups"`    // result samples identical in every attribute
}

func randomDriver() {
	r := vlib.NewRand(run.Seed)
	names := []string{"f", "g", "h", "main", "alloc", "run"}
	files := []string{"a.c", "b.c", "lib/x.go"}
	builds := []string{"B1", "B2", ""}
	for it := 0; it < run.N; it++ {
		np := 1 + r.Intn(3)
		conc := vlib.NewConc(int64(r.Intn(1 << 20)))
		var aps []vlib.AProf
		for p := 0; p < np; p++ {
			ap := vlib.AProf{ST: []vlib.AVT{{T: "t1", U: "u1"}, {T: "t2", U: "u2"}}, Hdr: vlib.AHdr{Period: int64(r.Intn(4)), Time: int64(r.Intn(3) * (1 + r.Intn(5))), Dur: int64(r.Intn(5)),
				Drop: "", Keep: ""}}
			for c := r.Intn(3); c > 0; c-- {
				ap.Hdr.Comments = append(ap.Hdr.Comments, r.Pick([]string{"c1", "c2", "c3"}))
			}
			if ap.Hdr.Comments == nil {
				ap.Hdr.Comments = []string{}
			}
			if r.Intn(3) == 0 {
				ap.Hdr.Dflt = r.Pick([]string{"t1", "t2"})
			}
			if r.Intn(3) == 0 {
				ap.Hdr.Doc = r.Pick([]string{"http://a", "http://b"})
			}
			ns := r.Intn(9)
			for s := 0; s < ns; s++ {
				as := vlib.ASample{Vals: []int64{int64(r.Intn(5) - 2), int64(r.Intn(3) - 1)}, Lab: []vlib.ASLab{}, Num: []vlib.ANLab{}}
				depth := r.Intn(4)
				for d := 0; d < depth; d++ {
					b := builds[r.Intn(len(builds))]
					m := vlib.AMap{Build: b, File: "bin", Start: int64(16 * (1 + r.Intn(2))), Size: 8, Off: 0}
					if b == "" && r.Bool() {
						m.File = "lib.so"
					}
					if r.Intn(8) == 0 {
						m = vlib.AMap{Nil: true}
					}
					l := vlib.ALoc{Map: m, Rel: int64(1 + r.Intn(3)), Folded: r.Intn(8) == 0, Lines: []vlib.ALine{}}
					for nl := r.Intn(4); nl > 0; nl-- {
						l.Lines = append(l.Lines, vlib.ALine{Fn: vlib.AFn{Name: r.Pick(names), Sys: r.Pick(names), File: r.Pick(files), Start: int64(r.Intn(2))},
							Line: int64(r.Intn(3)), Col: int64(r.Intn(2))})
					}
					as.Locs = append(as.Locs, l)
				}
				if r.Intn(3) == 0 {
					as.Lab = append(as.Lab, vlib.ASLab{K: r.Pick([]string{"k", "k2"}), V: []string{r.Pick([]string{"x", "y"})}})
				}
				if r.Intn(4) == 0 {
					n := 1 + r.Intn(2)
					nl := vlib.ANLab{K: "n"}
					for ; n > 0; n-- {
						nl.V = append(nl.V, int64(r.Intn(3)))
						nl.U = append(nl.U, r.Pick([]string{"", "u", "v"}))
					}
					as.Num = append(as.Num, nl)
				}
				ap.Samples = append(ap.Samples, as)
			}
			aps = append(aps, ap)
		}
		ev := mergeEvent{Op: "merge", N: it}
		ps := make([]*profile.Profile, np)
		snaps := make([]vlib.Full, np)
		for i := range aps {
			cc := *conc
			cc.ProfIdx = i
			ps[i] = cc.Profile(aps[i])
			snaps[i] = vlib.ProjectFull(ps[i])
			ev.Ins = append(ev.Ins, vlib.Project(ps[i]))
			ev.Hdrs = append(ev.Hdrs, hdrOf(ps[i]))
		}
		out, err := profile.Merge(ps)
		if err != nil {
			run.Violate("merge-error", "merge-error", err.Error(), aps, conc)
			continue
		}
		ev.Out = vlib.Project(out)
		ev.Hdr = hdrOf(out)
		ev.Valid = out.CheckValid() == nil
		seen := map[string]bool{}
		for _, s := range out.Sample {
			id := vlib.FullIdentity(s)
			if seen[id] {
				ev.Dups++
			}
			seen[id] = true
		}
		c1 := out.Compact()
		c2 := c1.Compact()
		ev.Compact = vlib.ProjectFull(c1).Equal(vlib.ProjectFull(c2)) && vlib.BagOf(ev.Out).Diff(vlib.BagOf(vlib.Project(c1))) == "" &&
			len(out.Location) == len(c1.Location) && len(out.Function) == len(c1.Function) && len(out.Mapping) == len(c1.Mapping)
		ev.Intact = true
		for i := range ps {
			if !vlib.ProjectFull(ps[i]).Equal(snaps[i]) {
				ev.Intact = false
			}
		}
		vlib.Scribble(out)
		for i := range ps {
			if !vlib.ProjectFull(ps[i]).Equal(snaps[i]) {
				ev.Intact = false
			}
		}
		run.Counter("random_merges", 1)
		run.Event(ev)
		// keep the concrete input so that a rejected event can be replayed
		run.Aux(map[string]interface{}{"n": it, "kind": "random", "profs": aps, "conc": conc})
	}
}

// nilPeriodProbe: an in-memory profile need not have a period type (Write, Copy and CheckValid accept that);
// two such profiles have EQUAL period types and merge like any others, and one with and one without are
// incompatible - an error, not a crash.
func nilPeriodProbe() {
	mk := func(pt *profile.ValueType, v int64) *profile.Profile {
		f := &profile.Function{ID: 1, Name: "f", SystemName: "f"}
		l := &profile.Location{ID: 1, Line: []profile.Line{{Function: f, Line: 1}}}
		return &profile.Profile{SampleType: []*profile.ValueType{{Type: "t", Unit: "u"}}, PeriodType: pt,
			Sample: []*profile.Sample{{Location: []*profile.Location{l}, Value: []int64{v}}}, Location: []*profile.Location{l}, Function: []*profile.Function{f}}
	}
	try := func(name string, ps []*profile.Profile, wantErr bool) {
		run.Count("nil-period|" + name)
		defer func() {
			if r := recover(); r != nil {
				run.Violate("header", "merge-panic:"+name, fmt.Sprintf("profile.Merge panicked: %v", r), name, nil)
			}
		}()
		out, err := profile.Merge(ps)
		switch {
		case wantErr && err == nil:
			run.Violate("header", "merge-accepted:"+name, "profiles with different period types were merged", name, nil)
		case !wantErr && err != nil:
			run.Violate("header", "merge-refused:"+name, err.Error(), name, nil)
		case !wantErr:
			if len(out.Sample) != 1 || out.Sample[0].Value[0] != 12 || out.PeriodType != nil {
				run.Violate("header", "merge-wrong:"+name, fmt.Sprintf("%d samples, period type %v", len(out.Sample), out.PeriodType), name, nil)
			}
		}
	}
	try("nil-period-types", []*profile.Profile{mk(nil, 5), mk(nil, 7)}, false)
	try("nil-and-set-period-type", []*profile.Profile{mk(nil, 5), mk(&profile.ValueType{Type: "cpu", Unit: "ns"}, 7)}, true)
	try("set-and-nil-period-type", []*profile.Profile{mk(&profile.ValueType{Type: "cpu", Unit: "ns"}, 5), mk(nil, 7)}, true)
}
