// Whole-run harness for Pprof.tla / TracePprof.tla: seeded random runs of the
// real driver.PProf (command-line mode and interactive sessions, 1-3 sources
// some of which fail, focus / ignore / sample_index / relative_percentages
// assignments, top and traces reports with per-command arguments, rejected and ignored lines) observed ONLY at the plug-in
// boundaries: Fetcher calls, the Symbolizer call with the profile it is
// given, the lines delivered by the UI, the files written through the
// Writer, the error returned. The events are written in the order they
// happened and validated by TLC against the machine of Pprof.tla.
package main

import (
	"encoding/json"
	"fmt"
	"net/http"
	"net/http/httptest"
	"net/url"
	"regexp"
	"sort"
	"strings"
	"sync"

	"github.com/google/pprof/internal/plugin"
	"github.com/google/pprof/internal/zzverif/vdrv"
	"github.com/google/pprof/internal/zzverif/vlib"
	"github.com/google/pprof/profile"
)

type asample struct {
	Stack []string `json:"stack"` // leaf first
	V     []int64  `json:"v"`
	B     bool     `json:"b"` // carries the diff-base mark (observed on the profile handed to the Symbolizer)
	T     string   `json:"t"` // value of the label "k" ("" = none)
}
type asrc struct {
	Name    string    `json:"name"`
	Ok      bool      `json:"ok"`
	Samples []asample `json:"samples"`
}
type row struct {
	Fn   string `json:"fn"`
	Flat int64  `json:"flat"`
	Cum  int64  `json:"cum"`
}
type erow struct {
	Src string `json:"src"`
	Dst string `json:"dst"`
	W   int64  `json:"w"`
}
type trow struct {
	Stack []string `json:"stack"`
	W     int64    `json:"w"`
}
type event struct {
	Ev       string    `json:"ev"`
	Run      int       `json:"run"`
	Srcs     []asrc    `json:"srcs,omitempty"`
	Bases    []asrc    `json:"bases"`
	Diff     bool      `json:"diff"` // the bases were given with -diff_base
	Drop     []string  `json:"drop"`
	Keep     []string  `json:"keep"`
	Src      string    `json:"src,omitempty"`
	Samples  []asample `json:"samples"`
	Opt      string    `json:"opt,omitempty"`
	Names    []string  `json:"names"`
	N        int       `json:"n"`
	B        bool      `json:"b"`
	Kind     string    `json:"kind,omitempty"`
	Rows     []row     `json:"rows"`
	Stacks   []trow    `json:"stacks"`
	Edges    []erow    `json:"edges"`
	Total    int64     `json:"total"`
	HasTotal bool      `json:"hastotal"`
	AF       []string  `json:"af"`   // focus given as an argument of the report command (this command only)
	AI       []string  `json:"ai"`   // ignore given as an argument (-name)
	AH       []string  `json:"ah"`   // hide given with the request (web)
	ASI      int       `json:"asi"`  // sample index given with the request (web), 0 = none
	ARel     string    `json:"arel"` // relative_percentages given with the request (web): "", "t", "f"
	AG       string    `json:"ag"`   // granularity given with the request (web): "", "functions", "files"
	ATF      []string  `json:"atf"`  // tagfocus given with the request (web)
	Text     string    `json:"text"`
}

var run *vlib.Run

var fnNames = []string{"a", "b", "c", "d", "ab"}

// concrete profile of one source: all sources describe the same program (same mapping, functions, addresses)
// the functions a and b share a file (files granularity merges them)
func fileOf(f string) string {
	switch f {
	case "a", "b":
		return "zz1.x"
	case "c":
		return "zz2.x"
	case "d":
		return "zz3.x"
	}
	return "zz4.x"
}

func fnIdx(f string) int {
	for i, n := range fnNames {
		if n == f {
			return i
		}
	}
	return 0
}

func concrete(s *asrc, idx int, seed int64, drop, keep []string, unsym bool) *profile.Profile {
	m := vlib.AMap{Build: "B01", File: "exe", Start: 16, Size: 8}
	fn := map[string]vlib.AFn{}
	for i, n := range fnNames {
		fn[n] = vlib.AFn{Name: n, Sys: n, File: fileOf(n)}
		_ = i
	}
	var ss []vlib.ASample
	for _, a := range s.Samples {
		var locs []vlib.ALoc
		for _, f := range a.Stack {
			k := fnIdx(f)
			locs = append(locs, vlib.ALoc{Map: m, Rel: int64(3 + 2*k), Lines: []vlib.ALine{{Fn: fn[f], Line: int64(10 + k)}}})
		}
		smp := vlib.ASample{Locs: locs, Vals: a.V}
		if a.T != "" {
			smp.Lab = []vlib.ASLab{{K: "k", V: []string{a.T}}}
		}
		ss = append(ss, smp)
	}
	c := vlib.NewConc(seed)
	c.StrMode = 0
	c.ProfIdx = idx
	if unsym {
		c.MapBase = 0x400000 // unsymbolized sources must agree on the addresses
	}
	p := c.Profile(vlib.AProf{ST: []vlib.AVT{{T: "s1", U: "count"}, {T: "s2", U: "count"}}, Samples: ss})
	// the profile's own frame-dropping rules: plain alternations, anchored by RemoveUninteresting
	p.DropFrames = strings.Join(drop, "|")
	p.KeepFrames = strings.Join(keep, "|")
	if unsym {
		// an address-only profile: the names arrive with the Symbolizer plug-in
		addrMu.Lock()
		for _, l := range p.Location {
			if len(l.Line) > 0 && l.Line[0].Function != nil {
				addrName[l.Address] = l.Line[0].Function.Name
			}
			l.Line = nil
		}
		addrMu.Unlock()
		p.Function = nil
	}
	return p
}

var (
	addrMu   sync.Mutex
	addrName = map[uint64]string{}
)

type line struct {
	text string // what is typed / the flag
	ev   event  // the abstract event it stands for
}

func anchored(names []string) string {
	if len(names) == 0 {
		return ""
	}
	return "^(" + strings.Join(names, "|") + ")$"
}

func randomLine(r *vlib.Rand, cli bool) line {
	pick := func() []string {
		n := 1 + r.Intn(2)
		var out []string
		seen := map[string]bool{}
		for len(out) < n {
			f := fnNames[r.Intn(len(fnNames))]
			if !seen[f] {
				seen[f] = true
				out = append(out, f)
			}
		}
		sort.Strings(out)
		return out
	}
	switch k := r.Intn(10); {
	case k < 2:
		ns := pick()
		if !cli && r.Intn(4) == 0 {
			ns = nil
		}
		return line{"focus=" + anchored(ns), event{Ev: "assign", Opt: "focus", Names: ns}}
	case k < 4:
		ns := pick()
		if !cli && r.Intn(4) == 0 {
			ns = nil
		}
		return line{"ignore=" + anchored(ns), event{Ev: "assign", Opt: "ignore", Names: ns}}
	case k < 5:
		if r.Intn(4) == 0 {
			// tag filters restricted to the key k
			vals := [][]string{{"x"}, {"y"}, {"x", "y"}, nil}[r.Intn(4)]
			if cli && vals == nil {
				vals = []string{"x"}
			}
			opt := []string{"tf", "ti"}[r.Intn(2)]
			name := map[string]string{"tf": "tagfocus", "ti": "tagignore"}[opt]
			text := name + "="
			if vals != nil {
				text += "k=" + anchored(vals)
			}
			return line{text, event{Ev: "assign", Opt: opt, Names: vals}}
		}
		if r.Intn(2) == 0 {
			ns := pick()
			if !cli && r.Intn(4) == 0 {
				ns = nil
			}
			opt := []string{"hide", "hide", "show"}[r.Intn(3)]
			return line{opt + "=" + anchored(ns), event{Ev: "assign", Opt: opt, Names: ns}}
		}
		n := r.Intn(2)
		return line{fmt.Sprintf("sample_index=%d", n), event{Ev: "assign", Opt: "si", N: n + 1}}
	case k < 6:
		if r.Intn(2) == 0 {
			g := []string{"files", "functions"}[r.Intn(2)]
			if cli {
				return line{g, event{Ev: "assign", Opt: "g", Text: g}} // the flag -files / -functions
			}
			switch r.Intn(3) {
			case 0:
				return line{g + "=true", event{Ev: "assign", Opt: "g", Text: g}}
			case 1:
				// the bare name of a choice is not an assignment: the session answers "unknown config field"
				return line{g, event{Ev: "noop"}}
			}
			return line{"granularity=" + g, event{Ev: "assign", Opt: "g", Text: g}}
		}
		b := r.Intn(2) == 0
		if r.Intn(3) == 0 {
			return line{fmt.Sprintf("mean=%v", b), event{Ev: "assign", Opt: "mean", B: b}}
		}
		return line{fmt.Sprintf("relative_percentages=%v", b), event{Ev: "assign", Opt: "rel", B: b}}
	case k < 8:
		kind := "top"
		switch r.Intn(6) {
		case 0:
			kind = "traces"
		case 1, 2:
			kind = "tree"
		case 3:
			kind = "dot"
		}
		l := line{kind, event{Ev: "report", Kind: kind}}
		if !cli && r.Intn(3) == 0 {
			// arguments of a report command apply to that command only
			if r.Intn(2) == 0 {
				f := fnNames[r.Intn(len(fnNames))]
				l.text += " ^" + f + "$"
				l.ev.AF = []string{f}
			}
			if r.Intn(2) == 0 {
				f := fnNames[r.Intn(len(fnNames))]
				l.text += " -^" + f + "$"
				l.ev.AI = []string{f}
			}
		}
		return l
	default:
		if cli {
			return line{"top", event{Ev: "report", Kind: "top"}}
		}
		// lines the session must reject or ignore without any effect
		bad := []string{"nosuchcommand", "top (", "nodecount=abc", "sample_index=nosuch", "", "list zzznomatch", "peek (", "o", "help top", "top -("}
		return line{bad[r.Intn(len(bad))], event{Ev: "noop"}}
	}
}

type recorder struct {
	mu  sync.Mutex
	evs []event
}

func (rc *recorder) add(e event) {
	rc.mu.Lock()
	rc.evs = append(rc.evs, e)
	rc.mu.Unlock()
}

type symRec struct {
	rc    *recorder
	unsym bool
}

func (s symRec) Symbolize(mode string, srcs plugin.MappingSources, p *profile.Profile) error {
	if s.unsym {
		// play the symbolizer: one function per address, as the plug-in contract allows
		fns := map[string]*profile.Function{}
		addrMu.Lock()
		for _, l := range p.Location {
			if len(l.Line) > 0 {
				continue
			}
			name := addrName[l.Address]
			f := fns[name]
			if f == nil {
				f = &profile.Function{ID: uint64(len(p.Function) + 1), Name: name, SystemName: name, Filename: fileOf(name)}
				fns[name] = f
				p.Function = append(p.Function, f)
			}
			l.Line = []profile.Line{{Function: f, Line: 1}}
		}
		addrMu.Unlock()
	}
	e := event{Ev: "sym", Samples: []asample{}}
	for _, sm := range p.Sample {
		var st []string
		for _, f := range vlib.FramesOf(sm) {
			st = append(st, f.Name)
		}
		t := ""
		if vs := sm.Label["k"]; len(vs) > 0 {
			t = vs[0]
		}
		e.Samples = append(e.Samples, asample{Stack: st, V: append([]int64{}, sm.Value...), B: sm.DiffBaseSample(), T: t})
	}
	s.rc.add(e)
	return nil
}

func fillReport(e *event, out string) error {
	switch e.Kind {
	case "top":
		lg, rows, err := vdrv.Top(out)
		if err != nil {
			return err
		}
		e.Rows = []row{}
		for _, n := range rows {
			e.Rows = append(e.Rows, row{Fn: n.Name, Flat: n.Flat, Cum: n.Cum})
		}
		e.Total, e.HasTotal = lg.Total, lg.HasShowing
	case "dot":
		lg, nodes, edges, err := vdrv.Dot(out)
		if err != nil {
			return err
		}
		e.Kind = "tree" // the same figures through another printer
		e.Rows = []row{}
		for _, n := range nodes {
			e.Rows = append(e.Rows, row{Fn: n.Name, Flat: n.Flat, Cum: n.Cum})
		}
		e.Edges = []erow{}
		for _, x := range edges {
			e.Edges = append(e.Edges, erow{Src: x.Src, Dst: x.Dst, W: x.W})
		}
		e.Total, e.HasTotal = lg.Total, lg.HasShowing
	case "tree":
		lg, nodes, edges, err := vdrv.Tree(out)
		if err != nil {
			return err
		}
		e.Rows = []row{}
		for _, n := range nodes {
			e.Rows = append(e.Rows, row{Fn: n.Name, Flat: n.Flat, Cum: n.Cum})
		}
		e.Edges = []erow{}
		for _, x := range edges {
			if x.Via == "out" { // every edge is listed twice: under its caller and under its callee
				e.Edges = append(e.Edges, erow{Src: x.Src, Dst: x.Dst, W: x.W})
			}
		}
		e.Total, e.HasTotal = lg.Total, lg.HasShowing
	case "traces":
		ts, err := vdrv.Traces(out)
		if err != nil {
			return err
		}
		// one entry per printed stack; equal stacks are printed once per sample of the (merged) profile
		agg := map[string]*trow{}
		var order []string
		for _, t := range ts {
			k := strings.Join(t.Frames, "\x00")
			if agg[k] == nil {
				agg[k] = &trow{Stack: t.Frames}
				order = append(order, k)
			}
			agg[k].W += t.W
		}
		e.Stacks = []trow{}
		for _, k := range order {
			if agg[k].W != 0 {
				e.Stacks = append(e.Stacks, *agg[k])
			}
		}
	}
	return nil
}

func randomSource(r *vlib.Rand, name string) asrc {
	s := asrc{Name: name, Ok: r.Intn(5) != 0, Samples: []asample{}}
	for k, n := 0, 1+r.Intn(4); k < n; k++ {
		depth := 1 + r.Intn(3)
		var st []string
		for d := 0; d < depth; d++ {
			st = append(st, fnNames[r.Intn(len(fnNames))])
		}
		s.Samples = append(s.Samples, asample{Stack: st, V: []int64{int64(r.Intn(6)), int64(r.Intn(40))}, T: []string{"", "", "x", "y"}[r.Intn(4)]})
	}
	return s
}

func pickSome(r *vlib.Rand, max int) []string {
	var out []string
	seen := map[string]bool{}
	for k, n := 0, r.Intn(max+1); k < n; k++ {
		f := fnNames[r.Intn(len(fnNames))]
		if !seen[f] {
			seen[f] = true
			out = append(out, f)
		}
	}
	sort.Strings(out)
	return out
}

var topTableRE = regexp.MustCompile(`makeTopTable\(\s*(-?\d+)\s*,\s*(\[.*\]|null)\s*\);`)

// webReport performs one /top request and reads the numbers embedded in the page.
func webReport(h http.Handler, query string, e *event) error {
	rec := httptest.NewRecorder()
	req, err := http.NewRequest("GET", "http://localhost/top?"+query, nil)
	if err != nil {
		return err
	}
	h.ServeHTTP(rec, req)
	if rec.Code != 200 {
		return fmt.Errorf("status %d: %s", rec.Code, rec.Body.String())
	}
	m := topTableRE.FindStringSubmatch(rec.Body.String())
	if m == nil {
		body := rec.Body.String()
		k := strings.Index(body, "makeTopTable(")
		if k2 := strings.LastIndex(body, "makeTopTable("); k2 > k {
			k = k2
		}
		if k < 0 {
			k = 0
		}
		end := k + 300
		if end > len(body) {
			end = len(body)
		}
		return fmt.Errorf("no top table in the page: %q", body[k:end])
	}
	var items []struct {
		Name      string
		Flat, Cum int64
	}
	if m[2] != "null" {
		if err := json.Unmarshal([]byte(m[2]), &items); err != nil {
			return err
		}
	}
	fmt.Sscan(m[1], &e.Total)
	e.HasTotal = true
	e.Rows = []row{}
	for _, it := range items {
		e.Rows = append(e.Rows, row{Fn: it.Name, Flat: it.Flat, Cum: it.Cum})
	}
	return nil
}

func oneRun(id int, r *vlib.Rand) {
	nsrc := 1 + r.Intn(3)
	var srcs, bases []asrc
	for i := 0; i < nsrc; i++ {
		srcs = append(srcs, randomSource(r, fmt.Sprintf("s%d", i+1)))
	}
	if r.Intn(4) == 0 {
		for i, n := 0, 1+r.Intn(2); i < n; i++ {
			bases = append(bases, randomSource(r, fmt.Sprintf("b%d", i+1)))
		}
	}
	var drop, keep []string
	if r.Intn(3) == 0 {
		drop = pickSome(r, 2)
		if len(drop) > 0 && r.Intn(3) == 0 {
			keep = pickSome(r, 1)
		}
	}
	byName := map[string]*asrc{}
	for i := range srcs {
		byName[srcs[i].Name] = &srcs[i]
	}
	for i := range bases {
		byName[bases[i].Name] = &bases[i]
	}
	unsym := r.Intn(3) == 0
	ctxOf := map[string]interface{}{"srcs": srcs, "bases": bases, "drop": drop, "keep": keep, "unsymbolized": unsym}
	rc := &recorder{}
	diff := len(bases) > 0 && r.Intn(2) == 0
	ctxOf["diff_base"] = diff
	rc.add(event{Ev: "config", Srcs: srcs, Bases: bases, Diff: diff, Drop: drop, Keep: keep})
	cseed := int64(r.Intn(1000))
	fetch := func(src string) (*profile.Profile, error) {
		rc.add(event{Ev: "fetch", Src: src})
		s := byName[src]
		if s == nil {
			return nil, fmt.Errorf("unknown source %s", src)
		}
		if !s.Ok {
			return nil, fmt.Errorf("source %s is down", src)
		}
		idx := int(src[1] - '1')
		if src[0] == 'b' {
			idx += 3
		}
		return concrete(s, idx, cseed+int64(idx), drop, keep, unsym), nil
	}
	mode := []string{"interactive", "interactive", "cli", "web"}[r.Intn(4)]
	cli := mode != "interactive"
	var lines []line
	nl := 1 + r.Intn(5)
	for i := 0; i < nl; i++ {
		lines = append(lines, randomLine(r, cli))
	}
	var srcArgs []string
	for _, b := range bases {
		if diff {
			srcArgs = append(srcArgs, "-diff_base="+b.Name)
		} else {
			srcArgs = append(srcArgs, "-base="+b.Name)
		}
	}
	for _, s := range srcs {
		srcArgs = append(srcArgs, s.Name)
	}
	common := []string{"-functions", "-flat", "-nodefraction=0", "-edgefraction=0"}
	symNone := !unsym && r.Intn(4) == 0
	if symNone {
		// the symbolization mode is the Symbolizer plug-in's business: the stages around it do not depend on it
		common = append(common, "-symbolize=none")
	}
	ctxOf["symbolize_none"] = symNone
	var res *vdrv.Result
	outOf := map[int]string{}
	webErr := map[int]error{}
	webEv := map[int]*event{}
	// command-line and web mode: assignments become flags (the last one of each option wins, as typed)
	flagsOf := func() ([]string, []line, line) {
		var flags []string
		var kept []line
		rep := line{"top", event{Ev: "report", Kind: "top"}}
		seen := map[string]int{}
		for _, l := range lines {
			if l.ev.Ev == "report" {
				rep = l
				continue
			}
			if j, ok := seen[l.ev.Opt]; ok {
				kept[j] = l
				continue
			}
			seen[l.ev.Opt] = len(kept)
			kept = append(kept, l)
		}
		for _, l := range kept {
			flags = append(flags, "-"+l.text)
			if l.ev.Opt == "g" {
				// the granularity flags are a radio group: the explicit default must go
				common = []string{"-flat", "-nodefraction=0", "-edgefraction=0"}
				if symNone {
					common = append(common, "-symbolize=none")
				}
			}
		}
		return flags, kept, rep
	}
	switch mode {
	case "cli":
		flags, kept, rep := flagsOf()
		lines = append(kept, rep)
		args := append(append([]string{}, common...), "-"+rep.text)
		args = append(args, flags...)
		args = append(args, "-output=out0")
		args = append(args, srcArgs...)
		res = vdrv.Run(vdrv.Opts{Args: args, Fetch: fetch, Sym: symRec{rc, unsym}})
		outOf[len(lines)-1] = "out0"
	case "web":
		flags, kept, _ := flagsOf()
		// requests: every option may be given with the request and then holds for that request only
		var reqs []line
		for k, n := 0, 1+r.Intn(3); k < n; k++ {
			e := event{Ev: "report", Kind: "top"}
			q := url.Values{}
			if r.Intn(2) == 0 {
				e.AF = pickSome(r, 2)
				if len(e.AF) > 0 {
					q.Set("f", anchored(e.AF))
				}
			}
			if r.Intn(3) == 0 {
				e.AI = pickSome(r, 1)
				if len(e.AI) > 0 {
					q.Set("i", anchored(e.AI))
				}
			}
			if r.Intn(4) == 0 {
				e.AH = pickSome(r, 1)
				if len(e.AH) > 0 {
					q.Set("h", anchored(e.AH))
				}
			}
			if r.Intn(3) == 0 {
				e.ASI = 1 + r.Intn(2)
				q.Set("si", fmt.Sprintf("s%d", e.ASI))
			}
			if r.Intn(3) == 0 {
				e.ARel = []string{"t", "f"}[r.Intn(2)]
				q.Set("rel", e.ARel)
			}
			if r.Intn(4) == 0 {
				e.AG = []string{"files", "functions"}[r.Intn(2)]
				q.Set("g", e.AG)
			}
			if r.Intn(4) == 0 {
				e.ATF = [][]string{{"x"}, {"y"}}[r.Intn(2)]
				q.Set("tf", "k="+anchored(e.ATF))
			}
			reqs = append(reqs, line{"/top?" + q.Encode(), e})
		}
		lines = append(kept, reqs...)
		args := append(append([]string{}, common...), flags...)
		args = append(args, "-http=localhost:18771", "-no_browser")
		args = append(args, srcArgs...)
		res = vdrv.Run(vdrv.Opts{Args: args, Fetch: fetch, Sym: symRec{rc, unsym},
			HTTP: func(a *plugin.HTTPServerArgs) error {
				for i := range lines {
					if lines[i].ev.Ev != "report" {
						continue
					}
					e := lines[i].ev
					func() {
						defer func() {
							if x := recover(); x != nil {
								webErr[i] = fmt.Errorf("panic: %v", x)
							}
						}()
						if err := webReport(a.Handlers["/top"], strings.TrimPrefix(lines[i].text, "/top?"), &e); err != nil {
							webErr[i] = err
						}
					}()
					webEv[i] = &e
				}
				return nil
			}})
	default:
		var typed []string
		for i, l := range lines {
			t := l.text
			if l.ev.Ev == "report" {
				outOf[i] = fmt.Sprintf("out%d", i)
				t += " >" + outOf[i]
			}
			typed = append(typed, t)
		}
		args := append(append([]string{}, common...), srcArgs...)
		res = vdrv.Run(vdrv.Opts{Args: args, Fetch: fetch, Sym: symRec{rc, unsym}, Lines: typed})
	}
	ctxOf["lines"] = describe(lines)
	ctxOf["mode"] = mode
	run.Count(fmt.Sprintf("%s|%d|%d|%v|%v|%v", mode, nsrc, len(bases), drop, keep, describe(lines)))
	if res.Panic != nil {
		run.Violate("pipeline", "panic:"+mode, fmt.Sprint(res.Panic), ctxOf, nil)
		return
	}
	// the recorded boundary events, then (the session is sequential) the delivered lines in order
	evs := rc.evs
	reached := false
	for _, e := range evs {
		if e.Ev == "sym" {
			reached = true
		}
	}
	if res.Err != nil && !reached {
		evs = append(evs, event{Ev: "error", Text: res.Err.Error()})
	} else {
		for i, l := range lines {
			e := l.ev
			if e.Ev == "report" && mode == "web" {
				if webErr[i] != nil {
					run.Violate("pipeline", "no-output:web", fmt.Sprintf("request %q: %v", l.text, webErr[i]), ctxOf, nil)
					continue
				}
				if webEv[i] == nil {
					run.Violate("pipeline", "no-output:web", fmt.Sprintf("request %q was never served (error: %v)", l.text, res.Err), ctxOf, nil)
					continue
				}
				e = *webEv[i]
			} else if e.Ev == "report" {
				out, ok := res.Files[outOf[i]]
				if !ok {
					run.Violate("pipeline", "no-output:"+mode+":"+l.text, fmt.Sprintf("report %q produced no output (error: %v, ui: %v)", l.text, res.Err, res.UIErr), ctxOf, nil)
					continue
				}
				if err := fillReport(&e, string(out)); err != nil {
					run.Violate("pipeline", "unreadable-output:"+l.text, err.Error()+"\n"+string(out), ctxOf, nil)
					continue
				}
			}
			evs = append(evs, e)
		}
		if res.Err != nil {
			evs = append(evs, event{Ev: "error", Text: res.Err.Error()})
		} else {
			evs = append(evs, event{Ev: "end"})
		}
	}
	for _, e := range evs {
		e.Run = id
		if e.Names == nil {
			e.Names = []string{}
		}
		if e.Samples == nil {
			e.Samples = []asample{}
		}
		if e.Rows == nil {
			e.Rows = []row{}
		}
		if e.Stacks == nil {
			e.Stacks = []trow{}
		}
		if e.Edges == nil {
			e.Edges = []erow{}
		}
		if e.AF == nil {
			e.AF = []string{}
		}
		if e.AI == nil {
			e.AI = []string{}
		}
		if e.AH == nil {
			e.AH = []string{}
		}
		if e.ATF == nil {
			e.ATF = []string{}
		}
		if e.Bases == nil {
			e.Bases = []asrc{}
		}
		if e.Drop == nil {
			e.Drop = []string{}
		}
		if e.Keep == nil {
			e.Keep = []string{}
		}
		run.Event(e)
	}
	ctxOf["n"], ctxOf["run"], ctxOf["err"], ctxOf["uierr"] = id, id, fmt.Sprint(res.Err), res.UIErr
	run.Aux(ctxOf)
	if id%50 == 0 {
		run.Sample(map[string]interface{}{"mode": mode, "srcs": srcs, "bases": bases, "drop": drop, "keep": keep, "lines": describe(lines)})
	}
}

func describe(ls []line) []string {
	var out []string
	for _, l := range ls {
		out = append(out, l.text)
	}
	return out
}

func main() {
	run = vlib.NewRun("PIPE")
	r := vlib.NewRand(run.Seed + 4242)
	n := run.N
	if n <= 0 {
		n = 200
	}
	for i := 0; i < n; i++ {
		oneRun(i, r)
	}
	run.Finish("whole runs of driver.PProf observed at the plug-in boundaries: 1-3 sources and 0-2 -base or -diff_base sources (each failing with probability 1/5), profile-level drop/keep frame rules, sources that are symbolized or address-only (the names then come from the Symbolizer plug-in, before the drop rules apply), x command-line mode, interactive sessions of 1-5 lines (focus / ignore / hide / show / tagfocus / tagignore / granularity / sample_index / mean / relative_percentages assignments, top / tree / dot / traces reports with per-command arguments, rejected and ignored lines) or a web server answering /top requests with per-request options, concretised with varying id layouts; every boundary event validated by TLC against the machine of Pprof.tla; non-trivial = distinct (mode, sources, lines)")
}
