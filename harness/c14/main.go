// C14 harness: every abstract legacy document of Legacy.tla is rendered by a
// printer for its format (several surface variants per document: comments,
// blank lines, spacing, one or many addresses per line, /proc/maps or brief
// memory map) and parsed by the real profile.ParseData; samples, addresses,
// values, the block-size label, the period and the mapping of every location
// must be what the specification's conversion rules give. Float rules
// (unsampling, cycles -> ns) are named by the specification and evaluated
// here with an independent formula.
//
// The memory map comes from the specification as a list of lines (mapping
// entries and attr=value lines, mapsrc) together with the list of mappings
// the documented rules leave (maplist) and the index of the mapping of every
// frame (mapidx); the whole Mapping list of the parsed profile is compared,
// not only the mappings that locations point to. For the map forms whose
// rules edit mappings in place, a subset of the documents is parsed four
// times with file names no other document uses: parsing is history-free,
// every parse must give what the first gave and no parse may hand out
// objects that another profile holds.
package main

import (
	"bytes"
	"encoding/binary"
	"encoding/json"
	"fmt"
	"hash/fnv"
	"math"
	"math/big"
	"strings"

	"github.com/google/pprof/internal/zzverif/vlib"
	"github.com/google/pprof/profile"
)

type rec struct {
	C     int64    `json:"c"`
	S     int64    `json:"s"`
	C2    int64    `json:"c2"`
	S2    int64    `json:"s2"`
	Stack []uint64 `json:"stack"`
}
type doc struct {
	Fmt     string `json:"fmt"`
	Variant string `json:"variant"`
	Recs    []rec  `json:"recs"`
	Rate    int64  `json:"rate"`
	Period  int64  `json:"period"`
	Hz      int64  `json:"hz"` // MHz
}
type val struct {
	Rule   string  `json:"rule"`
	V      []int64 `json:"v"`
	Rate   int64   `json:"rate"`
	Period int64   `json:"period"`
	Hz     int64   `json:"hz"`
	Bytes  int64   `json:"bytes"`
}

// one line of the memory map as the specification lists it: a mapping entry (k = "map") whose file name is a list of
// parts (literal text or a reference $attr), or an attribute line (k = "attr")
type part struct {
	Ref bool   `json:"ref"`
	S   string `json:"s"`
}
type mapline struct {
	K     string `json:"k"`
	Start uint64 `json:"start"`
	Limit uint64 `json:"limit"`
	Off   uint64 `json:"off"`
	X     bool   `json:"x"`
	File  []part `json:"file"`
	Name  string `json:"name"`
	Value string `json:"value"`
}

// one mapping the specification expects in the parsed profile (limit -1: the largest address, the made-up mapping)
type emap struct {
	File  string `json:"file"`
	Start uint64 `json:"start"`
	Limit int64  `json:"limit"`
	Off   uint64 `json:"off"`
}
type lcase struct {
	Doc     doc        `json:"doc"`
	Map     string     `json:"map"`
	Stacks  [][]uint64 `json:"stacks"`
	Values  []val      `json:"values"`
	Period  int64      `json:"period"`
	MapSrc  []mapline  `json:"mapsrc"`
	MapList []emap     `json:"maplist"`
	MapIdx  [][]int    `json:"mapidx"`
	root    string     // prefix of every file name of the memory map (the history-free parses)
}

var run *vlib.Run

// ---- printers

func hexes(st []uint64, sep string) string {
	var s []string
	for _, a := range st {
		s = append(s, fmt.Sprintf("0x%x", a))
	}
	return strings.Join(s, sep)
}

// memory map: the lines the specification lists (mapsrc), in the syntax the form and the variant select
// (the MAPPED_LIBRARIES: sentinel belongs to the gperftools heap and CPU formats; the Go text formats end
// their records with a "---" line, so only "--- Memory map: ---" is well-formed there)
//
//	proc:  00000008-00001000 r-xp 00000000 fd:01 1234 /bin/exe         (/proc/self/maps)
//	at:    0x8-0x1000 /bin/exe (@0) B01                                (the recommended brief form; executable entries only)
//	colon: "  00000008-00001000: /bin/exe", "  00003000-00004000 rw-p /bin/exe"   (no file offsets)
//
// root is put in front of every file name: in front of the first part if that is literal text, else in front of the
// value of every attribute (a name has at most one reference, at its head: anything else is a harness error).
func memMap(c *lcase, v int, gperf bool) string {
	if c.Map == "none" {
		return ""
	}
	style, sentinel := "proc", "--- Memory map: ---\n"
	switch c.Map {
	case "procmaps":
		if v%2 == 1 && gperf {
			sentinel = "MAPPED_LIBRARIES:\n"
		}
	case "offsetlib", "split3":
		// the file offsets matter: /proc/maps syntax only
	case "brief":
		style = [2]string{"at", "colon"}[v%2]
	case "split2":
		// the first piece is at file offset 0: the joined mapping is the same with and without the offsets
		style = [3]string{"proc", "at", "colon"}[v%3]
		if v%2 == 1 && gperf {
			sentinel = "MAPPED_LIBRARIES:\n"
		}
	case "attrs":
		style = [3]string{"colon", "proc", "at"}[v%3]
		if v%2 == 1 && gperf {
			sentinel = "MAPPED_LIBRARIES:\n"
		}
	default:
		run.Infra("memory map form without a printer: " + c.Map)
		return ""
	}
	var b strings.Builder
	b.WriteString(sentinel)
	ids := map[string]int{}
	for _, l := range c.MapSrc {
		if l.K == "attr" {
			if v%2 == 0 {
				fmt.Fprintf(&b, "  %s=%s%s\n", l.Name, c.root, l.Value)
			} else {
				fmt.Fprintf(&b, "%s = %s%s\n", l.Name, c.root, l.Value)
			}
			continue
		}
		file := ""
		for i, p := range l.File {
			switch {
			case p.Ref && i > 0:
				run.Infra("memory map entry with a reference that is not at the head of the name")
			case p.Ref:
				file += "$" + p.S
			case i == 0:
				file += c.root + p.S
			default:
				file += p.S
			}
		}
		if _, ok := ids[file]; !ok {
			ids[file] = len(ids) + 1
		}
		perm := "r-xp"
		if !l.X {
			perm = "rw-p"
		}
		switch style {
		case "proc":
			fmt.Fprintf(&b, "%08x-%08x %s %08x fd:01 %d %s\n", l.Start, l.Limit, perm, l.Off, 1233+ids[file], file)
		case "at":
			if l.X {
				fmt.Fprintf(&b, "0x%x-0x%x %s (@%x) B%02d\n", l.Start, l.Limit, file, l.Off, ids[file])
			}
		case "colon":
			if l.X {
				fmt.Fprintf(&b, "  %08x-%08x: %s\n", l.Start, l.Limit, file)
			} else {
				fmt.Fprintf(&b, "  %08x-%08x %s %s\n", l.Start, l.Limit, perm, file)
			}
		}
	}
	return b.String()
}

func comment(b *strings.Builder, v, k int) {
	switch (v + k) % 3 {
	case 1:
		b.WriteString("# a comment\n")
	case 2:
		b.WriteString("\n")
	}
}

func printGoCount(d *doc, v int) []byte {
	var b strings.Builder
	if v%2 == 1 {
		b.WriteString("# leading comment\n\n")
	}
	total := int64(0)
	for _, r := range d.Recs {
		total += r.C
	}
	fmt.Fprintf(&b, "%s profile: total %d\n", d.Variant, total)
	for k, r := range d.Recs {
		comment(&b, v, k)
		fmt.Fprintf(&b, "%d @ %s\n", r.C, hexes(r.Stack, " "))
		if v%2 == 0 {
			b.WriteString("#\t0x10\tmain.f+0x10\t/src/main.go:12\n")
		}
	}
	return []byte(b.String())
}

func printHeap(d *doc, v int) []byte {
	var b strings.Builder
	h := d.Recs[0]
	sp := " "
	if v%2 == 1 {
		sp = ""
	}
	at := "@ " + d.Variant
	if d.Variant == "heapprofile" || strings.HasPrefix(d.Variant, "growth") || strings.HasPrefix(d.Variant, "fragmentation") {
		// no sampling rate in these headers
	} else {
		at += fmt.Sprintf("/%d", d.Rate)
	}
	fmt.Fprintf(&b, "heap profile: %d: %d [%s%d: %d] %s\n", h.C, h.S, sp, h.C2, h.S2, at)
	for k, r := range d.Recs {
		comment(&b, v, k)
		pad := ""
		if v%3 == 2 {
			pad = "   "
		}
		fmt.Fprintf(&b, "%s%d: %d [%s%d: %d] @ %s\n", pad, r.C, r.S, sp, r.C2, r.S2, hexes(r.Stack, " "))
	}
	if v%2 == 0 {
		b.WriteString("\n# runtime.MemStats\n# Alloc = 123\n")
	}
	return []byte(b.String())
}

func printContention(d *doc, v int) []byte {
	var b strings.Builder
	switch d.Variant {
	case "contentionz":
		b.WriteString("--- contentionz 1 ---\n")
	case "mutex":
		b.WriteString("--- mutex:\n")
	default:
		b.WriteString("--- contention:\n")
	}
	if v%2 == 0 {
		fmt.Fprintf(&b, "cycles/second = %d\n", d.Hz*1000000)
		if !(d.Period == 1 && v%4 == 0) { // the default period is 1
			fmt.Fprintf(&b, "sampling period = %d\n", d.Period)
		}
	} else {
		if !(d.Period == 1 && v%4 == 1) {
			fmt.Fprintf(&b, "sampling period=%d\n", d.Period)
		}
		b.WriteString("# comment between attributes\n")
		fmt.Fprintf(&b, "  cycles/second=%d\n", d.Hz*1000000)
		b.WriteString("ms since reset = 3000\ndiscarded samples = 0\n")
	}
	for k, r := range d.Recs {
		if k > 0 {
			comment(&b, v, k)
		}
		sp := " "
		if v%3 == 2 {
			sp = "    "
		}
		fmt.Fprintf(&b, "%d%s%d @ %s\n", r.S, sp, r.C, hexes(r.Stack, " "))
	}
	return []byte(b.String())
}

func printThreadz(d *doc, v int) []byte {
	var b strings.Builder
	if v%2 == 0 {
		b.WriteString("--- threadz 1 ---\n\n")
	}
	for k, r := range d.Recs {
		fmt.Fprintf(&b, "--- Thread %x (name: thr%d/%d) stack: ---\n", 0x7f00+k, k, 100+k)
		if r.C == 0 {
			b.WriteString("  [same as previous thread]\n")
			continue
		}
		switch v % 3 {
		case 0:
			fmt.Fprintf(&b, "  %s\n", hexes(r.Stack, " "))
		case 1:
			for _, a := range r.Stack {
				fmt.Fprintf(&b, "  PC: 0x%x\n", a)
			}
		default:
			fmt.Fprintf(&b, "\n  %s\n\n", hexes(r.Stack, "  "))
		}
	}
	return []byte(b.String())
}

func printCPU(d *doc, v int) []byte { return printCPUWith(d, 0) }

// hi64 is added to every address of a 64-bit binary profile in some variants (and to the expectation)
const hi64 = uint64(0x7f3400000000)

func printCPUWith(d *doc, java uint64) []byte { return printCPUHi(d, java, 0) }

func printCPUHi(d *doc, java, hi uint64) []byte {
	var b bytes.Buffer
	var bo binary.ByteOrder = binary.LittleEndian
	if strings.HasSuffix(d.Variant, "be") {
		bo = binary.BigEndian
	}
	w := func(x uint64) {
		if strings.HasPrefix(d.Variant, "64") {
			binary.Write(&b, bo, x)
		} else {
			binary.Write(&b, bo, uint32(x))
		}
	}
	for _, x := range []uint64{0, 3, java, uint64(d.Period), 0} {
		w(x)
	}
	for _, r := range d.Recs {
		w(uint64(r.C))
		w(uint64(len(r.Stack)))
		for _, a := range r.Stack {
			w(a + hi)
		}
	}
	w(0)
	w(1)
	w(0)
	return b.Bytes()
}

// Java formats: addresses are identifiers; a trailing section names each of them
func javaLocations(d *doc, v int) string {
	var b strings.Builder
	seen := map[uint64]bool{}
	b.WriteString("\n")
	for _, r := range d.Recs {
		for _, a := range r.Stack {
			if seen[a] {
				continue
			}
			seen[a] = true
			switch (int(a) + v) % 3 {
			case 0:
				fmt.Fprintf(&b, "  0x%x F%x (File%x.java:%d)\n", a, a, a, a)
			case 1:
				fmt.Fprintf(&b, "\t0x%016x F%x (/usr/lib/jvm/libjvm%x.so)\n", a, a, a)
			default:
				fmt.Fprintf(&b, "0x%x F%x\n", a, a)
			}
		}
	}
	if v%2 == 0 {
		b.WriteString("  0xdead Unused (Unused.java:1)\n")
	}
	out := b.String()
	if v%3 == 1 {
		out = strings.TrimSuffix(out, "\n") // the last location line ends with the file, not with a line break
	}
	return out
}

func printJavaHeap(d *doc, v int) []byte {
	var b strings.Builder
	b.WriteString("--- heapz 1 ---\n")
	if v%2 == 0 {
		b.WriteString("format = java\nresolution = bytes\n")
	} else {
		b.WriteString("resolution=bytes\n\nformat=java\n")
	}
	for _, r := range d.Recs {
		pad := strings.Repeat(" ", v%4)
		fmt.Fprintf(&b, "%s%d %d @ %s\n", pad, r.S, r.C, hexes(r.Stack, " "))
		if v%3 == 1 {
			b.WriteString("\n")
		}
	}
	b.WriteString(javaLocations(d, v))
	return []byte(b.String())
}

func printJavaContention(d *doc, v int) []byte {
	var b strings.Builder
	b.WriteString("--- contentionz 1 ---\n")
	b.WriteString("format = java\nresolution = microseconds\n")
	if !(d.Period == 0 && v%2 == 0) { // no attribute: the period stays 0 and nothing is scaled
		fmt.Fprintf(&b, "sampling period = %d\n", d.Period)
	}
	if v%2 == 1 {
		b.WriteString("ms since reset = 3000\n")
	}
	for _, r := range d.Recs {
		fmt.Fprintf(&b, "  %d %d @ %s\n", r.S, r.C, hexes(r.Stack, " "))
	}
	b.WriteString(javaLocations(d, v))
	return []byte(b.String())
}

func printJavaCPU(d *doc, v int) []byte {
	c := *d
	out := printCPUWith(&c, 1)
	return append(out, javaLocations(d, v)...)
}

// ---- independent evaluation of the named float rules

func unsample(c, s, rate int64) (int64, int64) {
	if c == 0 || s == 0 {
		return 0, 0
	}
	if rate <= 1 {
		return c, s
	}
	// scale = 1/(1-exp(-(s/c)/rate)), evaluated with expm1 and big floats
	avg := new(big.Float).Quo(big.NewFloat(float64(s)), big.NewFloat(float64(c)))
	x, _ := new(big.Float).Quo(avg, big.NewFloat(float64(rate))).Float64()
	scale := -1 / math.Expm1(-x)
	return int64(float64(c) * scale), int64(float64(s) * scale)
}

// close enough: the scaled values are truncated floats; one unit or 1e-9 relative
func near(a, b int64) bool {
	d := a - b
	if d < 0 {
		d = -d
	}
	if d <= 1 {
		return true
	}
	m := math.Max(math.Abs(float64(a)), math.Abs(float64(b)))
	return float64(d) <= 1e-9*m
}

func expectedValues(v *val) ([]int64, bool) {
	switch v.Rule {
	case "raw":
		return v.V, true
	case "unsample":
		out := make([]int64, 0, len(v.V))
		for i := 0; i+1 < len(v.V); i += 2 {
			c, s := unsample(v.V[i], v.V[i+1], v.Rate)
			out = append(out, c, s)
		}
		return out, false
	case "contention":
		count, cycles := v.V[0], v.V[1]
		if v.Period > 0 {
			if v.Hz > 0 {
				// cycles * period / GHz
				r := new(big.Rat).SetFrac(big.NewInt(cycles*v.Period*1000), big.NewInt(v.Hz))
				f, _ := r.Float64()
				cycles = int64(f)
			}
			count *= v.Period
		}
		return []int64{count, cycles}, false
	}
	return nil, true
}

func one(raw json.RawMessage, c *lcase, idx int) {
	variants := 3
	if run.Tier == "thorough" {
		variants = 6
	}
	for k := 0; k < variants; k++ {
		v := k + int(run.Seed)*7
		var data []byte
		d := &c.Doc
		switch d.Fmt {
		case "gocount":
			data = printGoCount(d, v)
		case "heap":
			data = printHeap(d, v)
		case "contention":
			data = printContention(d, v)
		case "threadz":
			data = printThreadz(d, v)
		case "cpu":
			data = printCPU(d, v)
			if strings.HasPrefix(d.Variant, "64") && c.Map == "none" && k%2 == 1 {
				// addresses that need all 64 bits (every mapping is the fake one, so only the addresses move)
				data = printCPUHi(d, 0, hi64)
				hc := *c
				hc.Stacks = nil
				for _, st := range c.Stacks {
					var x []uint64
					for _, a := range st {
						x = append(x, a+hi64)
					}
					hc.Stacks = append(hc.Stacks, x)
				}
				compare(raw, &hc, data, k, false)
				continue
			}
		case "javaheap":
			data = printJavaHeap(d, v)
		case "javacontention":
			data = printJavaContention(d, v)
		case "javacpu":
			data = printJavaCPU(d, v)
		}
		if (d.Fmt == "gocount" || d.Fmt == "heap" || d.Fmt == "contention" || d.Fmt == "threadz") && c.Map == "none" && k%2 == 1 {
			// the text formats with addresses in the upper half of the address space (kernel frames): every mapping
			// is the made-up one, so only the addresses move
			const hiText = uint64(0xffffffff81000000)
			hd := *d
			hd.Recs = nil
			for _, r := range d.Recs {
				r2 := r
				r2.Stack = nil
				for _, a := range r.Stack {
					r2.Stack = append(r2.Stack, a+hiText)
				}
				hd.Recs = append(hd.Recs, r2)
			}
			hc := *c
			hc.Doc = hd
			hc.Stacks = nil
			for _, st := range c.Stacks {
				var x []uint64
				for _, a := range st {
					x = append(x, a+hiText)
				}
				hc.Stacks = append(hc.Stacks, x)
			}
			switch d.Fmt {
			case "gocount":
				data = printGoCount(&hd, v)
			case "heap":
				data = printHeap(&hd, v)
			case "contention":
				data = printContention(&hd, v)
			case "threadz":
				data = printThreadz(&hd, v)
			}
			compare(raw, &hc, data, k, false)
			continue
		}
		data = withMap(c, data, v)
		compare(raw, c, data, k, false)
	}
	historyFree(raw, c)
}

func withMap(c *lcase, data []byte, v int) []byte {
	mm := memMap(c, v, c.Doc.Fmt == "heap" || c.Doc.Fmt == "cpu")
	if c.Doc.Fmt == "gocount" && mm != "" {
		data = append(data, '\n')
	}
	return append(data, mm...)
}

// historyFree: parsing is history-free. The map forms whose rules edit mappings in place (a split mapping joined, a
// mapping extended downwards) are rendered once more with file names that no other document of this process uses and
// parsed four times: the first parse must be what the specification expects, every later parse must give exactly what
// the first gave, no parse may change a profile handed out earlier, and no two profiles may hold the same Mapping
// object.
func historyFree(raw json.RawMessage, c *lcase) {
	switch c.Map {
	case "split2", "split3", "offsetlib":
	default:
		return
	}
	h := fnv.New32a()
	h.Write(raw)
	sum := h.Sum32()
	hc := *c
	hc.root = fmt.Sprintf("/h%08x", sum)
	v := int(sum>>8)%6 + int(run.Seed)*7
	d := &hc.Doc
	var data []byte
	switch d.Fmt {
	case "gocount":
		data = printGoCount(d, v)
	case "heap":
		data = printHeap(d, v)
	case "contention":
		data = printContention(d, v)
	case "threadz":
		data = printThreadz(d, v)
	case "cpu":
		data = printCPU(d, v)
	default:
		run.Infra("history-free parses: no printer for " + d.Fmt)
		return
	}
	data = withMap(&hc, data, v)
	p1, first := compare(raw, &hc, data, 0, true)
	if p1 == nil {
		return
	}
	show := string(data)
	if d.Fmt == "cpu" {
		show = fmt.Sprintf("% x", data)
	}
	held := map[*profile.Mapping]int{}
	for _, m := range p1.Mapping {
		held[m] = 1
	}
	for n := 2; n <= 4; n++ {
		run.Count("")
		p, err := profile.ParseData(data)
		if err != nil {
			run.Violate("history", msig(&hc, "history"), withDoc(fmt.Sprintf("parse %d of a document that parse 1 accepted is rejected: %v", n, err), show), raw, nil)
			return
		}
		if got := p.String(); got != first {
			run.Violate("history", msig(&hc, "history"), withDoc(fmt.Sprintf("parse %d of the same document in one process differs from parse 1 (which was what the specification expects)", n), fmt.Sprintf("parse %d:\n%s\nparse 1:\n%s\ndocument:\n%s", n, got, first, show)), raw, nil)
		}
		for _, m := range p.Mapping {
			if k, ok := held[m]; ok {
				run.Violate("sharing", msig(&hc, "shared-mapping"), withDoc(fmt.Sprintf("parse %d and parse %d of the same document returned profiles holding the same Mapping object (%s [%x,%x)): editing one profile edits the other", k, n, m.File, m.Start, m.Limit), show), raw, nil)
				break
			}
		}
		for _, m := range p.Mapping {
			held[m] = n
		}
		if now := p1.String(); now != first {
			run.Violate("history", msig(&hc, "history"), withDoc(fmt.Sprintf("parse %d of the same document changed the profile that parse 1 had returned", n), fmt.Sprintf("now:\n%s\nbefore:\n%s\ndocument:\n%s", now, first, show)), raw, nil)
			return
		}
	}
}

// withDoc puts the document under the message. The one-line report of a violation is the first 200 characters of its
// detail: the message is padded to that length so that the line never runs into the document (whose comment lines would
// read as signatures there).
func withDoc(msg, doc string) string {
	return fmt.Sprintf("%-200s\n%s", msg, doc)
}

func sig(c *lcase, what string) string {
	return fmt.Sprintf("%s:%s:%s", what, c.Doc.Fmt, c.Doc.Variant)
}

// the memory map is read by one reader for every format: its findings are named after the map form and the format only
func msig(c *lcase, what string) string {
	return fmt.Sprintf("%s:%s:%s", what, c.Map, c.Doc.Fmt)
}

// mapping descriptions: what the parser returned and what the specification expects
const maxAddr = ^uint64(0)

var compared int // comparisons made so far

func mdesc(file string, start, limit, off uint64) string {
	if file == "" && start == 0 && limit == maxAddr && off == 0 {
		return "fake"
	}
	return fmt.Sprintf("%s[%x,%x)@%x", file, start, limit, off)
}

func (c *lcase) edesc(m *emap) string {
	if m.File == "" {
		return mdesc("", m.Start, uint64(m.Limit), m.Off) // limit -1: the largest address
	}
	return mdesc(c.root+m.File, m.Start, uint64(m.Limit), m.Off)
}

// compare parses data and holds the result against the expectation of the specification; it returns the profile (nil
// if there is none or if it is not what the specification expects) and, if asked to, its text form taken right after
// the parse
func compare(raw json.RawMessage, c *lcase, data []byte, k int, describe bool) (*profile.Profile, string) {
	run.Count(fmt.Sprintf("%s|%s|%v|%d|%d|%d|%s", c.Doc.Fmt, c.Doc.Variant, c.Doc.Recs, c.Doc.Rate, c.Doc.Period, c.Doc.Hz, c.Map))
	show := func() string {
		if c.Doc.Fmt == "cpu" || c.Doc.Fmt == "javacpu" {
			return fmt.Sprintf("% x", data)
		}
		return string(data)
	}
	bad := 0
	violate := func(check, sg, msg string) {
		bad++
		run.Violate(check, sg, withDoc(msg, show()), raw, nil)
	}
	p, err := profile.ParseData(data)
	if err != nil {
		violate("parse", sig(c, "rejected"), fmt.Sprintf("well-formed %s document rejected: %v", c.Doc.Fmt, err))
		return nil, ""
	}
	text := ""
	if describe {
		text = p.String()
	}
	if len(p.Sample) != len(c.Stacks) {
		violate("samples", sig(c, "sample-count"), fmt.Sprintf("%d samples, the document has %d records (threadz: minus same-as-previous)", len(p.Sample), len(c.Stacks)))
		return nil, ""
	}
	if p.Period != c.Period {
		violate("period", sig(c, "period"), fmt.Sprintf("period %d, want %d", p.Period, c.Period))
	}
	java := strings.HasPrefix(c.Doc.Fmt, "java")
	if !java {
		// the list of mappings is what the rules of the specification leave of the memory map
		if len(c.MapIdx) != len(c.Stacks) {
			run.Infra("case without mapping indexes")
			return nil, ""
		}
		var gotl, wantl []string
		for _, m := range p.Mapping {
			gotl = append(gotl, mdesc(m.File, m.Start, m.Limit, m.Offset))
		}
		for i := range c.MapList {
			wantl = append(wantl, c.edesc(&c.MapList[i]))
		}
		if fmt.Sprint(gotl) != fmt.Sprint(wantl) {
			violate("mapping", msig(c, "mapping-list"), fmt.Sprintf("the profile has the mappings %v, the memory map gives %v", gotl, wantl))
		}
	}
	for i, s := range p.Sample {
		var got []uint64
		for _, l := range s.Location {
			if java {
				// the identifier is recovered from the name the location section gave it; the address itself is cleared
				var a uint64
				if len(l.Line) != 1 || l.Line[0].Function == nil || l.Address != 0 {
					got = append(got, ^uint64(0))
					continue
				}
				if _, err := fmt.Sscanf(l.Line[0].Function.Name, "F%x", &a); err != nil {
					a = ^uint64(0)
				}
				got = append(got, a)
				continue
			}
			got = append(got, l.Address)
		}
		if fmt.Sprint(got) != fmt.Sprint(c.Stacks[i]) {
			violate("addresses", sig(c, "addresses"), fmt.Sprintf("sample %d has addresses %x, want %x", i, got, c.Stacks[i]))
			continue
		}
		want, exact := expectedValues(&c.Values[i])
		ok := len(want) == len(s.Value)
		for j := 0; ok && j < len(want); j++ {
			if exact {
				ok = want[j] == s.Value[j]
			} else {
				ok = near(want[j], s.Value[j])
			}
		}
		if !ok {
			violate("values", sig(c, "values:"+c.Values[i].Rule), fmt.Sprintf("sample %d has values %v, rule %s gives %v", i, s.Value, c.Values[i].Rule, want))
		}
		if c.Doc.Fmt == "heap" || c.Doc.Fmt == "javaheap" {
			lab := s.NumLabel["bytes"]
			switch {
			case c.Values[i].Bytes != 0 && (len(lab) != 1 || lab[0] != c.Values[i].Bytes):
				violate("label", sig(c, "bytes-label"), fmt.Sprintf("sample %d has bytes label %v, want %d", i, lab, c.Values[i].Bytes))
			case c.Values[i].Bytes == 0 && len(lab) > 0 && lab[0] != 0:
				violate("label", sig(c, "bytes-label"), fmt.Sprintf("sample %d has bytes label %v for an empty record", i, lab))
			}
		}
		for j, l := range s.Location {
			if java {
				break // Java locations carry no address, hence no mapping
			}
			if len(c.MapIdx[i]) != len(s.Location) || c.MapIdx[i][j] < 1 || c.MapIdx[i][j] > len(c.MapList) {
				run.Infra("case with mapping indexes that do not fit its stacks")
				return nil, ""
			}
			want := c.edesc(&c.MapList[c.MapIdx[i][j]-1])
			gotm := "nil"
			if m := l.Mapping; m != nil {
				gotm = mdesc(m.File, m.Start, m.Limit, m.Offset)
			}
			if gotm != want {
				violate("mapping", sig(c, "mapping:"+c.Map), fmt.Sprintf("sample %d frame %d (address %#x) is attributed to mapping %s, want %s", i, j, l.Address, gotm, want))
			}
		}
	}
	// the result is an ordinary profile: it survives the codec
	// (compressing is the codec's business, C02, and by far the most expensive step here: one comparison in 64 does it)
	var buf bytes.Buffer
	write := p.WriteUncompressed
	if compared++; compared%64 == 1 {
		write = p.Write
	}
	if err := write(&buf); err != nil {
		violate("write", sig(c, "write"), err.Error())
	} else if q, err := profile.Parse(&buf); err != nil || len(q.Sample) != len(p.Sample) {
		violate("write", sig(c, "reparse"), fmt.Sprint(err))
	}
	if bad > 0 {
		return nil, ""
	}
	return p, text
}

func main() {
	run = vlib.NewRun("C14")
	run.EachCase(func(i int, raw json.RawMessage) {
		var c lcase
		if err := json.Unmarshal(raw, &c); err != nil {
			run.Infra("case decode: " + err.Error())
			return
		}
		func() {
			defer func() {
				if r := recover(); r != nil {
					run.Violate("panic", "panic:"+c.Doc.Fmt, fmt.Sprint(r), raw, nil)
				}
			}()
			one(raw, &c, i)
		}()
		if i%300 == 0 {
			run.Sample(json.RawMessage(raw))
		}
	})
	run.Finish("cases = Legacy.tla: abstract legacy documents (Go count goroutine/threadcreate; heap heapprofile/heap_v2/heapz_v2/heap with rates 1, 4, 524288 and in-use/alloc header variants; contentionz/mutex/contention with periods 0/1/100 and 0/1/2.5 GHz; threadz with same-as-previous records; binary CPU 64/32 bit little/big endian incl. shared signal frames (all, 32 of 33, 32 of 34) and duplicated leaves) x trailing memory map {none, /proc/maps, brief, executable and library split in three, library listed from its second part, library first and executable split in two, three attr=value lines with $attr file names} x 3 (thorough 6) surface variants per document (comments, blank lines, spacing, attribute order, address layout, sentinel spelling, map syntax); the whole mapping list and the mapping of every frame compared with the specification's; for the split and offset forms every document parsed four more times with file names of its own (later parses equal the first, no shared Mapping objects); non-trivial = distinct (document, map form)")
}
