// C17 harness: runs the real report.Stacks() (directly on the aggregated
// profile and through the /flamegraph page, whose embedded JSON is extracted)
// for Stacks.tla's catalogue cases and for random recursion-heavy profiles and
// records the stack set as a trace event for TraceStacks.tla.
package main

import (
	"encoding/json"
	"fmt"
	"net/http"
	"net/http/httptest"
	"regexp"

	"github.com/google/pprof/internal/plugin"
	"github.com/google/pprof/internal/report"
	"github.com/google/pprof/internal/zzverif/vdrv"
	"github.com/google/pprof/internal/zzverif/vlib"
	"github.com/google/pprof/internal/zzverif/vrep"
	"github.com/google/pprof/profile"
)

type scase struct {
	Samples []vlib.ASample `json:"samples"`
	Cfg     vrep.Cfg       `json:"cfg"`
}
type place struct {
	Stack int `json:"stack"`
	Pos   int `json:"pos"`
}
type srcRow struct {
	Full     string  `json:"full"`
	File     string  `json:"file"`
	Inlined  bool    `json:"inlined"`
	Self     int64   `json:"self"`
	Places   []place `json:"places"`
	NDisplay int     `json:"ndisplay"`
}
type stackRow struct {
	Value   int64 `json:"value"`
	Sources []int `json:"sources"`
}
type stackEvent struct {
	Op      string         `json:"op"`
	N       int            `json:"n"`
	Via     string         `json:"via"`
	Samples []vlib.ASample `json:"samples"`
	Cfg     vrep.Cfg       `json:"cfg"`
	Stacks  []stackRow     `json:"stacks"`
	Sources []srcRow       `json:"sources"`
	Nulls   int            `json:"nulls"`
}

var (
	run  *vlib.Run
	conc = vlib.NewConc(0)
	evN  int
)

// raw JSON shape of report.StackSet (nil slices show up as null)
type rawSet struct {
	Stacks []struct {
		Value   int64
		Sources *[]int
	}
	Sources []struct {
		FullName, FileName, UniqueName string
		Inlined                        bool
		Display                        *[]string
		Places                         *[]struct{ Stack, Pos int }
		Self                           int64
	}
}

func toEvent(b []byte, c *scase, via string) (stackEvent, error) {
	var rs struct {
		Stacks  *json.RawMessage
		Sources *json.RawMessage
	}
	ev := stackEvent{Op: "stacks", N: evN, Via: via, Samples: c.Samples, Cfg: c.Cfg, Stacks: []stackRow{}, Sources: []srcRow{}}
	if err := json.Unmarshal(b, &rs); err != nil {
		return ev, err
	}
	var set rawSet
	if err := json.Unmarshal(b, &set); err != nil {
		return ev, err
	}
	if rs.Stacks == nil || string(*rs.Stacks) == "null" {
		ev.Nulls++
	}
	if rs.Sources == nil || string(*rs.Sources) == "null" {
		ev.Nulls++
	}
	for _, s := range set.Stacks {
		r := stackRow{Value: s.Value, Sources: []int{}}
		if s.Sources == nil {
			ev.Nulls++
		} else {
			r.Sources = *s.Sources
		}
		ev.Stacks = append(ev.Stacks, r)
	}
	for _, s := range set.Sources {
		r := srcRow{Full: s.FullName, File: s.FileName, Inlined: s.Inlined, Self: s.Self, Places: []place{}}
		if s.Display == nil {
			ev.Nulls++
		} else {
			r.NDisplay = len(*s.Display)
		}
		if s.Places == nil {
			ev.Nulls++
		} else {
			for _, p := range *s.Places {
				r.Places = append(r.Places, place{p.Stack, p.Pos})
			}
		}
		ev.Sources = append(ev.Sources, r)
	}
	return ev, nil
}

func aggregate(p *profile.Profile, cfg vrep.Cfg) error {
	inl := !cfg.NoInl
	switch cfg.Gran {
	case "functions":
		return p.Aggregate(inl, true, false, false, false, false)
	case "filefunctions":
		return p.Aggregate(inl, true, true, false, false, false)
	case "files":
		return p.Aggregate(inl, false, true, false, false, false)
	case "lines":
		return p.Aggregate(inl, true, true, true, false, false)
	case "addresses":
		if inl {
			return nil
		}
		return p.Aggregate(inl, true, true, true, false, true)
	}
	return fmt.Errorf("granularity %q", cfg.Gran)
}

var stacksRE = regexp.MustCompile(`(?s)stackViewer\((\{.*?\}),\s*\[`)

func one(raw json.RawMessage, c *scase, web bool) {
	ap := vlib.AProf{ST: vrep.SampleTypes, Samples: c.Samples}
	p := conc.Profile(ap)
	// direct
	func() {
		defer func() {
			if r := recover(); r != nil {
				run.Violate("stacks", "panic:direct", fmt.Sprint(r), raw, nil)
			}
		}()
		q := p.Copy()
		if err := aggregate(q, c.Cfg); err != nil {
			run.Infra("aggregate: " + err.Error())
			return
		}
		rpt := report.New(q, &report.Options{SampleValue: func(v []int64) int64 { return v[c.Cfg.SI-1] }, SampleType: "s2", SampleUnit: "u2"})
		set := rpt.Stacks()
		b, err := json.Marshal(set)
		if err != nil {
			run.Violate("stacks", "json-error", err.Error(), raw, nil)
			return
		}
		ev, err := toEvent(b, c, "direct")
		if err != nil {
			run.Infra("stack set decode: " + err.Error())
			return
		}
		key := ""
		for _, s := range ev.Stacks {
			seen := map[int]bool{}
			for _, x := range s.Sources {
				if seen[x] {
					b, _ := json.Marshal([]interface{}{c.Cfg, ev.Stacks})
					key = string(b)
				}
				seen[x] = true
			}
		}
		for _, s := range ev.Sources {
			if s.Inlined {
				b, _ := json.Marshal([]interface{}{c.Cfg, ev.Stacks, "inl"})
				key = string(b)
			}
		}
		run.Count(key)
		run.Event(ev)
		run.Aux(map[string]interface{}{"n": evN, "samples": c.Samples, "cfg": c.Cfg})
		evN++
	}()
	if !web {
		return
	}
	// through the web UI: /flamegraph embeds the same JSON
	args := []string{"-" + c.Cfg.Gran, "-flat", fmt.Sprintf("-sample_index=s%d", c.Cfg.SI), "-http=localhost:18766", "-no_browser", "src"}
	if c.Cfg.NoInl {
		args = append([]string{"-noinlines"}, args...)
	}
	vdrv.Run(vdrv.Opts{Args: args, Fetch: func(string) (*profile.Profile, error) { return p.Copy(), nil },
		HTTP: func(a *plugin.HTTPServerArgs) error {
			rec := httptest.NewRecorder()
			req, _ := http.NewRequest("GET", "http://localhost/flamegraph", nil)
			func() {
				defer func() {
					if r := recover(); r != nil {
						run.Violate("stacks", "panic:flamegraph", fmt.Sprint(r), raw, nil)
					}
				}()
				a.Handlers["/flamegraph"].ServeHTTP(rec, req)
			}()
			if rec.Code != 200 {
				run.Violate("stacks", "flamegraph-status", fmt.Sprintf("status %d: %s", rec.Code, rec.Body.String()), raw, nil)
				return nil
			}
			m := stacksRE.FindSubmatch(rec.Body.Bytes())
			if m == nil {
				run.Infra("no stack JSON in the /flamegraph page")
				return nil
			}
			ev, err := toEvent(m[1], c, "flamegraph")
			if err != nil {
				run.Infra("flamegraph JSON: " + err.Error())
				return nil
			}
			run.Count("")
			run.Event(ev)
			run.Aux(map[string]interface{}{"n": evN, "samples": c.Samples, "cfg": c.Cfg, "via": "flamegraph"})
			evN++
			return nil
		}})
}

func main() {
	run = vlib.NewRun("C17")
	run.EachCase(func(i int, raw json.RawMessage) {
		var c scase
		if err := json.Unmarshal(raw, &c); err != nil {
			run.Infra("case decode: " + err.Error())
			return
		}
		one(raw, &c, i%9 == int(run.Seed)%9)
		if i%400 == 0 {
			run.Sample(json.RawMessage(raw))
		}
	})
	// random recursion-heavy profiles
	r := vlib.NewRand(run.Seed + 17)
	fns := []vlib.AFn{{Name: "f", Sys: "f", File: "a.c"}, {Name: "g", Sys: "g", File: "a.c"}, {Name: "h", Sys: "h", File: "b.c"}, {Name: "f", Sys: "f", File: "b.c"}}
	m0 := vlib.AMap{Build: "B1", File: "bin", Start: 16, Size: 8}
	var pool []vlib.ALoc
	for i := 0; i < 8; i++ {
		l := vlib.ALoc{Map: m0, Rel: int64(i + 1), Lines: []vlib.ALine{}}
		for k := i % 3; k >= 0 && i != 5; k-- {
			l.Lines = append(l.Lines, vlib.ALine{Fn: fns[(i+k)%len(fns)], Line: int64(10 + (i+k)%3)})
		}
		pool = append(pool, l)
	}
	grans := []string{"functions", "filefunctions", "files", "lines"}
	for it := 0; it < run.N; it++ {
		var ss []vlib.ASample
		for i := 1 + r.Intn(6); i > 0; i-- {
			s := vlib.ASample{Vals: []int64{1, int64(r.Intn(9) - 3)}, Lab: []vlib.ASLab{}, Num: []vlib.ANLab{}, Locs: []vlib.ALoc{}}
			base := r.Intn(len(pool))
			for d := r.Intn(8); d > 0; d-- {
				s.Locs = append(s.Locs, pool[(base+r.Intn(3))%len(pool)])
			}
			ss = append(ss, s)
		}
		c := scase{Samples: ss, Cfg: vrep.Cfg{Gran: grans[r.Intn(4)], NoInl: r.Intn(4) == 0, SI: 1 + r.Intn(2), TRoot: []string{}, TLeaf: []string{}}}
		b, _ := json.Marshal(c)
		one(b, &c, it%7 == 0)
	}
	run.Finish("stack sets = real report.Stacks() output for every Stacks.tla catalogue case (pairs of stack shapes with recursion at non-adjacent and adjacent positions, inlined and direct occurrences of the same function, frames without function, empty stacks, equal names in different files x granularity x noinlines) and for random recursion-heavy profiles, directly and as embedded in the /flamegraph page; non-trivial = stack set with a repeated source in some stack or an inlined source, distinct by (cfg, stacks)")
}
