package vdrv

import (
	"bytes"
	"fmt"
	"regexp"
	"strconv"
	"strings"

	"github.com/google/pprof/profile"
)

// Independent readers of pprof's output forms. They assume the sample unit is
// unknown to pprof ("u1", "u2", ...), in which case values are printed as
// plain integers followed by the unit.

var valRE = regexp.MustCompile(`^(-?[0-9]+)([A-Za-z_0-9]*)$`)

// Val parses "7u2" / "-3" / "0".
func Val(s string) (int64, error) {
	m := valRE.FindStringSubmatch(strings.TrimSpace(s))
	if m == nil {
		return 0, fmt.Errorf("not an integer value: %q", s)
	}
	return strconv.ParseInt(m[1], 10, 64)
}

func stripInline(name string) string {
	name = strings.TrimSuffix(name, " (inline)")
	name = strings.TrimSuffix(name, " (partial-inline)")
	return name
}

// Node is one entry of a report as read from some output form.
type Node struct {
	Name      string
	Flat, Cum int64
}

// Edge is one caller -> callee weight.
type Edge struct {
	Src, Dst string
	W        int64
	Residual bool
	Via      string // tree report: "in" (listed under the callee) or "out" (listed under the caller)
}

// Legend figures of a text/dot report.
type Legend struct {
	Shown, Total int64
	HasShowing   bool
	Lines        []string
}

var showingRE = regexp.MustCompile(`Showing nodes accounting for (\S+), (\S+) of (\S+) total`)

func parseLegend(lines []string) (Legend, error) {
	lg := Legend{Lines: lines}
	for _, l := range lines {
		if m := showingRE.FindStringSubmatch(l); m != nil {
			s, err1 := Val(m[1])
			t, err2 := Val(m[3])
			if err1 != nil || err2 != nil {
				return lg, fmt.Errorf("legend values not integers: %q", l)
			}
			lg.Shown, lg.Total, lg.HasShowing = s, t, true
		}
	}
	return lg, nil
}

// Top reads a -top / -text report.
func Top(out string) (Legend, []Node, error) {
	lines := strings.Split(out, "\n")
	var head []string
	i := 0
	found := false
	for ; i < len(lines); i++ {
		if strings.HasPrefix(strings.TrimSpace(lines[i]), "flat  flat%") {
			i++
			found = true
			break
		}
		head = append(head, lines[i])
	}
	if !found {
		return Legend{}, nil, fmt.Errorf("no column header in top output: %q", out)
	}
	lg, err := parseLegend(head)
	if err != nil {
		return lg, nil, err
	}
	var rows []Node
	for ; i < len(lines); i++ {
		l := lines[i]
		if strings.TrimSpace(l) == "" {
			continue
		}
		f, rest := splitCols(l, 5)
		if len(f) < 5 {
			return lg, nil, fmt.Errorf("bad top row %q", l)
		}
		flat, e1 := Val(f[0])
		cum, e2 := Val(f[3])
		if e1 != nil || e2 != nil {
			return lg, nil, fmt.Errorf("bad values in top row %q", l)
		}
		rows = append(rows, Node{Name: stripInline(strings.TrimPrefix(rest, "  ")), Flat: flat, Cum: cum})
	}
	return lg, rows, nil
}

// splitCols returns the first n whitespace separated columns of l and the
// unconsumed rest (starting with the separator after column n).
func splitCols(l string, n int) ([]string, string) {
	var cols []string
	rest := l
	for k := 0; k < n; k++ {
		rest = strings.TrimLeft(rest, " ")
		if rest == "" {
			return cols, ""
		}
		j := strings.IndexByte(rest, ' ')
		if j < 0 {
			cols = append(cols, rest)
			return cols, ""
		}
		cols = append(cols, rest[:j])
		rest = rest[j:]
	}
	return cols, rest
}

// Tree reads a -tree / -peek report: nodes with their incoming and outgoing edges.
func Tree(out string) (Legend, []Node, []Edge, error) {
	lines := strings.Split(out, "\n")
	var head []string
	i := 0
	for ; i < len(lines); i++ {
		if strings.HasPrefix(lines[i], "-----") {
			break
		}
		head = append(head, lines[i])
	}
	lg, err := parseLegend(head)
	if err != nil {
		return lg, nil, nil, err
	}
	var nodes []Node
	var edges []Edge
	type pend struct {
		name string
		w    int64
	}
	var before []pend
	cur := ""
	flush := func() {
		before = nil
		cur = ""
	}
	for ; i < len(lines); i++ {
		l := lines[i]
		if strings.HasPrefix(l, "-----") {
			flush()
			continue
		}
		if strings.Contains(l, "flat  flat%") || strings.TrimSpace(l) == "" {
			continue
		}
		bar := strings.Index(l, "| ")
		if bar < 0 {
			return lg, nil, nil, fmt.Errorf("bad tree line %q", l)
		}
		left, right := strings.Fields(l[:bar]), l[bar+2:]
		switch {
		case len(left) == 5: // node line
			flat, e1 := Val(left[0])
			cum, e2 := Val(left[3])
			if e1 != nil || e2 != nil {
				return lg, nil, nil, fmt.Errorf("bad values in tree node line %q", l)
			}
			cur = right
			nodes = append(nodes, Node{Name: cur, Flat: flat, Cum: cum})
			for _, p := range before {
				edges = append(edges, Edge{Src: p.name, Dst: cur, W: p.w, Via: "in"})
			}
			before = nil
		case len(left) == 2: // edge line
			w, e := Val(left[0])
			if e != nil {
				return lg, nil, nil, fmt.Errorf("bad value in tree edge line %q", l)
			}
			name := stripInline(strings.TrimPrefix(right, "  "))
			if cur == "" {
				before = append(before, pend{name, w})
			} else {
				edges = append(edges, Edge{Src: cur, Dst: name, W: w, Via: "out"})
			}
		default:
			return lg, nil, nil, fmt.Errorf("bad tree line %q", l)
		}
	}
	return lg, nodes, edges, nil
}

var (
	dotNodeRE = regexp.MustCompile(`^(N[0-9]+) \[label="((?:[^"\\]|\\.)*)" id="node[0-9]+" fontsize=[0-9]+ shape=\w+ tooltip="((?:[^"\\]|\\.)*)"`)
	dotEdgeRE = regexp.MustCompile(`^(N[0-9]+) -> (N[0-9]+) \[label="((?:[^"\\]|\\.)*)".* tooltip="((?:[^"\\]|\\.)*)"`)
	dotTipRE  = regexp.MustCompile(`^(.*) \((-?[0-9]+[A-Za-z_0-9]*)\)$`)
	dotFlatRE = regexp.MustCompile(`(?:^|\\n)(-?[0-9]+[A-Za-z_0-9]*) \([^)]*\)(?:\\nof (-?[0-9]+[A-Za-z_0-9]*) \([^)]*\))?$`)
	dotZeroRE = regexp.MustCompile(`(?:^|\\n)0 of (-?[0-9]+[A-Za-z_0-9]*) \([^)]*\)$`)
	dotLegRE  = regexp.MustCompile(`^subgraph cluster_L \{ "(?:[^"\\]|\\.)*" \[shape=box fontsize=16 label="((?:[^"\\]|\\.)*)"`)
)

// UnescapeDot undoes escapeForDot for the characters it handles.
func UnescapeDot(s string) string {
	s = strings.ReplaceAll(s, `\l`, "\n")
	s = strings.ReplaceAll(s, `\"`, `"`)
	s = strings.ReplaceAll(s, `\\`, `\`)
	return s
}

// Dot reads a -dot report: nodes (by tooltip name), edges, legend.
func Dot(out string) (Legend, []Node, []Edge, error) {
	ids := map[string]string{}
	var nodes []Node
	var edges []Edge
	var lg Legend
	for _, l := range strings.Split(out, "\n") {
		if m := dotLegRE.FindStringSubmatch(l); m != nil {
			var err error
			lg, err = parseLegend(strings.Split(UnescapeDot(m[1]), "\n"))
			if err != nil {
				return lg, nil, nil, err
			}
			continue
		}
		if m := dotNodeRE.FindStringSubmatch(l); m != nil {
			tip := dotTipRE.FindStringSubmatch(m[3])
			if tip == nil {
				return lg, nil, nil, fmt.Errorf("bad node tooltip %q", m[3])
			}
			name := UnescapeDot(tip[1])
			cum, err := Val(tip[2])
			if err != nil {
				return lg, nil, nil, err
			}
			var flat int64
			if f := dotZeroRE.FindStringSubmatch(m[2]); f != nil {
				flat = 0
			} else if f := dotFlatRE.FindStringSubmatch(m[2]); f != nil {
				flat, err = Val(f[1])
				if err != nil {
					return lg, nil, nil, err
				}
				if f[2] == "" && flat != cum {
					return lg, nil, nil, fmt.Errorf("dot node %q: label shows one value %d but tooltip says cum %d", name, flat, cum)
				}
			} else if strings.HasSuffix(m[2], "0") {
				flat = 0
			} else {
				return lg, nil, nil, fmt.Errorf("bad node label %q", m[2])
			}
			ids[m[1]] = name
			nodes = append(nodes, Node{Name: name, Flat: flat, Cum: cum})
			continue
		}
		if m := dotEdgeRE.FindStringSubmatch(l); m != nil {
			if strings.Contains(m[2], "_") { // nodelet edge N1 -> N1_0
				continue
			}
			tip := dotTipRE.FindStringSubmatch(m[4])
			if tip == nil {
				return lg, nil, nil, fmt.Errorf("bad edge tooltip %q", m[4])
			}
			w, err := Val(tip[2])
			if err != nil {
				return lg, nil, nil, err
			}
			src, ok1 := ids[m[1]]
			dst, ok2 := ids[m[2]]
			if !ok1 || !ok2 {
				// an edge to a node that was never declared: reported by C05/C18, not a number
				edges = append(edges, Edge{Src: m[1], Dst: m[2], W: w, Via: "undeclared"})
				continue
			}
			edges = append(edges, Edge{Src: src, Dst: dst, W: w, Residual: strings.Contains(tip[1], " ... ")})
		}
	}
	return lg, nodes, edges, nil
}

var traceFrameRE = regexp.MustCompile(`^(?: {10}| *(-?[0-9]+[A-Za-z_0-9]*))   (.*)$`)

// TraceStack is one sample of a -traces report.
type TraceStack struct {
	W      int64
	Frames []string // leaf first
	Labels []string
}

// Traces reads a -traces report.
func Traces(out string) ([]TraceStack, error) {
	var res []TraceStack
	var cur *TraceStack
	started := false
	for _, l := range strings.Split(out, "\n") {
		if strings.HasPrefix(l, "-----------+") {
			if cur != nil {
				res = append(res, *cur)
			}
			cur = &TraceStack{}
			started = true
			continue
		}
		if !started || cur == nil || strings.TrimSpace(l) == "" {
			continue
		}
		// frame line: "%10s   %s" with a value or blanks in the first column; label line: "%10s:  %s"
		if m := traceFrameRE.FindStringSubmatch(l); m != nil {
			if m[1] != "" {
				v, err := Val(m[1])
				if err != nil {
					return nil, fmt.Errorf("bad traces value in %q", l)
				}
				cur.W = v
			}
			cur.Frames = append(cur.Frames, stripInline(m[2]))
			continue
		}
		cur.Labels = append(cur.Labels, strings.TrimSpace(l))
	}
	if cur != nil && len(cur.Frames) > 0 {
		res = append(res, *cur)
	}
	var out2 []TraceStack
	for _, t := range res {
		if len(t.Frames) > 0 {
			out2 = append(out2, t)
		}
	}
	return out2, nil
}

// TopProto reads a -topproto report: one sample per entry, values [cum, flat].
func TopProto(data []byte) (*profile.Profile, error) {
	return profile.Parse(bytes.NewReader(data))
}

// CGNode is one cost line of a callgrind report (one graph node: pprof emits callgrind at address granularity).
type CGNode struct {
	Obj, File, Fn string
	Addr          uint64
	Line          int64
	Flat          int64
}

// CGEdge is one call of a callgrind report.
type CGEdge struct {
	SrcFn, DstFn     string
	SrcAddr, DstAddr uint64
	DstLine          int64
	W                int64
}

var (
	cgKwRE   = regexp.MustCompile(`^(ob|fl|fn|cfl|cfn|cob|fi|fe)=(?:\((\d+)\)(?: (.*))?)?$`)
	cgCostRE = regexp.MustCompile(`^(0x[0-9a-f]+|[+-]\d+|\*) (\d+|\*) (-?\d+)$`)
	cgCallRE = regexp.MustCompile(`^calls=(\d+) (0x[0-9a-f]+|[+-]\d+|\*) (\d+)$`)
)

// Callgrind decodes a callgrind report as pprof writes it: name compression "(id) name" / "(id)",
// positions absolute (0x..), relative to the previous node (+n / -n) or equal to it (*).
func Callgrind(out string) ([]CGNode, []CGEdge, error) {
	tables := map[string]map[string]string{"ob": {}, "fl": {}, "fn": {}}
	tableOf := map[string]string{"ob": "ob", "cob": "ob", "fl": "fl", "cfl": "fl", "fi": "fl", "fe": "fl", "fn": "fn", "cfn": "fn"}
	cur := map[string]string{}
	var nodes []CGNode
	var edges []CGEdge
	var prev, here uint64
	havePrev, haveHere := false, false
	var pendingCall *CGEdge
	decode := func(s string) (uint64, error) {
		switch {
		case s == "*":
			if !havePrev {
				return 0, fmt.Errorf("position * without a previous node")
			}
			return prev, nil
		case strings.HasPrefix(s, "0x"):
			return strconv.ParseUint(s[2:], 16, 64)
		default:
			if !havePrev {
				return 0, fmt.Errorf("relative position %s without a previous node", s)
			}
			d, err := strconv.ParseInt(s, 10, 64)
			return uint64(int64(prev) + d), err
		}
	}
	for i, l := range strings.Split(strings.TrimSuffix(out, "\n"), "\n") {
		switch {
		case l == "" || strings.HasPrefix(l, "positions:") || strings.HasPrefix(l, "events:"):
			continue
		}
		if m := cgKwRE.FindStringSubmatch(l); m != nil {
			if m[2] == "" {
				cur[m[1]] = "" // pprof writes a bare "fl=" / "fn=" for an entry without that name
				continue
			}
			t := tables[tableOf[m[1]]]
			name, defined := t[m[2]]
			if strings.Contains(l, ") ") || strings.HasSuffix(l, ") ") {
				name = m[3]
				t[m[2]] = name
			} else if !defined {
				return nil, nil, fmt.Errorf("line %d: back-reference (%s) was never defined: %q", i+1, m[2], l)
			}
			cur[m[1]] = name
			continue
		}
		if m := cgCallRE.FindStringSubmatch(l); m != nil {
			a, err := decode(m[2])
			if err != nil {
				return nil, nil, fmt.Errorf("line %d: %v", i+1, err)
			}
			ln, _ := strconv.ParseInt(m[3], 10, 64)
			pendingCall = &CGEdge{SrcFn: cur["fn"], DstFn: cur["cfn"], SrcAddr: here, DstAddr: a, DstLine: ln}
			continue
		}
		if m := cgCostRE.FindStringSubmatch(l); m != nil {
			cost, _ := strconv.ParseInt(m[3], 10, 64)
			if pendingCall != nil {
				pendingCall.W = cost
				edges = append(edges, *pendingCall)
				pendingCall = nil
				continue
			}
			// the node's own line: from now on positions are relative to the node before this one until the next node
			if haveHere {
				prev, havePrev = here, true
			}
			a, err := decode(m[1])
			if err != nil {
				return nil, nil, fmt.Errorf("line %d: %v", i+1, err)
			}
			ln, _ := strconv.ParseInt(m[2], 10, 64)
			here, haveHere = a, true
			nodes = append(nodes, CGNode{Obj: cur["ob"], File: cur["fl"], Fn: cur["fn"], Addr: a, Line: ln, Flat: cost})
			continue
		}
		return nil, nil, fmt.Errorf("line %d is not callgrind: %q", i+1, l)
	}
	return nodes, edges, nil
}
