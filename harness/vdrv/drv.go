// Package vdrv runs the real pprof driver in-process through its plug-in
// boundaries (Fetcher, Symbolizer, ObjTool, UI, Writer, FlagSet, HTTPServer).
package vdrv

import (
	"bytes"
	"fmt"
	"io"
	"net/http"
	"os"
	"regexp"
	"strconv"
	"strings"
	"sync"
	"syscall"
	"time"

	"github.com/google/pprof/internal/driver"
	"github.com/google/pprof/internal/plugin"
	"github.com/google/pprof/profile"
)

// Opts describes one invocation of driver.PProf.
type Opts struct {
	Args  []string // command line: -flag, -flag=value ..., then sources
	Fetch func(src string) (*profile.Profile, error)
	Sym   plugin.Symbolizer
	Obj   plugin.ObjTool
	Lines []string // interactive input lines (EOF afterwards)
	// OnPrompt, when set, is called before each interactive line is delivered
	// (with the index of the line about to be read).
	OnPrompt func(i int)
	HTTP     func(args *plugin.HTTPServerArgs) error
	Terminal bool
	// RealSym leaves the Symbolizer plug-in unset so that the driver installs its own
	// (internal/symbolizer with the given ObjTool).
	RealSym bool
	// Transport, when set, is the HTTPTransport plug-in (used by the driver's own URL fetch and by symbolz).
	Transport http.RoundTripper
	// RealWriter leaves the Writer plug-in unset: the driver's own writer creates the files commands name.
	RealWriter bool
	// ErrDelay makes UI.PrintErr slow (a terminal that blocks): widens windows around error reporting.
	ErrDelay time.Duration
}

// Result is everything observable at the plug-in boundaries.
type Result struct {
	Files  map[string][]byte // Writer outputs by name
	Order  []string          // names in the order they were opened
	UIOut  []string
	UIErr  []string
	Err    error
	Panic  interface{}
	Prompt int
	// Hung: driver.PProf did not return within the watchdog time (this run, or an earlier one of this process:
	// a hung run keeps the driver's process-wide locks, so later runs are not attempted)
	Hung bool
	// Marks[i] = number of UIOut entries when interactive line i was requested: UIOut[Marks[i]:Marks[i+1]] is what
	// line i printed through the UI
	Marks []int
}

func (r *Result) File(name string) string { return string(r.Files[name]) }

// UIOf returns what interactive line i printed through the UI.
func (r *Result) UIOf(i int) string {
	if i+1 >= len(r.Marks) {
		return ""
	}
	return strings.Join(r.UIOut[r.Marks[i]:r.Marks[i+1]], "\n")
}

var (
	mu       sync.Mutex // the driver's option store is process-global: one PProf call at a time
	pristine = map[string]interface{}{}
	hung     string // set once a run did not come back
)

// Watchdog is how long one driver.PProf call may take.
var Watchdog = 300 * time.Second

// flagSet implements plugin.FlagSet over an argument list. The driver registers
// every option flag with the CURRENT value of the process-global option store as
// its default, so a value set by an earlier call would leak into the next one;
// the defaults seen on the first registration in this process are remembered and
// used ever after (each call then behaves like a fresh process).
type flagSet struct {
	args    []string
	bools   map[string]*bool
	ints    map[string]*int
	floats  map[string]*float64
	strs    map[string]*string
	lists   map[string]*[]*string
	unknown []string
}

func def(name string, d interface{}) interface{} {
	if v, ok := pristine[name]; ok {
		return v
	}
	pristine[name] = d
	return d
}

func (f *flagSet) Bool(n string, d bool, u string) *bool {
	v := def(n, d).(bool)
	f.bools[n] = &v
	return &v
}
func (f *flagSet) Int(n string, d int, u string) *int {
	v := def(n, d).(int)
	f.ints[n] = &v
	return &v
}
func (f *flagSet) Float64(n string, d float64, u string) *float64 {
	v := def(n, d).(float64)
	f.floats[n] = &v
	return &v
}
func (f *flagSet) String(n string, d string, u string) *string {
	v := def(n, d).(string)
	f.strs[n] = &v
	return &v
}
func (f *flagSet) StringList(n string, d string, u string) *[]*string {
	v := []*string{}
	f.lists[n] = &v
	return &v
}
func (f *flagSet) ExtraUsage() string      { return "" }
func (f *flagSet) AddExtraUsage(eu string) {}

func (f *flagSet) Parse(usage func()) []string {
	i := 0
	for ; i < len(f.args); i++ {
		a := f.args[i]
		if !strings.HasPrefix(a, "-") || a == "-" {
			break
		}
		if a == "--" {
			i++
			break
		}
		name := strings.TrimLeft(a, "-")
		val, hasVal := "", false
		if k := strings.Index(name, "="); k >= 0 {
			name, val, hasVal = name[:k], name[k+1:], true
		}
		switch {
		case f.bools[name] != nil:
			b := true
			if hasVal {
				p, err := strconv.ParseBool(val)
				if err != nil {
					f.unknown = append(f.unknown, a)
					usage()
					return nil
				}
				b = p
			}
			*f.bools[name] = b
		case f.ints[name] != nil:
			if !hasVal {
				i++
				if i < len(f.args) {
					val = f.args[i]
				}
			}
			n, err := strconv.Atoi(val)
			if err != nil {
				f.unknown = append(f.unknown, a)
				usage()
				return nil
			}
			*f.ints[name] = n
		case f.floats[name] != nil:
			if !hasVal {
				i++
				if i < len(f.args) {
					val = f.args[i]
				}
			}
			x, err := strconv.ParseFloat(val, 64)
			if err != nil {
				f.unknown = append(f.unknown, a)
				usage()
				return nil
			}
			*f.floats[name] = x
		case f.strs[name] != nil:
			if !hasVal {
				i++
				if i < len(f.args) {
					val = f.args[i]
				}
			}
			*f.strs[name] = val
		case f.lists[name] != nil:
			if !hasVal {
				i++
				if i < len(f.args) {
					val = f.args[i]
				}
			}
			v := val
			*f.lists[name] = append(*f.lists[name], &v)
		default:
			f.unknown = append(f.unknown, a)
			usage()
			return nil
		}
	}
	rest := f.args[i:]
	if len(rest) == 0 {
		usage()
		return nil
	}
	return rest
}

type fetcher struct {
	fn func(src string) (*profile.Profile, error)
}

func (f fetcher) Fetch(src string, d, t time.Duration) (*profile.Profile, string, error) {
	p, err := f.fn(src)
	return p, "", err
}

type noSym struct{}

func (noSym) Symbolize(mode string, srcs plugin.MappingSources, p *profile.Profile) error { return nil }

// NoObj is an ObjTool that knows no binary.
type NoObj struct{}

func (NoObj) Open(file string, start, limit, offset uint64, rel string) (plugin.ObjFile, error) {
	return nil, fmt.Errorf("no object file %q in the harness", file)
}
func (NoObj) Disasm(file string, start, end uint64, intel bool) ([]plugin.Inst, error) {
	return nil, fmt.Errorf("no disassembler in the harness")
}

type writer struct {
	mu  sync.Mutex
	res *Result
}
type wfile struct {
	bytes.Buffer
	w    *writer
	name string
}

func (f *wfile) Close() error {
	f.w.mu.Lock()
	f.w.res.Files[f.name] = append([]byte{}, f.Bytes()...)
	f.w.mu.Unlock()
	return nil
}
func (w *writer) Open(name string) (io.WriteCloser, error) {
	// an output that cannot be opened (the fault a real file system reports for a missing directory)
	if strings.HasPrefix(name, "/nonexistent-dir/") {
		return nil, &os.PathError{Op: "open", Path: name, Err: syscall.ENOENT}
	}
	w.mu.Lock()
	w.res.Order = append(w.res.Order, name)
	w.mu.Unlock()
	return &wfile{w: w, name: name}, nil
}

type ui struct {
	mu    sync.Mutex
	o     *Opts
	res   *Result
	next  int
	isTTY bool
}

func (u *ui) ReadLine(prompt string) (string, error) {
	u.mu.Lock()
	i := u.next
	u.next++
	u.res.Prompt = u.next
	u.res.Marks = append(u.res.Marks, len(u.res.UIOut))
	u.mu.Unlock()
	if u.o.OnPrompt != nil {
		u.o.OnPrompt(i)
	}
	if i >= len(u.o.Lines) {
		return "", io.EOF
	}
	return u.o.Lines[i], nil
}
func (u *ui) Print(args ...interface{}) {
	u.mu.Lock()
	u.res.UIOut = append(u.res.UIOut, fmt.Sprint(args...))
	u.mu.Unlock()
}
func (u *ui) PrintErr(args ...interface{}) {
	if u.o.ErrDelay > 0 {
		time.Sleep(u.o.ErrDelay)
	}
	u.mu.Lock()
	u.res.UIErr = append(u.res.UIErr, fmt.Sprint(args...))
	u.mu.Unlock()
}
func (u *ui) IsTerminal() bool                             { return u.isTTY }
func (u *ui) WantBrowser() bool                            { return false }
func (u *ui) SetAutoComplete(complete func(string) string) {}

// Run executes driver.PProf once. Calls are serialised (global option store).
func Run(o Opts) *Result {
	mu.Lock()
	defer mu.Unlock()
	if hung != "" {
		return &Result{Files: map[string][]byte{}, Hung: true, Err: fmt.Errorf("harness: not run, an earlier driver.PProf call never returned (%s)", hung)}
	}
	res := &Result{Files: map[string][]byte{}}
	fs := &flagSet{args: o.Args, bools: map[string]*bool{}, ints: map[string]*int{}, floats: map[string]*float64{},
		strs: map[string]*string{}, lists: map[string]*[]*string{}}
	po := &plugin.Options{
		Writer:  &writer{res: res},
		Flagset: fs,
		Fetch:   fetcher{o.Fetch},
		Sym:     o.Sym,
		Obj:     o.Obj,
		UI:      &ui{o: &o, res: res, isTTY: o.Terminal},
	}
	if o.RealWriter {
		po.Writer = nil
	}
	if po.Sym == nil && !o.RealSym {
		po.Sym = noSym{}
	}
	if po.Obj == nil {
		po.Obj = NoObj{}
	}
	if o.HTTP != nil {
		po.HTTPServer = o.HTTP
	}
	if o.Transport != nil {
		po.HTTPTransport = o.Transport
	}
	done := make(chan struct{})
	go func() {
		defer close(done)
		defer func() {
			if r := recover(); r != nil {
				res.Panic = r
			}
		}()
		res.Err = driver.PProf(po)
	}()
	select {
	case <-done:
	case <-time.After(Watchdog):
		hung = fmt.Sprintf("args %q lines %q", o.Args, o.Lines)
		return &Result{Files: map[string][]byte{}, Hung: true, Err: fmt.Errorf("harness: driver.PProf did not return within %v (%s)", Watchdog, hung)}
	}
	if len(fs.unknown) > 0 && res.Err == nil {
		res.Err = fmt.Errorf("harness: unknown flag %v", fs.unknown)
	}
	return res
}

// ---- small readers of report text ----

var numRE = regexp.MustCompile(`^-?[0-9]+(\.[0-9]+)?`)

// ParseInt parses a value printed with unit "count"/unitless: plain integer.
func ParseInt(s string) (int64, bool) {
	s = strings.TrimSpace(s)
	n, err := strconv.ParseInt(s, 10, 64)
	return n, err == nil
}

// TopRow is one line of the -top/-text report.
type TopRow struct {
	Flat, Cum int64
	Name      string
}

// ParseTop extracts the legend lines and rows of a text report whose values are
// plain integers (sample unit "count" or unknown).
func ParseTop(out string) (legend []string, rows []TopRow, err error) {
	lines := strings.Split(out, "\n")
	i := 0
	for ; i < len(lines); i++ {
		if strings.HasPrefix(strings.TrimSpace(lines[i]), "flat  flat%") {
			i++
			break
		}
		legend = append(legend, lines[i])
	}
	for ; i < len(lines); i++ {
		l := lines[i]
		if strings.TrimSpace(l) == "" {
			continue
		}
		f := strings.Fields(l)
		if len(f) < 5 {
			return nil, nil, fmt.Errorf("bad top row %q", l)
		}
		flat, ok1 := ParseInt(f[0])
		cum, ok2 := ParseInt(f[3])
		if !ok1 || !ok2 {
			return nil, nil, fmt.Errorf("non-integer values in top row %q", l)
		}
		// name = everything after the 5th column
		idx := 0
		rest := l
		for k := 0; k < 5; k++ {
			rest = strings.TrimLeft(rest, " ")
			idx = strings.IndexAny(rest, " ")
			if idx < 0 {
				rest = ""
				break
			}
			rest = rest[idx:]
		}
		name := strings.TrimPrefix(rest, " ")
		// the row is "%10s %8s %8s %10s %8s  %s": two spaces before the name
		name = strings.TrimPrefix(name, " ")
		rows = append(rows, TopRow{flat, cum, name})
	}
	return legend, rows, nil
}
