// C20 harness, built with the race detector. Concurrent mixes generated from the
// operations the tool itself performs or permits:
//
//	encode    k goroutines x {Write, WriteUncompressed, Copy} on ONE profile, with the verif gate
//	          sleeping between preEncode and marshal to widen the window; every result must
//	          equal the sequential encoding
//	binutils  concurrent SourceLine on one ObjFile while the tool configuration is being
//	          changed (copy-on-write rep); results must equal the sequential ones
//	options   (run through the c10 harness under -race by bin/check: web handlers, option store)
//
// Data races are reported by the runtime on stderr / GORACE log_path and turned into
// violations by bin/check.
package main

import (
	"bytes"
	"debug/elf"
	"encoding/binary"
	"fmt"
	"net/http"
	"net/http/httptest"
	"os"
	"path/filepath"
	"strings"
	"sync"
	"time"

	"github.com/google/pprof/internal/binutils"
	"github.com/google/pprof/internal/driver"
	"github.com/google/pprof/internal/transport"
	"github.com/google/pprof/internal/zzverif/vdrv"
	"github.com/google/pprof/internal/zzverif/vlib"
	"github.com/google/pprof/profile"
)

var run *vlib.Run

func bigProfile(n int) *profile.Profile {
	m := vlib.AMap{Build: "B01", File: "bin", Start: 16, Size: 8}
	var ss []vlib.ASample
	for i := 0; i < n; i++ {
		f := vlib.AFn{Name: fmt.Sprintf("fn%d", i%97), Sys: fmt.Sprintf("sys%d", i%89), File: fmt.Sprintf("file%d.c", i%13)}
		g := vlib.AFn{Name: fmt.Sprintf("gn%d", i%31), Sys: "g", File: "g.c"}
		ss = append(ss, vlib.ASample{Vals: []int64{int64(i), int64(i * 3)},
			Locs: []vlib.ALoc{{Map: m, Rel: int64(i%50 + 1), Lines: []vlib.ALine{{Fn: f, Line: int64(i)}}}, {Map: m, Rel: int64(i%7 + 60), Lines: []vlib.ALine{{Fn: g, Line: 2}}}},
			Lab:  []vlib.ASLab{{K: "k", V: []string{fmt.Sprintf("v%d", i%11)}}}, Num: []vlib.ANLab{{K: "bytes", V: []int64{int64(i)}, U: []string{"bytes"}}}})
	}
	c := vlib.NewConc(0)
	c.Share = 1
	return c.Profile(vlib.AProf{ST: []vlib.AVT{{T: "s1", U: "count"}, {T: "s2", U: "bytes"}}, Samples: ss})
}

// slowWriter is a destination that takes its time (a pipe, a socket): a Write call stays inside its final flush for a while
type slowWriter struct{ b *bytes.Buffer }

func (w slowWriter) Write(x []byte) (int, error) {
	time.Sleep(300 * time.Microsecond)
	return w.b.Write(x)
}

func encodePart(rounds int) {
	p := bigProfile(400)
	p2 := bigProfile(37) // another profile written at the same time: whatever Write calls share must not leak between them
	var seqU, seqC, seqC2 bytes.Buffer
	p.WriteUncompressed(&seqU)
	p.Write(&seqC)
	p2.Write(&seqC2)
	r := vlib.NewRand(run.Seed + 20)
	// the gate sleeps (no synchronisation!) between preEncode and marshal for some callers
	var gmu sync.Mutex
	gateN := 0
	profile.VerifGate = func(point string) {
		gmu.Lock()
		gateN++
		n := gateN
		gmu.Unlock()
		if n%3 == 0 {
			time.Sleep(time.Duration(200+n%5*300) * time.Microsecond)
		}
	}
	defer func() { profile.VerifGate = nil }()
	for round := 0; round < rounds; round++ {
		k := 2 + r.Intn(6)
		ops := make([]int, k)
		for i := range ops {
			ops[i] = r.Intn(5)
		}
		var wg sync.WaitGroup
		outs := make([][]byte, k)
		for i := 0; i < k; i++ {
			wg.Add(1)
			go func(i int) {
				defer wg.Done()
				defer func() {
					if x := recover(); x != nil {
						run.Violate("encode", "encode-panic", fmt.Sprint(x), ops, nil)
					}
				}()
				var b bytes.Buffer
				switch ops[i] {
				case 0:
					p.WriteUncompressed(&b)
				case 1:
					p.Write(&b)
				case 2:
					p.Copy().WriteUncompressed(&b)
				case 3:
					p.Write(slowWriter{&b})
				case 4:
					p2.Write(slowWriter{&b})
				}
				outs[i] = b.Bytes()
			}(i)
		}
		wg.Wait()
		for i, o := range outs {
			want := seqU.Bytes()
			if ops[i] == 1 || ops[i] == 3 {
				want = seqC.Bytes()
			}
			if ops[i] == 4 {
				want = seqC2.Bytes()
			}
			if !bytes.Equal(o, want) {
				run.Violate("encode", "torn-encode", fmt.Sprintf("round %d: operation %d of %v produced %d bytes that differ from the sequential encoding (%d bytes)", round, i, ops, len(o), len(want)), ops, nil)
			}
		}
		run.Count(fmt.Sprintf("encode|%v", ops))
	}
}

func binutilsPart(rounds int) {
	repo := os.Getenv("VERIF_REPO")
	if repo == "" {
		repo = "/repo"
	}
	exe := filepath.Join(repo, "internal", "binutils", "testdata", "exe_linux_64")
	addrs := []uint64{0x40052d, 0x400540, 0x400560, 0x40053c}
	// sequential answers under each configuration a reader may legitimately hold
	seq := map[uint64]map[string]bool{}
	for _, fast := range []bool{false, true} {
		bu := &binutils.Binutils{}
		bu.SetFastSymbolization(fast)
		f, err := bu.Open(exe, 0, 0, 0, "")
		if err != nil {
			run.Note("binutils part skipped: " + err.Error())
			return
		}
		for _, a := range addrs {
			fr, err := f.SourceLine(a)
			if seq[a] == nil {
				seq[a] = map[string]bool{}
			}
			seq[a][fmt.Sprint(fr, err)] = true
		}
		f.Close()
	}
	bu := &binutils.Binutils{}
	shared, err := bu.Open(exe, 0, 0, 0, "")
	if err != nil {
		run.Note("binutils part skipped: " + err.Error())
		return
	}
	defer shared.Close()
	check := func(a uint64, fr interface{}, err error) {
		if got := fmt.Sprint(fr, err); !seq[a][got] {
			run.Violate("binutils", "concurrent-sourceline-differs", fmt.Sprintf("SourceLine(%#x) = %s concurrently; sequentially one of %v", a, got, seq[a]), nil, nil)
		}
	}
	for round := 0; round < rounds; round++ {
		var wg sync.WaitGroup
		for g := 0; g < 6; g++ {
			wg.Add(1)
			go func(g int) {
				defer wg.Done()
				defer func() {
					if x := recover(); x != nil {
						run.Violate("binutils", "binutils-panic", fmt.Sprint(x), nil, nil)
					}
				}()
				switch {
				case g == 5:
					// reconfigure while others open files and symbolize: every reader must keep the
					// configuration it obtained (copy-on-write), never see one half updated
					for k := 0; k < 4; k++ {
						bu.SetFastSymbolization((round+k)%2 == 0)
						bu.SetTools("")
						_ = bu.String()
					}
				case g < 2:
					// an ObjFile opened before the reconfiguration
					for _, a := range addrs {
						fr, err := shared.SourceLine(a)
						check(a, fr, err)
					}
				default:
					// open a fresh ObjFile: reads the current configuration, first SourceLine starts the tool
					f, err := bu.Open(exe, 0, 0, 0, "")
					if err != nil {
						run.Violate("binutils", "concurrent-open-fails", err.Error(), nil, nil)
						return
					}
					for _, a := range addrs {
						fr, err := f.SourceLine(a)
						check(a, fr, err)
					}
					if _, err := f.Symbols(nil, 0); err != nil {
						run.Violate("binutils", "concurrent-symbols-fails", err.Error(), nil, nil)
					}
					f.Close()
				}
			}(g)
		}
		wg.Wait()
		run.Count(fmt.Sprintf("binutils|%d", round%4))
	}
}

const a2lScript = `#!/bin/sh
while read a; do
  echo "0x$a"
  if [ "$a" = "ffffffffffffffff" ]; then echo '??'; echo '??:0'; else echo "s$a"; echo "src.c:7"; fi
done
`

// several goroutines symbolizing through ONE addr2line-backed ObjFile: the tool is a line-oriented pipe, so a
// query and its sentinel must not interleave with another caller's; every answer must be the caller's own
func a2lPart(rounds int) {
	pipeToolPart("addr2line", a2lScript, rounds)
	pipeToolPart("llvm-symbolizer", llvmScript, rounds)
	dyingToolPart()
	firstLookupPart(rounds)
}

const llvmScript = `#!/bin/sh
while read t f a; do
  x=${a#0x}
  echo "{\"Address\":\"$a\",\"ModuleName\":\"$f\",\"Symbol\":[{\"Line\":7,\"Column\":0,\"FunctionName\":\"s$x\",\"FileName\":\"src.c\",\"StartLine\":0}]}"
done
`

// ToolPipe.tla on the real code: the scripted tool exits after k answers (a crash, a closed pipe). The calls the fault
// hits get an error; every call RETURNS (nobody waits for ever for a mutex whose holder has left) and an answer is the
// caller's own. The watchdog is generous (20 s for calls that take microseconds): it decides between "returned" and
// "blocked for ever", not between fast and slow.
const dyingA2l = `#!/bin/sh
n=0
while read a; do
  n=$((n+1)); if [ $n -gt %d ]; then exit 1; fi
  echo "0x$a"
  if [ "$a" = "ffffffffffffffff" ]; then echo '??'; echo '??:0'; else echo "s$a"; echo "src.c:7"; fi
done
`
const dyingLLVM = `#!/bin/sh
n=0
while read t f a; do
  n=$((n+1)); if [ $n -gt %d ]; then exit 1; fi
  x=${a#0x}
  echo "{\"Address\":\"$a\",\"ModuleName\":\"$f\",\"Symbol\":[{\"Line\":7,\"Column\":0,\"FunctionName\":\"s$x\",\"FileName\":\"src.c\",\"StartLine\":0}]}"
done
`

// the lazily computed load base of an ObjFile: the FIRST lookups, made by several goroutines at once on a fresh ObjFile
// of a shared object loaded far from its link address, all wait for the one base computation and translate with its
// result (Shared.tla's once-protocol: nobody reads the value before the writer has finished)
func firstLookupPart(rounds int) {
	dir, err := os.MkdirTemp("", "c20-first-")
	if err != nil {
		run.Infra(err.Error())
		return
	}
	defer os.RemoveAll(dir)
	var b bytes.Buffer
	h := elf.Header64{Type: uint16(elf.ET_DYN), Machine: uint16(elf.EM_X86_64), Version: 1, Phoff: 64, Ehsize: 64, Phentsize: 56, Phnum: 1, Shentsize: 64}
	copy(h.Ident[:], []byte{0x7f, 'E', 'L', 'F', byte(elf.ELFCLASS64), byte(elf.ELFDATA2LSB), 1})
	binary.Write(&b, binary.LittleEndian, h)
	binary.Write(&b, binary.LittleEndian, elf.Prog64{Type: uint32(elf.PT_LOAD), Flags: uint32(elf.PF_R | elf.PF_X), Off: 0, Vaddr: 0, Filesz: 4096, Memsz: 65536, Align: 4096})
	exe := filepath.Join(dir, "lib.so")
	os.WriteFile(exe, append(b.Bytes(), make([]byte, 4096-b.Len())...), 0o755)
	const bias = 0x7f0000000000
	for round := 0; round < rounds; round++ {
		bu := &binutils.Binutils{}
		bu.SetTools("nm:" + dir) // nothing there: the nm-backed object, no external tool is run
		f, err := bu.Open(exe, bias, bias+0x10000, 0, "")
		if err != nil {
			run.Infra("first-lookup part: " + err.Error())
			return
		}
		start := make(chan struct{})
		var wg sync.WaitGroup
		for g := 0; g < 8; g++ {
			wg.Add(1)
			go func(g int) {
				defer wg.Done()
				<-start
				q := uint64(0x2468 + g*16)
				got, err := f.ObjAddr(bias + q)
				if err != nil || got != q {
					run.Violate("binutils", "first-lookup-wrong-address", fmt.Sprintf("8 goroutines made the first lookups on a fresh ObjFile (load bias %#x) at once: ObjAddr(%#x) = %#x, %v; alone it is %#x", uint64(bias), uint64(bias)+q, got, err, q), nil, nil)
				}
			}(g)
		}
		close(start)
		wg.Wait()
		f.Close()
		run.Count(fmt.Sprintf("first-lookup|%d", round%4))
	}
}

func dyingToolPart() {
	for _, t := range []struct{ tool, script string }{{"addr2line", dyingA2l}, {"llvm-symbolizer", dyingLLVM}} {
		for _, k := range []int{0, 1, 3, 8} {
			dyingTool(t.tool, fmt.Sprintf(t.script, k), k)
		}
	}
}

func dyingTool(tool, script string, k int) {
	dir, err := os.MkdirTemp("", "c20-dying-")
	if err != nil {
		run.Infra(err.Error())
		return
	}
	defer os.RemoveAll(dir)
	os.WriteFile(filepath.Join(dir, tool), []byte(script), 0o755)
	var b bytes.Buffer
	h := elf.Header64{Type: uint16(elf.ET_EXEC), Machine: uint16(elf.EM_X86_64), Version: 1, Phoff: 64, Ehsize: 64, Phentsize: 56, Phnum: 1, Shentsize: 64}
	copy(h.Ident[:], []byte{0x7f, 'E', 'L', 'F', byte(elf.ELFCLASS64), byte(elf.ELFDATA2LSB), 1})
	binary.Write(&b, binary.LittleEndian, h)
	binary.Write(&b, binary.LittleEndian, elf.Prog64{Type: uint32(elf.PT_LOAD), Flags: uint32(elf.PF_R | elf.PF_X), Off: 0, Vaddr: 0, Filesz: 4096, Memsz: 65536, Align: 4096})
	exe := filepath.Join(dir, "bin")
	os.WriteFile(exe, append(b.Bytes(), make([]byte, 4096-b.Len())...), 0o755)
	oldPath := os.Getenv("PATH")
	os.Setenv("PATH", dir)
	defer os.Setenv("PATH", oldPath)
	bu := &binutils.Binutils{}
	bu.SetTools(tool + ":" + dir)
	f, err := bu.Open(exe, 0x10000, 0x20000, 0, "")
	if err != nil {
		run.Infra(tool + " dying part: " + err.Error())
		return
	}
	run.Count(fmt.Sprintf("dying|%s|%d", tool, k))
	const callers, calls = 4, 6
	var returned, crossed int32
	var mu sync.Mutex
	done := make(chan struct{})
	var wg sync.WaitGroup
	for g := 0; g < callers; g++ {
		wg.Add(1)
		go func(g int) {
			defer wg.Done()
			defer func() { recover() }()
			for c := 0; c < calls; c++ {
				q := uint64(0x100 + g*0x1000 + c*8)
				fr, err := f.SourceLine(0x10000 + q)
				mu.Lock()
				returned++
				if err == nil && len(fr) > 0 && strings.HasPrefix(fr[0].Func, "s") && fr[0].Func != fmt.Sprintf("s%x", q) {
					crossed++
				}
				mu.Unlock()
			}
		}(g)
	}
	go func() { wg.Wait(); close(done) }()
	select {
	case <-done:
		f.Close()
	case <-time.After(20 * time.Second):
		mu.Lock()
		n := returned
		mu.Unlock()
		// the ObjFile is abandoned (Close might block as well)
		run.Violate("binutils", tool+"-blocked-after-tool-fault", fmt.Sprintf("the scripted %s exited after %d answers; of %d SourceLine calls by %d goroutines on one ObjFile only %d had returned 20 s later: a caller is blocked for ever", tool, k, callers*calls, callers, n), nil, nil)
		return
	}
	if crossed > 0 {
		run.Violate("binutils", tool+"-crossed-answers", fmt.Sprintf("after the tool's exit %d calls got another caller's answer", crossed), nil, nil)
	}
}

func pipeToolPart(tool, script string, rounds int) {
	dir, err := os.MkdirTemp("", "c20-a2l-")
	if err != nil {
		run.Infra(err.Error())
		return
	}
	defer os.RemoveAll(dir)
	os.WriteFile(filepath.Join(dir, tool), []byte(script), 0o755)
	// a minimal ET_EXEC file: header + one executable PT_LOAD at vaddr 0
	var b bytes.Buffer
	h := elf.Header64{Type: uint16(elf.ET_EXEC), Machine: uint16(elf.EM_X86_64), Version: 1, Phoff: 64, Ehsize: 64, Phentsize: 56, Phnum: 1, Shentsize: 64}
	copy(h.Ident[:], []byte{0x7f, 'E', 'L', 'F', byte(elf.ELFCLASS64), byte(elf.ELFDATA2LSB), 1})
	binary.Write(&b, binary.LittleEndian, h)
	binary.Write(&b, binary.LittleEndian, elf.Prog64{Type: uint32(elf.PT_LOAD), Flags: uint32(elf.PF_R | elf.PF_X), Off: 0, Vaddr: 0, Filesz: 4096, Memsz: 65536, Align: 4096})
	exe := filepath.Join(dir, "bin")
	os.WriteFile(exe, append(b.Bytes(), make([]byte, 4096-b.Len())...), 0o755)
	oldPath := os.Getenv("PATH")
	os.Setenv("PATH", dir) // no llvm-symbolizer, no nm: the plain addr2line path
	defer os.Setenv("PATH", oldPath)
	bu := &binutils.Binutils{}
	bu.SetTools(tool + ":" + dir)
	f, err := bu.Open(exe, 0x10000, 0x20000, 0, "")
	if err != nil {
		run.Infra(tool + " part: " + err.Error())
		return
	}
	defer f.Close()
	if fr, err := f.SourceLine(0x10010); err != nil || len(fr) == 0 || fr[0].Func != "s10" {
		run.Infra(fmt.Sprintf("%s part: the scripted tool does not answer as expected: %v %v", tool, fr, err))
		return
	}
	for round := 0; round < rounds; round++ {
		var wg sync.WaitGroup
		for g := 0; g < 6; g++ {
			wg.Add(1)
			go func(g int) {
				defer wg.Done()
				defer func() {
					if x := recover(); x != nil {
						run.Violate("binutils", tool+"-panic", fmt.Sprint(x), nil, nil)
					}
				}()
				for k := 0; k < 40; k++ {
					q := uint64(0x100 + g*0x1000 + k*8)
					fr, err := f.SourceLine(0x10000 + q)
					want := fmt.Sprintf("s%x", q)
					if err != nil || len(fr) != 1 || fr[0].Func != want {
						run.Violate("binutils", tool+"-crossed-answers", fmt.Sprintf("SourceLine(%#x) on a shared ObjFile returned %v %v under concurrency; alone it returns [%s]", 0x10000+q, fr, err, want), nil, nil)
						return
					}
				}
			}(g)
		}
		wg.Wait()
		run.Count(fmt.Sprintf("%s|%d", tool, round%4))
	}
}

// SharedState.tla (d): registrations of temporary files racing with clean-ups. Every file registered must be gone
// once a clean-up that started after its registration has returned - here: after a final clean-up with nothing
// else running. A file that survives was registered but neither kept in the registry nor removed.
func tempRegistryPart(rounds int) {
	dir, err := os.MkdirTemp("", "c20-tmpreg-")
	if err != nil {
		run.Infra(err.Error())
		return
	}
	defer os.RemoveAll(dir)
	for r := 0; r < rounds; r++ {
		mk := func(name string) string {
			p := filepath.Join(dir, name)
			if err := os.WriteFile(p, []byte("x"), 0o644); err != nil {
				run.Infra(err.Error())
			}
			return p
		}
		// a long registry, so that a clean-up takes a while
		for i := 0; i < 1500; i++ {
			driver.VerifDeferDeleteTempFile(mk(fmt.Sprintf("r%d-old%d", r, i)))
		}
		var wg sync.WaitGroup
		stop := make(chan struct{})
		var late []string
		wg.Add(1)
		go func() {
			defer wg.Done()
			for i := 0; ; i++ {
				select {
				case <-stop:
					return
				default:
				}
				p := mk(fmt.Sprintf("r%d-late%d", r, i))
				driver.VerifDeferDeleteTempFile(p)
				late = append(late, p)
			}
		}()
		for k := 0; k < 3; k++ {
			driver.VerifCleanupTempFiles()
		}
		close(stop)
		wg.Wait()
		driver.VerifCleanupTempFiles() // nothing else is running: the registry must be complete
		run.Count(fmt.Sprintf("tempregistry|%d", r%4))
		left, _ := filepath.Glob(filepath.Join(dir, fmt.Sprintf("r%d-*", r)))
		if len(left) > 0 {
			run.Violate("tempfile", "temp-file-leaked", fmt.Sprintf("round %d: %d of %d files registered while clean-ups were running were never removed (e.g. %s)", r, len(left), len(late), filepath.Base(left[0])), nil, nil)
			for _, f := range left {
				os.Remove(f)
			}
			return
		}
	}
}

// SharedState.tla (e): the first use of a Binutils value (tool discovery, slow here: the scripted objdump sleeps)
// overlapping a setter. Once the setter has returned, what it set stays set.
func lazyInitPart(rounds int) {
	dir, err := os.MkdirTemp("", "c20-lazy-")
	if err != nil {
		run.Infra(err.Error())
		return
	}
	defer os.RemoveAll(dir)
	os.WriteFile(filepath.Join(dir, "objdump"), []byte("#!/bin/sh\n/bin/sleep 0.06\necho 'GNU objdump (GNU Binutils) 2.40'\n"), 0o755)
	other := filepath.Join(dir, "other")
	os.MkdirAll(other, 0o755)
	os.WriteFile(filepath.Join(other, "nm"), []byte("#!/bin/sh\nexit 0\n"), 0o755)
	oldPath := os.Getenv("PATH")
	os.Setenv("PATH", dir)
	defer os.Setenv("PATH", oldPath)
	for r := 0; r < rounds; r++ {
		bu := &binutils.Binutils{}
		var wg sync.WaitGroup
		wg.Add(1)
		go func() {
			defer wg.Done()
			_ = bu.String() // first use
		}()
		time.Sleep(time.Duration(5+10*(r%3)) * time.Millisecond)
		what := "fast"
		if r%2 == 0 {
			bu.SetFastSymbolization(true)
		} else {
			what = "tools"
			bu.SetTools("nm:" + other)
		}
		wg.Wait()
		got := bu.String()
		run.Count("lazyinit|" + what + fmt.Sprint(r%3))
		if what == "fast" && !strings.Contains(got, "fast=true") {
			run.Violate("binutils", "setter-lost:fast", fmt.Sprintf("SetFastSymbolization(true) returned while another goroutine made the first use; afterwards the configuration is %s", got), nil, nil)
			return
		}
		if what == "tools" && !strings.Contains(got, filepath.Join(other, "nm")) {
			run.Violate("binutils", "setter-lost:tools", fmt.Sprintf("SetTools(nm:%s) returned while another goroutine made the first use; afterwards the configuration is %s", other, got), nil, nil)
			return
		}
	}
}

// sources fetched in parallel through the shared HTTP transport: one that asks for no certificate check
// (https+insecure://) next to one that must be checked (https:// to a server with a certificate nobody signed).
// What each fetch gets is what it gets when fetched alone: the first is fetched, the second refused.
func transportPart(rounds int) {
	var body bytes.Buffer
	bigProfile(5).Write(&body)
	h := http.HandlerFunc(func(w http.ResponseWriter, r *http.Request) { w.Write(body.Bytes()) })
	s1, s2 := httptest.NewTLSServer(h), httptest.NewTLSServer(h)
	defer s1.Close()
	defer s2.Close()
	insecure := "https+insecure://" + strings.TrimPrefix(s1.URL, "https://") + "/pprof/heap"
	secure := s2.URL + "/pprof/heap"
	one := func(srcs []string, delay map[string]time.Duration) *vdrv.Result {
		return vdrv.Run(vdrv.Opts{Args: append([]string{"-proto", "-symbolize=none", "-output=out"}, srcs...), Transport: transport.New(nil),
			Fetch: func(src string) (*profile.Profile, error) {
				time.Sleep(delay[src])
				return nil, nil // the driver's own URL fetch, through the transport
			}})
	}
	count := func(r *vdrv.Result) int {
		p, err := profile.ParseData(r.Files["out"])
		if err != nil {
			return -1
		}
		n := 0
		for _, s := range p.Sample {
			n += int(s.Value[0])
		}
		return n
	}
	alone := one([]string{insecure}, nil)
	refused := one([]string{secure}, nil)
	if alone.Err != nil || refused.Err == nil {
		run.Infra(fmt.Sprintf("transport part: alone the insecure source gives %v and the unverifiable one %v", alone.Err, refused.Err))
		return
	}
	want := count(alone)
	for r := 0; r < rounds; r++ {
		srcs := []string{insecure, secure}
		if r%2 == 1 {
			srcs = []string{secure, insecure}
		}
		res := one(srcs, map[string]time.Duration{secure: time.Duration(r%3) * 40 * time.Millisecond})
		run.Count(fmt.Sprintf("transport|%d", r%6))
		if res.Err != nil || res.Panic != nil {
			run.Violate("fetch", "transport-mixed-error", fmt.Sprint(res.Err, res.Panic), srcs, nil)
			return
		}
		if got := count(res); got != want {
			run.Violate("fetch", "unverified-source-accepted", fmt.Sprintf("sources %v: the merged profile counts %d, the source that may be fetched counts %d alone: the source whose certificate cannot be verified was fetched as well (messages: %v)", srcs, got, want, res.UIErr), srcs, nil)
			return
		}
	}
}

func main() {
	run = vlib.NewRun("C20")
	n := run.N
	if n <= 0 {
		n = 40
	}
	encodePart(n)
	binutilsPart(n / 4)
	a2lPart(n / 2)
	tempRegistryPart(n/10 + 2)
	lazyInitPart(n/10 + 4)
	transportPart(n/10 + 6)
	run.Sample(map[string]interface{}{"encode_rounds": n, "binutils_rounds": n / 4})
	run.Finish("concurrent mixes: rounds of 2..7 goroutines each doing Write / WriteUncompressed / Copy on one shared 400-sample profile with the verif gate sleeping between preEncode and marshal, every output compared with the sequential bytes; 2 goroutines symbolizing through an ObjFile opened earlier and 3 opening fresh ObjFiles (first SourceLine, Symbols) while a sixth toggles fast symbolization and re-selects the tools, every answer compared with the sequential answers under the two configurations; 6 goroutines x 40 queries through one ObjFile backed by a scripted addr2line pipe, every answer must be the caller's own; all under the race detector; non-trivial = distinct operation mix")
}
