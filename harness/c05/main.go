// C05 harness: renders real TRIMMED reports (-top, -tree, -dot with
// nodecount / nodefraction / edgefraction / sort) of TLC-enumerated and random
// profiles and records, for each, what the report shows; TraceTrim.tla decides.
package main

import (
	"encoding/json"
	"fmt"
	"sort"
	"strings"

	"github.com/google/pprof/internal/graph"

	"github.com/google/pprof/internal/zzverif/vdrv"
	"github.com/google/pprof/internal/zzverif/vlib"
	"github.com/google/pprof/internal/zzverif/vrep"
	"github.com/google/pprof/profile"
)

type rcase struct {
	Kind    string         `json:"kind"`
	Samples []vlib.ASample `json:"samples"`
	Cfg     vrep.Cfg       `json:"cfg"`
	K       []vrep.Entry   `json:"K"`
	Exp     struct {
		Nodes []vrep.NodeRow `json:"nodes"`
		Edges []struct {
			Src       vrep.Entry `json:"src"`
			Dst       vrep.Entry `json:"dst"`
			W         int64      `json:"w"`
			AllBypass bool       `json:"allbypass"`
			NoBypass  bool       `json:"nobypass"`
		} `json:"edges"`
	} `json:"exp"`
}

type nameRow struct {
	Name string `json:"name"`
	Flat int64  `json:"flat"`
	Cum  int64  `json:"cum"`
}
type nameEdge struct {
	Src string `json:"src"`
	Dst string `json:"dst"`
	W   int64  `json:"w"`
	Res bool   `json:"res"`
}
type trimEvent struct {
	Op       string         `json:"op"`
	N        int            `json:"n"`
	ID       int            `json:"id"`
	Samples  []vlib.ASample `json:"samples"`
	Cfg      vrep.Cfg       `json:"cfg"`
	Form     string         `json:"form"`
	NC       int64          `json:"nc"`
	EC       int64          `json:"ec"`
	Sort     string         `json:"sort"`
	Nodes    []nameRow      `json:"nodes"`
	Edges    []nameEdge     `json:"edges"`
	Shown    int64          `json:"shown"`
	Total    int64          `json:"total"`
	Dangling int            `json:"dangling"`
}

var (
	run  *vlib.Run
	conc = vlib.NewConc(0)
	evID int
)

func main() {
	run = vlib.NewRun("C05")
	stride := 7
	if run.Tier == "thorough" {
		stride = 1
	}
	run.EachCase(func(i int, raw json.RawMessage) {
		var c rcase
		if err := json.Unmarshal(raw, &c); err != nil {
			run.Infra("case decode: " + err.Error())
			return
		}
		if c.Kind == "kept" {
			keptCase(raw, &c)
			// the comparison profiles (samples labelled pprof::base) also go through the real trimmed reports, once each:
			// their total is the base total only, so the entries shown add up to more than the total
			if hasBase(c.Samples) {
				b, _ := json.Marshal(c.Samples)
				if !baseSeen[string(b)] {
					baseSeen[string(b)] = true
					trimCase(c.Samples, c.Cfg, i)
				}
			}
			return
		}
		if (i+int(run.Seed))%stride != 0 && !recursive(c.Samples) {
			return
		}
		if c.Cfg.Mean || c.Cfg.Gran == "addresses" || strings.HasPrefix(c.Cfg.Gran, "files") {
			return // names must identify entries; the mean variants are C04's
		}
		trimCase(c.Samples, c.Cfg, i)
	})
	randomCases()
	if run.N > 0 {
		callTreeCases()
	}
	run.Finish("each evaluation is one real trimmed report (form x node cutoff x nodecount x edge cutoff x sort) of a TLC-enumerated or random profile, validated by TLC (TraceTrim.tla) against the untrimmed definition; non-trivial = report in which at least one entry or edge was removed or marked residual, counted distinct by (shown rows, edges, options); plus call_tree dot reports of forests (nodecount x node cutoff x sort x mean) compared in the harness with the untrimmed call tree")
}

var baseSeen = map[string]bool{}

func hasBase(ss []vlib.ASample) bool {
	for _, s := range ss {
		for _, l := range s.Lab {
			if l.K == "pprof::base" {
				return true
			}
		}
	}
	return false
}

// recursive reports whether some sample visits a location twice with something else in between.
func recursive(ss []vlib.ASample) bool {
	for _, s := range ss {
		for i := range s.Locs {
			for j := i + 2; j < len(s.Locs); j++ {
				if s.Locs[i].Rel == s.Locs[j].Rel {
					return true
				}
			}
		}
	}
	return false
}

// keptCase replays one (profile, kept set K) case of Trim.tla on the real graph
// builder: graph.New with Options.KeptNodes = K on the aggregated profile
// (Binding A for the rebuild mechanism newTrimmedGraph relies on).
func keptCase(raw json.RawMessage, c *rcase) {
	p := conc.Profile(vlib.AProf{ST: vrep.SampleTypes, Samples: c.Samples})
	var err error
	switch c.Cfg.Gran {
	case "functions":
		err = p.Aggregate(true, true, false, false, false, false)
	case "lines":
		err = p.Aggregate(true, true, true, true, false, false)
	case "files":
		err = p.Aggregate(true, false, true, false, false, false)
	default:
		run.Infra("kept case: granularity " + c.Cfg.Gran)
		return
	}
	if err != nil {
		run.Violate("kept", "kept:aggregate-error", err.Error(), raw, conc)
		return
	}
	kept := graph.NodeSet{}
	for _, e := range c.K {
		kept[vrep.Info(e, conc)] = true
	}
	var g *graph.Graph
	func() {
		defer func() {
			if r := recover(); r != nil {
				run.Violate("kept", "kept:panic", fmt.Sprint(r), raw, conc)
			}
		}()
		g = graph.New(p, &graph.Options{SampleValue: func(v []int64) int64 { return v[c.Cfg.SI-1] }, KeptNodes: kept})
	}()
	if g == nil {
		return
	}
	key := ""
	if len(c.K) > 0 {
		b, _ := json.Marshal([]interface{}{c.K, c.Exp})
		key = string(b)
	}
	run.Count(key)
	var got, want []string
	var gotE, wantE []string
	inGraph := map[*graph.Node]bool{}
	for _, n := range g.Nodes {
		inGraph[n] = true
	}
	for _, n := range g.Nodes {
		got = append(got, fmt.Sprintf("%s|flat=%d|cum=%d", n.Info.PrintableName(), n.Flat, n.Cum))
		if !kept[n.Info] {
			run.Violate("kept", "kept:removed-entry-shown", "node "+n.Info.PrintableName()+" is not in the kept set", raw, conc)
		}
		for dst, e := range n.Out {
			if !inGraph[dst] {
				run.Violate("kept", "kept:dangling-edge", "edge "+n.Info.PrintableName()+" -> "+dst.Info.PrintableName()+" leads to a node that is not in the graph", raw, conc)
				continue
			}
			gotE = append(gotE, fmt.Sprintf("%s -> %s|w=%d", n.Info.PrintableName(), dst.Info.PrintableName(), e.Weight))
			for _, x := range c.Exp.Edges {
				if vrep.Name(x.Src, conc) == n.Info.PrintableName() && vrep.Name(x.Dst, conc) == dst.Info.PrintableName() {
					if x.AllBypass && !e.Residual {
						run.Violate("kept", "kept:residual-not-marked", "edge "+gotE[len(gotE)-1]+" only bypasses removed entries but is not residual", raw, conc)
					}
					if x.NoBypass && e.Residual {
						run.Violate("kept", "kept:direct-marked-residual", "edge "+gotE[len(gotE)-1]+" is direct in every sample but marked residual", raw, conc)
					}
				}
			}
		}
	}
	for _, r := range c.Exp.Nodes {
		want = append(want, fmt.Sprintf("%s|flat=%d|cum=%d", vrep.Name(r.E, conc), r.RawFlat, r.RawCum))
	}
	shownNames := map[string]bool{}
	for _, r := range c.Exp.Nodes {
		shownNames[vrep.Name(r.E, conc)] = true
	}
	for _, x := range c.Exp.Edges {
		if shownNames[vrep.Name(x.Src, conc)] && shownNames[vrep.Name(x.Dst, conc)] {
			wantE = append(wantE, fmt.Sprintf("%s -> %s|w=%d", vrep.Name(x.Src, conc), vrep.Name(x.Dst, conc), x.W))
		}
	}
	sort.Strings(got)
	sort.Strings(want)
	sort.Strings(gotE)
	sort.Strings(wantE)
	if strings.Join(got, "\n") != strings.Join(want, "\n") {
		run.Violate("kept", "kept:numbers-changed", fmt.Sprintf("rebuild with a kept set changed the numbers of what is shown, got:\n%s\nwant (untrimmed rows of the kept entries):\n%s", strings.Join(got, "\n"), strings.Join(want, "\n")), raw, conc)
	}
	if strings.Join(gotE, "\n") != strings.Join(wantE, "\n") {
		run.Violate("kept", "kept:edges", fmt.Sprintf("got:\n%s\nwant:\n%s", strings.Join(gotE, "\n"), strings.Join(wantE, "\n")), raw, conc)
	}
}

func absI(x int64) int64 {
	if x < 0 {
		return -x
	}
	return x
}

func render(p *profile.Profile, args ...string) *vdrv.Result {
	a := append([]string{}, args...)
	a = append(a, "-output=out", "src")
	return vdrv.Run(vdrv.Opts{Args: a, Fetch: func(string) (*profile.Profile, error) { return p.Copy(), nil }})
}

type setting struct {
	c, n, ec int64
	sort     string
}

func trimCase(samples []vlib.ASample, cfg vrep.Cfg, idx int) {
	p := conc.Profile(vlib.AProf{ST: vrep.SampleTypes, Samples: samples})
	base := vrep.Flags(cfg, conc)
	// untrimmed reference run: total of flats (the base of the cutoffs) and the largest cum
	r0 := render(p, append(append([]string{"-top", "-flat"}, base...), vrep.NoTrim...)...)
	if r0.Err != nil || r0.Panic != nil {
		run.Violate("untrimmed", "untrimmed:error", fmt.Sprint(r0.Err, r0.Panic), map[string]interface{}{"samples": samples, "cfg": cfg}, conc)
		return
	}
	lg0, rows0, err := vdrv.Top(r0.File("out"))
	if err != nil {
		run.Infra("top reader: " + err.Error())
		return
	}
	totalFlat := lg0.Shown
	var maxCum int64
	for _, r := range rows0 {
		if absI(r.Cum) > maxCum {
			maxCum = absI(r.Cum)
		}
	}
	settings := []setting{{0, 1, 0, "flat"}, {0, 2, 0, "cum"}, {2, 0, 0, "flat"}, {1, 2, 2, "cum"}, {maxCum, 0, 1, "flat"}, {maxCum + 1, 0, 0, "cum"}, {0, 3, 3, "flat"}, {3, 1, 0, "flat"}}
	if run.Tier != "thorough" {
		k := (idx + int(run.Seed)) % 4
		settings = []setting{settings[k], settings[k+4]}
	}
	for _, st := range settings {
		nf, ef := 0.0, 0.0
		var nc, ec int64
		if totalFlat != 0 {
			if st.c > 0 {
				nf = (float64(st.c) + 0.5) / float64(absI(totalFlat))
			}
			if st.ec > 0 {
				ef = (float64(st.ec) + 0.5) / float64(absI(totalFlat))
			}
			nc = absI(int64(float64(totalFlat) * nf))
			ec = absI(int64(float64(totalFlat) * ef))
		}
		opts := append([]string{"-" + st.sort, fmt.Sprintf("-nodecount=%d", st.n), fmt.Sprintf("-nodefraction=%g", nf), fmt.Sprintf("-edgefraction=%g", ef)}, base...)
		// the same report with every source file under /src/src/ and -trim_path=/src: the prefix is cut once ("src/x.c"),
		// also when the trimmed graph is built a second time from the kept set; apart from that prefix the report is
		// the one without trim_path
		if idx%4 == int(run.Seed)%4 {
			p2 := conc.Profile(vlib.AProf{ST: vrep.SampleTypes, Samples: samples})
			renamed := false
			for _, f := range p2.Function {
				if f.Filename != "" && !strings.Contains(f.Filename, "src/") {
					f.Filename = "/src/src/" + f.Filename
					renamed = true
				}
			}
			if renamed {
				ra := render(p, append([]string{"-top"}, opts...)...)
				rb := render(p2, append([]string{"-top", "-trim_path=/src"}, opts...)...)
				in := map[string]interface{}{"samples": samples, "cfg": cfg, "form": "top", "opts": opts}
				if ra.Err == nil && ra.Panic == nil {
					if rb.Err != nil || rb.Panic != nil {
						run.Violate("top", "top:error:trim_path", fmt.Sprint(rb.Err, rb.Panic), in, conc)
					} else if a, b := ra.File("out"), strings.ReplaceAll(rb.File("out"), "src/", ""); a != b {
						run.Violate("top", "trim:top:trim_path", "with every source file under /src/src/ and -trim_path=/src the trimmed report differs (apart from the prefix src/) from the report without trim_path:\n"+b+"\nvs\n"+a, in, conc)
					}
					run.Count("trim_path|" + fmt.Sprint(cfg, st))
				}
			}
		}
		for _, form := range []string{"top", "tree", "dot"} {
			r := render(p, append([]string{"-" + form}, opts...)...)
			in := map[string]interface{}{"samples": samples, "cfg": cfg, "form": form, "opts": opts}
			if r.Err != nil || r.Panic != nil {
				run.Violate(form, form+":error", fmt.Sprint(r.Err, r.Panic), in, conc)
				continue
			}
			ev := trimEvent{Op: "trim", ID: evID, N: int(st.n), Samples: samples, Cfg: cfg, Form: form, NC: nc, EC: ec, Sort: st.sort, Nodes: []nameRow{}, Edges: []nameEdge{}}
			var nodes []vdrv.Node
			var edges []vdrv.Edge
			var lg vdrv.Legend
			switch form {
			case "top":
				lg, nodes, err = vdrv.Top(r.File("out"))
			case "tree":
				lg, nodes, edges, err = vdrv.Tree(r.File("out"))
			case "dot":
				lg, nodes, edges, err = vdrv.Dot(r.File("out"))
			}
			if err != nil {
				run.Infra(form + " reader: " + err.Error())
				continue
			}
			shown := map[string]bool{}
			for _, n := range nodes {
				shown[n.Name] = true
				ev.Nodes = append(ev.Nodes, nameRow{n.Name, n.Flat, n.Cum})
			}
			if form == "tree" {
				// every edge is listed under its caller and under its callee: both listings must agree
				var ins, outs []vdrv.Edge
				for _, e := range edges {
					if !shown[e.Src] || !shown[e.Dst] {
						ev.Dangling++
						continue
					}
					if e.Via == "in" {
						ins = append(ins, e)
					} else {
						outs = append(outs, e)
					}
				}
				if vrep.EdgeBag(ins) != vrep.EdgeBag(outs) {
					run.Violate("tree", "tree:edges-asym", "caller lines and callee lines disagree:\n"+vrep.EdgeBag(ins)+"\nvs\n"+vrep.EdgeBag(outs), in, conc)
				}
				edges = ins
			}
			for _, e := range edges {
				if e.Via == "undeclared" {
					ev.Dangling++
					continue
				}
				ev.Edges = append(ev.Edges, nameEdge{e.Src, e.Dst, e.W, e.Residual})
			}
			ev.Shown, ev.Total = lg.Shown, lg.Total
			key := ""
			if len(rows0) != len(nodes) || ev.Dangling > 0 {
				b, _ := json.Marshal([]interface{}{ev.Nodes, ev.Edges, st, form})
				key = string(b)
			}
			for _, e := range ev.Edges {
				if e.Res {
					b, _ := json.Marshal([]interface{}{ev.Nodes, ev.Edges, st, form})
					key = string(b)
				}
			}
			run.Count(key)
			if evID%400 == 0 {
				run.Sample(ev)
			}
			run.Event(ev)
			run.Aux(map[string]interface{}{"n": ev.ID, "samples": samples, "cfg": cfg, "form": form, "opts": opts})
			evID++
		}
	}
}

func randomCases() {
	r := vlib.NewRand(run.Seed + 5)
	fns := []vlib.AFn{{Name: "f", Sys: "f", File: "a.c"}, {Name: "g", Sys: "g", File: "a.c"}, {Name: "h", Sys: "h", File: "b.c"},
		{Name: "i", Sys: "i", File: "b.c"}, {Name: "run", Sys: "run", File: "r.go"}, {Name: "main", Sys: "main", File: "r.go"}}
	m0 := vlib.AMap{Build: "B1", File: "bin", Start: 16, Size: 8}
	var pool []vlib.ALoc
	for i := 0; i < 10; i++ {
		l := vlib.ALoc{Map: m0, Rel: int64(i + 1), Lines: []vlib.ALine{}}
		nl := 1
		if i%4 == 1 {
			nl = 2
		}
		for k := 0; k < nl; k++ {
			l.Lines = append(l.Lines, vlib.ALine{Fn: fns[(i+k*3)%len(fns)], Line: int64(10 + i), Col: 1})
		}
		pool = append(pool, l)
	}
	grans := []string{"functions", "filefunctions", "lines"}
	for it := 0; it < run.N; it++ {
		ns := 2 + r.Intn(6)
		var ss []vlib.ASample
		for i := 0; i < ns; i++ {
			s := vlib.ASample{Vals: []int64{1, int64(r.Intn(9) - 2)}, Lab: []vlib.ASLab{}, Num: []vlib.ANLab{}, Locs: []vlib.ALoc{}}
			depth := 1 + r.Intn(6)
			base := r.Intn(len(pool))
			for d := 0; d < depth; d++ {
				s.Locs = append(s.Locs, pool[(base+r.Intn(4))%len(pool)])
			}
			ss = append(ss, s)
		}
		cfg := vrep.Cfg{Gran: grans[r.Intn(len(grans))], NoInl: r.Intn(4) == 0, SI: 2, TRoot: []string{}, TLeaf: []string{}}
		trimCase(ss, cfg, it)
	}
}

// ---------------------------------------------------------------------------
// Call trees: -dot -call_tree is the one place where trimming does not rebuild
// the graph from the samples with a kept set (what Trim.tla models) but edits
// the tree in place (graph.TrimTree) and prints it with ComposeDot.  Trim.tla /
// TrimRules.tla do not model that variant, so these are directed and random
// runs whose expectations are computed HERE, from the real untrimmed
// -call_tree report of the same profile and the rules of the property:
//   - the entries shown are entries of the untrimmed tree with the same flat/cum
//     (under -mean: the same mean figures),
//   - every printed edge joins two printed entries (nothing like N0 -> Nk),
//   - an entry d whose nearest shown ancestor is a has exactly the in-edge
//     a -> d carrying the weight of the untrimmed edge INTO d (the last removed
//     hop; under -mean the untrimmed mean figure), marked residual iff a is not
//     d's parent; an entry without shown ancestor has no in-edge,
//   - nodecount=N shows at most N entries, nothing below the cum cutoff is
//     shown, the legend accounts for the flats shown (sum reports).
// The forests give every function ONE calling context, so that names identify
// the entries of the call tree; they include several roots, pass-through
// roots and chains (flat = 0: the entropy order of nodecount removes those and
// keeps their descendants) and comparison-like negative values (a cum cutoff
// then removes the middle of a chain).
// ---------------------------------------------------------------------------

type ctNode struct {
	Name   string `json:"name"`
	Parent int    `json:"parent"` // index of the caller, -1 for a root
	Cnt    int64  `json:"cnt"`    // first sample value (the divisor of -mean)
	Self   int64  `json:"self"`   // second sample value; 0 = no sample ends here
}

func ctSamples(f []ctNode) []vlib.ASample {
	m0 := vlib.AMap{Build: "B1", File: "bin", Start: 16, Size: 8}
	loc := func(i int) vlib.ALoc {
		fn := vlib.AFn{Name: f[i].Name, Sys: f[i].Name, File: "t.c"}
		return vlib.ALoc{Map: m0, Rel: int64(i + 1), Lines: []vlib.ALine{{Fn: fn, Line: int64(10 + i), Col: 1}}}
	}
	var ss []vlib.ASample
	for i := range f {
		if f[i].Self == 0 {
			continue
		}
		s := vlib.ASample{Vals: []int64{f[i].Cnt, f[i].Self}, Lab: []vlib.ASLab{}, Num: []vlib.ANLab{}, Locs: []vlib.ALoc{}}
		for k := i; k >= 0; k = f[k].Parent {
			s.Locs = append(s.Locs, loc(k))
		}
		ss = append(ss, s)
	}
	return ss
}

// ctUsable: every entry has a non-zero cum (zero entries are never shown: C04) and a unique name.
func ctUsable(f []ctNode) (ok, neg bool) {
	cum := make([]int64, len(f))
	names := map[string]bool{}
	for i := range f {
		if names[f[i].Name] || f[i].Parent >= i {
			return false, false
		}
		names[f[i].Name] = true
		if f[i].Self < 0 || f[i].Cnt < 0 {
			neg = true
		}
		for k := i; k >= 0; k = f[k].Parent {
			cum[k] += f[i].Self
		}
	}
	for _, c := range cum {
		if c == 0 {
			return false, neg
		}
	}
	return true, neg
}

type ctSetting struct {
	N    int    `json:"n"`
	C    int64  `json:"c"`
	Sort string `json:"sort"`
}

func callTreeCases() {
	directed := [][]ctNode{
		// main -> work 100 ; r -> c 50 : nodecount=3 removes the pass-through root r and keeps c
		{{"main", -1, 0, 0}, {"work", 0, 1, 100}, {"r", -1, 0, 0}, {"c", 2, 1, 50}},
		// main -> mid -> leaf (4 x 100) ; main -> other (2 x 50) : nodecount=3 removes the middle of the chain
		{{"main", -1, 0, 0}, {"mid", 0, 0, 0}, {"leaf", 1, 4, 400}, {"other", 0, 2, 100}},
		{{"main", -1, 0, 0}, {"a", 0, 0, 0}, {"b", 1, 0, 0}, {"c", 2, 3, 90}, {"d", 0, 2, 60}},
		{{"r1", -1, 1, 7}, {"a", 0, 0, 0}, {"b", 1, 2, 20}, {"r2", -1, 0, 0}, {"e", 3, 0, 0}, {"f", 4, 3, 30}, {"g", 3, 1, 3}},
		{{"main", -1, 1, 5}, {"a", 0, 0, 0}, {"b", 1, 2, 40}, {"c", 1, 3, 33}, {"r", -1, 0, 0}, {"s", 4, 0, 0}, {"t", 5, 5, 25}},
		// comparison-like values: |cum| of the middle (or of the root) is small although its callees are not
		{{"r", -1, 0, 0}, {"m", 0, 0, 0}, {"x", 1, 1, 10}, {"y", 1, 1, -9}, {"z", 0, 1, 5}},
		{{"r", -1, 0, 0}, {"p", 0, 1, 6}, {"q", 0, 1, -5}, {"s", -1, 0, 0}, {"t", 3, 1, 8}},
		{{"r", -1, 1, 3}, {"m", 0, 1, -2}, {"k", 1, 0, 0}, {"x", 2, 1, 7}, {"y", 2, 1, -6}},
	}
	for i, f := range directed {
		callTreeCase(f, i, true)
	}
	r := vlib.NewRand(run.Seed + 77)
	names := []string{"main", "run", "f", "g", "h", "i", "j", "k"}
	nrand := run.N / 6
	for it := 0; it < nrand; it++ {
		n := 3 + r.Intn(6)
		f := make([]ctNode, n)
		negs := r.Intn(3) == 0
		for i := range f {
			f[i] = ctNode{Name: names[i], Parent: -1}
			if i > 0 && r.Intn(5) != 0 {
				f[i].Parent = r.Intn(i)
			}
		}
		isLeaf := make([]bool, n)
		for i := range f {
			isLeaf[i] = true
		}
		for i := range f {
			if f[i].Parent >= 0 {
				isLeaf[f[i].Parent] = false
			}
		}
		for i := range f {
			if isLeaf[i] || r.Intn(3) == 0 {
				f[i].Cnt = int64(1 + r.Intn(4))
				f[i].Self = f[i].Cnt * int64(1+r.Intn(9))
				if negs && r.Intn(3) == 0 {
					f[i].Self = -f[i].Self
				}
			}
		}
		callTreeCase(f, it, false)
	}
}

func callTreeCase(f []ctNode, idx int, all bool) {
	ok, neg := ctUsable(f)
	if !ok {
		if all {
			run.Infra("call tree: unusable directed forest")
		}
		return
	}
	samples := ctSamples(f)
	p := conc.Profile(vlib.AProf{ST: vrep.SampleTypes, Samples: samples})
	for _, mean := range []bool{false, true} {
		if mean && neg {
			continue // the divisor of a mean may cancel to zero: C04's subject
		}
		cfg := vrep.Cfg{Gran: "functions", SI: 2, Mean: mean, TRoot: []string{}, TLeaf: []string{}}
		base := append(vrep.Flags(cfg, conc), "-call_tree")
		in0 := map[string]interface{}{"kind": "calltree", "forest": f, "mean": mean}
		r0 := render(p, append(append([]string{"-dot"}, base...), vrep.NoTrim...)...)
		if r0.Err != nil || r0.Panic != nil {
			run.Violate("calltree", "calltree:untrimmed-error", fmt.Sprint(r0.Err, r0.Panic), in0, conc)
			continue
		}
		_, un, ue, err := vdrv.Dot(r0.File("out"))
		if err != nil {
			run.Infra("dot reader (call tree): " + err.Error())
			continue
		}
		// the untrimmed report is the reference; its shape must be the forest (its numbers are C04's subject)
		uN := map[string]vdrv.Node{}
		uIn := map[string]vdrv.Edge{}
		shape := len(un) == len(f)
		for _, n := range un {
			uN[n.Name] = n
		}
		for _, e := range ue {
			if _, dup := uIn[e.Dst]; dup || e.Via == "undeclared" || e.Residual {
				shape = false
			}
			uIn[e.Dst] = e
		}
		var total int64
		for i := range f {
			n, ok := uN[f[i].Name]
			e, hasIn := uIn[f[i].Name]
			if !ok || hasIn != (f[i].Parent >= 0) || (hasIn && e.Src != f[f[i].Parent].Name) {
				shape = false
			}
			total += n.Flat
		}
		if !shape || len(uN) != len(f) {
			run.Violate("calltree", "calltree:untrimmed-shape", fmt.Sprintf("the untrimmed -call_tree report is not the forest of the samples: nodes %v edges %v", un, ue), in0, conc)
			continue
		}
		var maxCum int64
		for _, n := range un {
			if absI(n.Cum) > maxCum {
				maxCum = absI(n.Cum)
			}
		}
		var settings []ctSetting
		for n := 1; n < len(f); n++ {
			settings = append(settings, ctSetting{n, 0, []string{"flat", "cum"}[(n+idx)%2]})
		}
		settings = append(settings, ctSetting{0, 2, "flat"}, ctSetting{0, maxCum, "cum"}, ctSetting{len(f) - 1, 2, "cum"}, ctSetting{2, 3, "flat"})
		if !all && run.Tier != "thorough" {
			// nodecount around the number of entries with a flat value is where pass-through entries go
			k := (idx + int(run.Seed)) % 2
			var s2 []ctSetting
			for i, st := range settings {
				if i%2 == k || st.N == len(f)-1 {
					s2 = append(s2, st)
				}
			}
			settings = s2
		}
		for _, st := range settings {
			nf := 0.0
			var nc int64
			if st.C > 0 && total != 0 && !mean {
				nf = (float64(st.C) + 0.5) / float64(absI(total))
				nc = absI(int64(float64(total) * nf))
			} else if st.C > 0 && mean {
				nf = float64(st.C) / 100
			}
			opts := append([]string{"-dot", "-" + st.Sort, fmt.Sprintf("-nodecount=%d", st.N), fmt.Sprintf("-nodefraction=%g", nf), "-edgefraction=0"}, base...)
			in := map[string]interface{}{"kind": "calltree", "forest": f, "mean": mean, "opts": opts}
			r := render(p, opts...)
			sfx := ""
			if mean {
				sfx = ":mean"
			}
			if r.Err != nil || r.Panic != nil {
				run.Violate("calltree", "calltree:error"+sfx, fmt.Sprint(r.Err, r.Panic), in, conc)
				continue
			}
			lg, tn, te, err := vdrv.Dot(r.File("out"))
			if err != nil {
				run.Infra("dot reader (call tree): " + err.Error())
				continue
			}
			bad := func(what, detail string) {
				run.Violate("calltree", "calltree:"+what+sfx, detail+fmt.Sprintf("\ntrimmed: nodes %v edges %v\nuntrimmed: nodes %v edges %v", tn, te, un, ue), in, conc)
			}
			shown := map[string]bool{}
			var sumFlat int64
			for _, n := range tn {
				u, ok := uN[n.Name]
				switch {
				case !ok:
					bad("foreign-entry", "entry "+n.Name+" is not an entry of the untrimmed call tree")
				case shown[n.Name]:
					bad("entry-twice", "entry "+n.Name+" is shown twice")
				case u.Flat != n.Flat || u.Cum != n.Cum:
					bad("numbers", fmt.Sprintf("entry %s shows flat=%d cum=%d, untrimmed flat=%d cum=%d", n.Name, n.Flat, n.Cum, u.Flat, u.Cum))
				}
				if !mean && nc > 0 && ok && absI(u.Cum) < nc {
					bad("cutoff", fmt.Sprintf("entry %s with |cum| %d below the cutoff %d is shown", n.Name, absI(u.Cum), nc))
				}
				shown[n.Name] = true
				sumFlat += n.Flat
			}
			if st.N > 0 && len(tn) > st.N {
				bad("count", fmt.Sprintf("%d entries shown with nodecount=%d", len(tn), st.N))
			}
			if !mean && lg.HasShowing && lg.Shown != sumFlat {
				bad("account", fmt.Sprintf("legend accounts for %d, the flats shown add up to %d", lg.Shown, sumFlat))
			}
			type want struct {
				src string
				w   int64
				res bool
			}
			exp := map[string]want{}
			for d := range shown {
				e, ok := uIn[d]
				if !ok {
					continue
				}
				a, res := e.Src, false
				for !shown[a] {
					up, ok := uIn[a]
					if !ok {
						a = ""
						break
					}
					a, res = up.Src, true
				}
				if a != "" {
					exp[d] = want{a, e.W, res}
				}
			}
			seen := map[string]bool{}
			residuals := 0
			for _, e := range te {
				if e.Via == "undeclared" {
					bad("dangling", fmt.Sprintf("edge %s -> %s (weight %d) refers to an entry that is not shown", e.Src, e.Dst, e.W))
					continue
				}
				if e.Residual {
					residuals++
				}
				x, ok := exp[e.Dst]
				switch {
				case !ok || x.src != e.Src || seen[e.Dst]:
					bad("edge-underivable", fmt.Sprintf("edge %s -> %s (weight %d) does not stand for any path of the untrimmed call tree between nearest shown entries", e.Src, e.Dst, e.W))
				case x.w != e.W:
					bad("edge-weight", fmt.Sprintf("edge %s -> %s (residual=%v) shows weight %d, the edge into %s has weight %d in the untrimmed report", e.Src, e.Dst, e.Residual, e.W, e.Dst, x.w))
				case x.res != e.Residual:
					bad("edge-residual", fmt.Sprintf("edge %s -> %s: residual=%v, want %v", e.Src, e.Dst, e.Residual, x.res))
				}
				seen[e.Dst] = true
			}
			for d, x := range exp {
				if !seen[d] {
					bad("edge-missing", fmt.Sprintf("no edge %s -> %s (weight %d, residual=%v) although %s is the nearest shown caller of %s", x.src, d, x.w, x.res, x.src, d))
				}
			}
			key := ""
			if len(tn) != len(un) {
				b, _ := json.Marshal([]interface{}{"calltree", tn, te, st, mean, residuals})
				key = string(b)
			}
			run.Count(key)
			run.Counter("calltree-reports", 1)
			if residuals > 0 {
				run.Counter("calltree-with-residual-edge", 1)
				if mean {
					run.Counter("calltree-mean-with-residual-edge", 1)
				}
			}
			for d := range shown {
				if _, had := uIn[d]; had && exp[d].src == "" {
					run.Counter("calltree-root-removed-descendant-kept", 1)
					break
				}
			}
		}
	}
}
