// C10 / C09 harness (sessions).
// Interactive: every history emitted by Session.tla is typed into a real
// interactive session (scripted UI plug-in); the output of each command must be
// byte-identical to the output of the same line in a FRESH session that saw
// only the option assignments the specification says are in effect; rejected
// and ignored lines must neither crash nor change anything (probe command).
// Web: sequences and concurrent mixes of requests against the real handlers
// (HTTPServer plug-in, httptest); each response must equal the response of the
// same request on a fresh server; /download must still be the loaded profile.
package main

import (
	"bytes"
	"encoding/json"
	"fmt"
	"net/http"
	"net/http/httptest"
	"os"
	"os/exec"
	"path/filepath"
	"sort"
	"strconv"
	"strings"
	"sync"
	"time"

	"github.com/google/pprof/internal/binutils"
	"github.com/google/pprof/internal/measurement"
	"github.com/google/pprof/internal/plugin"
	"github.com/google/pprof/internal/zzverif/vdrv"
	"github.com/google/pprof/internal/zzverif/vlib"
	"github.com/google/pprof/profile"
)

type line struct {
	Kind string `json:"kind"`
	Line string `json:"line"`
	Opt  string `json:"opt"`
	Val  string `json:"val"`
}
type scase struct {
	Lines  []line     `json:"lines"`
	Prefix [][]string `json:"prefix"`
	Final  []string   `json:"final"`
}

var (
	run  *vlib.Run
	prof *profile.Profile
)

func theProfile() *profile.Profile {
	f := vlib.AFn{Name: "f", Sys: "f", File: "/build/proj/src/a.c", Start: 1}
	g := vlib.AFn{Name: "g", Sys: "g", File: "/build/proj/src/a.c", Start: 5}
	h := vlib.AFn{Name: "h", Sys: "h", File: "/build/proj/lib/b.c", Start: 7}
	m := vlib.AMap{Build: "B01", File: "bin", Start: 16, Size: 8}
	lf := vlib.ALoc{Map: m, Rel: 3, Lines: []vlib.ALine{{Fn: f, Line: 10}}}
	lg := vlib.ALoc{Map: m, Rel: 4, Lines: []vlib.ALine{{Fn: g, Line: 20}}}
	lh := vlib.ALoc{Map: m, Rel: 5, Lines: []vlib.ALine{{Fn: h, Line: 30}}}
	lgf := vlib.ALoc{Map: m, Rel: 6, Lines: []vlib.ALine{{Fn: g, Line: 21}, {Fn: f, Line: 11}}}
	k := func(v string) []vlib.ASLab { return []vlib.ASLab{{K: "k", V: []string{v}}} }
	ap := vlib.AProf{ST: []vlib.AVT{{T: "s1", U: "nanoseconds"}, {T: "s2", U: "bytes"}}, Samples: []vlib.ASample{
		{Locs: []vlib.ALoc{lh, lg, lf}, Vals: []int64{1, 10}, Lab: k("x")},
		{Locs: []vlib.ALoc{lg, lf}, Vals: []int64{2, 5}, Lab: k("y")},
		{Locs: []vlib.ALoc{lh, lgf}, Vals: []int64{3, 7}},
		{Locs: []vlib.ALoc{lf, lh, lf}, Vals: []int64{1, 2}, Num: []vlib.ANLab{{K: "bytes", V: []int64{64}, U: []string{"bytes"}}}},
		{Locs: []vlib.ALoc{lh}, Vals: []int64{4, 1}, Lab: k("x")},
	}}
	return vlib.NewConc(0).Profile(ap)
}

// binMode: the history under test disassembles; every session of it (and of its references) runs on a profile of a
// real binary with the real object tools
var binMode bool

func binProfile() *profile.Profile {
	repo := os.Getenv("VERIF_REPO")
	if repo == "" {
		repo = "/repo"
	}
	exe := filepath.Join(repo, "internal", "binutils", "testdata", "exe_linux_64")
	fn := &profile.Function{ID: 1, Name: "main", SystemName: "main", Filename: "hello.c"}
	m := &profile.Mapping{ID: 1, Start: 0x400000, Limit: 0x4006fc, File: exe, HasFunctions: true}
	loc := &profile.Location{ID: 1, Mapping: m, Address: 0x400531, Line: []profile.Line{{Function: fn, Line: 4}}}
	return &profile.Profile{
		SampleType: []*profile.ValueType{{Type: "samples", Unit: "count"}},
		PeriodType: &profile.ValueType{Type: "cpu", Unit: "nanoseconds"}, Period: 1,
		Sample:   []*profile.Sample{{Location: []*profile.Location{loc}, Value: []int64{10}}},
		Location: []*profile.Location{loc}, Function: []*profile.Function{fn}, Mapping: []*profile.Mapping{m},
	}
}

func session(lines []string) *vdrv.Result {
	if binMode {
		p := binProfile()
		return vdrv.Run(vdrv.Opts{Args: []string{"-functions", "-flat", "src"}, Lines: lines, Obj: &binutils.Binutils{},
			Fetch: func(string) (*profile.Profile, error) { return p.Copy(), nil }})
	}
	return vdrv.Run(vdrv.Opts{Args: []string{"-functions", "-flat", "src"}, Lines: lines,
		Fetch: func(string) (*profile.Profile, error) { return prof.Copy(), nil }})
}

// sourceDirs creates (once; the children of this process inherit the names) two directories holding different
// sources under the file names the profile records, and returns them.
func sourceDirs() (string, string) {
	a, b := os.Getenv("C10_SRCA"), os.Getenv("C10_SRCB")
	if a != "" {
		return a, b
	}
	root, err := os.MkdirTemp("", "c10-src-")
	if err != nil {
		run.Infra(err.Error())
		return "/nonexistent-a", "/nonexistent-b"
	}
	for _, d := range []string{"A", "B"} {
		// the directories are called .../proj: the recorded names /build/proj/src/a.c are then found below them
		// (the base name of a source_path entry is looked for in the recorded name) with or without trim_path=/build
		for _, f := range []string{"/proj/src/a.c", "/proj/lib/b.c"} {
			p := filepath.Join(root, d, f)
			os.MkdirAll(filepath.Dir(p), 0o755)
			var sb strings.Builder
			for i := 1; i <= 40; i++ {
				fmt.Fprintf(&sb, "/* %s %s line %d */\n", d, filepath.Base(f), i)
			}
			os.WriteFile(p, []byte(sb.String()), 0o644)
		}
	}
	a, b = filepath.Join(root, "A", "proj"), filepath.Join(root, "B", "proj")
	os.Setenv("C10_SRCA", a)
	os.Setenv("C10_SRCB", b)
	os.Setenv("C10_SRCROOT", root)
	return a, b
}

var refCache = map[string][]byte{}
var refErr = map[string]bool{}

// options behind which process-wide helpers sit: their references come from a FRESH PROCESS (an in-process
// reference would share whatever the process has cached and agree with a stale answer)
func needsFreshProcess(lines []string) bool {
	for _, l := range lines {
		if strings.HasPrefix(l, "source_path=") || strings.HasPrefix(l, "trim_path=") || strings.HasPrefix(l, "intel_syntax=") || strings.HasPrefix(l, "prune_from=") {
			return true
		}
	}
	return false
}

type childResult struct {
	Files map[string][]byte `json:"files"`
	UI    []string          `json:"ui"` // what each line printed through the UI
}

// childSession runs the lines in a new process of this very binary (-extra child=<file with the JSON lines>).
func childSession(lines []string) map[string][]byte {
	r := childRun(lines)
	if r == nil {
		return nil
	}
	return r.Files
}

func childRun(lines []string) *childResult { return childRunWeb(lines, "") }

func childRunWeb(lines []string, web string) *childResult {
	f, err := os.CreateTemp("", "c10-child-*.json")
	if err != nil {
		run.Infra(err.Error())
		return nil
	}
	defer os.Remove(f.Name())
	json.NewEncoder(f).Encode(struct {
		Lines []string `json:"lines"`
		Bin   bool     `json:"bin"`
		Web   string   `json:"web"`
	}{lines, binMode, web})
	f.Close()
	out := f.Name() + ".out"
	defer os.Remove(out)
	cmd := exec.Command(os.Args[0], "-extra", "child="+f.Name(), "-out", out)
	cmd.Env = os.Environ()
	if b, err := cmd.CombinedOutput(); err != nil {
		run.Infra(fmt.Sprintf("child session: %v: %s", err, b))
		return nil
	}
	var res childResult
	b, err := os.ReadFile(out)
	if err != nil || json.Unmarshal(b, &res) != nil {
		run.Infra("child session: no result")
		return nil
	}
	return &res
}

func childMain(path, out string) {
	var in struct {
		Lines []string `json:"lines"`
		Bin   bool     `json:"bin"`
		Web   string   `json:"web"`
	}
	b, _ := os.ReadFile(path)
	json.Unmarshal(b, &in)
	if in.Web != "" {
		// one web request answered by a fresh session of a fresh process
		prof = theProfile()
		cr := childResult{Files: map[string][]byte{}}
		withServer(func(w *webServer) {
			code, body, pv := w.do(in.Web)
			if pv != nil {
				code = -1
			}
			cr.Files["body"] = body
			cr.Files["code"] = []byte(strconv.Itoa(code))
		})
		jb, _ := json.Marshal(cr)
		os.WriteFile(out, jb, 0o644)
		return
	}
	lines := in.Lines
	binMode = in.Bin
	prof = theProfile()
	r := session(lines)
	cr := childResult{Files: r.Files}
	for i := range lines {
		cr.UI = append(cr.UI, r.UIOf(i))
	}
	jb, _ := json.Marshal(cr)
	os.WriteFile(out, jb, 0o644)
}

// reference output: fresh session, only the assignments in effect, then the line
func reference(prefix []string, cmd string) ([]byte, bool) {
	key := fmt.Sprint(binMode) + strings.Join(prefix, "\n") + "\n=>" + cmd
	if b, ok := refCache[key]; ok {
		return b, refErr[key]
	}
	var files map[string][]byte
	if needsFreshProcess(prefix) {
		files = childSession(append(append([]string{}, prefix...), cmd+" >ref"))
		run.Counter("fresh_process_references", 1)
	} else {
		files = session(append(append([]string{}, prefix...), cmd+" >ref")).Files
	}
	r := struct{ Files map[string][]byte }{files}
	b, ok := r.Files["ref"]
	refCache[key] = b
	refErr[key] = !ok
	return b, !ok
}

func interactiveCase(raw json.RawMessage, c *scase) {
	binMode = false
	for _, l := range c.Lines {
		if strings.HasPrefix(l.Line, "disasm ") {
			binMode = true
		}
	}
	defer func() { binMode = false }()
	var typed []string
	outName := map[int]string{}
	for i, l := range c.Lines {
		s := l.Line
		if l.Kind == "command" {
			outName[i] = fmt.Sprintf("out%d", i)
			s += " >" + outName[i]
		}
		typed = append(typed, s)
	}
	typed = append(typed, "top >probe")
	// a session that never comes back holds the process-wide option store: nothing else can run in this process,
	// so the violation is recorded and the harness ends with what it has
	done := make(chan *vdrv.Result, 1)
	go func() { done <- session(typed) }()
	var r *vdrv.Result
	select {
	case r = <-done:
	case <-time.After(60 * time.Second):
		run.Violate("interactive", "hang:"+lastLine(c), fmt.Sprintf("the session did not come back within 60 s after %q", typed), raw, nil)
		run.Note("a session hung; the remaining histories were not explored")
		run.Finish("interactive histories of Session.tla up to the one that hung")
		os.Exit(0)
	}
	kinds := ""
	for _, l := range c.Lines {
		kinds += l.Kind[:1]
	}
	nt := ""
	if len(c.Lines) >= 2 {
		b, _ := json.Marshal(c.Lines)
		nt = string(b)
	}
	run.Count(nt)
	if r.Panic != nil {
		run.Violate("interactive", "panic:"+lastLine(c), fmt.Sprint(r.Panic), raw, nil)
		return
	}
	if r.Err != nil {
		run.Violate("interactive", "session-ended:"+lastLine(c), "the session ended with an error: "+r.Err.Error(), raw, nil)
		return
	}
	if r.Prompt < len(typed)+1 {
		run.Violate("interactive", "session-stopped:"+lastLine(c), fmt.Sprintf("only %d of %d lines were read", r.Prompt, len(typed)), raw, nil)
		return
	}
	for i, l := range c.Lines {
		if l.Kind != "command" {
			continue
		}
		want, refFailed := reference(c.Prefix[i], l.Line)
		got, ok := r.Files[outName[i]]
		if refFailed != !ok {
			run.Violate("interactive", "leak:"+kinds+":"+l.Line, fmt.Sprintf("line %d %q: produced output=%v in the session, %v in a fresh session with the same options", i, l.Line, ok, !refFailed), raw, nil)
			continue
		}
		if os.Getenv("C10_DEBUG") != "" {
			fmt.Fprintf(os.Stderr, "DEBUG line %d %q ok=%v refFailed=%v\n--- got\n%s\n--- want\n%s\n", i, l.Line, ok, refFailed, got, want)
		}
		// the directed histories over listings and disassembly really produce them (vacuity counters)
		if l.Line == "list g" && bytes.Contains(got, []byte("a.c line 20")) {
			run.Counter("listings_with_source", 1)
		}
		if l.Line == "disasm main" && bytes.Contains(got, []byte("rbp")) {
			run.Counter("disassemblies", 1)
		}
		if !bytes.Equal(got, want) {
			run.Violate("interactive", "leak:"+kinds+":"+l.Line, fmt.Sprintf("line %d %q after %q differs from a fresh session with options %q:\n--- in session\n%s\n--- fresh\n%s", i, l.Line, typed[:i], c.Prefix[i], clip(got), clip(want)), raw, nil)
		}
	}
	// lines that only print through the UI (the option listing, the help text): what they print must not depend on
	// what ran before either
	for i, l := range c.Lines {
		if l.Kind != "noop" || !(l.Line == "o" || l.Line == "help" || l.Line == "help top") {
			continue
		}
		pre := append(append([]string{}, c.Prefix[i]...), l.Line)
		key := "ui:" + strings.Join(pre, "\n")
		want, ok := refCache[key]
		if !ok {
			// the help text and the option listing come from process-wide tables: the reference is a fresh process
			if cr := childRun(append(append([]string{}, pre...), "top >probe")); cr != nil && len(cr.UI) >= len(pre) {
				want = []byte(cr.UI[len(pre)-1])
				run.Counter("fresh_process_references", 1)
			}
			refCache[key] = want
		}
		if got := r.UIOf(i); got != string(want) {
			run.Violate("interactive", "leak-ui:"+kinds+":"+l.Line, fmt.Sprintf("line %d %q after %q prints something else than in a fresh session with options %q:\n%s", i, l.Line, typed[:i], c.Prefix[i], firstDiff([]byte(got), want)), raw, nil)
		}
	}
	// the session is still usable and nothing but the assignments changed it
	want, _ := reference(c.Final, "top")
	if got := r.Files["probe"]; !bytes.Equal(got, want) {
		run.Violate("interactive", "probe:"+kinds+":"+lastLine(c), fmt.Sprintf("after %q the probe `top` differs from a fresh session with options %q:\n%s\n--- fresh\n%s", typed[:len(typed)-1], c.Final, clip(got), clip(want)), raw, nil)
	}
}

// realWriterPart: the same law (a command's output is what a fresh session with the same options produces) for
// the driver's OWN writer and real files: a file named by several commands of a session holds the last report only
func realWriterPart() {
	dir, err := os.MkdirTemp("", "c10-out-")
	if err != nil {
		run.Infra(err.Error())
		return
	}
	defer os.RemoveAll(dir)
	f, g := filepath.Join(dir, "f.txt"), filepath.Join(dir, "g.txt")
	histories := [][]string{
		{"tree >" + f, "top 1 >" + f},
		{"top >" + f, "focus=h", "top 1 >" + f},
		{"output=" + f, "traces", "top 1"},
		{"raw >" + f, "tags >" + f, "top 1 >" + f},
	}
	for _, h := range histories {
		os.Remove(f)
		os.Remove(g)
		r := vdrv.Run(vdrv.Opts{Args: []string{"-functions", "-flat", "src"}, Lines: h, RealWriter: true,
			Fetch: func(string) (*profile.Profile, error) { return prof.Copy(), nil }})
		// reference: a fresh session with the assignments of the history, then its last command alone
		var ref []string
		for _, l := range h[:len(h)-1] {
			if strings.Contains(l, "=") && !strings.Contains(l, ">") {
				ref = append(ref, strings.Replace(l, f, g, 1))
			}
		}
		ref = append(ref, strings.Replace(h[len(h)-1], f, g, 1))
		r2 := vdrv.Run(vdrv.Opts{Args: []string{"-functions", "-flat", "src"}, Lines: ref, RealWriter: true,
			Fetch: func(string) (*profile.Profile, error) { return prof.Copy(), nil }})
		run.Count("realwriter|" + strings.Join(h, ";"))
		if r.Err != nil || r.Panic != nil || r2.Err != nil || r2.Panic != nil {
			run.Violate("interactive", "realwriter-error", fmt.Sprint(r.Err, r.Panic, r2.Err, r2.Panic), h, nil)
			continue
		}
		got, e1 := os.ReadFile(f)
		want, e2 := os.ReadFile(g)
		if e1 != nil || e2 != nil {
			run.Violate("interactive", "realwriter-nofile", fmt.Sprint(e1, e2), h, nil)
			continue
		}
		if !bytes.Equal(got, want) {
			run.Violate("interactive", "leak:file:"+h[len(h)-1][:3], fmt.Sprintf("after %q the file holds something else than after %q in a fresh session:\n--- in session\n%s\n--- fresh\n%s", h, ref, clip(got), clip(want)), h, nil)
		}
	}
}

var unitsAtStart = unitProbe()

// unitProbe formats a few values through the measurement package: the tables behind it are process-wide
func unitProbe() string {
	return strings.Join([]string{measurement.Label(3<<20, "bytes"), measurement.Label(2048, "kb"), measurement.Label(1500, "ms"), measurement.Label(90, "s"),
		measurement.Label(7, "count"), measurement.ScaledLabel(5000000, "ns", "auto"), measurement.ScaledLabel(1<<30, "B", "minimum")}, " | ")
}

func lastLine(c *scase) string {
	for i := len(c.Lines) - 1; i >= 0; i-- {
		if c.Lines[i].Kind == "bad" || c.Lines[i].Kind == "noop" {
			return c.Lines[i].Line
		}
	}
	return c.Lines[len(c.Lines)-1].Line
}

func clip(b []byte) string {
	if len(b) > 1200 {
		return string(b[:1200]) + "..."
	}
	return string(b)
}

// ---- web ----

var requests = []string{"/top", "/top?f=g", "/top?i=h", "/peek?f=g", "/flamegraph", "/flamegraph?h=f", "/top?si=s1", "/top?g=lines", "/top?n=1&s=cum",
	"/source?f=f", "/top?tf=k:x", "/top?th=k", "/top?rel=t&f=h", "/flamegraph?sf=g", "/top?tagroot=k", "/download",
	"/flamegraph?si=s1", "/flamegraph?g=lines", "/flamegraph?noinlines=t", "/flamegraph?g=files", "/top?g=files&s=cum",
	// C09: query strings that must be answered with an error page, not a crash
	"/top?n=zz", "/top?f=(", "/peek?f=(", "/top?si=nosuch", "/top?g=bogus", "/top?nf=1e999", "/flamegraph?i=(", "/top?tf=99999999999999999999:", "/source?f=", "/disasm?f=f",
	"/top?%zz", "/top?n=-5", "/top?unit=parsecs", "/nosuchpage",
	// the same uncompilable expression under different options (the diagnostic names the option of THIS request), and
	// requests whose page carries a message of their own ("... expression matched no samples")
	"/", "/?f=g", "/?g=lines&h=f", "/?calltree=t", "/?n=2",
	"/flamegraph?g=addresses", "/top?g=addresses&noinlines=t", "/peek?g=addresses&noinlines=t&f=g", "/top?g=addresses",
	"/top?i=(", "/top?h=(", "/top?s=(", "/top?i=zznomatch", "/top?f=zznomatchb", "/top?h=zznomatchc", "/flamegraph?i=zznomatchd"}

// directed histories next to the random ones: each runs sequentially and (several times) concurrently
var directedWeb = [][]string{
	{"/", "/?f=g", "/?g=lines&h=f", "/?calltree=t", "/?n=2", "/top"},
	{"/top?f=(", "/top?i=(", "/top?h=(", "/top?s=(", "/top?f=("},
	{"/flamegraph?g=addresses", "/top?g=addresses&noinlines=t", "/flamegraph?g=addresses", "/peek?g=addresses&noinlines=t&f=g", "/flamegraph?g=addresses", "/top?g=addresses"},
	{"/flamegraph?si=s1", "/flamegraph", "/flamegraph?si=s1", "/flamegraph?g=lines", "/flamegraph?h=f", "/flamegraph?si=s1"},
	{"/top?i=zznomatch", "/top?f=zznomatchb", "/top?h=zznomatchc", "/top", "/flamegraph?i=zznomatchd", "/top?f=g"},
}

type webServer struct {
	handlers map[string]http.Handler
}

// fakeDot puts a scripted `dot` in front of PATH (Graphviz is not installed in the sandbox): it wraps the DOT text it is
// given into an <svg> element, so the web UI's graph page is served and its body shows the graph description the
// handler composed for THIS request
func fakeDot() {
	base := "" // inside the run's scratch directory when the check runs it (next to, not inside, pprof's own temp dir)
	if t := os.Getenv("PPROF_TMPDIR"); t != "" {
		base = filepath.Dir(t)
	}
	dir, err := os.MkdirTemp(base, "c10-dot-")
	if err != nil {
		run.Infra(err.Error())
		return
	}
	script := "#!/bin/sh\necho '<svg xmlns=\"http://www.w3.org/2000/svg\"><text>'\n/bin/sed -e 's/&/\\&amp;/g' -e 's/</\\&lt;/g' -e 's/>/\\&gt;/g'\necho '</text></svg>'\n"
	if err := os.WriteFile(filepath.Join(dir, "dot"), []byte(script), 0o755); err != nil {
		run.Infra(err.Error())
		return
	}
	os.Setenv("PATH", dir+":"+os.Getenv("PATH"))
}

func (w *webServer) do(req string) (int, []byte, interface{}) {
	path := req
	if i := strings.Index(req, "?"); i >= 0 {
		path = req[:i]
	}
	h, ok := w.handlers[path]
	if !ok {
		return 404, nil, nil
	}
	rec := httptest.NewRecorder()
	var pv interface{}
	func() {
		defer func() { pv = recover() }()
		r, err := http.NewRequest("GET", "http://localhost"+req, nil)
		if err != nil {
			rec.Code = 400
			return
		}
		h.ServeHTTP(rec, r)
	}()
	return rec.Code, rec.Body.Bytes(), pv
}

func withServer(script func(w *webServer)) *vdrv.Result {
	return vdrv.Run(vdrv.Opts{Args: []string{"-functions", "-flat", "-http=localhost:18765", "-no_browser", "src"},
		Fetch: func(string) (*profile.Profile, error) { return prof.Copy(), nil },
		HTTP: func(args *plugin.HTTPServerArgs) error {
			script(&webServer{args.Handlers})
			return nil
		}})
}

type resp struct {
	code int
	body []byte
}

// settingsUsable: after a settings request that must be refused (deleting a configuration that does not exist) the
// web session keeps answering settings requests - each within a deadline (C09: a web session stays usable afterwards)
func settingsUsable() {
	withServer(func(w *webServer) {
		step := func(rq string, wantOK bool) bool {
			type res struct {
				code int
				pv   interface{}
			}
			done := make(chan res, 1)
			go func() {
				code, _, pv := w.do(rq)
				done <- res{code, pv}
			}()
			select {
			case r := <-done:
				if r.pv != nil {
					run.Violate("web", "web-panic:"+rq, fmt.Sprint(r.pv), rq, nil)
					return false
				}
				if wantOK && r.code != 200 {
					run.Violate("web", "web-unusable:"+rq, fmt.Sprintf("status %d for a valid settings request after a refused one", r.code), rq, nil)
				}
				if !wantOK && r.code < 400 {
					run.Violate("web", "web-accepted-bad:"+rq, fmt.Sprintf("status %d", r.code), rq, nil)
				}
				return true
			case <-time.After(30 * time.Second):
				run.Violate("web", "web-hang:"+rq, "the request did not return within 30 s; the web session is no longer usable", rq, nil)
				return false
			}
		}
		run.Count("settings-usable")
		for _, st := range []struct {
			rq string
			ok bool
		}{{"/deleteconfig?config=nosuchconfiguration", false}, {"/saveconfig?config=tmpcfg&f=g", true}, {"/deleteconfig?config=default", false},
			{"/saveconfig?config=", false}, {"/saveconfig?config=tmpcfg2&h=f", true}, {"/deleteconfig?config=tmpcfg", true}, {"/deleteconfig?config=tmpcfg2", true}} {
			if !step(st.rq, st.ok) {
				return
			}
		}
	})
}

func webPart(n int) {
	// fresh responses
	fresh := map[string]resp{}
	for _, rq := range requests {
		rq := rq
		withServer(func(w *webServer) {
			code, body, pv := w.do(rq)
			if pv != nil {
				run.Violate("web", "web-panic:"+rq, fmt.Sprint(pv), rq, nil)
			}
			fresh[rq] = resp{code, body}
			if code >= 500 && code != 501 {
				run.Violate("web", "web-5xx:"+rq, fmt.Sprintf("status %d: %s", code, clip(body)), rq, nil)
			}
		})
		run.Count("fresh" + rq)
	}
	// the reference answers are computed in this process, one fresh session each, in the order of the list: asked again
	// in the opposite order they must be the same (a process-wide memo that one request fills and another reads would
	// otherwise poison the references exactly as it poisons the sessions compared with them)
	for i := len(requests) - 1; i >= 0; i-- {
		rq := requests[i]
		if rq == "/download" {
			continue
		}
		withServer(func(w *webServer) {
			code, body, pv := w.do(rq)
			if pv != nil {
				return
			}
			if want := fresh[rq]; code != want.code || !bytes.Equal(body, want.body) {
				run.Violate("web", "web-leak:process-wide:"+rq, fmt.Sprintf("%s in a fresh session of this process, asked after the other requests of the list instead of before them: status %d vs %d; %s", rq, code, want.code, firstDiff(body, want.body)), rq, nil)
			}
		})
	}
	// ... and a memo that is filled once and never changes answers the same both times: the requests that are answered
	// with a diagnostic or carry options of the kinds such memos are keyed by are also asked in a fresh PROCESS each
	{
		var wg sync.WaitGroup
		sem := make(chan struct{}, 8)
		var mu sync.Mutex
		for _, rq := range requests {
			if rq == "/download" || !(fresh[rq].code >= 400 || strings.Contains(rq, "?")) {
				continue
			}
			wg.Add(1)
			go func(rq string) {
				defer wg.Done()
				sem <- struct{}{}
				defer func() { <-sem }()
				cr := childRunWeb(nil, rq)
				if cr == nil {
					return
				}
				code, _ := strconv.Atoi(string(cr.Files["code"]))
				mu.Lock()
				defer mu.Unlock()
				run.Counter("fresh_process_web_references", 1)
				if want := fresh[rq]; code != want.code || !bytes.Equal(cr.Files["body"], want.body) {
					run.Violate("web", "web-leak:process-wide:"+rq, fmt.Sprintf("%s in a fresh session of THIS process (after the other requests of the list): status %d; in a fresh process: status %d; %s", rq, want.code, code, firstDiff(want.body, cr.Files["body"])), rq, nil)
				}
			}(rq)
		}
		wg.Wait()
	}
	r := vlib.NewRand(run.Seed + 21)
	check := func(hist []string, rq string, got resp, mode string) {
		want := fresh[rq]
		if rq == "/download" {
			p, err := profile.Parse(bytes.NewReader(got.body))
			if err != nil || vlib.BagOf(vlib.Project(p)).Diff(vlib.BagOf(vlib.Project(prof))) != "" {
				run.Violate("web", "download-changed", fmt.Sprintf("after %v /download no longer serves the loaded profile (%v)", hist, err), hist, nil)
			}
			return
		}
		if got.code != want.code || !bytes.Equal(got.body, want.body) {
			run.Violate("web", "web-leak:"+mode+":"+rq, fmt.Sprintf("%s after/with %v: status %d vs fresh %d; bodies differ=%v\n%s", rq, hist, got.code, want.code, !bytes.Equal(got.body, want.body), firstDiff(got.body, want.body)), hist, nil)
		}
	}
	nd := len(directedWeb) * 8
	for it := -nd; it < n; it++ {
		k := 2 + r.Intn(3)
		var hist []string
		for i := 0; i < k; i++ {
			hist = append(hist, requests[r.Intn(len(requests))])
		}
		concurrent := it%2 == 1
		if it < 0 {
			// directed: once sequentially, seven times concurrently
			hist = directedWeb[(it+nd)/8]
			concurrent = (it+nd)%8 != 0
		}
		withServer(func(w *webServer) {
			if !concurrent {
				for i, rq := range hist {
					code, body, pv := w.do(rq)
					if pv != nil {
						run.Violate("web", "web-panic:"+rq, fmt.Sprint(pv), hist, nil)
						return
					}
					check(hist[:i], rq, resp{code, body}, "seq")
				}
				return
			}
			var wg sync.WaitGroup
			got := make([]resp, len(hist))
			for i, rq := range hist {
				wg.Add(1)
				go func(i int, rq string) {
					defer wg.Done()
					code, body, pv := w.do(rq)
					if pv != nil {
						code = -1
						body = []byte(fmt.Sprint(pv))
					}
					got[i] = resp{code, body}
				}(i, rq)
			}
			wg.Wait()
			for i, rq := range hist {
				if got[i].code == -1 {
					run.Violate("web", "web-panic:"+rq, string(got[i].body), hist, nil)
					continue
				}
				check(hist, rq, got[i], "concurrent")
			}
		})
		b, _ := json.Marshal(hist)
		run.Count(fmt.Sprintf("web%v%s", concurrent, b))
	}
}

func firstDiff(a, b []byte) string {
	i := 0
	for i < len(a) && i < len(b) && a[i] == b[i] {
		i++
	}
	lo := i - 60
	if lo < 0 {
		lo = 0
	}
	hi := func(x []byte) int {
		if i+120 < len(x) {
			return i + 120
		}
		return len(x)
	}
	return fmt.Sprintf("first difference at byte %d: ...%q vs ...%q", i, a[lo:hi(a)], b[lo:hi(b)])
}

func main() {
	run = vlib.NewRun("C10")
	if strings.HasPrefix(run.Extra, "child=") {
		childMain(strings.TrimPrefix(run.Extra, "child="), run.OutPath)
		return
	}
	prof = theProfile()
	fakeDot()
	only := run.Extra // "", "c09" (bad/noop lines and error queries only) or "c10"
	run.EachCase(func(i int, raw json.RawMessage) {
		var c scase
		orig := raw // violations record the case as the specification wrote it ($SRCA / $SRCB), so that replays work
		if bytes.Contains(raw, []byte("$SRC")) {
			a, b := sourceDirs()
			raw = json.RawMessage(bytes.ReplaceAll(bytes.ReplaceAll(raw, []byte("$SRCA"), []byte(a)), []byte("$SRCB"), []byte(b)))
		}
		if err := json.Unmarshal(raw, &c); err != nil {
			run.Infra("case decode: " + err.Error())
			return
		}
		hasBad := false
		for _, l := range c.Lines {
			if l.Kind == "bad" || l.Kind == "noop" {
				hasBad = true
			}
		}
		if only == "c09" && !hasBad {
			return
		}
		interactiveCase(orig, &c)
		if i%700 == 0 {
			run.Sample(json.RawMessage(raw))
		}
	})
	if root := os.Getenv("C10_SRCROOT"); root != "" {
		os.RemoveAll(root)
	}
	realWriterPart()
	webPart(run.N)
	// what the process knows about units is no business of a request: after every request made, values print as before
	if now := unitProbe(); now != unitsAtStart {
		run.Violate("web", "process-wide-units-changed", fmt.Sprintf("labels for the same values before any request:\n%s\nafter the requests of this run:\n%s", unitsAtStart, now), nil, nil)
	}
	settingsUsable()
	keys := make([]string, 0)
	for k := range refCache {
		keys = append(keys, k)
	}
	sort.Strings(keys)
	run.Counter("distinct_reference_sessions", len(keys))
	run.Finish("interactive: every history of Session.tla (lines drawn from 10 mutating report commands with arguments, 12 option assignments, 16 rejected lines and 6 ignored lines; length <= 2, thorough 3) typed into a real session, each command compared byte-for-byte with a fresh session that saw only the assignments in effect (a fresh PROCESS for the directed histories over source_path / trim_path, whose helpers keep process-wide state), plus a probe command at the end; web: random sequences and concurrent mixes of 2-4 requests out of 30 (views with focus/ignore/hide/granularity/sample index/tag options, download, malformed queries) against the real handlers, each response compared with the same request on a fresh server; non-trivial = history of at least two lines, or a web script, counted distinct")
}
