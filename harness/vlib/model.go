// Package vlib is the bridge between the TLA+ abstract profile model
// (spec/ProfileModel.tla) and the real github.com/google/pprof/profile
// types: Concretise (abstract -> *profile.Profile), Project (real ->
// abstract denotation) and the canonical comparison helpers both bindings use.
package vlib

import (
	"encoding/json"
	"fmt"
	"sort"
	"strings"

	"github.com/google/pprof/profile"
)

// ---- abstract entities (JSON shape = ToJson of the TLA+ records) ----

type AFn struct {
	Name  string `json:"name"`
	Sys   string `json:"sys"`
	File  string `json:"file"`
	Start int64  `json:"start"`
}
type ALine struct {
	Fn   AFn   `json:"fn"`
	Line int64 `json:"line"`
	Col  int64 `json:"col"`
}
type AMap struct {
	Nil   bool   `json:"nil"`
	Build string `json:"build"`
	File  string `json:"file"`
	Start int64  `json:"start"`
	Size  int64  `json:"size"`
	Off   int64  `json:"off"`
}
type ALoc struct {
	Map    AMap    `json:"map"`
	Rel    int64   `json:"rel"`
	Lines  []ALine `json:"lines"`
	Folded bool    `json:"folded"`
}
type ASLab struct {
	K string   `json:"k"`
	V []string `json:"v"`
}
type ANLab struct {
	K string   `json:"k"`
	V []int64  `json:"v"`
	U []string `json:"u"`
}
type ASample struct {
	Locs []ALoc  `json:"locs"`
	Vals []int64 `json:"vals"`
	Lab  []ASLab `json:"lab"`
	Num  []ANLab `json:"num"`
}
type AHdr struct {
	Period   int64    `json:"period"`
	Time     int64    `json:"time"`
	Dur      int64    `json:"dur"`
	Comments []string `json:"comments"`
	Dflt     string   `json:"dflt"`
	Doc      string   `json:"doc"`
	Drop     string   `json:"drop"`
	Keep     string   `json:"keep"`
}
type AProf struct {
	Samples []ASample `json:"samples"`
	Hdr     AHdr      `json:"hdr"`
	// optional: sample type names/units; default t1/u1, t2/u2, ...
	ST []AVT `json:"st,omitempty"`
}
type AVT struct {
	T string `json:"t"`
	U string `json:"u"`
}

// ---- abstract denotation (spec: Frame / StackKey / Abs) ----

type ABin struct {
	K string `json:"k"`
	V string `json:"v"`
}
type AFrame struct {
	Bin    ABin   `json:"bin"`
	Rel    int64  `json:"rel"`
	Name   string `json:"name"`
	Sys    string `json:"sys"`
	File   string `json:"file"`
	Start  int64  `json:"start"`
	Line   int64  `json:"line"`
	Col    int64  `json:"col"`
	Pos    int    `json:"pos"`
	Of     int    `json:"of"`
	Folded bool   `json:"folded"`
}
type AKey struct {
	Frames []AFrame `json:"frames"`
	Lab    []ASLab  `json:"lab"`
	Num    []ANLab  `json:"num"`
}
type AAbs struct {
	Key  AKey    `json:"key"`
	Vals []int64 `json:"vals"`
}

// Canon returns a canonical string for a key: labels sorted by key.
func (k AKey) Canon() string {
	c := AKey{Frames: k.Frames, Lab: append([]ASLab(nil), k.Lab...), Num: append([]ANLab(nil), k.Num...)}
	if c.Frames == nil {
		c.Frames = []AFrame{}
	}
	sort.Slice(c.Lab, func(i, j int) bool { return labLess(c.Lab[i], c.Lab[j]) })
	sort.Slice(c.Num, func(i, j int) bool { return numLess(c.Num[i], c.Num[j]) })
	for i := range c.Lab {
		if c.Lab[i].V == nil {
			c.Lab[i].V = []string{}
		}
	}
	for i := range c.Num {
		if c.Num[i].V == nil {
			c.Num[i].V = []int64{}
		}
		if c.Num[i].U == nil {
			c.Num[i].U = []string{}
		}
	}
	if c.Lab == nil {
		c.Lab = []ASLab{}
	}
	if c.Num == nil {
		c.Num = []ANLab{}
	}
	b, err := json.Marshal(c)
	if err != nil {
		panic(err)
	}
	return string(b)
}

func labLess(a, b ASLab) bool {
	if a.K != b.K {
		return a.K < b.K
	}
	return strings.Join(a.V, "\x00") < strings.Join(b.V, "\x00")
}
func numLess(a, b ANLab) bool {
	if a.K != b.K {
		return a.K < b.K
	}
	return fmt.Sprint(a.V, a.U) < fmt.Sprint(b.V, b.U)
}

// Bag is the bag-sum of a list of abstract samples: canonical key -> value vector,
// all-zero vectors removed (spec: BagSum).
type Bag map[string][]int64

func BagOf(abs []AAbs) Bag {
	b := Bag{}
	for _, a := range abs {
		k := a.Key.Canon()
		cur, ok := b[k]
		if !ok {
			cur = make([]int64, len(a.Vals))
		}
		for i, v := range a.Vals {
			if i < len(cur) {
				cur[i] += v
			} else {
				cur = append(cur, v)
			}
		}
		b[k] = cur
	}
	for k, v := range b {
		z := true
		for _, x := range v {
			if x != 0 {
				z = false
			}
		}
		if z {
			delete(b, k)
		}
	}
	return b
}

// Diff describes the first difference between two bags ("" if equal).
func (b Bag) Diff(o Bag) string {
	var keys []string
	for k := range b {
		keys = append(keys, k)
	}
	for k := range o {
		if _, ok := b[k]; !ok {
			keys = append(keys, k)
		}
	}
	sort.Strings(keys)
	for _, k := range keys {
		x, okx := b[k]
		y, oky := o[k]
		if !okx {
			return fmt.Sprintf("stack only in second: %s vals=%v", k, y)
		}
		if !oky {
			return fmt.Sprintf("stack only in first: %s vals=%v", k, x)
		}
		if fmt.Sprint(x) != fmt.Sprint(y) {
			return fmt.Sprintf("values differ for %s: %v vs %v", k, x, y)
		}
	}
	return ""
}

// ---- Project: real profile -> abstract denotation ----

func binOf(m *profile.Mapping) ABin {
	switch {
	case m == nil:
		return ABin{"none", ""}
	case m.BuildID != "":
		return ABin{"id", m.BuildID}
	case m.File != "":
		return ABin{"file", m.File}
	}
	return ABin{"fake", ""}
}

// FramesOf returns the frames of a sample leaf -> root, inlined lines expanded.
func FramesOf(s *profile.Sample) []AFrame {
	fr := []AFrame{}
	for _, l := range s.Location {
		if l == nil {
			fr = append(fr, AFrame{Bin: ABin{"nil-location", ""}})
			continue
		}
		rel := int64(l.Address)
		if l.Mapping != nil {
			rel = int64(l.Address - l.Mapping.Start)
		}
		if len(l.Line) == 0 {
			fr = append(fr, AFrame{Bin: binOf(l.Mapping), Rel: rel, Folded: l.IsFolded})
			continue
		}
		for i, ln := range l.Line {
			f := AFrame{Bin: binOf(l.Mapping), Rel: rel, Line: ln.Line, Col: ln.Column,
				Pos: i + 1, Of: len(l.Line), Folded: l.IsFolded}
			if ln.Function != nil {
				f.Name, f.Sys, f.File, f.Start = ln.Function.Name, ln.Function.SystemName, ln.Function.Filename, ln.Function.StartLine
			}
			fr = append(fr, f)
		}
	}
	return fr
}

func LabelsOf(s *profile.Sample) ([]ASLab, []ANLab) {
	lab := []ASLab{}
	for k, v := range s.Label {
		lab = append(lab, ASLab{k, append([]string{}, v...)})
	}
	num := []ANLab{}
	for k, v := range s.NumLabel {
		u := s.NumUnit[k]
		uu := make([]string, len(v))
		copy(uu, u)
		num = append(num, ANLab{k, append([]int64{}, v...), uu})
	}
	sort.Slice(lab, func(i, j int) bool { return labLess(lab[i], lab[j]) })
	sort.Slice(num, func(i, j int) bool { return numLess(num[i], num[j]) })
	return lab, num
}

// Project returns Abs of every sample, in sample order.
func Project(p *profile.Profile) []AAbs {
	out := make([]AAbs, 0, len(p.Sample))
	for _, s := range p.Sample {
		lab, num := LabelsOf(s)
		out = append(out, AAbs{Key: AKey{Frames: FramesOf(s), Lab: lab, Num: num}, Vals: append([]int64{}, s.Value...)})
	}
	return out
}

// FullIdentity is a string that two samples share only if they are identical in
// every attribute of every entity they reach (used for the under-merging check).
func FullIdentity(s *profile.Sample) string {
	var b strings.Builder
	for _, l := range s.Location {
		if l == nil {
			b.WriteString("nil;")
			continue
		}
		fmt.Fprintf(&b, "L[%x f=%v ", l.Address, l.IsFolded)
		if m := l.Mapping; m != nil {
			fmt.Fprintf(&b, "M(%x %x %x %q %q %v%v%v%v)", m.Start, m.Limit, m.Offset, m.File, m.BuildID,
				m.HasFunctions, m.HasFilenames, m.HasLineNumbers, m.HasInlineFrames)
		}
		for _, ln := range l.Line {
			fmt.Fprintf(&b, " l(%d:%d", ln.Line, ln.Column)
			if f := ln.Function; f != nil {
				fmt.Fprintf(&b, " %q %q %q %d", f.Name, f.SystemName, f.Filename, f.StartLine)
			}
			b.WriteString(")")
		}
		b.WriteString("];")
	}
	lab, num := LabelsOf(s)
	j, _ := json.Marshal([]interface{}{lab, num})
	b.Write(j)
	return b.String()
}
