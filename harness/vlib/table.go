package vlib

import (
	"math"

	"github.com/google/pprof/profile"
)

// Table is Codec.tla's profile record: every table WITH its ids (the
// representation-level view). JSON shape = ToJson of the TLA+ record.
type Table struct {
	ST       []AVT    `json:"st"`
	PT       TPT      `json:"pt"`
	Period   int64    `json:"period"`
	Time     int64    `json:"time"`
	Dur      int64    `json:"dur"`
	Comments []string `json:"comments"`
	Dflt     string   `json:"dflt"`
	Doc      string   `json:"doc"`
	Drop     string   `json:"drop"`
	Keep     string   `json:"keep"`
	Fns      []TFn    `json:"fns"`
	Maps     []TMap   `json:"maps"`
	Locs     []TLoc   `json:"locs"`
	Samples  []TSmp   `json:"samples"`
}
type TPT struct {
	Nil bool   `json:"nil"`
	T   string `json:"t"`
	U   string `json:"u"`
}
type TFn struct {
	ID    int64  `json:"id"`
	Name  string `json:"name"`
	Sys   string `json:"sys"`
	File  string `json:"file"`
	Start int64  `json:"start"`
}
type TMap struct {
	ID      int64  `json:"id"`
	Start   int64  `json:"start"`
	Limit   int64  `json:"limit"`
	Off     int64  `json:"off"`
	File    string `json:"file"`
	Build   string `json:"build"`
	HasFn   bool   `json:"hasfn"`
	HasFile bool   `json:"hasfile"`
	HasLine bool   `json:"hasline"`
	HasInl  bool   `json:"hasinl"`
}
type TLine struct {
	Fn   int64 `json:"fn"`
	Line int64 `json:"line"`
	Col  int64 `json:"col"`
}
type TLoc struct {
	ID     int64   `json:"id"`
	Map    int64   `json:"map"`
	Addr   int64   `json:"addr"`
	Lines  []TLine `json:"lines"`
	Folded bool    `json:"folded"`
}
type TSmp struct {
	Locs []int64 `json:"locs"`
	Vals []int64 `json:"vals"`
	Lab  []ASLab `json:"lab"`
	Num  []ANLab `json:"num"`
}

// TConc concretises a Table: injective maps from the small abstract integers and
// tokens to the boundary values the property quantifies over.
type TConc struct {
	Extreme bool // map small values to int64/uint64 extremes
	StrMode int
	Wire    int // > 0: map small positive values and addresses to the length boundaries of the wire format's varints
}

// the values at which a varint grows by a byte (2^7k) and their predecessors: injective on the small abstract values
var wireBoundaries = []uint64{1<<7 - 1, 1 << 7, 1<<14 - 1, 1 << 14, 1<<21 - 1, 1 << 21, 1<<28 - 1, 1 << 28, 1<<28 + 1, 1<<35 - 1, 1 << 35, 1 << 42, 1<<49 - 1, 1 << 49, 1 << 56, 1<<56 - 1, 1<<62 + 1, 1<<63 - 1}

func (c TConc) wire(v uint64) uint64 {
	if c.Wire <= 0 || v == 0 || v >= uint64(len(wireBoundaries)) {
		return v
	}
	return wireBoundaries[(int(v)+c.Wire)%len(wireBoundaries)]
}

func (c TConc) id(n int64) uint64 {
	if n >= 90 {
		return 1<<63 + uint64(n)
	}
	return uint64(n)
}

func (c TConc) val(v int64) int64 {
	if c.Wire > 0 && v > 0 {
		return int64(c.wire(uint64(v)))
	}
	if !c.Extreme {
		return v
	}
	switch v {
	case -2:
		return math.MinInt64
	case 3:
		return math.MaxInt64
	case 4:
		return 1 << 40
	case 5:
		return -(1 << 40)
	}
	return v
}

func (c TConc) addr(a int64) uint64 {
	if c.Wire > 0 && a > 0 {
		return c.wire(uint64(a))
	}
	if c.Extreme && a == 17 {
		return math.MaxUint64
	}
	return uint64(a)
}

func (c TConc) str(s string) string {
	cc := Conc{StrMode: c.StrMode}
	return cc.Str(s)
}

func (c TConc) strs(ss []string) []string {
	out := make([]string, len(ss))
	for i, s := range ss {
		out[i] = c.str(s)
	}
	return out
}

// Profile builds the real profile of a Table. Dangling references become nil.
func (c TConc) Profile(t Table) *profile.Profile {
	p := &profile.Profile{Period: c.val(t.Period), TimeNanos: c.val(t.Time), DurationNanos: c.val(t.Dur),
		DefaultSampleType: c.str(t.Dflt), DocURL: c.str(t.Doc), DropFrames: c.str(t.Drop), KeepFrames: c.str(t.Keep)}
	for _, s := range t.Comments {
		p.Comments = append(p.Comments, c.str(s))
	}
	for _, v := range t.ST {
		p.SampleType = append(p.SampleType, &profile.ValueType{Type: c.str(v.T), Unit: c.str(v.U)})
	}
	if !t.PT.Nil {
		p.PeriodType = &profile.ValueType{Type: c.str(t.PT.T), Unit: c.str(t.PT.U)}
	}
	fns := map[int64]*profile.Function{}
	for _, f := range t.Fns {
		x := &profile.Function{ID: c.id(f.ID), Name: c.str(f.Name), SystemName: c.str(f.Sys), Filename: c.str(f.File), StartLine: f.Start}
		fns[f.ID] = x
		p.Function = append(p.Function, x)
	}
	maps := map[int64]*profile.Mapping{}
	for _, m := range t.Maps {
		x := &profile.Mapping{ID: c.id(m.ID), Start: uint64(m.Start), Limit: uint64(m.Limit), Offset: uint64(m.Off), File: c.str(m.File), BuildID: c.str(m.Build),
			HasFunctions: m.HasFn, HasFilenames: m.HasFile, HasLineNumbers: m.HasLine, HasInlineFrames: m.HasInl}
		maps[m.ID] = x
		p.Mapping = append(p.Mapping, x)
	}
	locs := map[int64]*profile.Location{}
	for _, l := range t.Locs {
		x := &profile.Location{ID: c.id(l.ID), Mapping: maps[l.Map], Address: c.addr(l.Addr), IsFolded: l.Folded}
		for _, ln := range l.Lines {
			x.Line = append(x.Line, profile.Line{Function: fns[ln.Fn], Line: ln.Line, Column: ln.Col})
		}
		locs[l.ID] = x
		p.Location = append(p.Location, x)
	}
	for _, s := range t.Samples {
		x := &profile.Sample{}
		for _, v := range s.Vals {
			x.Value = append(x.Value, c.val(v))
		}
		for _, id := range s.Locs {
			x.Location = append(x.Location, locs[id])
		}
		if len(s.Lab) > 0 {
			x.Label = map[string][]string{}
			for _, l := range s.Lab {
				x.Label[c.str(l.K)] = append(x.Label[c.str(l.K)], c.strs(l.V)...)
			}
		}
		if len(s.Num) > 0 {
			x.NumLabel = map[string][]int64{}
			x.NumUnit = map[string][]string{}
			for _, l := range s.Num {
				k := c.str(l.K)
				for _, v := range l.V {
					x.NumLabel[k] = append(x.NumLabel[k], c.val(v))
				}
				x.NumUnit[k] = append(x.NumUnit[k], c.strs(l.U)...)
			}
		}
		p.Sample = append(p.Sample, x)
	}
	return p
}

// TableOf is the inverse view of a real profile whose numbers are small (used for
// trace events that TLC reads).
func TableOf(p *profile.Profile) Table {
	f := ProjectFull(p)
	t := Table{Period: f.Period, Time: f.Time, Dur: f.Dur, Comments: f.Comments, Dflt: f.Dflt, Doc: f.Doc, Drop: f.Drop, Keep: f.Keep,
		ST: f.ST, Fns: []TFn{}, Maps: []TMap{}, Locs: []TLoc{}, Samples: []TSmp{}}
	if f.PT == nil {
		t.PT = TPT{Nil: true}
	} else {
		t.PT = TPT{T: f.PT.T, U: f.PT.U}
	}
	for _, x := range f.Fns {
		t.Fns = append(t.Fns, TFn{int64(x.ID), x.Name, x.Sys, x.File, x.Start})
	}
	for _, m := range f.Maps {
		t.Maps = append(t.Maps, TMap{int64(m.ID), int64(m.Start), int64(m.Limit), int64(m.Off), m.File, m.Build, m.HasFn, m.HasFil, m.HasLn, m.HasInl})
	}
	for _, l := range f.Locs {
		x := TLoc{ID: int64(l.ID), Map: int64(l.Map), Addr: int64(l.Addr), Folded: l.Folded, Lines: []TLine{}}
		for _, ln := range l.Lines {
			x.Lines = append(x.Lines, TLine{int64(ln.Fn), ln.Line, ln.Col})
		}
		t.Locs = append(t.Locs, x)
	}
	for _, s := range f.Samples {
		x := TSmp{Vals: s.Vals, Lab: s.Lab, Num: s.Num, Locs: []int64{}}
		for _, id := range s.Locs {
			x.Locs = append(x.Locs, int64(id))
		}
		t.Samples = append(t.Samples, x)
	}
	return t
}
