package vlib

import (
	"bufio"
	"encoding/json"
	"flag"
	"fmt"
	"os"
	"sort"
	"strings"
	"sync"
)

// Violation is one observation on the REAL code that the property forbids.
type Violation struct {
	Check  string          `json:"check"`  // which oracle failed
	Sig    string          `json:"sig"`    // stable signature of the failing input class (known-findings key)
	Detail string          `json:"detail"` // human readable
	Case   json.RawMessage `json:"case"`   // the concrete input / behaviour, replayable
	Conc   *Conc           `json:"conc,omitempty"`
}

// Summary is what a harness hands back to bin/check.
type Summary struct {
	Prop         string            `json:"prop"`
	Evaluations  int               `json:"evaluations"`
	Nontrivial   int               `json:"distinct_nontrivial"`
	Rule         string            `json:"rule"`
	Samples      []json.RawMessage `json:"samples"`
	Violations   []Violation       `json:"violations"`
	TraceEvents  int               `json:"trace_events"`
	Notes        []string          `json:"notes"`
	Counters     map[string]int    `json:"counters"`
	InfraErrors  []string          `json:"infra_errors"`
	Replayed     int               `json:"cases_replayed"`
	RandomDriven int               `json:"random_cases"`
}

// Run carries the per-invocation state of a harness binary.
type Run struct {
	Prop      string
	Seed      int64
	Tier      string
	CasesPath string
	OutPath   string
	TracePath string
	N         int // number of random-driver iterations
	Extra     string

	mu      sync.Mutex
	sum     Summary
	nontriv map[string]bool
	viols   map[string]int
	trace   *bufio.Writer
	traceF  *os.File
	aux     *bufio.Writer
	auxF    *os.File
}

func NewRun(prop string) *Run {
	r := &Run{Prop: prop, nontriv: map[string]bool{}, viols: map[string]int{}}
	flag.Int64Var(&r.Seed, "seed", 1, "VERIF_SEED")
	flag.StringVar(&r.Tier, "tier", "quick", "quick|thorough")
	flag.StringVar(&r.CasesPath, "cases", "", "ndjson cases emitted by TLC")
	flag.StringVar(&r.OutPath, "out", "", "summary json")
	flag.StringVar(&r.TracePath, "trace", "", "ndjson trace to be validated by TLC")
	flag.IntVar(&r.N, "n", 200, "random driver iterations")
	flag.StringVar(&r.Extra, "extra", "", "property-specific argument")
	flag.Parse()
	r.sum.Prop = prop
	r.sum.Counters = map[string]int{}
	if r.TracePath != "" {
		f, err := os.Create(r.TracePath)
		if err != nil {
			fmt.Fprintln(os.Stderr, "trace:", err)
			os.Exit(2)
		}
		r.traceF = f
		r.trace = bufio.NewWriterSize(f, 1<<20)
		g, err := os.Create(r.TracePath + ".in")
		if err != nil {
			fmt.Fprintln(os.Stderr, "trace:", err)
			os.Exit(2)
		}
		r.auxF = g
		r.aux = bufio.NewWriterSize(g, 1<<20)
	}
	return r
}

// EachCase calls fn for every case line of the cases file (TLC prints each as a
// quoted TLA+ string containing JSON; plain JSON lines are accepted as well).
func (r *Run) EachCase(fn func(i int, raw json.RawMessage)) {
	if r.CasesPath == "" {
		return
	}
	f, err := os.Open(r.CasesPath)
	if err != nil {
		fmt.Fprintln(os.Stderr, "cases:", err)
		os.Exit(2)
	}
	defer f.Close()
	sc := bufio.NewScanner(f)
	sc.Buffer(make([]byte, 1<<20), 1<<28)
	i := 0
	for sc.Scan() {
		line := strings.TrimSpace(sc.Text())
		if line == "" {
			continue
		}
		if line[0] == '"' {
			var s string
			if err := json.Unmarshal([]byte(line), &s); err != nil {
				r.Infra("bad case line: " + err.Error())
				continue
			}
			line = s
		}
		if line == "" || (line[0] != '{' && line[0] != '[') {
			continue
		}
		fn(i, json.RawMessage(line))
		i++
	}
	r.sum.Replayed = i
}

// Count one evaluation; key != "" marks it as non-trivial with that distinct key.
func (r *Run) Count(nontrivialKey string) {
	r.mu.Lock()
	r.sum.Evaluations++
	if nontrivialKey != "" {
		r.nontriv[nontrivialKey] = true
	}
	r.mu.Unlock()
}

func (r *Run) Counter(name string, d int) {
	r.mu.Lock()
	r.sum.Counters[name] += d
	r.mu.Unlock()
}

func (r *Run) Sample(v interface{}) {
	r.mu.Lock()
	defer r.mu.Unlock()
	if len(r.sum.Samples) >= 4 {
		return
	}
	b, _ := json.Marshal(v)
	r.sum.Samples = append(r.sum.Samples, b)
}

func (r *Run) Infra(msg string) {
	r.mu.Lock()
	if len(r.sum.InfraErrors) < 20 {
		r.sum.InfraErrors = append(r.sum.InfraErrors, msg)
	}
	r.mu.Unlock()
}

func (r *Run) Note(msg string) {
	r.mu.Lock()
	r.sum.Notes = append(r.sum.Notes, msg)
	r.mu.Unlock()
}

// Violate records a violation; at most 3 concrete cases are kept per signature.
func (r *Run) Violate(check, sig, detail string, c interface{}, conc *Conc) {
	r.mu.Lock()
	defer r.mu.Unlock()
	r.viols[sig]++
	r.sum.Counters["viol:"+sig]++
	if r.viols[sig] > 3 {
		return
	}
	var raw json.RawMessage
	switch x := c.(type) {
	case json.RawMessage:
		raw = x
	default:
		raw, _ = json.Marshal(c)
	}
	r.sum.Violations = append(r.sum.Violations, Violation{Check: check, Sig: sig, Detail: detail, Case: raw, Conc: conc})
}

// Event appends one trace event (Binding B).
func (r *Run) Event(ev interface{}) {
	if r.trace == nil {
		return
	}
	b, err := json.Marshal(ev)
	if err != nil {
		r.Infra("event: " + err.Error())
		return
	}
	r.mu.Lock()
	r.trace.Write(b)
	r.trace.WriteByte('\n')
	r.sum.TraceEvents++
	r.mu.Unlock()
}

// Aux records, next to the trace, the concrete input that produced event n so
// that a rejected event can be turned into a replay file. Not read by TLC.
func (r *Run) Aux(v interface{}) {
	if r.aux == nil {
		return
	}
	b, _ := json.Marshal(v)
	r.mu.Lock()
	r.aux.Write(b)
	r.aux.WriteByte('\n')
	r.mu.Unlock()
}

func (r *Run) Finish(rule string) {
	if r.trace != nil {
		r.trace.Flush()
		r.traceF.Close()
		r.aux.Flush()
		r.auxF.Close()
	}
	r.sum.Rule = rule
	r.sum.Nontrivial = len(r.nontriv)
	sort.Slice(r.sum.Violations, func(i, j int) bool { return r.sum.Violations[i].Sig < r.sum.Violations[j].Sig })
	if r.sum.Violations == nil {
		r.sum.Violations = []Violation{}
	}
	if r.sum.Samples == nil {
		r.sum.Samples = []json.RawMessage{}
	}
	b, _ := json.MarshalIndent(r.sum, "", " ")
	if r.OutPath == "" {
		os.Stdout.Write(b)
		return
	}
	if err := os.WriteFile(r.OutPath, b, 0o644); err != nil {
		fmt.Fprintln(os.Stderr, "out:", err)
		os.Exit(2)
	}
}

// Rand is a small deterministic generator (splitmix64) so that harness
// behaviour depends on VERIF_SEED only.
type Rand struct{ s uint64 }

func NewRand(seed int64) *Rand { return &Rand{uint64(seed)*0x9E3779B97F4A7C15 + 0x1234567} }
func (r *Rand) U64() uint64 {
	r.s += 0x9E3779B97F4A7C15
	z := r.s
	z = (z ^ (z >> 30)) * 0xBF58476D1CE4E5B9
	z = (z ^ (z >> 27)) * 0x94D049BB133111EB
	return z ^ (z >> 31)
}
func (r *Rand) Intn(n int) int {
	if n <= 0 {
		return 0
	}
	return int(r.U64() % uint64(n))
}
func (r *Rand) Bool() bool { return r.U64()&1 == 1 }
func (r *Rand) Pick(ss []string) string {
	return ss[r.Intn(len(ss))]
}

// Perms returns all permutations of 0..n-1 (n small).
func Perms(n int) [][]int {
	if n == 0 {
		return [][]int{{}}
	}
	var out [][]int
	var rec func(cur []int, used []bool)
	rec = func(cur []int, used []bool) {
		if len(cur) == n {
			out = append(out, append([]int{}, cur...))
			return
		}
		for i := 0; i < n; i++ {
			if !used[i] {
				used[i] = true
				rec(append(cur, i), used)
				used[i] = false
			}
		}
	}
	rec(nil, make([]bool, n))
	return out
}
