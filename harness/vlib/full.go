package vlib

import (
	"encoding/json"
	"reflect"

	"github.com/google/pprof/profile"
)

// Full is the representation-level projection of a profile: every table with
// its ids, order and header fields (spec: Full(p)). Used where a property is
// about the representation itself (C01, C02, C12) and for "inputs untouched".
type Full struct {
	ST       []AVT    `json:"st"`
	PT       *AVT     `json:"pt"`
	Period   int64    `json:"period"`
	Time     int64    `json:"time"`
	Dur      int64    `json:"dur"`
	Comments []string `json:"comments"`
	Dflt     string   `json:"dflt"`
	Doc      string   `json:"doc"`
	Drop     string   `json:"drop"`
	Keep     string   `json:"keep"`
	Fns      []FFn    `json:"fns"`
	Maps     []FMap   `json:"maps"`
	Locs     []FLoc   `json:"locs"`
	Samples  []FSmp   `json:"samples"`
}
type FFn struct {
	ID    uint64 `json:"id"`
	Name  string `json:"name"`
	Sys   string `json:"sys"`
	File  string `json:"file"`
	Start int64  `json:"start"`
}
type FMap struct {
	ID     uint64 `json:"id"`
	Start  uint64 `json:"start"`
	Limit  uint64 `json:"limit"`
	Off    uint64 `json:"off"`
	File   string `json:"file"`
	Build  string `json:"build"`
	HasFn  bool   `json:"hasfn"`
	HasFil bool   `json:"hasfile"`
	HasLn  bool   `json:"hasline"`
	HasInl bool   `json:"hasinl"`
}
type FLine struct {
	Fn   uint64 `json:"fn"`
	Line int64  `json:"line"`
	Col  int64  `json:"col"`
}
type FLoc struct {
	ID     uint64  `json:"id"`
	Map    uint64  `json:"map"`
	Addr   uint64  `json:"addr"`
	Lines  []FLine `json:"lines"`
	Folded bool    `json:"folded"`
}
type FSmp struct {
	Locs []uint64 `json:"locs"`
	Vals []int64  `json:"vals"`
	Lab  []ASLab  `json:"lab"`
	Num  []ANLab  `json:"num"`
}

// ProjectFull never panics on a structurally odd profile: nil pointers project to id 0.
func ProjectFull(p *profile.Profile) Full {
	f := Full{Period: p.Period, Time: p.TimeNanos, Dur: p.DurationNanos, Dflt: p.DefaultSampleType,
		Doc: p.DocURL, Drop: p.DropFrames, Keep: p.KeepFrames,
		Comments: append([]string{}, p.Comments...),
		ST:       []AVT{}, Fns: []FFn{}, Maps: []FMap{}, Locs: []FLoc{}, Samples: []FSmp{}}
	for _, st := range p.SampleType {
		if st == nil {
			f.ST = append(f.ST, AVT{"<nil>", "<nil>"})
			continue
		}
		f.ST = append(f.ST, AVT{st.Type, st.Unit})
	}
	if p.PeriodType != nil {
		f.PT = &AVT{p.PeriodType.Type, p.PeriodType.Unit}
	}
	for _, x := range p.Function {
		if x == nil {
			f.Fns = append(f.Fns, FFn{})
			continue
		}
		f.Fns = append(f.Fns, FFn{x.ID, x.Name, x.SystemName, x.Filename, x.StartLine})
	}
	for _, m := range p.Mapping {
		if m == nil {
			f.Maps = append(f.Maps, FMap{})
			continue
		}
		f.Maps = append(f.Maps, FMap{m.ID, m.Start, m.Limit, m.Offset, m.File, m.BuildID,
			m.HasFunctions, m.HasFilenames, m.HasLineNumbers, m.HasInlineFrames})
	}
	for _, l := range p.Location {
		if l == nil {
			f.Locs = append(f.Locs, FLoc{})
			continue
		}
		fl := FLoc{ID: l.ID, Addr: l.Address, Folded: l.IsFolded, Lines: []FLine{}}
		if l.Mapping != nil {
			fl.Map = l.Mapping.ID
		}
		for _, ln := range l.Line {
			x := FLine{Line: ln.Line, Col: ln.Column}
			if ln.Function != nil {
				x.Fn = ln.Function.ID
			}
			fl.Lines = append(fl.Lines, x)
		}
		f.Locs = append(f.Locs, fl)
	}
	for _, s := range p.Sample {
		if s == nil {
			f.Samples = append(f.Samples, FSmp{})
			continue
		}
		fs := FSmp{Vals: append([]int64{}, s.Value...), Locs: []uint64{}}
		for _, l := range s.Location {
			if l == nil {
				fs.Locs = append(fs.Locs, 0)
			} else {
				fs.Locs = append(fs.Locs, l.ID)
			}
		}
		fs.Lab, fs.Num = LabelsOf(s)
		f.Samples = append(f.Samples, fs)
	}
	return f
}

func (f Full) JSON() string {
	b, _ := json.Marshal(f)
	return string(b)
}

func (f Full) Equal(o Full) bool { return reflect.DeepEqual(f, o) }

// Scribble overwrites everything reachable from p through exported fields
// (strings, numbers, slice elements, map entries). If the inputs of the
// operation that produced p are aliased by p, their projection changes.
func Scribble(p *profile.Profile) {
	for _, st := range p.SampleType {
		if st != nil {
			st.Type += "!"
			st.Unit += "!"
		}
	}
	if p.PeriodType != nil {
		p.PeriodType.Type += "!"
		p.PeriodType.Unit += "!"
	}
	for i := range p.Comments {
		p.Comments[i] += "!"
	}
	for _, f := range p.Function {
		if f != nil {
			f.ID += 1000
			f.Name += "!"
			f.SystemName += "!"
			f.Filename += "!"
			f.StartLine++
		}
	}
	for _, m := range p.Mapping {
		if m != nil {
			m.ID += 1000
			m.Start++
			m.Limit++
			m.Offset++
			m.File += "!"
			m.BuildID += "!"
			m.HasFunctions = !m.HasFunctions
		}
	}
	for _, l := range p.Location {
		if l != nil {
			l.ID += 1000
			l.Address++
			l.IsFolded = !l.IsFolded
			for i := range l.Line {
				l.Line[i].Line++
				l.Line[i].Column++
			}
		}
	}
	for _, s := range p.Sample {
		if s == nil {
			continue
		}
		for i := range s.Value {
			s.Value[i] += 1000
		}
		for i := range s.Location {
			s.Location[i] = nil
		}
		for k, v := range s.Label {
			for i := range v {
				v[i] += "!"
			}
			s.Label[k+"!"] = []string{"!"}
		}
		for k, v := range s.NumLabel {
			for i := range v {
				v[i] += 1000
			}
			for i := range s.NumUnit[k] {
				s.NumUnit[k][i] += "!"
			}
			s.NumLabel[k+"!"] = []int64{1}
		}
	}
}
