package vlib

import (
	"encoding/json"
	"fmt"

	"github.com/google/pprof/profile"
)

// Conc turns abstract entities into real ones. The same Conc must be used to
// translate the expected abstract result (ExpKey) so that both sides are
// compared in concrete units.
type Conc struct {
	Share   int    // 0: every use of an entity is a fresh object/id; 1: intern by content; 2: fns+maps interned, locations fresh
	IDMode  int    // 0 dense 1..n; 1 dense reversed; 2 huge sparse; 3 dense with offset
	StrMode int    // string decoration, injective, "" stays ""
	MapBase uint64 // address of abstract mapping start 0
	Unit    uint64 // bytes per abstract mapping unit (half a page)
	RelUnit uint64 // bytes per abstract rel unit
	ProfIdx int    // index of the profile in its list: makes ids collide / differ across inputs
	ValMul  int64  // multiplier applied to sample values (linear properties commute with it)
}

// NewConc derives a concretisation from a seed.
func NewConc(seed int64) *Conc {
	if seed < 0 {
		seed = -seed
	}
	c := &Conc{Share: int(seed % 3), IDMode: int((seed / 3) % 4), StrMode: int((seed / 12) % 4),
		MapBase: 0x400000, Unit: 0x800, RelUnit: 0x10, ValMul: 1}
	if (seed/48)%2 == 1 {
		c.MapBase = 0x7f0000000000
	}
	// seed 0 is the plain reading: shared, dense, literal strings
	if seed == 0 {
		c.Share = 1
	}
	return c
}

func (c *Conc) Str(s string) string {
	if s == "" {
		return ""
	}
	switch c.StrMode {
	case 1:
		return s + "\xff\xfe"
	case 2:
		return s + "\"\\<&>"
	case 3:
		return "é世" + s
	}
	return s
}

func (c *Conc) Strs(ss []string) []string {
	out := make([]string, len(ss))
	for i, s := range ss {
		out[i] = c.Str(s)
	}
	return out
}

func (c *Conc) id(i, n int) uint64 {
	switch c.IDMode {
	case 1:
		return uint64(n - i)
	case 2:
		return 1<<63 + uint64(i)*7 + uint64(c.ProfIdx)
	case 3:
		return uint64(i + 1 + 5*c.ProfIdx)
	}
	return uint64(i + 1)
}

func ckey(v interface{}) string {
	b, _ := json.Marshal(v)
	return string(b)
}

// SampleTypes returns n value types t1/u1 ... (or the abstract ones when given).
func SampleTypes(ap AProf, n int) []*profile.ValueType {
	var st []*profile.ValueType
	if len(ap.ST) > 0 {
		for _, v := range ap.ST {
			st = append(st, &profile.ValueType{Type: v.T, Unit: v.U})
		}
		return st
	}
	for i := 1; i <= n; i++ {
		st = append(st, &profile.ValueType{Type: fmt.Sprintf("t%d", i), Unit: fmt.Sprintf("u%d", i)})
	}
	return st
}

// Profile builds a real profile from an abstract one.
func (c *Conc) Profile(ap AProf) *profile.Profile {
	nt := 0
	for _, s := range ap.Samples {
		if len(s.Vals) > nt {
			nt = len(s.Vals)
		}
	}
	if len(ap.ST) > 0 {
		nt = len(ap.ST)
	}
	p := &profile.Profile{
		SampleType:        SampleTypes(ap, nt),
		PeriodType:        &profile.ValueType{Type: "pt", Unit: "pu"},
		Period:            ap.Hdr.Period,
		TimeNanos:         ap.Hdr.Time,
		DurationNanos:     ap.Hdr.Dur,
		DefaultSampleType: ap.Hdr.Dflt,
		DocURL:            ap.Hdr.Doc,
		DropFrames:        ap.Hdr.Drop,
		KeepFrames:        ap.Hdr.Keep,
	}
	for _, cm := range ap.Hdr.Comments {
		p.Comments = append(p.Comments, c.Str(cm))
	}
	fns := map[string]*profile.Function{}
	maps := map[string]*profile.Mapping{}
	locs := map[string]*profile.Location{}
	mkFn := func(f AFn) *profile.Function {
		k := ckey(f)
		if c.Share != 0 {
			if x, ok := fns[k]; ok {
				return x
			}
		}
		x := &profile.Function{Name: c.Str(f.Name), SystemName: c.Str(f.Sys), Filename: c.Str(f.File), StartLine: f.Start}
		fns[k] = x
		p.Function = append(p.Function, x)
		return x
	}
	mkMap := func(m AMap) *profile.Mapping {
		if m.Nil {
			return nil
		}
		k := ckey(m)
		if c.Share != 0 {
			if x, ok := maps[k]; ok {
				return x
			}
		}
		start := c.MapBase + uint64(m.Start)*c.Unit
		x := &profile.Mapping{Start: start, Limit: start + uint64(m.Size)*c.Unit, Offset: uint64(m.Off) * c.Unit,
			File: c.Str(m.File), BuildID: c.Str(m.Build),
			HasFunctions: true, HasFilenames: true, HasLineNumbers: true, HasInlineFrames: true}
		maps[k] = x
		p.Mapping = append(p.Mapping, x)
		return x
	}
	mkLoc := func(l ALoc) *profile.Location {
		k := ckey(l)
		if c.Share == 1 {
			if x, ok := locs[k]; ok {
				return x
			}
		}
		x := &profile.Location{Mapping: mkMap(l.Map), IsFolded: l.Folded}
		x.Address = uint64(l.Rel) * c.RelUnit
		if x.Mapping != nil {
			x.Address += x.Mapping.Start
		}
		for _, ln := range l.Lines {
			x.Line = append(x.Line, profile.Line{Function: mkFn(ln.Fn), Line: ln.Line, Column: ln.Col})
		}
		locs[k] = x
		p.Location = append(p.Location, x)
		return x
	}
	for _, as := range ap.Samples {
		s := &profile.Sample{Value: make([]int64, nt)}
		for i, v := range as.Vals {
			s.Value[i] = v * c.valMul()
		}
		for _, l := range as.Locs {
			s.Location = append(s.Location, mkLoc(l))
		}
		if len(as.Lab) > 0 {
			s.Label = map[string][]string{}
			for _, l := range as.Lab {
				s.Label[c.Str(l.K)] = c.Strs(l.V)
			}
		}
		if len(as.Num) > 0 {
			s.NumLabel = map[string][]int64{}
			s.NumUnit = map[string][]string{}
			for _, l := range as.Num {
				s.NumLabel[c.Str(l.K)] = append([]int64{}, l.V...)
				s.NumUnit[c.Str(l.K)] = c.Strs(l.U)
			}
		}
		p.Sample = append(p.Sample, s)
	}
	for i, f := range p.Function {
		f.ID = c.id(i, len(p.Function))
	}
	for i, m := range p.Mapping {
		m.ID = c.id(i, len(p.Mapping))
	}
	for i, l := range p.Location {
		l.ID = c.id(i, len(p.Location))
	}
	return p
}

func (c *Conc) valMul() int64 {
	if c.ValMul == 0 {
		return 1
	}
	return c.ValMul
}

// ExpFrame translates an abstract frame (as computed by the spec) to concrete units.
func (c *Conc) ExpFrame(f AFrame) AFrame {
	f.Bin.V = c.Str(f.Bin.V)
	f.Rel = f.Rel * int64(c.RelUnit)
	f.Name, f.Sys, f.File = c.Str(f.Name), c.Str(f.Sys), c.Str(f.File)
	return f
}

// ExpKey translates an abstract stack key to concrete units.
func (c *Conc) ExpKey(k AKey) AKey {
	out := AKey{}
	for _, f := range k.Frames {
		out.Frames = append(out.Frames, c.ExpFrame(f))
	}
	for _, l := range k.Lab {
		out.Lab = append(out.Lab, ASLab{c.Str(l.K), c.Strs(l.V)})
	}
	for _, l := range k.Num {
		out.Num = append(out.Num, ANLab{c.Str(l.K), l.V, c.Strs(l.U)})
	}
	return out
}

// ExpBag translates an expected abstract bag (list of [key, vals]) to a concrete Bag.
func (c *Conc) ExpBag(abs []AAbs) Bag {
	conv := make([]AAbs, len(abs))
	for i, a := range abs {
		vals := make([]int64, len(a.Vals))
		for j, v := range a.Vals {
			vals[j] = v * c.valMul()
		}
		conv[i] = AAbs{Key: c.ExpKey(a.Key), Vals: vals}
	}
	return BagOf(conv)
}
