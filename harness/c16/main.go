// C16 harness: multi-source fetch with a gating, fault-injecting Fetcher.
// Every behaviour of Fetch.tla (source classes x completion order) is forced on
// the real driver: each fetch blocks until the controller releases it in the
// prescribed order, with the prescribed outcome (plug-in error, invalid
// profile, missing file, garbage file, HTTP 500). Runs with 127..300 sources
// cross the real chunk size. One event per run for TraceFetch.tla.
//
// The classes "errbody" and "remote" of Fetch.tla are URLs served by two local
// servers (plain and TLS) and fetched by the driver itself through the REAL
// internal/transport, configured with a TLS set-up whose one-time initialisation
// succeeds or fails as the case's tlsok says: "errbody" is answered with an error
// status and the source's own well-formed profile as the body, "remote" with 200
// and the profile. The event carries the classes and tlsok; whether a source
// counts as fetched is decided by TraceFetch.tla from those alone (Fetch.tla's
// Ok): never by which fetch reached the transport first.
package main

import (
	"bytes"
	"crypto/tls"
	"crypto/x509"
	"encoding/json"
	"encoding/pem"
	"fmt"
	"hash/fnv"
	"io"
	"net/http"
	"net/http/httptest"
	"os"
	"path/filepath"
	"regexp"
	"strconv"
	"strings"
	"sync"
	"time"

	"github.com/google/pprof/internal/plugin"
	realtransport "github.com/google/pprof/internal/transport"
	"github.com/google/pprof/internal/zzverif/vdrv"
	"github.com/google/pprof/internal/zzverif/vlib"
	"github.com/google/pprof/profile"
)

type gi struct {
	G string `json:"g"`
	I int    `json:"i"`
}

// bcase is one behaviour of Fetch.tla: the class of every source ("ok", "fail", "errbody", "remote"), whether the
// one-time initialisation of the shared transport succeeds, the completion order
type bcase struct {
	NSrc    int      `json:"nsrc"`
	NBase   int      `json:"nbase"`
	SrcOut  []string `json:"srcout"`
	BaseOut []string `json:"baseout"`
	TLSOK   bool     `json:"tlsok"`
	Order   []gi     `json:"order"`
}
type fetchEvent struct {
	Op       string   `json:"op"`
	N        int      `json:"n"`
	SrcOut   []string `json:"srcout"`
	BaseOut  []string `json:"baseout"`
	TLSOK    bool     `json:"tlsok"`
	Merged   []gi     `json:"merged"`
	NSamples int      `json:"nsamples"`
	Errs     []gi     `json:"errs"`
	Failed   bool     `json:"failed"`
	Schedule string   `json:"schedule"`
	Setup    string   `json:"setup,omitempty"` // not read by TLC: the TLS set-up and how the transport was plugged in
}

func viaTransport(class string) bool { return class == "errbody" || class == "remote" }

func (c *bcase) classOf(x gi) string {
	if x.G == "src" {
		return c.SrcOut[x.I-1]
	}
	return c.BaseOut[x.I-1]
}
func (c *bcase) usesTransport() bool {
	for _, cl := range c.SrcOut {
		if viaTransport(cl) {
			return true
		}
	}
	for _, cl := range c.BaseOut {
		if viaTransport(cl) {
			return true
		}
	}
	return false
}

// okOf is Fetch.tla's Ok(g, i): the outcome of a source as a function of its class and the configuration. It is used
// here only for the value oracle (which samples the merged profile must hold); the events are decided by TraceFetch.tla.
func (c *bcase) okOf(x gi) bool {
	cl := c.classOf(x)
	return cl == "ok" || (cl == "remote" && c.TLSOK)
}

var (
	run *vlib.Run
	dir string
	evN int
)

func srcProfile(g string, i int) *profile.Profile {
	f := &profile.Function{ID: 1, Name: fmt.Sprintf("%s_fn%d", g, i), SystemName: "x", Filename: "x.c"}
	m := &profile.Mapping{ID: 1, Start: 0x1000, Limit: 0x2000, File: "bin", BuildID: "abc123", HasFunctions: true}
	l := &profile.Location{ID: 1, Mapping: m, Address: 0x1000 + uint64(i)*8 + map[string]uint64{"src": 0, "base": 0x800}[g], Line: []profile.Line{{Function: f, Line: 1}}}
	p := &profile.Profile{
		SampleType: []*profile.ValueType{{Type: "samples", Unit: "count"}},
		PeriodType: &profile.ValueType{Type: "cpu", Unit: "ns"}, Period: 1,
		Sample:  []*profile.Sample{{Location: []*profile.Location{l}, Value: []int64{int64(i)}}},
		Mapping: []*profile.Mapping{m}, Location: []*profile.Location{l}, Function: []*profile.Function{f},
		Comments: []string{fmt.Sprintf("%s#%d", g, i)},
	}
	if i >= 128 {
		// the sources beyond the first chunk of 128 carry a sample type the others lack: whatever is merged, however
		// it was grouped on the way, is reduced to the types all sources have
		p.SampleType = append(p.SampleType, &profile.ValueType{Type: "extra", Unit: "count"})
		p.Sample[0].Value = append(p.Sample[0].Value, 7)
	}
	return p
}

type failKind int

const (
	plugErr failKind = iota
	invalid
	missingFile
	garbageFile
	http500
	plugErrRealFile // the plug-in fails although the source names a readable profile file: no silent fallback
	nKinds
)

type transport struct{}

func (transport) RoundTrip(req *http.Request) (*http.Response, error) {
	return &http.Response{StatusCode: 500, Status: "500 scripted failure", Body: io.NopCloser(strings.NewReader("nope")), Header: http.Header{}, Request: req}, nil
}

var nameRE = regexp.MustCompile(`(src|base)(\d+)`)

// runOne forces one behaviour. order lists (group, index 1-based) in completion order; sources not listed complete freely.
func runOne(c *bcase, schedule string) fetchEvent {
	r := vlib.NewRand(run.Seed*131 + int64(evN))
	name := map[string]gi{}
	kind := map[string]failKind{}
	var srcs, flags []string
	mk := func(g string, i int, ok bool) string {
		n := fmt.Sprintf("%s%d", g, i)
		if !ok {
			k := failKind(r.Intn(int(nKinds)))
			switch k {
			case missingFile:
				n = filepath.Join(dir, "missing-"+n)
			case garbageFile:
				n = filepath.Join(dir, "garbage-"+n)
				os.WriteFile(n, []byte("\x00\x01 not a profile "+n), 0o644)
			case http500:
				n = "http://unreachable.invalid/" + n
			case plugErrRealFile:
				n = filepath.Join(dir, "real-"+n+".pb.gz")
				var b bytes.Buffer
				srcProfile(g, i).Write(&b)
				os.WriteFile(n, b.Bytes(), 0o644)
			}
			kind[n] = k
		}
		name[n] = gi{g, i}
		return n
	}
	for i := 1; i <= c.NSrc; i++ {
		srcs = append(srcs, mk("src", i, c.SrcOK[i-1]))
	}
	for i := 1; i <= c.NBase; i++ {
		flags = append(flags, "-base="+mk("base", i, c.BaseOK[i-1]))
	}
	okOf := func(x gi) bool {
		if x.G == "src" {
			return c.SrcOK[x.I-1]
		}
		return c.BaseOK[x.I-1]
	}
	// gates
	var mu sync.Mutex
	started := map[gi]chan struct{}{}
	release := map[gi]chan struct{}{}
	finished := map[gi]chan struct{}{}
	for _, x := range name {
		started[x], release[x], finished[x] = make(chan struct{}), make(chan struct{}), make(chan struct{})
	}
	fetch := func(src string) (*profile.Profile, error) {
		x, known := name[src]
		if !known {
			return nil, fmt.Errorf("unknown source %q", src)
		}
		close(started[x])
		<-release[x]
		defer func() {
			mu.Lock()
			defer mu.Unlock()
			select {
			case <-finished[x]:
			default:
				close(finished[x])
			}
		}()
		if okOf(x) {
			return srcProfile(x.G, x.I), nil
		}
		switch kind[src] {
		case plugErr, plugErrRealFile:
			return nil, fmt.Errorf("scripted fetch failure")
		case invalid:
			p := srcProfile(x.G, x.I)
			p.Sample[0].Value = []int64{1, 2, 3} // wrong number of values: fails CheckValid
			return p, nil
		}
		return nil, nil // let the driver's own file / URL fetch fail
	}
	// controller: release in the prescribed order, each one only after it has started and the previous one has returned
	listed := map[gi]bool{}
	// a source the driver never hands to the Fetcher, or a fetch that never returns, must not hang the run:
	// the controller then opens every gate and the observation is reported
	giveUp := func(x gi, what string) {
		run.Violate("fetch", "fetch-"+what, fmt.Sprintf("source %v %s within 30 s (schedule %s)", x, what, schedule), c, nil)
		mu.Lock()
		defer mu.Unlock()
		for _, ch := range release {
			select {
			case <-ch:
			default:
				close(ch)
			}
		}
	}
	go func() {
		for _, x := range c.Order {
			listed[x] = true
			select {
			case <-started[x]:
			case <-time.After(30 * time.Second):
				giveUp(x, "never-requested")
				return
			}
			mu.Lock()
			select {
			case <-release[x]:
			default:
				close(release[x])
			}
			mu.Unlock()
			select {
			case <-finished[x]:
			case <-time.After(30 * time.Second):
				giveUp(x, "never-returned")
				return
			}
			// give the goroutine time to store its result before the next one completes
			time.Sleep(200 * time.Microsecond)
		}
	}()
	for x := range release {
		inOrder := false
		for _, y := range c.Order {
			if y == x {
				inOrder = true
			}
		}
		if !inOrder {
			mu.Lock()
			select {
			case <-release[x]:
			default:
				close(release[x])
			}
			mu.Unlock()
		}
	}
	args := append([]string{"-proto", "-output=out", "-symbolize=none"}, flags...)
	args = append(args, srcs...)
	var errDelay time.Duration
	if evN%3 == 0 {
		errDelay = 3 * time.Millisecond // a slow terminal: error reporting overlaps with fetches that are still completing
	}
	res := vdrv.Run(vdrv.Opts{Args: args, Fetch: fetch, Transport: transport{}, ErrDelay: errDelay})
	ev := fetchEvent{Op: "fetch", N: evN, SrcOK: c.SrcOK, BaseOK: c.BaseOK, Merged: []gi{}, Errs: []gi{}, Schedule: schedule}
	if ev.SrcOK == nil {
		ev.SrcOK = []bool{}
	}
	if ev.BaseOK == nil {
		ev.BaseOK = []bool{}
	}
	evN++
	if res.Panic != nil {
		run.Violate("fetch", "panic", fmt.Sprint(res.Panic), c, nil)
		ev.Failed = true
		return ev
	}
	ev.Failed = res.Err != nil
	for _, line := range res.UIErr {
		// "<source>: <error>" lines, one per failed source
		for n, x := range name {
			if strings.HasPrefix(line, n+": ") {
				ev.Errs = append(ev.Errs, x)
			}
		}
	}
	if !ev.Failed {
		p, err := profile.Parse(bytes.NewReader(res.Files["out"]))
		if err != nil {
			run.Violate("fetch", "output-unparsable", err.Error(), c, nil)
			return ev
		}
		for _, cm := range p.Comments {
			if m := regexp.MustCompile(`^(src|base)#(\d+)$`).FindStringSubmatch(cm); m != nil {
				var i int
				fmt.Sscan(m[2], &i)
				ev.Merged = append(ev.Merged, gi{m[1], i})
			}
		}
		ev.NSamples = len(p.Sample)
		// every source's value must be there with the right sign
		want := map[string]int64{}
		for i, ok := range c.SrcOK {
			if ok {
				want[fmt.Sprintf("src_fn%d", i+1)] = int64(i + 1)
			}
		}
		for i, ok := range c.BaseOK {
			if ok {
				want[fmt.Sprintf("base_fn%d", i+1)] = -int64(i + 1)
			}
		}
		for _, s := range p.Sample {
			n := s.Location[0].Line[0].Function.Name
			if want[n] != s.Value[0] {
				run.Violate("fetch", "wrong-value", fmt.Sprintf("%s has value %d, want %d", n, s.Value[0], want[n]), c, nil)
			}
			delete(want, n)
		}
		if len(want) > 0 {
			run.Violate("fetch", "lost-source", fmt.Sprintf("sources missing from the merge: %v", want), c, nil)
		}
	}
	return ev
}

func main() {
	run = vlib.NewRun("C16")
	var err error
	dir, err = os.MkdirTemp("", "c16-")
	if err != nil {
		run.Infra(err.Error())
	}
	defer os.RemoveAll(dir)
	run.EachCase(func(i int, raw json.RawMessage) {
		var c bcase
		if err := json.Unmarshal(raw, &c); err != nil {
			run.Infra("case decode: " + err.Error())
			return
		}
		ev := runOne(&c, "prescribed")
		b, _ := json.Marshal(c)
		run.Count(string(b))
		run.Event(ev)
		run.Aux(map[string]interface{}{"n": ev.N, "case": c})
		if i%100 == 0 {
			run.Sample(c)
		}
	})
	// across the real chunk boundary (128): forward, reverse and random completion orders inside each chunk
	r := vlib.NewRand(run.Seed + 16)
	sizes := []int{127, 128, 129, 257, 300}
	for it := 0; it < run.N; it++ {
		n := sizes[it%len(sizes)]
		nb := []int{0, 1, 130}[it%3]
		c := bcase{NSrc: n, NBase: nb, SrcOK: make([]bool, n), BaseOK: make([]bool, nb)}
		mode := it % 4
		for i := range c.SrcOK {
			switch mode {
			case 0:
				c.SrcOK[i] = r.Intn(5) != 0
			case 1:
				c.SrcOK[i] = i/128 != 1 // the whole second chunk fails
			case 2:
				c.SrcOK[i] = i == n-1 // only the last source succeeds
			case 3:
				c.SrcOK[i] = i < 128 && r.Bool() // the trailing chunk(s) fail entirely
			}
		}
		for i := range c.BaseOK {
			c.BaseOK[i] = r.Intn(4) != 0 || i == nb-1
		}
		// completion order inside each chunk of each group
		sched := []string{"forward", "reverse", "random"}[it%3]
		for start := 0; start < n; start += 128 {
			end := start + 128
			if end > n {
				end = n
			}
			idx := make([]int, 0, end-start)
			for i := start; i < end; i++ {
				idx = append(idx, i+1)
			}
			switch sched {
			case "reverse":
				for a, b := 0, len(idx)-1; a < b; a, b = a+1, b-1 {
					idx[a], idx[b] = idx[b], idx[a]
				}
			case "random":
				for a := len(idx) - 1; a > 0; a-- {
					b := r.Intn(a + 1)
					idx[a], idx[b] = idx[b], idx[a]
				}
			}
			for _, i := range idx {
				c.Order = append(c.Order, gi{"src", i})
			}
		}
		ev := runOne(&c, sched)
		run.Count(fmt.Sprintf("big|%d|%d|%d|%s", n, nb, mode, sched))
		run.Event(ev)
		run.Aux(map[string]interface{}{"n": ev.N, "case": map[string]interface{}{"nsrc": n, "nbase": nb, "mode": mode, "schedule": sched, "srcok": c.SrcOK, "baseok": c.BaseOK}})
	}
	run.Finish("behaviours = every (failure subset, completion order) of Fetch.tla for 3 sources + 1 base in one chunk, forced on the real driver by a gating Fetcher with a seeded failure kind per failing source (plug-in error, invalid profile, missing file, garbage file, HTTP 500); plus runs with 127/128/129/257/300 sources and 0/1/130 bases across the real chunk size with forward, reverse and random completion orders and failure patterns (random, a whole chunk failing, only the last source succeeding, trailing chunks failing); non-trivial = distinct behaviour")
}
