// C16 harness: multi-source fetch with a gating, fault-injecting Fetcher.
// Every behaviour of Fetch.tla (source classes x completion order) is forced on
// the real driver: each fetch blocks until the controller releases it in the
// prescribed order, with the prescribed outcome (plug-in error, invalid
// profile, missing file, garbage file, HTTP 500). Runs with 127..300 sources
// cross the real chunk size. One event per run for TraceFetch.tla.
//
// The classes "errbody" and "remote" of Fetch.tla are URLs served by two local
// servers (plain and TLS) and fetched by the driver itself through the REAL
// internal/transport, configured with a TLS set-up whose one-time initialisation
// succeeds or fails as the case's tlsok says: "errbody" is answered with an error
// status and the source's own well-formed profile as the body, "remote" with 200
// and the profile. The event carries the classes and tlsok; whether a source
// counts as fetched is decided by TraceFetch.tla from those alone (Fetch.tla's
// Ok): never by which fetch reached the transport first.
package main

import (
	"bytes"
	"crypto/tls"
	"crypto/x509"
	"encoding/json"
	"encoding/pem"
	"fmt"
	"hash/fnv"
	"io"
	"log"
	"net/http"
	"net/http/httptest"
	"os"
	"path/filepath"
	"regexp"
	"strconv"
	"strings"
	"sync"
	"time"

	"github.com/google/pprof/internal/plugin"
	realtransport "github.com/google/pprof/internal/transport"
	"github.com/google/pprof/internal/zzverif/vdrv"
	"github.com/google/pprof/internal/zzverif/vlib"
	"github.com/google/pprof/profile"
)

type gi struct {
	G string `json:"g"`
	I int    `json:"i"`
}

// bcase is one behaviour of Fetch.tla: the class of every source ("ok", "fail", "errbody", "remote"), whether the
// one-time initialisation of the shared transport succeeds, the completion order
type bcase struct {
	NSrc    int      `json:"nsrc"`
	NBase   int      `json:"nbase"`
	SrcOut  []string `json:"srcout"`
	BaseOut []string `json:"baseout"`
	TLSOK   bool     `json:"tlsok"`
	Order   []gi     `json:"order"`
}
type fetchEvent struct {
	Op       string   `json:"op"`
	N        int      `json:"n"`
	SrcOut   []string `json:"srcout"`
	BaseOut  []string `json:"baseout"`
	TLSOK    bool     `json:"tlsok"`
	Merged   []gi     `json:"merged"`
	NSamples int      `json:"nsamples"`
	Errs     []gi     `json:"errs"`
	Failed   bool     `json:"failed"`
	Schedule string   `json:"schedule"`
	Setup    string   `json:"setup,omitempty"` // not read by TLC: the TLS set-up and how the transport was plugged in
}

func viaTransport(class string) bool { return class == "errbody" || class == "remote" }

func (c *bcase) classOf(x gi) string {
	if x.G == "src" {
		return c.SrcOut[x.I-1]
	}
	return c.BaseOut[x.I-1]
}
func (c *bcase) usesTransport() bool {
	for _, cl := range c.SrcOut {
		if viaTransport(cl) {
			return true
		}
	}
	for _, cl := range c.BaseOut {
		if viaTransport(cl) {
			return true
		}
	}
	return false
}

// okOf is Fetch.tla's Ok(g, i): the outcome of a source as a function of its class and the configuration. It is used
// here only for the value oracle (which samples the merged profile must hold); the events are decided by TraceFetch.tla.
func (c *bcase) okOf(x gi) bool {
	cl := c.classOf(x)
	return cl == "ok" || (cl == "remote" && c.TLSOK)
}

var (
	run *vlib.Run
	dir string
	evN int
)

func srcProfile(g string, i int) *profile.Profile {
	f := &profile.Function{ID: 1, Name: fmt.Sprintf("%s_fn%d", g, i), SystemName: "x", Filename: "x.c"}
	m := &profile.Mapping{ID: 1, Start: 0x1000, Limit: 0x2000, File: "bin", BuildID: "abc123", HasFunctions: true}
	l := &profile.Location{ID: 1, Mapping: m, Address: 0x1000 + uint64(i)*8 + map[string]uint64{"src": 0, "base": 0x800}[g], Line: []profile.Line{{Function: f, Line: 1}}}
	p := &profile.Profile{
		SampleType: []*profile.ValueType{{Type: "samples", Unit: "count"}},
		PeriodType: &profile.ValueType{Type: "cpu", Unit: "ns"}, Period: 1,
		Sample:  []*profile.Sample{{Location: []*profile.Location{l}, Value: []int64{int64(i)}}},
		Mapping: []*profile.Mapping{m}, Location: []*profile.Location{l}, Function: []*profile.Function{f},
		Comments: []string{fmt.Sprintf("%s#%d", g, i)},
	}
	if i >= 128 {
		// the sources beyond the first chunk of 128 carry a sample type the others lack: whatever is merged, however
		// it was grouped on the way, is reduced to the types all sources have
		p.SampleType = append(p.SampleType, &profile.ValueType{Type: "extra", Unit: "count"})
		p.Sample[0].Value = append(p.Sample[0].Value, 7)
	}
	return p
}

type failKind int

const (
	plugErr failKind = iota
	invalid
	missingFile
	garbageFile
	plugErrRealFile // the plug-in fails although the source names a readable profile file: no silent fallback
	nLocalKinds     // the kinds after this one need the scripted transport
)
const (
	http500        failKind = nLocalKinds + iota
	httpErrProfile          // the scripted transport answers 404 with the source's own well-formed profile as the body
	nKinds
)

// the scripted transport of the runs without "errbody" / "remote" sources
type transport struct{}

var stubRE = regexp.MustCompile(`^/pbody/(src|base)/(\d+)$`)

func (transport) RoundTrip(req *http.Request) (*http.Response, error) {
	if m := stubRE.FindStringSubmatch(req.URL.Path); m != nil {
		i, _ := strconv.Atoi(m[2])
		return &http.Response{StatusCode: 404, Status: "404 scripted failure with a profile as the body", Body: io.NopCloser(bytes.NewReader(profileBytes(gi{m[1], i}))), Header: http.Header{}, Request: req}, nil
	}
	return &http.Response{StatusCode: 500, Status: "500 scripted failure", Body: io.NopCloser(strings.NewReader("nope")), Header: http.Header{}, Request: req}, nil
}

var (
	bodyMu sync.Mutex
	bodies = map[gi][]byte{}
)

func profileBytes(x gi) []byte {
	bodyMu.Lock()
	defer bodyMu.Unlock()
	if b, ok := bodies[x]; ok {
		return b
	}
	var b bytes.Buffer
	srcProfile(x.G, x.I).Write(&b)
	bodies[x] = b.Bytes()
	return bodies[x]
}

// ---- the servers and TLS set-ups behind the classes "errbody" and "remote"

// tlsSetup is one configuration of internal/transport: the values of -tls_cert, -tls_key, -tls_ca.
type tlsSetup struct {
	name          string
	cert, key, ca string
	verifies      bool // the CA file vouches for the TLS server: plain https:// sources can be fetched
}

type remoteEnv struct {
	plain, tls *httptest.Server
	good, bad  []tlsSetup
}

var (
	remote    *remoteEnv
	remoteErr error
	pathRE    = regexp.MustCompile(`^/c16/(errbody|remote)/(\d+)/(src|base)/(\d+)$`)
)

func serve(w http.ResponseWriter, r *http.Request) {
	m := pathRE.FindStringSubmatch(r.URL.Path)
	if m == nil {
		http.Error(w, "unknown path", http.StatusTeapot)
		return
	}
	status, _ := strconv.Atoi(m[2])
	i, _ := strconv.Atoi(m[4])
	// the real transport builds a new http.Transport for every request: do not leave an idle connection behind each
	w.Header().Set("Connection", "close")
	if status != http.StatusOK {
		w.WriteHeader(status)
	}
	w.Write(profileBytes(gi{m[3], i}))
}

// newRemoteEnv starts the two servers, writes the TLS files and checks with a plain net/http client (no pprof code)
// that the servers answer as scripted: anything wrong here is a problem of the machinery.
func newRemoteEnv() (*remoteEnv, error) {
	e := &remoteEnv{plain: httptest.NewUnstartedServer(http.HandlerFunc(serve)), tls: httptest.NewUnstartedServer(http.HandlerFunc(serve))}
	// a client that refuses the server's certificate is part of the script, not news for stderr
	e.plain.Config.ErrorLog = log.New(io.Discard, "", 0)
	e.tls.Config.ErrorLog = log.New(io.Discard, "", 0)
	e.plain.Start()
	e.tls.StartTLS()
	write := func(name string, b []byte) (string, error) {
		p := filepath.Join(dir, name)
		return p, os.WriteFile(p, b, 0o600)
	}
	crt := e.tls.TLS.Certificates[0]
	certPEM := pem.EncodeToMemory(&pem.Block{Type: "CERTIFICATE", Bytes: crt.Certificate[0]})
	keyDER, err := x509.MarshalPKCS8PrivateKey(crt.PrivateKey)
	if err != nil {
		return nil, fmt.Errorf("the test server's key: %v", err)
	}
	keyPEM := pem.EncodeToMemory(&pem.Block{Type: "PRIVATE KEY", Bytes: keyDER})
	if _, err := tls.X509KeyPair(certPEM, keyPEM); err != nil {
		return nil, fmt.Errorf("the test server's certificate and key do not load as a pair: %v", err)
	}
	certFile, err1 := write("tls-cert.pem", certPEM)
	keyFile, err2 := write("tls-key.pem", keyPEM)
	junkFile, err3 := write("tls-junk.pem", []byte("-----BEGIN CERTIFICATE-----\nnot base64 at all\n-----END CERTIFICATE-----\n"))
	for _, err := range []error{err1, err2, err3} {
		if err != nil {
			return nil, err
		}
	}
	e.good = []tlsSetup{
		{name: "no-tls-flags"},
		{name: "ca", ca: certFile, verifies: true},
		{name: "ca+cert+key", ca: certFile, cert: certFile, key: keyFile, verifies: true},
	}
	e.bad = []tlsSetup{
		{name: "ca-missing", ca: filepath.Join(dir, "no-such-ca.pem")},
		{name: "cert-without-key", cert: certFile},
		{name: "key-without-cert", key: keyFile},
		{name: "cert-unloadable", cert: junkFile, key: keyFile},
		{name: "ca-missing+cert+key", ca: filepath.Join(dir, "no-such-ca.pem"), cert: certFile, key: keyFile},
	}
	pool := x509.NewCertPool()
	pool.AppendCertsFromPEM(certPEM)
	cl := &http.Client{Timeout: 20 * time.Second, Transport: &http.Transport{TLSClientConfig: &tls.Config{RootCAs: pool}, DisableKeepAlives: true}}
	for _, probe := range []struct {
		url    string
		status int
	}{{e.plain.URL + "/c16/remote/200/src/1", 200}, {e.tls.URL + "/c16/remote/200/base/1", 200}, {e.plain.URL + "/c16/errbody/503/src/2", 503}, {e.tls.URL + "/c16/errbody/404/src/2", 404}} {
		resp, err := cl.Get(probe.url)
		if err != nil {
			return nil, fmt.Errorf("local server probe %s: %v", probe.url, err)
		}
		b, _ := io.ReadAll(resp.Body)
		resp.Body.Close()
		if _, perr := profile.ParseData(b); resp.StatusCode != probe.status || perr != nil {
			return nil, fmt.Errorf("local server probe %s: status %d (want %d), body parses: %v", probe.url, resp.StatusCode, probe.status, perr)
		}
	}
	return e, nil
}

// strFlags is the FlagSet handed to transport.New when the harness plugs the real transport in itself (behind the
// gate): the three -tls_* values are set directly instead of being parsed from a command line.
type strFlags map[string]*string

func (f strFlags) Bool(n string, d bool, u string) *bool          { return &d }
func (f strFlags) Int(n string, d int, u string) *int             { return &d }
func (f strFlags) Float64(n string, d float64, u string) *float64 { return &d }
func (f strFlags) String(n string, d string, u string) *string {
	v := d
	f[n] = &v
	return &v
}
func (f strFlags) StringList(n string, d string, u string) *[]*string { return &[]*string{} }
func (f strFlags) ExtraUsage() string                                 { return "" }
func (f strFlags) AddExtraUsage(eu string)                            {}
func (f strFlags) Parse(usage func()) []string                        { return nil }

var _ plugin.FlagSet = strFlags{}

// gatedRT puts the controller's gate in front of the real transport: a request enters RoundTrip of the real transport
// only when the controller releases its source, and the next source is released after that call has returned.
type gatedRT struct {
	inner http.RoundTripper
	enter func(x gi)
	leave func(x gi)
}

// the time a source is given is a function of the source alone (`?seconds=N` in its URL: N*1.5 s + 5 s, else 65 s): the
// deadline of the request that reaches the transport must be the one this source gets when it is fetched alone. The
// classes are 55 s or more apart; a deadline within 20 s of the source's own class is accepted, one within 20 s of
// ANOTHER class is a violation, anything else is an unexplained observation (exit 2).
func checkDeadline(req *http.Request) {
	want := 65 * time.Second
	if n, err := strconv.Atoi(req.URL.Query().Get("seconds")); err == nil && n > 0 {
		want = time.Duration(n)*time.Second*3/2 + 5*time.Second
	}
	dl, ok := req.Context().Deadline()
	if !ok {
		run.Violate("fetch", "fetch-deadline:none", fmt.Sprintf("the request for %s carries no deadline; fetched alone it is given %v", req.URL, want), req.URL.String(), nil)
		return
	}
	near := func(a, b time.Duration) bool { d := a - b; return d > -20*time.Second && d < 20*time.Second }
	rem := time.Until(dl)
	run.Counter("deadlines_checked", 1)
	if near(rem, want) {
		return
	}
	for _, other := range []time.Duration{65 * time.Second, 9500 * time.Millisecond, 305 * time.Second} {
		if near(rem, other) {
			run.Violate("fetch", "fetch-deadline:another-source's", fmt.Sprintf("the request for %s is given %v; fetched alone this source is given %v (the time allowed belongs to another source of the run)", req.URL, rem.Round(time.Second), want), req.URL.String(), nil)
			return
		}
	}
	run.Infra(fmt.Sprintf("request for %s: %v left until its deadline, expected %v", req.URL, rem, want))
}

func (t *gatedRT) RoundTrip(req *http.Request) (*http.Response, error) {
	if pathRE.MatchString(req.URL.Path) {
		checkDeadline(req)
	}
	if m := pathRE.FindStringSubmatch(req.URL.Path); m != nil {
		i, _ := strconv.Atoi(m[4])
		x := gi{m[3], i}
		t.enter(x)
		defer t.leave(x)
	}
	return t.inner.RoundTrip(req)
}

var fnRE = regexp.MustCompile(`^(src|base)_fn(\d+)$`)

// what one source of a run is
type srcPlan struct {
	x        gi
	class    string
	kind     failKind // class "fail"
	byDriver bool     // the Fetcher plug-in declines (nil, nil): the driver's own file / URL fetch decides
	atRT     bool     // gated inside the transport instead of inside the Fetcher plug-in
}

// runOne forces one behaviour. order lists (group, index 1-based) in completion order; sources not listed complete freely.
func runOne(c *bcase, schedule string) fetchEvent {
	r := vlib.NewRand(run.Seed*131 + int64(evN))
	// the choices of a run with "errbody" / "remote" sources depend on the case and the seed only (TLC emits the cases
	// in no fixed order)
	hb, _ := json.Marshal(c)
	hh := fnv.New64a()
	hh.Write(hb)
	pick := vlib.NewRand(run.Seed*977 + int64(hh.Sum64()>>1))
	useRT := c.usesTransport()
	var setup tlsSetup
	gated := false
	if useRT {
		if c.TLSOK {
			setup = remote.good[pick.Intn(len(remote.good))]
		} else {
			setup = remote.bad[pick.Intn(len(remote.bad))]
		}
		// either the harness plugs the real transport in behind its gate (the completion order is then the order of the
		// calls of the real RoundTrip), or the driver creates its own from the -tls_* flags of the command line (the
		// prescribed order is then the order in which the Fetcher plug-in hands the sources over to the driver's fetch)
		gated = pick.Bool()
	}
	plans := map[string]*srcPlan{}
	var srcs, flags []string
	mk := func(g string, i int, class string) string {
		n := fmt.Sprintf("%s%d", g, i)
		pl := &srcPlan{x: gi{g, i}, class: class}
		switch class {
		case "ok":
			if useRT && pick.Bool() {
				// a readable profile file next to the URLs, read by the driver itself
				n = filepath.Join(dir, "local-"+n+".pb.gz")
				if _, err := os.Stat(n); err != nil {
					os.WriteFile(n, profileBytes(pl.x), 0o644)
				}
				pl.byDriver = true
			}
		case "fail":
			nk := int(nKinds)
			if useRT {
				nk = int(nLocalKinds) // the scripted transport is not there
			}
			pl.kind = failKind(r.Intn(nk))
			switch pl.kind {
			case missingFile:
				n = filepath.Join(dir, "missing-"+n)
				pl.byDriver = true
			case garbageFile:
				n = filepath.Join(dir, "garbage-"+n)
				os.WriteFile(n, []byte("\x00\x01 not a profile "+n), 0o644)
				pl.byDriver = true
			case http500:
				n = "http://unreachable.invalid/" + n
				pl.byDriver = true
			case httpErrProfile:
				n = fmt.Sprintf("http://unreachable.invalid/pbody/%s/%d", g, i)
				pl.byDriver = true
			case plugErrRealFile:
				n = filepath.Join(dir, "real-"+n+".pb.gz")
				os.WriteFile(n, profileBytes(pl.x), 0o644)
			}
		case "errbody", "remote":
			schemes := []string{"http", "https+insecure"}
			if setup.verifies || !c.TLSOK {
				schemes = append(schemes, "https")
			}
			status := 200
			if class == "errbody" {
				status = []int{500, 404, 503, 403, 502}[pick.Intn(5)]
			}
			host := strings.TrimPrefix(remote.tls.URL, "https://")
			scheme := schemes[pick.Intn(len(schemes))]
			if scheme == "http" {
				host = strings.TrimPrefix(remote.plain.URL, "http://")
			}
			n = fmt.Sprintf("%s://%s/c16/%s/%d/%s/%d", scheme, host, class, status, g, i)
			// the time allowed per source: the default, a short and a long one next to each other in one run
			if secs := []int{0, 3, 200}[(i+len(g)+pick.Intn(3))%3]; secs > 0 {
				n += fmt.Sprintf("?seconds=%d", secs)
			}
			pl.byDriver = true
			pl.atRT = gated
		default:
			run.Infra("unknown source class " + class)
		}
		plans[n] = pl
		return n
	}
	for i := 1; i <= c.NSrc; i++ {
		srcs = append(srcs, mk("src", i, c.SrcOut[i-1]))
	}
	for i := 1; i <= c.NBase; i++ {
		flags = append(flags, "-base="+mk("base", i, c.BaseOut[i-1]))
	}
	// gates
	var mu sync.Mutex
	started := map[gi]chan struct{}{}
	release := map[gi]chan struct{}{}
	finished := map[gi]chan struct{}{}
	for _, pl := range plans {
		started[pl.x], release[pl.x], finished[pl.x] = make(chan struct{}), make(chan struct{}), make(chan struct{})
	}
	closeOnce := func(ch chan struct{}) {
		mu.Lock()
		defer mu.Unlock()
		select {
		case <-ch:
		default:
			close(ch)
		}
	}
	enter := func(x gi) {
		closeOnce(started[x])
		<-release[x]
	}
	leave := func(x gi) { closeOnce(finished[x]) }
	fetch := func(src string) (*profile.Profile, error) {
		pl, known := plans[src]
		if !known {
			return nil, fmt.Errorf("unknown source %q", src)
		}
		if pl.atRT {
			return nil, nil // the gate is in front of the real transport
		}
		x := pl.x
		enter(x)
		defer leave(x)
		if pl.byDriver {
			return nil, nil // let the driver's own file / URL fetch succeed or fail
		}
		if pl.class == "ok" {
			return srcProfile(x.G, x.I), nil
		}
		switch pl.kind {
		case invalid:
			p := srcProfile(x.G, x.I)
			p.Sample[0].Value = []int64{1, 2, 3} // wrong number of values: fails CheckValid
			return p, nil
		}
		return nil, fmt.Errorf("scripted fetch failure")
	}
	// controller: release in the prescribed order, each one only after it has started and the previous one has returned
	// a source the driver never hands to the Fetcher, or a fetch that never returns, must not hang the run:
	// the controller then opens every gate and the observation is reported
	giveUp := func(x gi, what string) {
		run.Violate("fetch", "fetch-"+what, fmt.Sprintf("source %v %s within 30 s (schedule %s)", x, what, schedule), c, nil)
		for _, ch := range release {
			closeOnce(ch)
		}
	}
	go func() {
		for _, x := range c.Order {
			select {
			case <-started[x]:
			case <-time.After(30 * time.Second):
				giveUp(x, "never-requested")
				return
			}
			closeOnce(release[x])
			select {
			case <-finished[x]:
			case <-time.After(30 * time.Second):
				giveUp(x, "never-returned")
				return
			}
			// give the goroutine time to store its result before the next one completes
			time.Sleep(200 * time.Microsecond)
		}
	}()
	for x := range release {
		inOrder := false
		for _, y := range c.Order {
			if y == x {
				inOrder = true
			}
		}
		if !inOrder {
			closeOnce(release[x])
		}
	}
	args := []string{"-proto", "-output=out", "-symbolize=none"}
	opts := vdrv.Opts{Fetch: fetch, Transport: transport{}}
	setupName := ""
	if useRT {
		if gated {
			fs := strFlags{}
			inner := realtransport.New(fs)
			for n, v := range map[string]string{"tls_cert": setup.cert, "tls_key": setup.key, "tls_ca": setup.ca} {
				if fs[n] == nil {
					run.Infra("transport.New did not register -" + n)
					continue
				}
				*fs[n] = v
			}
			opts.Transport = &gatedRT{inner: inner, enter: enter, leave: leave}
			setupName = setup.name + "/gated-transport"
		} else {
			opts.Transport = nil // the driver's own: transport.New(the command line's flag set)
			for _, fv := range [][2]string{{"tls_cert", setup.cert}, {"tls_key", setup.key}, {"tls_ca", setup.ca}} {
				if fv[1] != "" {
					args = append(args, "-"+fv[0]+"="+fv[1])
				}
			}
			setupName = setup.name + "/command-line"
		}
	}
	args = append(args, flags...)
	args = append(args, srcs...)
	if evN%3 == 0 {
		opts.ErrDelay = 3 * time.Millisecond // a slow terminal: error reporting overlaps with fetches that are still completing
	}
	opts.Args = args
	res := vdrv.Run(opts)
	ev := fetchEvent{Op: "fetch", N: evN, SrcOut: c.SrcOut, BaseOut: c.BaseOut, TLSOK: c.TLSOK, Merged: []gi{}, Errs: []gi{}, Schedule: schedule, Setup: setupName}
	if ev.SrcOut == nil {
		ev.SrcOut = []string{}
	}
	if ev.BaseOut == nil {
		ev.BaseOut = []string{}
	}
	evN++
	if res.Hung {
		run.Infra("driver.PProf did not return: " + fmt.Sprint(res.Err))
		ev.Failed = true
		return ev
	}
	if res.Panic != nil {
		run.Violate("fetch", "panic", fmt.Sprint(res.Panic), c, nil)
		ev.Failed = true
		return ev
	}
	ev.Failed = res.Err != nil
	for _, line := range res.UIErr {
		// "<source>: <error>" lines, one per failed source
		for n, pl := range plans {
			if strings.HasPrefix(line, n+": ") {
				ev.Errs = append(ev.Errs, pl.x)
			}
		}
	}
	if !ev.Failed {
		p, err := profile.Parse(bytes.NewReader(res.Files["out"]))
		if err != nil {
			run.Violate("fetch", "output-unparsable", err.Error(), c, nil)
			return ev
		}
		for _, cm := range p.Comments {
			if m := commentRE.FindStringSubmatch(cm); m != nil {
				var i int
				fmt.Sscan(m[2], &i)
				ev.Merged = append(ev.Merged, gi{m[1], i})
			}
		}
		ev.NSamples = len(p.Sample)
		// every source's value must be there with the right sign
		want := map[string]int64{}
		for i := range c.SrcOut {
			if c.okOf(gi{"src", i + 1}) {
				want[fmt.Sprintf("src_fn%d", i+1)] = int64(i + 1)
			}
		}
		for i := range c.BaseOut {
			if c.okOf(gi{"base", i + 1}) {
				want[fmt.Sprintf("base_fn%d", i+1)] = -int64(i + 1)
			}
		}
		for _, s := range p.Sample {
			n := s.Location[0].Line[0].Function.Name
			if want[n] != s.Value[0] {
				detail := fmt.Sprintf("%s has value %d, want %d", n, s.Value[0], want[n])
				if m := fnRE.FindStringSubmatch(n); m != nil {
					i, _ := strconv.Atoi(m[2])
					if x := (gi{m[1], i}); i >= 1 && ((m[1] == "src" && i <= len(c.SrcOut)) || (m[1] == "base" && i <= len(c.BaseOut))) && !c.okOf(x) {
						detail += fmt.Sprintf(": a source of class %q (transport initialisation succeeds: %v, set-up %q) is part of the merged profile", c.classOf(x), c.TLSOK, setupName)
					}
				}
				run.Violate("fetch", "wrong-value", detail, c, nil)
			}
			delete(want, n)
		}
		if len(want) > 0 {
			run.Violate("fetch", "lost-source", fmt.Sprintf("sources missing from the merge: %v (set-up %q)", want, setupName), c, nil)
		}
	}
	return ev
}

var commentRE = regexp.MustCompile(`^(src|base)#(\d+)$`)

func classes(ok []bool) []string {
	out := make([]string, len(ok))
	for i, b := range ok {
		out[i] = "fail"
		if b {
			out[i] = "ok"
		}
	}
	return out
}

func main() {
	run = vlib.NewRun("C16")
	var err error
	dir, err = os.MkdirTemp("", "c16-")
	if err != nil {
		run.Infra(err.Error())
	}
	defer os.RemoveAll(dir)
	// profiles fetched from a URL are saved by the driver: keep them inside the scratch directory; the servers are local
	os.Setenv("PPROF_TMPDIR", filepath.Join(dir, "saved"))
	for _, v := range []string{"HTTP_PROXY", "HTTPS_PROXY", "http_proxy", "https_proxy"} {
		os.Unsetenv(v)
	}
	defer func() {
		if remote != nil {
			remote.plain.Close()
			remote.tls.Close()
		}
	}()
	seen := map[string]bool{}
	run.EachCase(func(i int, raw json.RawMessage) {
		var c bcase
		if err := json.Unmarshal(raw, &c); err != nil {
			run.Infra("case decode: " + err.Error())
			return
		}
		if len(c.SrcOut) != c.NSrc || len(c.BaseOut) != c.NBase {
			run.Infra("case with " + fmt.Sprint(len(c.SrcOut), len(c.BaseOut)) + " classes for " + fmt.Sprint(c.NSrc, c.NBase) + " sources: " + string(raw))
			return
		}
		schedule := "prescribed"
		if c.usesTransport() {
			// TLC evaluates the emitting action more than once per behaviour (liveness checking): what a run with
			// URLs does depends on the case and the seed only, so one run per behaviour
			if seen[string(raw)] {
				return
			}
			seen[string(raw)] = true
			if remote == nil && remoteErr == nil {
				remote, remoteErr = newRemoteEnv()
				if remoteErr != nil {
					run.Infra("local servers for the URL classes: " + remoteErr.Error())
				}
			}
			if remote == nil {
				return
			}
			schedule = "urls"
			if !c.TLSOK {
				schedule = "urls-tls-setup-broken"
			}
		} else if !c.TLSOK {
			run.Infra("case without URLs and a failing transport initialisation: " + string(raw))
			return
		}
		ev := runOne(&c, schedule)
		b, _ := json.Marshal(c)
		run.Count(string(b))
		run.Counter("runs:"+schedule, 1)
		run.Event(ev)
		run.Aux(map[string]interface{}{"n": ev.N, "case": c, "setup": ev.Setup})
		if i%100 == 0 {
			run.Sample(c)
		}
	})
	// across the real chunk boundary (128): forward, reverse and random completion orders inside each chunk
	r := vlib.NewRand(run.Seed + 16)
	sizes := []int{127, 128, 129, 257, 300}
	for it := 0; it < run.N; it++ {
		n := sizes[it%len(sizes)]
		nb := []int{0, 1, 130}[it%3]
		srcOK, baseOK := make([]bool, n), make([]bool, nb)
		mode := it % 4
		for i := range srcOK {
			switch mode {
			case 0:
				srcOK[i] = r.Intn(5) != 0
			case 1:
				srcOK[i] = i/128 != 1 // the whole second chunk fails
			case 2:
				srcOK[i] = i == n-1 // only the last source succeeds
			case 3:
				srcOK[i] = i < 128 && r.Bool() // the trailing chunk(s) fail entirely
			}
		}
		for i := range baseOK {
			baseOK[i] = r.Intn(4) != 0 || i == nb-1
		}
		c := bcase{NSrc: n, NBase: nb, SrcOut: classes(srcOK), BaseOut: classes(baseOK), TLSOK: true}
		// completion order inside each chunk of each group
		sched := []string{"forward", "reverse", "random"}[it%3]
		for start := 0; start < n; start += 128 {
			end := start + 128
			if end > n {
				end = n
			}
			idx := make([]int, 0, end-start)
			for i := start; i < end; i++ {
				idx = append(idx, i+1)
			}
			switch sched {
			case "reverse":
				for a, b := 0, len(idx)-1; a < b; a, b = a+1, b-1 {
					idx[a], idx[b] = idx[b], idx[a]
				}
			case "random":
				for a := len(idx) - 1; a > 0; a-- {
					b := r.Intn(a + 1)
					idx[a], idx[b] = idx[b], idx[a]
				}
			}
			for _, i := range idx {
				c.Order = append(c.Order, gi{"src", i})
			}
		}
		ev := runOne(&c, sched)
		run.Count(fmt.Sprintf("big|%d|%d|%d|%s", n, nb, mode, sched))
		run.Event(ev)
		run.Aux(map[string]interface{}{"n": ev.N, "case": map[string]interface{}{"nsrc": n, "nbase": nb, "mode": mode, "schedule": sched, "srcout": c.SrcOut, "baseout": c.BaseOut}})
	}
	run.Finish("behaviours = every (source classes, completion order) of Fetch.tla in one chunk, forced on the real driver by a gating Fetcher: 3 sources + 1 base of the classes ok / fail with a seeded failure kind per failing source (plug-in error, invalid profile, missing file, garbage file, plug-in error for a readable file, HTTP 500, HTTP 404 with a well-formed profile as the body); 2 sources + 1 base of the classes ok / errbody (a URL answered with 500, 404, 503, 403 or 502 and a well-formed profile as the body) / remote (a URL answered with 200 and a profile), served by a local plain and a local TLS server and fetched through the real internal/transport under a TLS set-up whose one-time initialisation succeeds (no flags, -tls_ca, -tls_ca + -tls_cert + -tls_key) or fails (missing -tls_ca file, -tls_cert without -tls_key and the reverse, unloadable certificate), the transport either plugged in behind the gate or created by the driver from the command line's -tls_* flags; plus runs with 127/128/129/257/300 sources and 0/1/130 bases across the real chunk size with forward, reverse and random completion orders and failure patterns (random, a whole chunk failing, only the last source succeeding, trailing chunks failing); non-trivial = distinct behaviour")
}
