// Package vrep holds what the report-level harnesses (C04, C05, C07, C08, C17)
// share: the JSON shape of Report.tla's entries/configurations, their
// translation to command-line flags and to printable names, and table
// comparison helpers.
package vrep

import (
	"fmt"
	"path/filepath"
	"sort"
	"strings"

	"github.com/google/pprof/internal/graph"
	"github.com/google/pprof/internal/zzverif/vdrv"
	"github.com/google/pprof/internal/zzverif/vlib"
)

type Addr struct {
	M int64 `json:"m"`
	R int64 `json:"r"`
}

// Entry is Report.tla's entry record.
type Entry struct {
	Name  string `json:"name"`
	File  string `json:"file"`
	Line  int64  `json:"line"`
	Col   int64  `json:"col"`
	Addr  Addr   `json:"addr"`
	Obj   string `json:"obj"`
	Start int64  `json:"start"`
}

// Cfg is Report.tla's configuration record.
type Cfg struct {
	Gran  string   `json:"gran"`
	NoInl bool     `json:"noinl"`
	SI    int      `json:"si"`
	Mean  bool     `json:"mean"`
	TRoot []string `json:"troot"`
	TLeaf []string `json:"tleaf"`
}

type NodeRow struct {
	E       Entry `json:"e"`
	Flat    int64 `json:"flat"`
	Cum     int64 `json:"cum"`
	RawFlat int64 `json:"rawflat"`
	RawCum  int64 `json:"rawcum"`
}
type EdgeRow struct {
	Src Entry `json:"src"`
	Dst Entry `json:"dst"`
	W   int64 `json:"w"`
	Raw int64 `json:"raw"`
}
type TreeRow struct {
	Path    []Entry `json:"path"`
	Flat    int64   `json:"flat"`
	Cum     int64   `json:"cum"`
	RawFlat int64   `json:"rawflat"`
	RawCum  int64   `json:"rawcum"`
}

// SampleTypes used by the report harnesses: units unknown to pprof so that
// values are printed as plain integers.
var SampleTypes = []vlib.AVT{{T: "s1", U: "u1"}, {T: "s2", U: "u2"}}

// Info builds the real graph.NodeInfo of an abstract entry.
func Info(e Entry, c *vlib.Conc) graph.NodeInfo {
	ni := graph.NodeInfo{Name: c.Str(e.Name), Lineno: int(e.Line), Columnno: int(e.Col), Objfile: c.Str(e.Obj), StartLine: int(e.Start)}
	if e.File != "" {
		ni.File = filepath.Clean(c.Str(e.File))
	}
	if e.Addr.M != 0 || e.Addr.R != 0 {
		ni.Address = c.MapBase + uint64(e.Addr.M)*c.Unit + uint64(e.Addr.R)*c.RelUnit
	}
	return ni
}

// Name is the printable name pprof uses for the entry.
func Name(e Entry, c *vlib.Conc) string {
	ni := Info(e, c)
	return ni.PrintableName()
}

// Flags translates a configuration into command-line flags (no trimming).
func Flags(cfg Cfg, c *vlib.Conc) []string {
	a := []string{"-" + strings.TrimSuffix(cfg.Gran, "+cols"), fmt.Sprintf("-sample_index=s%d", cfg.SI)}
	if strings.HasSuffix(cfg.Gran, "+cols") {
		a = append(a, "-showcolumns")
	}
	if cfg.NoInl {
		a = append(a, "-noinlines")
	}
	if cfg.Mean {
		a = append(a, "-mean")
	}
	if len(cfg.TRoot) > 0 {
		a = append(a, "-tagroot="+strings.Join(c.Strs(cfg.TRoot), ","))
	}
	if len(cfg.TLeaf) > 0 {
		a = append(a, "-tagleaf="+strings.Join(c.Strs(cfg.TLeaf), ","))
	}
	return a
}

// NoTrim are the flags that switch every trimming heuristic off.
var NoTrim = []string{"-nodecount=0", "-nodefraction=0", "-edgefraction=0"}

// NodeBag / EdgeBag: canonical multiset renderings for comparison.
func NodeBag(ns []vdrv.Node) string {
	var s []string
	for _, n := range ns {
		s = append(s, fmt.Sprintf("%s|flat=%d|cum=%d", n.Name, n.Flat, n.Cum))
	}
	sort.Strings(s)
	return strings.Join(s, "\n")
}

func EdgeBag(es []vdrv.Edge) string {
	var s []string
	for _, e := range es {
		if e.Via == "undeclared" {
			continue
		}
		s = append(s, fmt.Sprintf("%s -> %s|w=%d", e.Src, e.Dst, e.W))
	}
	sort.Strings(s)
	return strings.Join(s, "\n")
}

func ExpNodes(rows []NodeRow, c *vlib.Conc) []vdrv.Node {
	var out []vdrv.Node
	for _, r := range rows {
		out = append(out, vdrv.Node{Name: Name(r.E, c), Flat: r.Flat, Cum: r.Cum})
	}
	return out
}

func ExpEdges(rows []EdgeRow, c *vlib.Conc, raw bool) []vdrv.Edge {
	var out []vdrv.Edge
	for _, r := range rows {
		w := r.W
		if raw {
			w = r.Raw
		}
		out = append(out, vdrv.Edge{Src: Name(r.Src, c), Dst: Name(r.Dst, c), W: w})
	}
	return out
}

// TreeEdges splits the edges read from a tree report into those listed under
// the callee ("in") and under the caller ("out"), keeping only edges whose two
// ends are listed entries (an edge may lead to an entry whose own weight is zero
// and which is therefore not listed - the property does not forbid that).
func TreeEdges(es []vdrv.Edge, nodes []vdrv.Node) (in, out []vdrv.Edge) {
	shown := map[string]bool{}
	for _, n := range nodes {
		shown[n.Name] = true
	}
	for _, e := range es {
		if !shown[e.Src] || !shown[e.Dst] {
			continue
		}
		if e.Via == "in" {
			in = append(in, e)
		} else {
			out = append(out, e)
		}
	}
	return
}
