// C15 harness: every (spelling, target, value class) case of Units.tla is
// instantiated with exact integers (math/big) and run through the real
// measurement.Scale / ScaledLabel / Label / Percentage / ScaleProfiles /
// CommonValueType; the ratio is compared with the specification's exact
// exponent triple, the unit name exactly, labels within display rounding.
package main

import (
	"encoding/json"
	"fmt"
	"math"
	"math/big"
	"strconv"
	"strings"

	"github.com/google/pprof/internal/measurement"
	"github.com/google/pprof/internal/zzverif/vdrv"
	"github.com/google/pprof/internal/zzverif/vlib"
	"github.com/google/pprof/profile"
)

type unit struct {
	Fam     string   `json:"fam"`
	Name    string   `json:"name"`
	Aliases []string `json:"aliases"`
	E2      int      `json:"e2"`
	E10     int      `json:"e10"`
	E36     int      `json:"e36"`
}
type ratio struct {
	E2  int `json:"e2"`
	E10 int `json:"e10"`
	E36 int `json:"e36"`
}
type ucase struct {
	Case struct {
		Kind       string `json:"kind"`
		From       int    `json:"from"`
		Spelling   string `json:"spelling"`
		Variant    string `json:"variant"`
		To         int    `json:"to"`
		ToSpelling string `json:"tospelling"`
		Cls        string `json:"cls"`
		Bound      int    `json:"bound"`
		ExpUnit    string `json:"expunit"`
		Ratio      ratio  `json:"ratio"`
	} `json:"case"`
	Units []unit `json:"units"`
}

var run *vlib.Run

func factor(u unit) *big.Rat { return pow(u.E2, u.E10, u.E36) }
func pow(e2, e10, e36 int) *big.Rat {
	r := big.NewRat(1, 1)
	mul := func(base int64, e int) {
		b := big.NewRat(base, 1)
		if e < 0 {
			b = big.NewRat(1, base)
			e = -e
		}
		for i := 0; i < e; i++ {
			r.Mul(r, b)
		}
	}
	mul(2, e2)
	mul(10, e10)
	mul(3600, e36)
	return r
}

func spell(s, variant string) string {
	s = strings.ReplaceAll(s, "{mu}", "μ")
	switch variant {
	case "plural":
		return s + "s"
	case "upper":
		return strings.ToUpper(s)
	case "cap":
		if s == "" {
			return s
		}
		r := []rune(s)
		return strings.ToUpper(string(r[:1])) + string(r[1:])
	case "upperplural":
		return strings.ToUpper(s + "s")
	}
	return s
}

// value instantiates a value class: a count of `from` units chosen relative to one `bound` unit.
func value(cls string, from, bound unit) (int64, bool) {
	q := new(big.Rat).Quo(factor(bound), factor(from)) // how many from-units make one bound-unit
	if !q.IsInt() {
		return 0, false
	}
	v0 := q.Num()
	if !v0.IsInt64() {
		return 0, false
	}
	b := v0.Int64()
	switch cls {
	case "zero":
		return 0, true
	case "one":
		return 1, true
	case "minus1":
		return -1, true
	case "seven":
		return 7, true
	case "maxint":
		return math.MaxInt64, true
	case "minint":
		return math.MinInt64, true
	case "minint1":
		return math.MinInt64 + 1, true
	case "just_below":
		return b - 1, true
	case "at":
		return b, true
	case "just_above":
		return b + 1, true
	case "neg_just_below":
		return -(b - 1), true
	case "neg_at":
		return -b, true
	case "big_round":
		if b > math.MaxInt64/1000 {
			return 0, false
		}
		return b * 999, true
	}
	return 0, false
}

func close(got float64, want *big.Rat) bool {
	w, _ := want.Float64()
	if w == 0 {
		return got == 0
	}
	return math.Abs(got-w) <= math.Abs(w)*1e-9
}

// autoUnit is the documented rule: the largest unit of the family that keeps the magnitude at or above one;
// if there is none (zero, or below the smallest unit), the family's default unit.
func autoUnit(v int64, from unit, units []unit, dflt unit) unit {
	mag := new(big.Rat).Mul(new(big.Rat).Abs(new(big.Rat).SetInt64(v)), factor(from))
	best := -1
	for i, u := range units {
		if u.Fam != from.Fam {
			continue
		}
		if mag.Cmp(factor(u)) >= 0 && (best < 0 || factor(u).Cmp(factor(units[best])) > 0) {
			best = i
		}
	}
	if best < 0 {
		return dflt
	}
	return units[best]
}

// atBoundary: the magnitude is within 1e-9 (relative) of a unit boundary and `got` is the unit on the other
// side of that boundary. int64 -> float64 conversion and decimal factors such as 1e-9 are not exact, so
// either neighbour "keeps the magnitude at or above one" as far as floating point can tell.
func atBoundary(v int64, from, want unit, got string, units []unit) bool {
	mag := new(big.Rat).Mul(new(big.Rat).Abs(new(big.Rat).SetInt64(v)), factor(from))
	var g *unit
	for i, u := range units {
		if u.Name == got && u.Fam == want.Fam {
			g = &units[i]
		}
	}
	if g == nil {
		return false
	}
	hi := want
	if factor(*g).Cmp(factor(want)) > 0 {
		hi = *g
	}
	// no unit of the family lies strictly between the two
	for _, u := range units {
		if u.Fam == want.Fam && factor(u).Cmp(factor(want)) != 0 && factor(u).Cmp(factor(*g)) != 0 {
			lo := want
			if factor(*g).Cmp(factor(want)) < 0 {
				lo = *g
			}
			if factor(u).Cmp(factor(lo)) > 0 && factor(u).Cmp(factor(hi)) < 0 {
				return false
			}
		}
	}
	r, _ := new(big.Rat).Quo(mag, factor(hi)).Float64()
	return math.Abs(r-1) <= 1e-9
}

func defaultOf(fam string, units []unit) unit {
	name := map[string]string{"mem": "B", "time": "s", "gcu": "GCU"}[fam]
	for _, u := range units {
		if u.Name == name {
			return u
		}
	}
	return unit{}
}

func check(raw json.RawMessage, c *ucase) {
	k := c.Case
	units := c.Units
	switch k.Kind {
	case "harmonise":
		harmonise(raw, c)
		return
	case "crossfamily":
		crossFamily(raw, c)
		return
	case "twocolumn":
		twoColumn(raw, c)
		return
	case "unknown":
		v, _ := value(k.Cls, unit{}, unit{})
		got, u := measurement.Scale(v, k.Spelling, k.ToSpelling)
		run.Count("unknown|" + k.Spelling + "|" + k.ToSpelling)
		if got != float64(v) || u != k.ExpUnit {
			run.Violate("scale", "unknown-unit-treated-as-known:"+k.Spelling, fmt.Sprintf("Scale(%d, %q, %q) = (%v, %q), want (%d, %q): an unknown unit must stay unknown", v, k.Spelling, k.ToSpelling, got, u, v, k.ExpUnit), raw, nil)
		}
		return
	}
	from := units[k.From-1]
	bound := from
	if k.Bound > 0 {
		bound = units[k.Bound-1]
	}
	v, ok := value(k.Cls, from, bound)
	if !ok {
		return
	}
	fromS := spell(k.Spelling, k.Variant)
	toS := strings.ReplaceAll(k.ToSpelling, "{mu}", "μ")
	run.Count(fmt.Sprintf("%s|%s|%s|%s", k.Kind, fromS, toS, k.Cls))
	var wantUnit unit
	switch k.Kind {
	case "explicit":
		for _, u := range units {
			if u.Name == k.ExpUnit {
				wantUnit = u
			}
		}
	case "auto":
		wantUnit = autoUnit(v, from, units, defaultOf(from.Fam, units))
	}
	want := new(big.Rat).Mul(new(big.Rat).SetInt64(v), new(big.Rat).Quo(factor(from), factor(wantUnit)))
	got, gu := measurement.Scale(v, fromS, toS)
	sg := fmt.Sprintf("%s:%s:%s", k.Kind, from.Name, k.Variant)
	if gu != wantUnit.Name && k.Kind == "auto" && atBoundary(v, from, wantUnit, gu, units) {
		// exactly at a unit boundary whose factor is not representable in binary floating point
		// (the GCU family's 1e-9 ... 1e-3): either neighbour keeps the magnitude; rounding is outside TLA+
		for _, u := range units {
			if u.Name == gu {
				wantUnit = u
			}
		}
		want = new(big.Rat).Mul(new(big.Rat).SetInt64(v), new(big.Rat).Quo(factor(from), factor(wantUnit)))
	}
	if gu != wantUnit.Name {
		cls := k.Cls
		if k.Kind == "auto" && (cls == "just_below" || cls == "at" || cls == "just_above" || cls == "neg_at" || cls == "neg_just_below" || cls == "big_round") {
			cls = "boundary"
		}
		run.Violate("scale", "unit:"+sg+":"+cls, fmt.Sprintf("Scale(%d, %q, %q) = (%v, %q): unit should be %q", v, fromS, toS, got, gu, wantUnit.Name), raw, nil)
		return
	}
	if !close(got, want) {
		run.Violate("scale", "ratio:"+sg, fmt.Sprintf("Scale(%d, %q, %q) = %v%s, the exact ratio gives %s", v, fromS, toS, got, gu, want.FloatString(6)), raw, nil)
	}
	// commutes with negation
	if v != math.MinInt64 {
		ng, nu := measurement.Scale(-v, fromS, toS)
		if nu != gu || ng != -got {
			run.Violate("scale", "negation:"+sg, fmt.Sprintf("Scale(%d) = %v%s but Scale(%d) = %v%s", v, got, gu, -v, ng, nu), raw, nil)
		}
	}
	// the label read back with its unit is within display rounding of the value
	lab := measurement.ScaledLabel(v, fromS, toS)
	num := strings.TrimSuffix(lab, gu)
	if lab == "0" {
		num = "0"
	}
	f, err := strconv.ParseFloat(num, 64)
	w, _ := want.Float64()
	if err != nil {
		run.Violate("label", "label-unreadable:"+sg, fmt.Sprintf("ScaledLabel(%d, %q, %q) = %q", v, fromS, toS, lab), raw, nil)
	} else if math.Abs(f-w) > 0.005+math.Abs(w)*1e-9 {
		run.Violate("label", "label-rounding:"+sg, fmt.Sprintf("ScaledLabel(%d, %q, %q) = %q, value is %v", v, fromS, toS, lab, w), raw, nil)
	}
	if k.Kind == "auto" && toS == "auto" && measurement.Label(v, fromS) != lab {
		run.Violate("label", "label-vs-scaledlabel:"+sg, fmt.Sprintf("Label(%d, %q) = %q but ScaledLabel(.., auto) = %q", v, fromS, measurement.Label(v, fromS), lab), raw, nil)
	}
	// percentages are computed from absolute ratios
	if v != 0 && v != math.MinInt64 {
		p1, p2, p3 := measurement.Percentage(v, 7*v), measurement.Percentage(-v, 7*v), measurement.Percentage(v, -7*v)
		if p1 != p2 || p1 != p3 {
			run.Violate("percentage", "percentage-sign", fmt.Sprintf("Percentage(%d, %d) = %q, with negated value %q, with negated total %q", v, 7*v, p1, p2, p3), raw, nil)
		}
	}
}

// profiles whose units belong to different families must not be harmonised: an error, nothing relabelled
func crossFamily(raw json.RawMessage, c *ucase) {
	k := c.Case
	ua, ub := c.Units[k.From-1], c.Units[k.To-1]
	spellOut := func(u unit) string { return u.Aliases[len(u.Aliases)-1] }
	run.Count("cross|" + ua.Name + "|" + ub.Name)
	mk := func(u unit, v int64) *profile.Profile {
		return &profile.Profile{SampleType: []*profile.ValueType{{Type: "t", Unit: spellOut(u)}},
			PeriodType: &profile.ValueType{Type: "t", Unit: spellOut(u)}, Period: 1, Sample: []*profile.Sample{{Value: []int64{v}}}}
	}
	ps := []*profile.Profile{mk(ua, 5000), mk(ub, 7)}
	if vt, err := measurement.CommonValueType([]*profile.ValueType{ps[0].SampleType[0], ps[1].SampleType[0]}); err == nil {
		run.Violate("harmonise", "cross-family-common-type", fmt.Sprintf("CommonValueType(%s, %s) = %v without an error: the units belong to different families", spellOut(ua), spellOut(ub), vt), raw, nil)
	}
	err := measurement.ScaleProfiles(ps)
	if err == nil {
		run.Violate("harmonise", "cross-family-scaled", fmt.Sprintf("ScaleProfiles harmonised %s with %s: now %d %s and %d %s", spellOut(ua), spellOut(ub),
			ps[0].Sample[0].Value[0], ps[0].SampleType[0].Unit, ps[1].Sample[0].Value[0], ps[1].SampleType[0].Unit), raw, nil)
	} else if ps[0].Sample[0].Value[0] != 5000 || ps[1].Sample[0].Value[0] != 7 || ps[0].SampleType[0].Unit != spellOut(ua) || ps[1].SampleType[0].Unit != spellOut(ub) {
		run.Violate("harmonise", "cross-family-touched", "ScaleProfiles failed but changed a profile", raw, nil)
	}
}

// two sample types: both columns of the first profile and the first column of the second use unit a, the second
// column of the second profile unit b; each COLUMN is harmonised on its own and keeps its physical totals
func twoColumn(raw json.RawMessage, c *ucase) {
	k := c.Case
	ua, ub := c.Units[k.From-1], c.Units[k.To-1]
	spellOut := func(u unit) string { return u.Aliases[len(u.Aliases)-1] }
	run.Count("twocolumn|" + ua.Name + "|" + ub.Name)
	mk := func(u1, u2 unit, v1, v2 int64) *profile.Profile {
		return &profile.Profile{SampleType: []*profile.ValueType{{Type: "cpu", Unit: spellOut(u1)}, {Type: "wall", Unit: spellOut(u2)}},
			PeriodType: &profile.ValueType{Type: "cpu", Unit: spellOut(u1)}, Period: 1, Sample: []*profile.Sample{{Value: []int64{v1, v2}}}}
	}
	// order: which profile comes first; order >= 2: the column that needs converting is the FIRST one and the last agrees
	// orders 4..11: the column whose units already agree (ratio 1) holds values a float64 cannot carry
	// (2^53+1, -(2^60+3), the int64 extremes): harmonising the OTHER column must leave them bit for bit
	for _, order := range []int{0, 1, 2, 3, 4, 5, 6, 7, 8, 9, 10, 11} {
		a1, a2 := int64(7), int64(5)
		switch order / 4 {
		case 1:
			a1, a2 = 1<<53+1, -(1<<60 + 3)
		case 2:
			a1, a2 = math.MaxInt64, math.MinInt64+1
		}
		ps := []*profile.Profile{mk(ua, ua, a1, 11), mk(ua, ub, a2, 3)}
		units := [][]unit{{ua, ua}, {ua, ub}}
		if order%4 >= 2 {
			ps = []*profile.Profile{mk(ua, ua, 7, a1), mk(ub, ua, 5, a2)}
			units = [][]unit{{ua, ua}, {ub, ua}}
		}
		if order%2 == 1 {
			ps[0], ps[1] = ps[1], ps[0]
			units[0], units[1] = units[1], units[0]
		}
		want := [][]*big.Rat{}
		for i, p := range ps {
			row := []*big.Rat{}
			for j, v := range p.Sample[0].Value {
				row = append(row, new(big.Rat).Mul(big.NewRat(v, 1), factor(units[i][j])))
			}
			want = append(want, row)
		}
		if err := measurement.ScaleProfiles(ps); err != nil {
			run.Violate("harmonise", "twocolumn-error", err.Error(), raw, nil)
			return
		}
		for i, p := range ps {
			for j, v := range p.Sample[0].Value {
				// the unit the column is labelled with now, looked up among the family's spellings (exact factors)
				var now *unit
				for ui := range c.Units {
					u := &c.Units[ui]
					for _, al := range append([]string{u.Name}, u.Aliases...) {
						if strings.EqualFold(strings.Replace(al, "{mu}", "μ", 1), p.SampleType[j].Unit) && u.Fam == ua.Fam {
							now = u
						}
					}
				}
				if now == nil {
					run.Violate("harmonise", "twocolumn-unknown-unit", fmt.Sprintf("column %d is now labelled %q", j, p.SampleType[j].Unit), raw, nil)
					continue
				}
				got := new(big.Rat).Mul(big.NewRat(v, 1), factor(*now))
				// the exact value in the unit the column ended up in, if it does not fit an int64: the recorded overflow finding
				exact := new(big.Rat).Quo(want[i][j], factor(*now))
				if got.Cmp(want[i][j]) != 0 && new(big.Rat).Abs(exact).Cmp(new(big.Rat).SetInt64(math.MaxInt64)) > 0 {
					run.Violate("harmonise", "harmonise-overflow:int64", fmt.Sprintf("two columns: the value of profile %d column %d in %s exceeds int64 and wrapped to %d", i, j, p.SampleType[j].Unit, v), raw, nil)
					continue
				}
				if got.Cmp(want[i][j]) != 0 {
					run.Violate("harmonise", "twocolumn-totals", fmt.Sprintf("order %d: profile %d column %d (%s): physical value %s became %s (now %d %s)", order, i, j, spellOut(units[i][j]), want[i][j].FloatString(3), got.FloatString(3), v, p.SampleType[j].Unit), raw, nil)
				}
			}
		}
	}
}

func harmonise(raw json.RawMessage, c *ucase) {
	k := c.Case
	us := []unit{c.Units[k.From-1], c.Units[k.To-1], c.Units[k.Bound-1]}
	run.Count("harmonise|" + us[0].Name + us[1].Name + us[2].Name)
	spellOut := func(u unit) string { return u.Aliases[len(u.Aliases)-1] }
	finest := us[0]
	for _, u := range us {
		if factor(u).Cmp(factor(finest)) < 0 {
			finest = u
		}
	}
	var ps []*profile.Profile
	total := new(big.Rat)
	for i, u := range us {
		v := int64(3 + 2*i)
		ps = append(ps, &profile.Profile{
			SampleType: []*profile.ValueType{{Type: "t", Unit: spellOut(u)}},
			PeriodType: &profile.ValueType{Type: "t", Unit: spellOut(u)}, Period: 1,
			Sample: []*profile.Sample{{Value: []int64{v}}, {Value: []int64{1}}},
		})
		total.Add(total, new(big.Rat).Mul(big.NewRat(v+1, 1), factor(u)))
	}
	vt, err := measurement.CommonValueType([]*profile.ValueType{ps[0].SampleType[0], ps[1].SampleType[0], ps[2].SampleType[0]})
	if err != nil || vt == nil {
		run.Violate("harmonise", "common-type-error", fmt.Sprint(err), raw, nil)
		return
	}
	if got, _ := measurement.Scale(1, vt.Unit, spellOut(finest)); got != 1 {
		run.Violate("harmonise", "common-type-not-finest", fmt.Sprintf("CommonValueType(%s, %s, %s) = %s, the finest is %s", spellOut(us[0]), spellOut(us[1]), spellOut(us[2]), vt.Unit, spellOut(finest)), raw, nil)
	}
	if err := measurement.ScaleProfiles(ps); err != nil {
		run.Violate("harmonise", "scale-profiles-error", err.Error(), raw, nil)
		return
	}
	sum := new(big.Rat)
	for _, p := range ps {
		f, u := measurement.Scale(1, p.SampleType[0].Unit, spellOut(finest))
		_ = u
		for _, s := range p.Sample {
			sum.Add(sum, new(big.Rat).Mul(new(big.Rat).SetFloat64(f*float64(s.Value[0])), factor(finest)))
		}
	}
	// the class in which the exact value in the finest unit does not fit an int64 is a separate (recorded) finding
	overflow := false
	for i, u := range us {
		x := new(big.Rat).Quo(new(big.Rat).Mul(big.NewRat(int64(3+2*i), 1), factor(u)), factor(finest))
		if x.Cmp(new(big.Rat).SetInt64(math.MaxInt64)) > 0 {
			overflow = true
		}
	}
	// the sampling period is a quantity in its own unit as well: harmonising relabels AND rescales it
	for i, p := range ps {
		f, _ := measurement.Scale(1, p.PeriodType.Unit, spellOut(finest))
		got := new(big.Rat).Mul(new(big.Rat).SetFloat64(f*float64(p.Period)), factor(finest))
		exact := new(big.Rat).Quo(factor(us[i]), factor(finest))
		if got.Cmp(factor(us[i])) != 0 && exact.Cmp(new(big.Rat).SetInt64(math.MaxInt64)) <= 0 {
			run.Violate("harmonise", "period-not-preserved", fmt.Sprintf("units (%s, %s, %s): the period of profile %d was 1 %s and is now %d %s", us[0].Name, us[1].Name, us[2].Name, i, spellOut(us[i]), p.Period, p.PeriodType.Unit), raw, nil)
			break
		}
	}
	if sum.Cmp(total) != 0 && overflow {
		run.Violate("harmonise", "harmonise-overflow:int64", fmt.Sprintf("units (%s, %s, %s): the value in the finest unit exceeds int64; physical total %s became %s without an error", us[0].Name, us[1].Name, us[2].Name, total.FloatString(3), sum.FloatString(3)), raw, nil)
	} else if sum.Cmp(total) != 0 {
		run.Violate("harmonise", "totals-not-preserved", fmt.Sprintf("units (%s, %s, %s): physical total %s became %s", us[0].Name, us[1].Name, us[2].Name, total.FloatString(3), sum.FloatString(3)), raw, nil)
	}
}

// the report's own use of the "minimum" unit: the unit of a report is the one in which its SMALLEST non-zero value
// (flat, else cum, by magnitude) still reads at least one, so no non-zero value of a report prints as 0
func reportMinimumUnit() {
	m := vlib.AMap{Build: "B01", File: "bin", Start: 16, Size: 8}
	loc := func(name string, rel int64) vlib.ALoc {
		return vlib.ALoc{Map: m, Rel: rel, Lines: []vlib.ALine{{Fn: vlib.AFn{Name: name, Sys: name, File: name + ".c"}, Line: 1}}}
	}
	for _, signdiv := range [][2]int64{{1, 1}, {-1, 1}, {1, 1000}, {-1, 1000}, {1, 1000000}} {
		sign, div := signdiv[0], signdiv[1]
		for _, unit := range []string{"nanoseconds", "bytes"} {
			big, small := int64(10_000_000_000), int64(2_000_000)
			if unit == "bytes" {
				big, small = 10<<30, 2<<10
			}
			// mid never is a leaf: flat 0; its cum is the small difference of two large values
			ap := vlib.AProf{ST: []vlib.AVT{{T: "t", U: unit}}, Samples: []vlib.ASample{
				{Locs: []vlib.ALoc{loc("leafa", 1)}, Vals: []int64{big}},
				{Locs: []vlib.ALoc{loc("leafb", 2), loc("mid", 4)}, Vals: []int64{-sign * big / 2}},
				{Locs: []vlib.ALoc{loc("leafc", 3), loc("mid", 4)}, Vals: []int64{sign * (big/2 - small)}},
			}}
			p := vlib.NewConc(0).Profile(ap)
			// -divide_by shifts every figure of the report by the same factor: the unit is chosen for the divided figures
			res := vdrv.Run(vdrv.Opts{Args: []string{"-top", "-functions", "-flat", "-nodefraction=0", "-nodecount=0", fmt.Sprintf("-divide_by=%d", div), "-output=out", "src"},
				Fetch: func(string) (*profile.Profile, error) { return p.Copy(), nil }})
			run.Count(fmt.Sprintf("report-minimum|%s|%d|%d", unit, sign, div))
			if res.Err != nil || res.Panic != nil {
				run.Violate("report-unit", "report-unit-error", fmt.Sprint(res.Err, res.Panic), nil, nil)
				continue
			}
			for _, l := range strings.Split(res.File("out"), "\n") {
				f := strings.Fields(l)
				if len(f) == 6 && f[5] == "mid" {
					if f[3] == "0" && small/div >= 1 { // (below one base unit after the division nothing finer exists)
						run.Violate("report-unit", "minimum-unit-too-coarse", fmt.Sprintf("entry mid has cum %d %s, the smallest magnitude of the report, and is printed as 0:\n%s", -sign*small, unit, res.File("out")), nil, nil)
					}
				}
			}
		}
	}
}

func main() {
	run = vlib.NewRun("C15")
	run.EachCase(func(i int, raw json.RawMessage) {
		var c ucase
		if err := json.Unmarshal(raw, &c); err != nil {
			run.Infra("case decode: " + err.Error())
			return
		}
		func() {
			defer func() {
				if r := recover(); r != nil {
					run.Violate("scale", "panic", fmt.Sprint(r), raw, nil)
				}
			}()
			check(raw, &c)
		}()
		if i%4000 == 0 {
			run.Sample(c.Case)
		}
	})
	// label monotonicity across every unit boundary of every family (auto mode)
	monotone()
	reportMinimumUnit()
	run.Finish("cases = Units.tla: every alias of every unit x spelling variants (as is, plural, upper, capitalised, upper plural) x every target unit / auto / minimum / unknown target x value classes (0, +-1, 7, MaxInt64, MinInt64, MinInt64+1, and one below / at / one above every unit boundary, negated, 999 x boundary), unknown sources, and every ordered triple of distinct units of a family for harmonisation; non-trivial = distinct (kind, spelling, target, value class)")
}

var unitFactors = map[string]float64{"B": 1, "kB": 1 << 10, "MB": 1 << 20, "GB": 1 << 30, "TB": 1 << 40, "PB": 1 << 50,
	"ns": 1, "us": 1e3, "ms": 1e6, "s": 1e9, "hrs": 3.6e12,
	"n*GCU": 1e-9, "u*GCU": 1e-6, "m*GCU": 1e-3, "GCU": 1, "k*GCU": 1e3, "M*GCU": 1e6, "G*GCU": 1e9, "T*GCU": 1e12, "P*GCU": 1e15}

func monotone() {
	for _, from := range []string{"b", "ns", "nanogcu"} {
		var prev float64
		prevLab := ""
		first := true
		vals := []int64{0, 1, 2, 999, 1000, 1001, 1023, 1024, 1025, 999999, 1000000, 1000001, 1 << 20, 1<<20 + 1, 999999999, 1000000000, 1000000001, 1 << 30, 1 << 40, 3599999999999, 3600000000000, 3600000000001, 1 << 50, 1 << 60, math.MaxInt64}
		for _, v := range vals {
			f, u := measurement.Scale(v, from, "auto")
			base := unitFactors[u] / unitFactors[map[string]string{"b": "B", "ns": "ns", "nanogcu": "n*GCU"}[from]] // chosen unit in from-units
			if u == "" {
				base = 1
			}
			phys := f * base
			run.Count("monotone|" + from + fmt.Sprint(v))
			if !first && phys < prev*(1-1e-9) {
				run.Violate("label", "label-not-monotone:"+from, fmt.Sprintf("labels not monotone: %d -> %s after %s", v, measurement.Label(v, from), prevLab), nil, nil)
			}
			prev, prevLab, first = phys, measurement.Label(v, from), false
		}
	}
}
