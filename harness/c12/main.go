// C12 harness: replays Symbolize.tla's behaviours on the real
// symbolizer.Symbolizer with a scripted ObjTool/ObjFile and a scripted symbol
// service (HTTP RoundTripper), records the profile before and after as tables
// for TraceSymbolize.tla.
//
// A case is a profile and a list of run scripts (Symbolize.tla: one run over
// the whole catalogue, SeqLen runs for the sequence catalogue). The runs are
// replayed one after the other on the SAME profile object; every run is one
// event (before/after tables of that run, its position in the sequence) and
// the library's own verdict on the result - CheckValid, Write + Parse, every
// Line.Function an element of prof.Function - is recorded in the event for
// TraceSymbolize.tla (clause wellformed) and reported directly with the
// library's message.
package main

import (
	"bytes"
	"encoding/json"
	"fmt"
	"io"
	"net/http"
	"regexp"
	"strings"

	"github.com/google/pprof/internal/plugin"
	"github.com/google/pprof/internal/symbolizer"
	"github.com/google/pprof/internal/zzverif/vlib"
	"github.com/google/pprof/profile"
)

// script = the answers of the plug-ins during one run (Script in Symbolize.tla)
type script struct {
	Mode    string   `json:"mode"`
	Opens   []string `json:"opens"`
	Lines   []string `json:"lines"`
	Remotes []string `json:"remotes"`

	same plugin.Frame // the representative of the answer class "same" for this run
}

type scase struct {
	Prof vlib.Table `json:"prof"`
	Runs []script   `json:"runs"`
	// a case with one run may be written flat (replay files of earlier versions)
	Mode    string   `json:"mode"`
	Opens   []string `json:"opens"`
	Lines   []string `json:"lines"`
	Remotes []string `json:"remotes"`
}

type symEvent struct {
	Op     string     `json:"op"`
	N      int        `json:"n"`
	Mode   string     `json:"mode"`
	Force  bool       `json:"force"`
	None   bool       `json:"none"`
	Remote bool       `json:"remote"` // the mode consults the remote symbol service (which looks at has-functions only)
	Before vlib.Table `json:"before"`
	After  vlib.Table `json:"after"`
	Err    bool       `json:"err"`
	// position in a sequence of runs on one profile: the events of one sequence are consecutive, step = 1..of
	Seq  int `json:"seq"`
	Step int `json:"step"`
	Of   int `json:"of"`
	// the library's verdict on the result: CheckValid ("" = accepted, else the class of its complaint), Write + Parse
	// succeeded, every Line.Function is an element of prof.Function (pointer identity) with a unique non-zero id
	CV      string `json:"cv"`
	Reparse bool   `json:"reparse"`
	InTable bool   `json:"intable"`
}

var run *vlib.Run

type ui struct{ errs []string }

func (u *ui) ReadLine(string) (string, error)     { return "", io.EOF }
func (u *ui) Print(a ...interface{})              {}
func (u *ui) PrintErr(a ...interface{})           { u.errs = append(u.errs, fmt.Sprint(a...)) }
func (u *ui) IsTerminal() bool                    { return false }
func (u *ui) WantBrowser() bool                   { return false }
func (u *ui) SetAutoComplete(func(string) string) {}

// scripted object files
type objTool struct {
	c     *script
	files map[string]int // mapping file -> index 0/1
	addrs map[uint64]int // location address -> location index 0..2 (first match)
}
type objFile struct {
	t   *objTool
	idx int
}

func (t *objTool) Open(file string, start, limit, offset uint64, rel string) (plugin.ObjFile, error) {
	i, ok := t.files[file]
	if !ok {
		return nil, fmt.Errorf("no such file %q", file)
	}
	switch t.c.Opens[i] {
	case "error":
		return nil, fmt.Errorf("scripted open error for %q", file)
	}
	return &objFile{t, i}, nil
}
func (t *objTool) Disasm(string, uint64, uint64, bool) ([]plugin.Inst, error) {
	return nil, fmt.Errorf("no disasm")
}
func (f *objFile) Name() string                     { return "scripted" }
func (f *objFile) ObjAddr(a uint64) (uint64, error) { return a, nil }
func (f *objFile) BuildID() string {
	if f.t.c.Opens[f.idx] == "mismatch" {
		return "some-other-build-id"
	}
	return ""
}
func (f *objFile) Close() error { return nil }
func (f *objFile) Symbols(*regexp.Regexp, uint64) ([]*plugin.Sym, error) {
	return nil, fmt.Errorf("no symbols")
}
func (f *objFile) SourceLine(addr uint64) ([]plugin.Frame, error) {
	li, ok := f.t.addrs[addr]
	ans := "one"
	if ok {
		ans = f.t.c.Lines[li]
	}
	switch ans {
	case "error":
		return nil, fmt.Errorf("scripted SourceLine error")
	case "empty":
		return nil, nil
	case "two":
		return []plugin.Frame{{Func: fmt.Sprintf("inl_%x", addr), File: "i.c", Line: 3}, {Func: fmt.Sprintf("sym_%x", addr), File: "s.c", Line: 4, StartLine: 1}}, nil
	case "hole":
		// an inline stack whose caller is unknown: a frame with no function, file or line
		return []plugin.Frame{{Func: fmt.Sprintf("inl_%x", addr), File: "i.c", Line: 9}, {}}, nil
	case "same":
		// a frame identical in every attribute to a function the profile already has (sameFrame)
		return []plugin.Frame{f.t.c.same}, nil
	}
	return []plugin.Frame{{Func: fmt.Sprintf("sym_%x", addr), File: "s.c", Line: 4, Column: 2}}, nil
}

// scripted symbol service
type transport struct {
	c    *script
	call int
}

func (t *transport) RoundTrip(req *http.Request) (*http.Response, error) {
	i := t.call
	if i > 1 {
		i = 1
	}
	t.call++
	body, _ := io.ReadAll(req.Body)
	addrs := strings.Split(string(body), "+")
	var out strings.Builder
	switch t.c.Remotes[i] {
	case "error":
		return &http.Response{StatusCode: 500, Status: "500 scripted", Body: io.NopCloser(strings.NewReader("boom")), Header: http.Header{}}, nil
	case "garbage":
		out.WriteString("\x00\xffnot a symbolz answer\n0xzz name\n12 \n")
	case "all":
		for _, a := range addrs {
			fmt.Fprintf(&out, "%s remote_%s\n", a, strings.TrimPrefix(a, "0x"))
		}
	case "subset":
		if len(addrs) > 0 {
			fmt.Fprintf(&out, "%s remote_%s\n", addrs[0], strings.TrimPrefix(addrs[0], "0x"))
		}
	case "extra":
		for _, a := range addrs {
			fmt.Fprintf(&out, "%s remote_%s\n", a, strings.TrimPrefix(a, "0x"))
		}
		out.WriteString("0x10 stranger\n0x30 stranger2\n0xffffffffffffffff edge\n")
	case "emptyname":
		for _, a := range addrs {
			fmt.Fprintf(&out, "%s \n", a)
		}
	}
	return &http.Response{StatusCode: 200, Status: "200 OK", Body: io.NopCloser(strings.NewReader(out.String())), Header: http.Header{}}, nil
}

// same rule as UsesRemote in Symbolize.tla
func usesRemote(mode string) bool {
	switch mode {
	case "local", "fastlocal", "local:force", "local:demangle=templates", "local:demangle=default", "local:bogus", "none":
		return false
	}
	return true
}

func forceOf(mode string) (force, none bool) {
	for _, o := range strings.Split(strings.ToLower(mode), ":") {
		switch o {
		case "none", "no":
			return force, true
		case "force", "demangle=full", "demangle=none", "demangle=templates":
			force = true
		}
	}
	return force, false
}

// sameFrame is the representative of the answer class "same" (Symbolize.tla): the frame addr2line would report for
// a function that is ALREADY in the profile's table - the first one whose name equals its system name (what
// symbolizeOneMapping builds: Name = SystemName = frame.Func, Filename, StartLine), all attributes equal. With no such
// function: an inline function of a shared header, the same frame for every location of the run.
func sameFrame(p *profile.Profile) plugin.Frame {
	for _, f := range p.Function {
		if f != nil && f.Name != "" && f.Name == f.SystemName {
			return plugin.Frame{Func: f.Name, File: f.Filename, Line: 6, StartLine: int(f.StartLine)}
		}
	}
	return plugin.Frame{Func: "shared_inline", File: "hdr.h", Line: 6, StartLine: 5}
}

// accepted asks the library about the result of a run. It returns CheckValid's complaint (nil = valid), whether
// Write + Parse succeed (and why not) and whether every Line.Function is one of the objects in p.Function, each with
// a non-zero id that no other entry has. fatal = the profile object must not be used any more (a panic inside the
// encoder leaves its mutex locked).
func accepted(p *profile.Profile) (cv error, reparse string, intable string, fatal bool) {
	cv = p.CheckValid()
	inTable := map[*profile.Function]bool{}
	ids := map[uint64]bool{}
	for _, f := range p.Function {
		if f == nil {
			intable = "nil entry in the function table"
			continue
		}
		if f.ID == 0 || ids[f.ID] {
			intable = fmt.Sprintf("function table entry %q has the zero or duplicate id %d", f.Name, f.ID)
		}
		ids[f.ID] = true
		inTable[f] = true
	}
	for _, l := range p.Location {
		for _, ln := range l.Line {
			if ln.Function == nil {
				intable = fmt.Sprintf("location %d has a line without a function", l.ID)
			} else if !inTable[ln.Function] {
				intable = fmt.Sprintf("location %d: function %q (id %d) is not an entry of the function table", l.ID, ln.Function.Name, ln.Function.ID)
			}
		}
	}
	var b bytes.Buffer
	func() {
		defer func() {
			if r := recover(); r != nil {
				reparse, fatal = fmt.Sprint("write panics: ", r), true
			}
		}()
		if err := p.WriteUncompressed(&b); err != nil {
			reparse = "write: " + err.Error()
		}
	}()
	if reparse == "" {
		func() {
			defer func() {
				if r := recover(); r != nil {
					reparse = fmt.Sprint("parse panics: ", r)
				}
			}()
			if _, err := profile.ParseData(b.Bytes()); err != nil {
				reparse = "parse: " + err.Error()
			}
		}()
	}
	return
}

func main() {
	run = vlib.NewRun("C12")
	n := 0
	seqs := 0
	replay := func(i int, raw json.RawMessage, c *scase) {
		for ri := range c.Runs {
			if r := &c.Runs[ri]; len(r.Opens) < 2 || len(r.Lines) < 3 || len(r.Remotes) < 2 {
				run.Infra(fmt.Sprintf("case %d run %d: incomplete script %+v", i, ri+1, *r))
				return
			}
		}
		p := vlib.TConc{}.Profile(c.Prof)
		if err := p.CheckValid(); err != nil {
			run.Infra(fmt.Sprintf("case %d: the catalogue profile is not valid: %v", i, err))
			return
		}
		tool := &objTool{files: map[string]int{}, addrs: map[uint64]int{}}
		sources := plugin.MappingSources{}
		for mi, m := range p.Mapping {
			if mi < 2 {
				if _, dup := tool.files[m.File]; !dup {
					tool.files[m.File] = mi
				}
			}
			// every mapping was fetched from a symbolz-capable URL
			key := m.File
			if m.BuildID != "" {
				key = m.BuildID
			}
			sources[key] = append(sources[key], struct {
				Source string
				Start  uint64
			}{Source: "http://host/debug/pprof/profile", Start: m.Start})
		}
		for li, l := range p.Location {
			if _, ok := tool.addrs[l.Address]; !ok && li < 3 {
				tool.addrs[l.Address] = li
			}
		}
		seqs++
		if len(c.Runs) > 1 {
			run.Counter("sequences", 1)
		}
		// the runs of the case, one after the other on the same profile; the mappings and the addresses (what the
		// scripted plug-ins key their answers on) are the same in every run or the frame condition has been violated
		for ri := range c.Runs {
			r := &c.Runs[ri]
			r.same = sameFrame(p)
			tool.c = r
			before := vlib.TableOf(p)
			u := &ui{}
			s := &symbolizer.Symbolizer{Obj: tool, UI: u, Transport: &transport{c: r}}
			var err error
			var pv interface{}
			func() {
				defer func() { pv = recover() }()
				err = s.Symbolize(r.Mode, sources, p)
			}()
			key := fmt.Sprintf("%s|%v|%v|%v|%d", r.Mode, r.Opens, r.Lines, r.Remotes, len(before.Fns))
			if len(c.Runs) > 1 {
				key = fmt.Sprintf("run%d|%s", ri+1, key)
			}
			run.Count(key)
			where := r.Mode
			if len(c.Runs) > 1 {
				where = fmt.Sprintf("run%d:%s", ri+1, r.Mode)
			}
			if pv != nil {
				run.Violate("symbolize", "panic:"+where, fmt.Sprint(pv), raw, nil)
				break
			}
			cv, reparse, intable, fatal := accepted(p)
			force, none := forceOf(r.Mode)
			ev := symEvent{Op: "symbolize", N: n, Mode: r.Mode, Force: force, None: none, Remote: usesRemote(r.Mode), Before: before, After: vlib.TableOf(p), Err: err != nil,
				Seq: seqs, Step: ri + 1, Of: len(c.Runs), Reparse: reparse == "", InTable: intable == ""}
			if cv != nil {
				ev.CV = validClass(cv)
			}
			run.Event(ev)
			run.Aux(map[string]interface{}{"n": n, "case": json.RawMessage(raw)})
			n++
			// the driver re-checks validity after symbolization and writes the profile (-proto, the saved copy of a
			// fetched profile): the result must be a valid profile that can be read back, whatever the plug-ins answered
			if cv != nil {
				run.Violate("symbolize", "invalid-after:"+validClass(cv), fmt.Sprintf("%s (returned error: %v): %v", where, err, cv), raw, nil)
			}
			if intable != "" {
				run.Violate("symbolize", "function-not-in-table", fmt.Sprintf("%s: %s", where, intable), raw, nil)
			}
			if reparse != "" {
				sig := "unparsable-after"
				if fatal {
					sig = "unwritable-after"
				}
				run.Violate("symbolize", sig, fmt.Sprintf("%s: %s", where, reparse), raw, nil)
			}
			if fatal || cv != nil || intable != "" || reparse != "" {
				// the later runs of the sequence would start from something that is not a profile any more
				break
			}
		}
		if i%2500 == 0 || (len(c.Runs) > 1 && i%1000 == 0) {
			run.Sample(json.RawMessage(raw))
		}
	}
	// the sequences first, then the single runs (the trace reader shows the first rejected events of a trace only, and
	// what a single run shows is shown again by the first run of a sequence, not the other way round)
	type deferred struct {
		i   int
		raw json.RawMessage
		c   *scase
	}
	var singles []deferred
	run.EachCase(func(i int, raw json.RawMessage) {
		c := &scase{}
		if err := json.Unmarshal(raw, c); err != nil {
			run.Infra("case decode: " + err.Error())
			return
		}
		if len(c.Runs) == 0 {
			c.Runs = []script{{Mode: c.Mode, Opens: c.Opens, Lines: c.Lines, Remotes: c.Remotes}}
		}
		if len(c.Runs) == 1 {
			singles = append(singles, deferred{i, append(json.RawMessage{}, raw...), c})
			return
		}
		replay(i, raw, c)
	})
	for _, d := range singles {
		replay(d.i, d.raw, d.c)
	}
	run.Finish("behaviours = Symbolize.tla: catalogue profiles (function tables {}, {2}, {5,1}, {1,3}, {2,4} with mangled / C++-looking / '(a::b)' / no-system-name names; mapping pairs: unsymbolised+symbolised, two binaries sharing an address range, fake + URL-sourced, two unsymbolised, partly symbolised, one binary twice, no range; addresses at mapping start and limit-1) x 16 mode strings x scripted answers of the object-file plug-in (open ok/error/build-id mismatch; SourceLine one frame/two inlined/none/error/unknown caller/identical to a function of the table per location) and of the symbol service (all/subset/unasked addresses/garbage/error/empty names); plus every sequence of 3 runs over the sequence scripts (plain, plain with other answers, forced with an object file that answers nothing / the same function / something else, forced local+remote, remote alone, forced with nothing from anywhere) on the sequence profiles, each run one event; non-trivial = behaviour in which at least one plug-in is consulted, distinct by (position in the sequence, mode, script, size of the function table)")
}

func validClass(err error) string {
	s := err.Error()
	switch {
	case strings.Contains(s, "multiple functions"):
		return "duplicate-function-id"
	case strings.Contains(s, "function"):
		return "function"
	}
	return "other"
}
