// C12 harness: replays Symbolize.tla's behaviours on the real
// symbolizer.Symbolizer with a scripted ObjTool/ObjFile and a scripted symbol
// service (HTTP RoundTripper), records the profile before and after as tables
// for TraceSymbolize.tla. Also runs the end-to-end path through the driver.
package main

import (
	"bytes"
	"encoding/json"
	"fmt"
	"io"
	"net/http"
	"regexp"
	"strings"

	"github.com/google/pprof/internal/plugin"
	"github.com/google/pprof/internal/symbolizer"
	"github.com/google/pprof/internal/zzverif/vlib"
)

type scase struct {
	Prof    vlib.Table `json:"prof"`
	Mode    string     `json:"mode"`
	Opens   []string   `json:"opens"`
	Lines   []string   `json:"lines"`
	Remotes []string   `json:"remotes"`
}

type symEvent struct {
	Op     string     `json:"op"`
	N      int        `json:"n"`
	Mode   string     `json:"mode"`
	Force  bool       `json:"force"`
	None   bool       `json:"none"`
	Remote bool       `json:"remote"` // the mode consults the remote symbol service (which looks at has-functions only)
	Before vlib.Table `json:"before"`
	After  vlib.Table `json:"after"`
	Err    bool       `json:"err"`
}

var run *vlib.Run

type ui struct{ errs []string }

func (u *ui) ReadLine(string) (string, error)     { return "", io.EOF }
func (u *ui) Print(a ...interface{})              {}
func (u *ui) PrintErr(a ...interface{})           { u.errs = append(u.errs, fmt.Sprint(a...)) }
func (u *ui) IsTerminal() bool                    { return false }
func (u *ui) WantBrowser() bool                   { return false }
func (u *ui) SetAutoComplete(func(string) string) {}

// scripted object files
type objTool struct {
	c     *scase
	files map[string]int // mapping file -> index 0/1
	addrs map[uint64]int // location address -> location index 0..2 (first match)
}
type objFile struct {
	t   *objTool
	idx int
}

func (t *objTool) Open(file string, start, limit, offset uint64, rel string) (plugin.ObjFile, error) {
	i, ok := t.files[file]
	if !ok {
		return nil, fmt.Errorf("no such file %q", file)
	}
	switch t.c.Opens[i] {
	case "error":
		return nil, fmt.Errorf("scripted open error for %q", file)
	}
	return &objFile{t, i}, nil
}
func (t *objTool) Disasm(string, uint64, uint64, bool) ([]plugin.Inst, error) {
	return nil, fmt.Errorf("no disasm")
}
func (f *objFile) Name() string                     { return "scripted" }
func (f *objFile) ObjAddr(a uint64) (uint64, error) { return a, nil }
func (f *objFile) BuildID() string {
	if f.t.c.Opens[f.idx] == "mismatch" {
		return "some-other-build-id"
	}
	return ""
}
func (f *objFile) Close() error { return nil }
func (f *objFile) Symbols(*regexp.Regexp, uint64) ([]*plugin.Sym, error) {
	return nil, fmt.Errorf("no symbols")
}
func (f *objFile) SourceLine(addr uint64) ([]plugin.Frame, error) {
	li, ok := f.t.addrs[addr]
	ans := "one"
	if ok {
		ans = f.t.c.Lines[li]
	}
	switch ans {
	case "error":
		return nil, fmt.Errorf("scripted SourceLine error")
	case "empty":
		return nil, nil
	case "two":
		return []plugin.Frame{{Func: fmt.Sprintf("inl_%x", addr), File: "i.c", Line: 3}, {Func: fmt.Sprintf("sym_%x", addr), File: "s.c", Line: 4, StartLine: 1}}, nil
	case "hole":
		// an inline stack whose caller is unknown: a frame with no function, file or line
		return []plugin.Frame{{Func: fmt.Sprintf("inl_%x", addr), File: "i.c", Line: 9}, {}}, nil
	}
	return []plugin.Frame{{Func: fmt.Sprintf("sym_%x", addr), File: "s.c", Line: 4, Column: 2}}, nil
}

// scripted symbol service
type transport struct {
	c    *scase
	call int
}

func (t *transport) RoundTrip(req *http.Request) (*http.Response, error) {
	i := t.call
	if i > 1 {
		i = 1
	}
	t.call++
	body, _ := io.ReadAll(req.Body)
	addrs := strings.Split(string(body), "+")
	var out strings.Builder
	switch t.c.Remotes[i] {
	case "error":
		return &http.Response{StatusCode: 500, Status: "500 scripted", Body: io.NopCloser(strings.NewReader("boom")), Header: http.Header{}}, nil
	case "garbage":
		out.WriteString("\x00\xffnot a symbolz answer\n0xzz name\n12 \n")
	case "all":
		for _, a := range addrs {
			fmt.Fprintf(&out, "%s remote_%s\n", a, strings.TrimPrefix(a, "0x"))
		}
	case "subset":
		if len(addrs) > 0 {
			fmt.Fprintf(&out, "%s remote_%s\n", addrs[0], strings.TrimPrefix(addrs[0], "0x"))
		}
	case "extra":
		for _, a := range addrs {
			fmt.Fprintf(&out, "%s remote_%s\n", a, strings.TrimPrefix(a, "0x"))
		}
		out.WriteString("0x10 stranger\n0x30 stranger2\n0xffffffffffffffff edge\n")
	case "emptyname":
		for _, a := range addrs {
			fmt.Fprintf(&out, "%s \n", a)
		}
	}
	return &http.Response{StatusCode: 200, Status: "200 OK", Body: io.NopCloser(strings.NewReader(out.String())), Header: http.Header{}}, nil
}

// same rule as UsesRemote in Symbolize.tla
func usesRemote(mode string) bool {
	switch mode {
	case "local", "fastlocal", "local:force", "local:demangle=templates", "local:demangle=default", "local:bogus", "none":
		return false
	}
	return true
}

func forceOf(mode string) (force, none bool) {
	for _, o := range strings.Split(strings.ToLower(mode), ":") {
		switch o {
		case "none", "no":
			return force, true
		case "force", "demangle=full", "demangle=none", "demangle=templates":
			force = true
		}
	}
	return force, false
}

func main() {
	run = vlib.NewRun("C12")
	n := 0
	run.EachCase(func(i int, raw json.RawMessage) {
		var c scase
		if err := json.Unmarshal(raw, &c); err != nil {
			run.Infra("case decode: " + err.Error())
			return
		}
		p := vlib.TConc{}.Profile(c.Prof)
		before := vlib.TableOf(p)
		tool := &objTool{c: &c, files: map[string]int{}, addrs: map[uint64]int{}}
		sources := plugin.MappingSources{}
		for mi, m := range p.Mapping {
			if mi < 2 {
				if _, dup := tool.files[m.File]; !dup {
					tool.files[m.File] = mi
				}
			}
			// every mapping was fetched from a symbolz-capable URL
			key := m.File
			if m.BuildID != "" {
				key = m.BuildID
			}
			sources[key] = append(sources[key], struct {
				Source string
				Start  uint64
			}{Source: "http://host/debug/pprof/profile", Start: m.Start})
		}
		for li, l := range p.Location {
			if _, ok := tool.addrs[l.Address]; !ok && li < 3 {
				tool.addrs[l.Address] = li
			}
		}
		u := &ui{}
		s := &symbolizer.Symbolizer{Obj: tool, UI: u, Transport: &transport{c: &c}}
		var err error
		var pv interface{}
		func() {
			defer func() { pv = recover() }()
			err = s.Symbolize(c.Mode, sources, p)
		}()
		key := fmt.Sprintf("%s|%v|%v|%v|%d", c.Mode, c.Opens, c.Lines, c.Remotes, len(c.Prof.Fns))
		run.Count(key)
		if pv != nil {
			run.Violate("symbolize", "panic:"+c.Mode, fmt.Sprint(pv), raw, nil)
			return
		}
		force, none := forceOf(c.Mode)
		ev := symEvent{Op: "symbolize", N: n, Mode: c.Mode, Force: force, None: none, Remote: usesRemote(c.Mode), Before: before, After: vlib.TableOf(p), Err: err != nil}
		run.Event(ev)
		run.Aux(map[string]interface{}{"n": n, "case": json.RawMessage(raw)})
		n++
		// the driver re-checks validity after symbolization: a successful call must leave a valid profile
		if err == nil {
			if verr := p.CheckValid(); verr != nil {
				run.Violate("symbolize", "invalid-after:"+validClass(verr), fmt.Sprintf("mode %q: %v", c.Mode, verr), raw, nil)
			}
			var b bytes.Buffer
			func() {
				defer func() {
					if r := recover(); r != nil {
						run.Violate("symbolize", "unwritable-after", fmt.Sprint(r), raw, nil)
					}
				}()
				p.Write(&b)
			}()
		}
		if i%2500 == 0 {
			run.Sample(json.RawMessage(raw))
		}
	})
	run.Finish("behaviours = Symbolize.tla: 16 catalogue profiles (function tables {}, {2}, {5,1}, {1,3} with mangled / C++-looking / '(a::b)' / no-system-name names; mapping pairs: unsymbolised+symbolised, two binaries sharing an address range, fake + URL-sourced, two unsymbolised; addresses at mapping start and limit-1) x 14 mode strings x scripted answers of the object-file plug-in (open ok/error/build-id mismatch; SourceLine one frame/two inlined/none/error per location) and of the symbol service (all/subset/unasked addresses/garbage/error/empty names); non-trivial = behaviour in which at least one plug-in is consulted, distinct by (mode, script, function table)")
}

func validClass(err error) string {
	s := err.Error()
	switch {
	case strings.Contains(s, "multiple functions"):
		return "duplicate-function-id"
	case strings.Contains(s, "function"):
		return "function"
	}
	return "other"
}
