// C07 harness: replays Combine.tla's tuples of sources and bases through the
// real driver (in-memory Fetcher, -base / -diff_base / -normalize) and compares
// the -top rows and total of every common column with the specification's
// entry-wise sum (at functions, filefunctions and lines granularity: the
// specification decides what an entry is, e.g. a function's start line is
// not part of it); also saves with -proto, reopens and compares again.
package main

import (
	"bytes"
	"encoding/json"
	"fmt"
	"sort"
	"strings"

	"github.com/google/pprof/internal/zzverif/vdrv"
	"github.com/google/pprof/internal/zzverif/vlib"
	"github.com/google/pprof/profile"
)

type aprof struct {
	ST      []vlib.AVT     `json:"st"`
	Samples []vlib.ASample `json:"samples"`
}
type row struct {
	Name string `json:"name"`
	Flat int64  `json:"flat"`
	Cum  int64  `json:"cum"`
}
type col struct {
	T     string `json:"t"`
	U     string `json:"u"`
	Rows  []row  `json:"rows"`
	FRows []row  `json:"frows"` // the same report with entries (function, file)
	LRows *[]row `json:"lrows"` // the same report with entries (function, file, line), named "fn file:line"; absent in cases recorded before the field existed
	Total int64  `json:"total"`
}
type ccase struct {
	Srcs  []aprof `json:"srcs"`
	Bases []aprof `json:"bases"`
	Mode  string  `json:"mode"`
	Norm  bool    `json:"norm"`
	Exp   struct {
		Cols  []col  `json:"cols"`
		Empty bool   `json:"empty"`
		Cls   string `json:"cls"`
		Moved bool   `json:"moved"` // the inputs hold one function (name, system name, file) under two start lines
	} `json:"exp"`
}

var (
	run  *vlib.Run
	conc = vlib.NewConc(0)
)

func main() {
	run = vlib.NewRun("C07")
	run.EachCase(func(i int, raw json.RawMessage) {
		var c ccase
		if err := json.Unmarshal(raw, &c); err != nil {
			run.Infra("case decode: " + err.Error())
			return
		}
		check(raw, &c)
		if i%500 == 0 {
			run.Sample(json.RawMessage(raw))
		}
	})
	run.Finish("cases = TLC-enumerated tuples of 1..3 sources and 0..1 bases (thorough: 3 sources + base) whose sample-type lists differ in unit (us/ms/s, B/kB), order or overlap, with zeros in a column next to non-zero values, x {plain, -base, -diff_base} x -normalize for p - p, and tuples in which one function (name, system name, file) has different start lines across the inputs or within one input (a function that moved between two builds: one entry at functions/filefunctions granularity, told apart by line at lines granularity); every common column is rendered with -top -unit=<finest unit> at functions, filefunctions and lines granularity and compared with the entry-wise sum the specification computes, then saved with -proto, reopened and compared again; non-trivial = case with more than one profile whose units, order or overlap differ, or with a base, distinct by (type lists, mode, expected rows)")
}

func rowsText(rs []row) string {
	var s []string
	for _, r := range rs {
		s = append(s, fmt.Sprintf("%s|flat=%d|cum=%d", r.Name, r.Flat, r.Cum))
	}
	sort.Strings(s)
	return strings.Join(s, "\n")
}

func sig(c *ccase, what string) string {
	if c.Exp.Cls != "plain" && c.Exp.Cls != "" && what != "error" && what != "proto-error" && what != "reopen-error" {
		return "scalen-keep:" + c.Exp.Cls
	}
	units := map[string]bool{}
	order := ""
	for _, p := range append(append([]aprof{}, c.Srcs...), c.Bases...) {
		var ts []string
		for _, v := range p.ST {
			units[v.T+"/"+v.U] = true
			ts = append(ts, v.T)
		}
		if order == "" {
			order = strings.Join(ts, ",")
		} else if order != strings.Join(ts, ",") {
			order = "mixed-types"
		}
	}
	kind := "same-units"
	if len(units) > len(strings.Split(order, ",")) || order == "mixed-types" {
		kind = "mixed-units"
	}
	if order == "mixed-types" {
		kind = "mixed-types"
	}
	n := ""
	if c.Norm {
		n = ",normalize"
	}
	if c.Exp.Moved {
		n += ",moved-function"
	}
	return fmt.Sprintf("%s:%s:%s%s", what, c.Mode, kind, n)
}

func check(raw json.RawMessage, c *ccase) {
	multi := len(c.Srcs)+len(c.Bases) > 1
	key := ""
	if multi {
		b, _ := json.Marshal([]interface{}{c.Mode, c.Norm, c.Exp, typeLists(c)})
		key = string(b)
	}
	run.Count(key)
	profs := map[string]*profile.Profile{}
	var srcNames []string
	var flags []string
	for i, p := range c.Srcs {
		n := fmt.Sprintf("src%d", i)
		profs[n] = conc.Profile(vlib.AProf{ST: p.ST, Samples: p.Samples})
		srcNames = append(srcNames, n)
	}
	for i, p := range c.Bases {
		n := fmt.Sprintf("base%d", i)
		profs[n] = conc.Profile(vlib.AProf{ST: p.ST, Samples: p.Samples})
		if c.Mode == "diff_base" {
			flags = append(flags, "-diff_base="+n)
		} else {
			flags = append(flags, "-base="+n)
		}
	}
	if c.Norm {
		flags = append(flags, "-normalize")
	}
	fetch := func(src string) (*profile.Profile, error) {
		p, ok := profs[src]
		if !ok {
			return nil, fmt.Errorf("no such source %q", src)
		}
		return p.Copy(), nil
	}
	gran := "-functions"
	runTop := func(f func(string) (*profile.Profile, error), srcs []string, extra []string, k col) (string, int64, bool, error) {
		args := append([]string{"-top", gran, "-flat", "-nodecount=0", "-nodefraction=0", "-edgefraction=0",
			"-sample_index=" + k.T, "-unit=" + k.U}, extra...)
		args = append(args, "-output=out")
		args = append(args, srcs...)
		r := vdrv.Run(vdrv.Opts{Args: args, Fetch: f})
		if r.Panic != nil {
			return "", 0, false, fmt.Errorf("panic: %v", r.Panic)
		}
		if r.Err != nil {
			return "", 0, false, r.Err
		}
		lg, nodes, err := vdrv.Top(r.File("out"))
		if err != nil {
			return "", 0, false, fmt.Errorf("reader: %v in %q", err, r.File("out"))
		}
		var rs []row
		for _, n := range nodes {
			rs = append(rs, row{n.Name, n.Flat, n.Cum})
		}
		return rowsText(rs), lg.Total, lg.HasShowing, nil
	}
	for _, k := range c.Exp.Cols {
		got, total, _, err := runTop(fetch, srcNames, flags, k)
		if err != nil {
			run.Violate("top", sig(c, "error"), fmt.Sprintf("column %s: %v", k.T, err), raw, conc)
			continue
		}
		if want := rowsText(k.Rows); got != want {
			run.Violate("top", sig(c, "rows"), fmt.Sprintf("column %s (%s), got:\n%s\nwant (entry-wise sum of the individual reports):\n%s", k.T, k.U, got, want), raw, conc)
		}
		if total != k.Total {
			run.Violate("top", sig(c, "total"), fmt.Sprintf("column %s: total %d want %d", k.T, total, k.Total), raw, conc)
		}
		// the same with (function, file) entries: functions of one name in different files stay apart
		gran = "-filefunctions"
		gotF, _, _, err := runTop(fetch, srcNames, flags, k)
		gran = "-functions"
		if err != nil {
			run.Violate("top", sig(c, "error-filefunctions"), fmt.Sprintf("column %s: %v", k.T, err), raw, conc)
		} else if want := rowsText(k.FRows); gotF != want {
			run.Violate("top", sig(c, "rows-filefunctions"), fmt.Sprintf("column %s (%s) at filefunctions granularity, got:\n%s\nwant:\n%s", k.T, k.U, gotF, want), raw, conc)
		}
		// the same with (function, file, line) entries: here the line, not the function's start line, tells entries apart
		if k.LRows == nil {
			continue
		}
		gran = "-lines"
		gotL, _, _, err := runTop(fetch, srcNames, flags, k)
		gran = "-functions"
		if err != nil {
			run.Violate("top", sig(c, "error-lines"), fmt.Sprintf("column %s: %v", k.T, err), raw, conc)
		} else if want := rowsText(*k.LRows); gotL != want {
			run.Violate("top", sig(c, "rows-lines"), fmt.Sprintf("column %s (%s) at lines granularity, got:\n%s\nwant:\n%s", k.T, k.U, gotL, want), raw, conc)
		}
	}
	// save with -proto, reopen: same report
	args := append([]string{"-proto"}, flags...)
	args = append(args, "-output=out")
	args = append(args, srcNames...)
	r := vdrv.Run(vdrv.Opts{Args: args, Fetch: fetch})
	if r.Err != nil || r.Panic != nil {
		run.Violate("proto", sig(c, "proto-error"), fmt.Sprint(r.Err, r.Panic), raw, conc)
		return
	}
	saved := r.Files["out"]
	reopen := func(string) (*profile.Profile, error) { return profile.Parse(bytes.NewReader(saved)) }
	for _, k := range c.Exp.Cols {
		got, total, _, err := runTop(reopen, []string{"saved"}, nil, k)
		if err != nil {
			run.Violate("reopen", sig(c, "reopen-error"), fmt.Sprintf("column %s: %v", k.T, err), raw, conc)
			continue
		}
		if want := rowsText(k.Rows); got != want || total != k.Total {
			run.Violate("reopen", sig(c, "reopen"), fmt.Sprintf("column %s after -proto and reopening, got (total %d):\n%s\nwant (total %d):\n%s", k.T, total, got, k.Total, want), raw, conc)
		}
	}
}

func typeLists(c *ccase) [][]vlib.AVT {
	var t [][]vlib.AVT
	for _, p := range c.Srcs {
		t = append(t, p.ST)
	}
	for _, p := range c.Bases {
		t = append(t, p.ST)
	}
	return t
}
