// C04 harness: every TLC-enumerated (profile, configuration) case is rendered by
// the real pipeline (driver.PProf in-process) in every output form; independent
// readers extract (entry, flat, cum) and (caller, callee, weight) and compare
// them with the numbers the specification defines (Binding A). Random larger
// profiles are rendered and logged for TraceReport.tla (Binding B).
package main

import (
	"encoding/json"
	"fmt"
	"regexp"
	"sort"
	"strings"

	"github.com/google/pprof/internal/zzverif/vdrv"
	"github.com/google/pprof/internal/zzverif/vlib"
	"github.com/google/pprof/internal/zzverif/vrep"
	"github.com/google/pprof/profile"
)

type traceRow struct {
	W  int64        `json:"w"`
	D  int64        `json:"d"`
	Es []vrep.Entry `json:"es"`
}

type rcase struct {
	Samples []vlib.ASample `json:"samples"`
	Cfg     vrep.Cfg       `json:"cfg"`
	Exp     struct {
		Nodes  []vrep.NodeRow `json:"nodes"`
		Edges  []vrep.EdgeRow `json:"edges"`
		Total  int64          `json:"total"`
		Tree   []vrep.TreeRow `json:"tree"`
		Traces []traceRow     `json:"traces"`
	} `json:"exp"`
	Conc *vlib.Conc `json:"conc"`
}

var run *vlib.Run

func main() {
	run = vlib.NewRun("C04")
	run.EachCase(func(i int, raw json.RawMessage) {
		var c rcase
		if err := json.Unmarshal(raw, &c); err != nil {
			run.Infra("case decode: " + err.Error())
			return
		}
		conc := c.Conc
		if conc == nil {
			conc = vlib.NewConc((run.Seed*7919 + int64(i)) % 1000)
			conc.StrMode = []int{0, 3}[int(run.Seed+int64(i))%2]
		}
		checkCase(raw, &c, conc)
		if i%1500 == 0 {
			run.Sample(map[string]interface{}{"cfg": c.Cfg, "samples": c.Samples, "nodes": c.Exp.Nodes, "edges": c.Exp.Edges, "total": c.Exp.Total})
		}
	})
	randomDriver()
	run.Finish("cases = TLC-enumerated profiles (two samples over stacks of depth 0..4 built from single-line, inlined, unsymbolised, same-name-other-file, same-function-other-line and recursive locations; negative, zero and cancelling values; labels) x configurations (granularity x noinlines x sample_index x mean x tagroot/tagleaf); each rendered as top, tree, peek, dot, dot+call_tree, topproto and traces; non-trivial = case whose expected table has an entry with cum != flat or an edge, counted distinct by (expected table, cfg)")
}

func nontrivial(c *rcase) string {
	nt := len(c.Exp.Edges) > 0
	for _, n := range c.Exp.Nodes {
		if n.Cum != n.Flat {
			nt = true
		}
	}
	if !nt {
		return ""
	}
	b, _ := json.Marshal([]interface{}{c.Cfg, c.Exp.Nodes, c.Exp.Edges})
	return string(b)
}

func render(p *profile.Profile, args ...string) *vdrv.Result {
	a := append([]string{}, args...)
	a = append(a, "-output=out", "src")
	return vdrv.Run(vdrv.Opts{Args: a, Fetch: func(string) (*profile.Profile, error) { return p.Copy(), nil }})
}

func sig(form string, cfg vrep.Cfg, what string) string {
	t := ""
	if len(cfg.TRoot)+len(cfg.TLeaf) > 0 {
		t = ",tags"
	}
	m := ""
	if cfg.Mean {
		m = ",mean"
	}
	ni := ""
	if cfg.NoInl {
		ni = ",noinlines"
	}
	return fmt.Sprintf("%s:%s:%s%s%s%s", form, what, cfg.Gran, ni, m, t)
}

func checkCase(raw json.RawMessage, c *rcase, conc *vlib.Conc) {
	run.Count(nontrivial(c))
	ap := vlib.AProf{ST: vrep.SampleTypes, Samples: c.Samples}
	p := conc.Profile(ap)
	base := append(vrep.Flags(c.Cfg, conc), vrep.NoTrim...)
	base = append(base, "-flat")
	expNodes := vrep.NodeBag(vrep.ExpNodes(c.Exp.Nodes, conc))
	expEdges := vrep.EdgeBag(vrep.ExpEdges(c.Exp.Edges, conc, false))
	var shown int64
	for _, n := range c.Exp.Nodes {
		shown += n.Flat
	}
	fail := func(form, what, detail string) {
		run.Violate(form, sig(form, c.Cfg, what), detail, withConc(raw, conc), conc)
	}
	bad := func(form string, r *vdrv.Result) bool {
		if r.Panic != nil {
			fail(form, "panic", fmt.Sprint(r.Panic))
			return true
		}
		if r.Err != nil {
			fail(form, "error", r.Err.Error())
			return true
		}
		return false
	}
	legend := func(form string, lg vdrv.Legend) {
		if !lg.HasShowing {
			fail(form, "legend", "no 'Showing nodes accounting for' line")
			return
		}
		if lg.Total != c.Exp.Total {
			fail(form, "total", fmt.Sprintf("total %d, the definition gives %d", lg.Total, c.Exp.Total))
		}
		if lg.Shown != shown {
			fail(form, "accounting", fmt.Sprintf("'accounting for' %d, sum of the flat values shown is %d", lg.Shown, shown))
		}
	}

	// ---- top
	if r := render(p, append([]string{"-top"}, base...)...); !bad("top", r) {
		lg, nodes, err := vdrv.Top(r.File("out"))
		if err != nil {
			run.Infra("top reader: " + err.Error())
		} else {
			if got := vrep.NodeBag(nodes); got != expNodes {
				fail("top", "nodes", fmt.Sprintf("got:\n%s\nwant:\n%s", got, expNodes))
			}
			legend("top", lg)
		}
	}
	// ---- tree and peek (same printer; peek with a regexp matching everything)
	for _, form := range []string{"tree", "peek"} {
		flag := "-tree"
		if form == "peek" {
			flag = "-peek=."
		}
		if len(c.Exp.Nodes) == 0 && form == "peek" {
			continue // "no matches found" is the documented answer
		}
		if r := render(p, append([]string{flag}, base...)...); !bad(form, r) {
			lg, nodes, edges, err := vdrv.Tree(r.File("out"))
			if err != nil {
				run.Infra(form + " reader: " + err.Error())
				continue
			}
			if got := vrep.NodeBag(nodes); got != expNodes {
				fail(form, "nodes", fmt.Sprintf("got:\n%s\nwant:\n%s", got, expNodes))
			}
			in, out := vrep.TreeEdges(edges, nodes)
			if got := vrep.EdgeBag(in); got != expEdges {
				fail(form, "edges-in", fmt.Sprintf("caller lines, got:\n%s\nwant:\n%s", got, expEdges))
			}
			if got := vrep.EdgeBag(out); got != expEdges {
				fail(form, "edges-out", fmt.Sprintf("callee lines, got:\n%s\nwant:\n%s", got, expEdges))
			}
			legend(form, lg)
		}
	}
	// ---- dot (graph mode)
	if r := render(p, append([]string{"-dot"}, base...)...); !bad("dot", r) {
		lg, nodes, edges, err := vdrv.Dot(r.File("out"))
		if err != nil {
			run.Infra("dot reader: " + err.Error())
		} else {
			if got := vrep.NodeBag(nodes); got != expNodes {
				fail("dot", "nodes", fmt.Sprintf("got:\n%s\nwant:\n%s", got, expNodes))
			}
			if got := vrep.EdgeBag(edges); got != expEdges {
				fail("dot", "edges", fmt.Sprintf("got:\n%s\nwant:\n%s", got, expEdges))
			}
			legend("dot", lg)
		}
	}
	// ---- dot with call_tree: one node per path
	if r := render(p, append([]string{"-dot", "-call_tree"}, base...)...); !bad("dot-tree", r) {
		_, nodes, edges, err := vdrv.Dot(r.File("out"))
		if err != nil {
			run.Infra("dot reader: " + err.Error())
		} else {
			var en []vdrv.Node
			var ee []vdrv.Edge
			key := func(path []vrep.Entry) string { b, _ := json.Marshal(path); return string(b) }
			shownPath := map[string]bool{}
			for _, t := range c.Exp.Tree {
				en = append(en, vdrv.Node{Name: vrep.Name(t.Path[len(t.Path)-1], conc), Flat: t.Flat, Cum: t.Cum})
				shownPath[key(t.Path)] = true
			}
			for _, t := range c.Exp.Tree {
				if len(t.Path) >= 2 && shownPath[key(t.Path[:len(t.Path)-1])] {
					ee = append(ee, vdrv.Edge{Src: vrep.Name(t.Path[len(t.Path)-2], conc), Dst: vrep.Name(t.Path[len(t.Path)-1], conc), W: t.Cum})
				}
			}
			if got, want := vrep.NodeBag(nodes), vrep.NodeBag(en); got != want {
				fail("dot-tree", "nodes", fmt.Sprintf("got:\n%s\nwant:\n%s", got, want))
			}
			if got, want := vrep.EdgeBag(edges), vrep.EdgeBag(ee); got != want {
				fail("dot-tree", "edges", fmt.Sprintf("got:\n%s\nwant:\n%s", got, want))
			}
		}
	}
	// ---- topproto
	if r := render(p, append([]string{"-topproto"}, base...)...); !bad("topproto", r) {
		tp, err := vdrv.TopProto(r.Files["out"])
		if err != nil {
			fail("topproto", "unparsable", err.Error())
		} else {
			var got, want []string
			for _, s := range tp.Sample {
				l := s.Location[0]
				f := l.Line[0].Function
				got = append(got, fmt.Sprintf("%s|%s|%d|%d|%x|cum=%d|flat=%d", f.Name, f.Filename, l.Line[0].Line, l.Line[0].Column, l.Address, s.Value[0], s.Value[1]))
			}
			for _, n := range c.Exp.Nodes {
				ni := vrep.Info(n.E, conc)
				want = append(want, fmt.Sprintf("%s|%s|%d|%d|%x|cum=%d|flat=%d", ni.Name, ni.File, ni.Lineno, ni.Columnno, ni.Address, n.Cum, n.Flat))
			}
			sort.Strings(got)
			sort.Strings(want)
			if strings.Join(got, "\n") != strings.Join(want, "\n") {
				fail("topproto", "nodes", fmt.Sprintf("got:\n%s\nwant:\n%s", strings.Join(got, "\n"), strings.Join(want, "\n")))
			}
		}
	}
	// ---- callgrind (always at address granularity, never trimmed): every cost line is an entry's flat value,
	// every call's cost the edge weight
	if c.Cfg.Gran == "addresses" {
		if r := render(p, append([]string{"-callgrind"}, base...)...); !bad("callgrind", r) {
			nodes, edges, err := vdrv.Callgrind(r.File("out"))
			if err != nil {
				fail("callgrind", "undecodable", err.Error()+"\n"+r.File("out"))
			} else {
				var got, want, gotE, wantE []string
				addrName := map[string]bool{}
				for _, n := range nodes {
					got = append(got, fmt.Sprintf("%s|%s|%x|%d|flat=%d", n.Fn, n.File, n.Addr, n.Line, n.Flat))
				}
				for _, n := range c.Exp.Nodes {
					ni := vrep.Info(n.E, conc)
					want = append(want, fmt.Sprintf("%s|%s|%x|%d|flat=%d", ni.Name, ni.File, ni.Address, ni.Lineno, n.Flat))
					addrName[fmt.Sprintf("%s@%x", ni.Name, ni.Address)] = true
				}
				for _, e := range edges {
					gotE = append(gotE, fmt.Sprintf("%s@%x -> %s@%x|w=%d", e.SrcFn, e.SrcAddr, e.DstFn, e.DstAddr, e.W))
				}
				for _, e := range c.Exp.Edges {
					a, b := vrep.Info(e.Src, conc), vrep.Info(e.Dst, conc)
					wantE = append(wantE, fmt.Sprintf("%s@%x -> %s@%x|w=%d", a.Name, a.Address, b.Name, b.Address, e.W))
				}
				sort.Strings(got)
				sort.Strings(want)
				sort.Strings(gotE)
				sort.Strings(wantE)
				if strings.Join(got, "\n") != strings.Join(want, "\n") {
					fail("callgrind", "nodes", fmt.Sprintf("got:\n%s\nwant:\n%s", strings.Join(got, "\n"), strings.Join(want, "\n")))
				}
				// functions of the same name and file that the graph keeps apart (another binary, another call-tree
				// context) are called "name [i/n]" in the cfn= lines of their callers while their own fn= lines say
				// "name": the weights are right but they hang on a callee no fn= line defines (recorded finding)
				stripped := make([]string, len(gotE))
				suffix := regexp.MustCompile(` \[\d+/\d+\]@`)
				for i, e := range gotE {
					stripped[i] = suffix.ReplaceAllString(e, "@")
				}
				sort.Strings(stripped)
				if strings.Join(gotE, "\n") != strings.Join(wantE, "\n") && strings.Join(stripped, "\n") == strings.Join(wantE, "\n") && strings.Join(got, "\n") == strings.Join(want, "\n") {
					fail("callgrind", "callee-not-defined", fmt.Sprintf("calls name callees that no fn= line defines:\n%s\nthe functions are defined as:\n%s", strings.Join(gotE, "\n"), strings.Join(got, "\n")))
				} else if strings.Join(gotE, "\n") != strings.Join(wantE, "\n") {
					fail("callgrind", "edges", fmt.Sprintf("got:\n%s\nwant:\n%s", strings.Join(gotE, "\n"), strings.Join(wantE, "\n")))
				}
			}
		}
	}
	// ---- traces: one stack per sample that has frames, value = W (divided by D under mean)
	if r := render(p, append([]string{"-traces"}, base...)...); !bad("traces", r) {
		ts, err := vdrv.Traces(r.File("out"))
		if err != nil {
			run.Infra("traces reader: " + err.Error())
		} else {
			var got, want []string
			for _, t := range ts {
				got = append(got, fmt.Sprintf("%d|%s", t.W, strings.Join(t.Frames, " < ")))
			}
			for _, t := range c.Exp.Traces {
				if len(t.Es) == 0 {
					continue
				}
				var fr []string
				for i := len(t.Es) - 1; i >= 0; i-- {
					fr = append(fr, vrep.Name(t.Es[i], conc))
				}
				w := t.W
				if t.D != 0 {
					w = t.W / t.D
				}
				want = append(want, fmt.Sprintf("%d|%s", w, strings.Join(fr, " < ")))
			}
			sort.Strings(got)
			sort.Strings(want)
			if strings.Join(got, "\n") != strings.Join(want, "\n") {
				fail("traces", "stacks", fmt.Sprintf("got:\n%s\nwant:\n%s", strings.Join(got, "\n"), strings.Join(want, "\n")))
			}
		}
	}
}

func withConc(raw json.RawMessage, conc *vlib.Conc) json.RawMessage {
	var m map[string]json.RawMessage
	if json.Unmarshal(raw, &m) != nil {
		return raw
	}
	b, _ := json.Marshal(conc)
	m["conc"] = b
	out, _ := json.Marshal(m)
	return out
}

// ---- Binding B: random profiles rendered by the real code, recorded for TraceReport.tla ----

type nameRow struct {
	Name string `json:"name"`
	Flat int64  `json:"flat"`
	Cum  int64  `json:"cum"`
}
type nameEdge struct {
	Src string `json:"src"`
	Dst string `json:"dst"`
	W   int64  `json:"w"`
}
type reportEvent struct {
	Op      string         `json:"op"`
	N       int            `json:"n"`
	Samples []vlib.ASample `json:"samples"`
	Cfg     vrep.Cfg       `json:"cfg"`
	Nodes   []nameRow      `json:"nodes"`
	Edges   []nameEdge     `json:"edges"`
	Total   int64          `json:"total"`
	Shown   int64          `json:"shown"`
}

func randomDriver() {
	r := vlib.NewRand(run.Seed + 4)
	// start lines 0 and a single mapping: every entry then has a unique printable name at every
	// granularity, so rows read from the output can be keyed by name without ambiguity
	fns := []vlib.AFn{{Name: "f", Sys: "f", File: "a.c"}, {Name: "g", Sys: "g", File: "a.c"}, {Name: "h", Sys: "h", File: "b.c"},
		{Name: "f", Sys: "f", File: "b.c"}, {Name: "run", Sys: "run", File: "r.go"}}
	m0 := vlib.AMap{Build: "B1", File: "bin", Start: 16, Size: 8}
	var pool []vlib.ALoc
	for i := 0; i < 14; i++ {
		l := vlib.ALoc{Map: m0, Rel: int64(i + 1), Lines: []vlib.ALine{}}
		nl := 1
		if i%3 == 1 {
			nl = 2
		} else if i%7 == 5 {
			nl = 3
		} else if i == 9 {
			nl = 0
		}
		for k := 0; k < nl; k++ {
			l.Lines = append(l.Lines, vlib.ALine{Fn: fns[r.Intn(len(fns))], Line: int64(10 + r.Intn(3)), Col: 1})
		}
		pool = append(pool, l)
	}
	grans := []string{"functions", "filefunctions", "files", "lines"}
	conc := vlib.NewConc(0)
	for it := 0; it < run.N; it++ {
		ns := 1 + r.Intn(8)
		var ss []vlib.ASample
		for i := 0; i < ns; i++ {
			s := vlib.ASample{Vals: []int64{int64(r.Intn(4) - 1), int64(r.Intn(7) - 2)}, Lab: []vlib.ASLab{}, Num: []vlib.ANLab{}, Locs: []vlib.ALoc{}}
			depth := r.Intn(7)
			base := r.Intn(len(pool))
			for d := 0; d < depth; d++ {
				// recursion-heavy: mostly a handful of neighbouring locations
				s.Locs = append(s.Locs, pool[(base+r.Intn(3))%len(pool)])
			}
			if r.Intn(3) == 0 {
				s.Lab = append(s.Lab, vlib.ASLab{K: "k", V: []string{r.Pick([]string{"x", "y"})}})
			}
			ss = append(ss, s)
		}
		cfg := vrep.Cfg{Gran: grans[r.Intn(len(grans))], NoInl: r.Intn(3) == 0, SI: 1 + r.Intn(2), Mean: r.Intn(4) == 0, TRoot: []string{}, TLeaf: []string{}}
		if r.Intn(5) == 0 {
			cfg.TRoot = []string{"k"}
		}
		if r.Intn(7) == 0 {
			cfg.TLeaf = []string{"k"}
		}
		p := conc.Profile(vlib.AProf{ST: vrep.SampleTypes, Samples: ss})
		base := append(vrep.Flags(cfg, conc), vrep.NoTrim...)
		base = append(base, "-flat")
		rt := render(p, append([]string{"-tree"}, base...)...)
		rp := render(p, append([]string{"-top"}, base...)...)
		if rt.Err != nil || rt.Panic != nil || rp.Err != nil || rp.Panic != nil {
			run.Violate("random", "random:error", fmt.Sprint(rt.Err, rt.Panic, rp.Err, rp.Panic), map[string]interface{}{"samples": ss, "cfg": cfg}, conc)
			continue
		}
		lg, nodes, edges, err := vdrv.Tree(rt.File("out"))
		lg2, nodes2, err2 := vdrv.Top(rp.File("out"))
		if err != nil || err2 != nil {
			run.Infra(fmt.Sprint("random reader: ", err, err2))
			continue
		}
		if vrep.NodeBag(nodes) != vrep.NodeBag(nodes2) || lg.Total != lg2.Total || lg.Shown != lg2.Shown {
			run.Violate("random", "random:top-vs-tree", "top and tree disagree:\n"+vrep.NodeBag(nodes)+"\nvs\n"+vrep.NodeBag(nodes2), map[string]interface{}{"samples": ss, "cfg": cfg}, conc)
		}
		ev := reportEvent{Op: "report", N: it, Samples: ss, Cfg: cfg, Total: lg.Total, Shown: lg.Shown, Nodes: []nameRow{}, Edges: []nameEdge{}}
		byName := map[string]*nameRow{}
		var order []string
		for _, n := range nodes {
			if byName[n.Name] == nil {
				byName[n.Name] = &nameRow{Name: n.Name}
				order = append(order, n.Name)
			}
			byName[n.Name].Flat += n.Flat
			byName[n.Name].Cum += n.Cum
		}
		for _, k := range order {
			ev.Nodes = append(ev.Nodes, *byName[k])
		}
		in, _ := vrep.TreeEdges(edges, nodes)
		byEdge := map[string]*nameEdge{}
		order = nil
		for _, e := range in {
			k := e.Src + "\x00" + e.Dst
			if byEdge[k] == nil {
				byEdge[k] = &nameEdge{Src: e.Src, Dst: e.Dst}
				order = append(order, k)
			}
			byEdge[k].W += e.W
		}
		for _, k := range order {
			ev.Edges = append(ev.Edges, *byEdge[k])
		}
		run.Counter("random_reports", 1)
		run.Event(ev)
		run.Aux(map[string]interface{}{"n": it, "samples": ss, "cfg": cfg})
	}
}
