// C18 harness: every (site, payload, options) case of EmitSites.tla is planted
// into a profile and rendered by the real code as DOT (recorded as a sequence
// of one-character strings for DotSyntax.tla), as callgrind (tokenised lines
// for Callgrind.tla) and as HTML pages (raw-marker scan).
package main

import (
	"encoding/json"
	"fmt"
	"net/http"
	"net/http/httptest"
	"os"
	"regexp"
	"strconv"
	"strings"

	"github.com/google/pprof/internal/plugin"
	"github.com/google/pprof/internal/zzverif/vdrv"
	"github.com/google/pprof/internal/zzverif/vlib"
	"github.com/google/pprof/profile"
)

type ecase struct {
	Site    string   `json:"site"`
	Payload []string `json:"payload"`
	Opt     struct {
		CallTree bool   `json:"calltree"`
		Gran     string `json:"gran"`
		Tags     bool   `json:"tags"`
	} `json:"opt"`
}

var run *vlib.Run

var longRE = regexp.MustCompile(`LONG[0-9]+`)

func payload(c *ecase) string {
	s := strings.Join(c.Payload, "")
	s = longRE.ReplaceAllStringFunc(s, func(m string) string {
		n, _ := strconv.Atoi(m[4:])
		return strings.Repeat("a", n)
	})
	return strings.ReplaceAll(s, "NONASCII", "é世")
}

func build(c *ecase, text string) *profile.Profile {
	f := vlib.AFn{Name: "f", Sys: "f", File: "a.c"}
	g := vlib.AFn{Name: "g", Sys: "g", File: "b.c"}
	m := vlib.AMap{Build: "B01", File: "bin", Start: 16, Size: 8}
	lf := vlib.ALoc{Map: m, Rel: 3, Lines: []vlib.ALine{{Fn: f, Line: 10}}}
	lg := vlib.ALoc{Map: m, Rel: 5, Lines: []vlib.ALine{{Fn: g, Line: 20}}}
	lg2 := vlib.ALoc{Map: m, Rel: 9, Lines: []vlib.ALine{{Fn: g, Line: 21}}}
	ap := vlib.AProf{ST: []vlib.AVT{{T: "samples", U: "count"}, {T: "alloc", U: "bytes"}}, Samples: []vlib.ASample{
		{Locs: []vlib.ALoc{lg, lf}, Vals: []int64{3, 300}, Lab: []vlib.ASLab{{K: "key", V: []string{"val"}}}, Num: []vlib.ANLab{{K: "bytes", V: []int64{64}, U: []string{"bytes"}}}},
		{Locs: []vlib.ALoc{lg2, lf}, Vals: []int64{1, 100}, Lab: []vlib.ASLab{{K: "key", V: []string{"other"}}}},
		{Locs: []vlib.ALoc{lf}, Vals: []int64{2, 50}},
		// a string label whose weights cancel while the numeric labels under it do not
		{Locs: []vlib.ALoc{lf}, Vals: []int64{4, 40}, Lab: []vlib.ASLab{{K: "key", V: []string{"cancel"}}}, Num: []vlib.ANLab{{K: "bytes", V: []int64{64}, U: []string{"bytes"}}}},
		{Locs: []vlib.ALoc{lf}, Vals: []int64{-4, -40}, Lab: []vlib.ASLab{{K: "key", V: []string{"cancel"}}}, Num: []vlib.ANLab{{K: "bytes", V: []int64{128}, U: []string{"bytes"}}}},
		// under -mean (value / count) a tag with a large weight can round to nothing and is then left out, while a
		// lighter one with numeric labels under it is drawn
		{Locs: []vlib.ALoc{lf}, Vals: []int64{1000, 100}, Lab: []vlib.ASLab{{K: "key", V: []string{"heavy"}}}},
		{Locs: []vlib.ALoc{lf}, Vals: []int64{1, 50}, Lab: []vlib.ASLab{{K: "key", V: []string{"light"}}}, Num: []vlib.ANLab{{K: "bytes", V: []int64{32}, U: []string{"bytes"}}}},
		// a function that is negative overall, called from a kept one (with -drop_negative it leaves the graph)
		{Locs: []vlib.ALoc{{Map: m, Rel: 12, Lines: []vlib.ALine{{Fn: vlib.AFn{Name: "neg", Sys: "neg", File: "n.c"}, Line: 5}}}, lf}, Vals: []int64{-2, -9}},
		// an unsymbolized location: its node is labelled with the binary name
		{Locs: []vlib.ALoc{{Map: m, Rel: 13}, lf}, Vals: []int64{1, 3}},
		// a callee without a function name but with a file name, first mentioned as the callee of a heavier caller
		{Locs: []vlib.ALoc{{Map: m, Rel: 11, Lines: []vlib.ALine{{Fn: vlib.AFn{Name: "", Sys: "", File: "e.c"}, Line: 30}}}, lf}, Vals: []int64{1, 7}},
	}}
	p := vlib.NewConc(0).Profile(ap)
	p.Comments = []string{"a comment"}
	switch c.Site {
	case "function":
		p.Function[0].Name = text
	case "file":
		p.Function[0].Filename = text
	case "binary":
		p.Mapping[0].File = "/bin/" + text
	case "buildid":
		p.Mapping[0].BuildID = text + "xyz"
	case "comment":
		p.Comments = []string{text, "second"}
	case "labelkey":
		p.Sample[0].Label = map[string][]string{text: {"val"}}
		// and as the LAST of several labels of another sample (labels are joined in key:value order)
		p.Sample[1].Label = map[string][]string{"a": {"plain"}, "zz" + text: {"val"}}
	case "labelvalue":
		p.Sample[0].Label = map[string][]string{"key": {text}}
		p.Sample[1].Label = map[string][]string{"a": {"plain"}, "m": {"mid"}, "zz": {text}}
	case "numlabelkey":
		p.Sample[0].NumLabel[text] = []int64{7}
		p.Sample[0].NumUnit[text] = []string{"bytes"}
	case "numlabelunit":
		p.Sample[0].NumUnit["bytes"] = []string{text}
	case "sampletype":
		p.SampleType[1].Type = text
	case "sampleunit":
		p.SampleType[1].Unit = text
	case "doc_url":
		p.DocURL = "http://example.com/" + text
	}
	return p
}

type dotEvent struct {
	N     int      `json:"n"`
	Chars []string `json:"chars"`
}
type cgLine struct {
	K    string `json:"k"`
	ID   int    `json:"id"`
	Name string `json:"name"`
	PT   string `json:"pt"` // position type: abs | rel | same | none
	PV   int64  `json:"pv"`
}
type cgEvent struct {
	N     int      `json:"n"`
	Lines []cgLine `json:"lines"`
	Addrs []int64  `json:"addrs"`
}

var (
	kwRE   = regexp.MustCompile(`^(ob|fl|fn|cfl|cfn|fi|fe|cob)=(?:\((\d+)\)(?: (.*))?)?$`)
	costRE = regexp.MustCompile(`^(0x[0-9a-f]+|[+-]\d+|\*) (\d+|\*) (-?\d+)$`)
	callRE = regexp.MustCompile(`^calls=(\d+) (0x[0-9a-f]+|[+-]\d+|\*) (\d+)$`)
)

func pos(s string) (string, int64) {
	switch {
	case s == "*":
		return "same", 0
	case strings.HasPrefix(s, "0x"):
		v, _ := strconv.ParseInt(s[2:], 16, 64)
		return "abs", v
	default:
		v, _ := strconv.ParseInt(s, 10, 64)
		return "rel", v
	}
}

func tokenizeCallgrind(out string) []cgLine {
	var ls []cgLine
	lines := strings.Split(strings.TrimSuffix(out, "\n"), "\n")
	for i, l := range lines {
		switch {
		case i == 0 && l == "positions: instr line":
			ls = append(ls, cgLine{K: "hdr", PT: "none"})
		case i == 1 && strings.HasPrefix(l, "events: "):
			ls = append(ls, cgLine{K: "hdr", PT: "none"})
		case l == "":
			ls = append(ls, cgLine{K: "blank", PT: "none"})
		default:
			if m := kwRE.FindStringSubmatch(l); m != nil {
				id, _ := strconv.Atoi(m[2])
				ls = append(ls, cgLine{K: m[1], ID: id, Name: m[3], PT: "none"})
			} else if m := callRE.FindStringSubmatch(l); m != nil {
				pt, pv := pos(m[2])
				ls = append(ls, cgLine{K: "calls", PT: pt, PV: pv})
			} else if m := costRE.FindStringSubmatch(l); m != nil {
				pt, pv := pos(m[1])
				ls = append(ls, cgLine{K: "cost", PT: pt, PV: pv})
			} else {
				ls = append(ls, cgLine{K: "other", Name: l, PT: "none"})
			}
		}
	}
	return ls
}

func render(p *profile.Profile, args ...string) *vdrv.Result {
	a := append([]string{}, args...)
	a = append(a, "-output=out", "src")
	return vdrv.Run(vdrv.Opts{Args: a, Fetch: func(string) (*profile.Profile, error) { return p.Copy(), nil }})
}

var (
	dotF, cgF *os.File
	nDot, nCg int
)

func emit(f *os.File, v interface{}) {
	b, _ := json.Marshal(v)
	f.Write(b)
	f.Write([]byte("\n"))
}

func one(raw json.RawMessage, c *ecase, i int) {
	text := payload(c)
	p := build(c, text)
	gran := "-" + c.Opt.Gran
	// ---- DOT
	args := []string{"-dot", gran, "-flat", "-nodecount=0", "-nodefraction=0", "-edgefraction=0"}
	if c.Opt.CallTree {
		args = append(args, "-call_tree")
	}
	if i%3 == 0 {
		args = append(args, "-drop_negative")
	}
	if i%4 == 1 {
		args = append(args, "-mean")
	}
	r := render(p, args...)
	key := c.Site + "|" + strings.Join(c.Payload, "") + "|" + c.Opt.Gran + fmt.Sprint(c.Opt.CallTree)
	run.Count(key)
	if r.Panic != nil {
		run.Violate("dot", "dot-panic:"+c.Site, fmt.Sprint(r.Panic), raw, nil)
	} else if r.Err != nil {
		run.Counter("dot-errors", 1)
	} else {
		ev := dotEvent{N: nDot}
		for _, ch := range r.File("out") {
			ev.Chars = append(ev.Chars, string(ch))
		}
		emit(dotF, ev)
		run.Aux(map[string]interface{}{"n": nDot, "kind": "dot", "case": json.RawMessage(raw), "out": r.File("out")})
		nDot++
	}
	// ---- callgrind (every case at functions granularity only: the format is address based anyway)
	if c.Opt.Gran == "functions" {
		args := []string{"-callgrind", "-flat"}
		if c.Opt.CallTree {
			args = append(args, "-call_tree")
		}
		r := render(p, args...)
		if r.Panic != nil {
			run.Violate("callgrind", "callgrind-panic:"+c.Site, fmt.Sprint(r.Panic), raw, nil)
		} else if r.Err == nil {
			ev := cgEvent{N: nCg, Lines: tokenizeCallgrind(r.File("out")), Addrs: []int64{0}}
			for _, l := range p.Location {
				ev.Addrs = append(ev.Addrs, int64(l.Address))
			}
			emit(cgF, ev)
			run.Aux(map[string]interface{}{"n": nCg, "kind": "callgrind", "case": json.RawMessage(raw), "out": r.File("out")})
			nCg++
		}
	}
	// ---- HTML: a raw marker must never reach a page
	if c.Opt.Gran == "functions" && !c.Opt.CallTree && len(c.Payload) == 1 {
		marker := "<zq" + strconv.Itoa(i) + ">\"zq='"
		q := build(c, marker+text)
		vdrv.Run(vdrv.Opts{Args: []string{"-functions", "-flat", "-http=localhost:18768", "-no_browser", "src"},
			Fetch: func(string) (*profile.Profile, error) { return q.Copy(), nil },
			HTTP: func(a *plugin.HTTPServerArgs) error {
				// "/" is the graph page: Graphviz is not installed here, so this is the path on which the external
				// tool FAILS - whatever the handler answers then, no profile text may reach the page unescaped
				for _, page := range []string{"/top", "/flamegraph", "/peek?f=.", "/source?f=.", "/"} {
					path := page
					if k := strings.Index(path, "?"); k >= 0 {
						path = path[:k]
					}
					rec := httptest.NewRecorder()
					req, _ := http.NewRequest("GET", "http://localhost"+page, nil)
					func() {
						defer func() {
							if x := recover(); x != nil {
								run.Violate("html", "html-panic:"+page, fmt.Sprint(x), raw, nil)
							}
						}()
						a.Handlers[path].ServeHTTP(rec, req)
					}()
					body := rec.Body.String()
					run.Count("html|" + c.Site + page)
					if strings.Contains(body, "<zq"+strconv.Itoa(i)+">") {
						k := strings.Index(body, "<zq"+strconv.Itoa(i)+">")
						lo := k - 80
						if lo < 0 {
							lo = 0
						}
						run.Violate("html", "html-unescaped:"+c.Site+":"+path, fmt.Sprintf("page %s contains profile text unescaped: ...%s...", page, body[lo:k+40]), raw, nil)
					}
				}
				return nil
			}})
	}
}

// callgrind positions over the whole 64-bit address space (TLC's integers are 32 bit, so these documents are decoded
// here, with the same position grammar as Callgrind.tla: absolute 0x..., relative +n / -n, * = same as before):
// every cost line and every call resolves to the address of a location of the profile
func kernelCallgrind() {
	fn := func(id uint64, n string) *profile.Function {
		return &profile.Function{ID: id, Name: n, SystemName: n, Filename: n + ".c"}
	}
	um := &profile.Mapping{ID: 1, Start: 0x400000, Limit: 0x500000, File: "/bin/prog", HasFunctions: true}
	km := &profile.Mapping{ID: 2, Start: 0xffffffff80000000, Limit: 0xffffffffc0000000, File: "[kernel.kallsyms]", HasFunctions: true}
	hm := &profile.Mapping{ID: 3, Start: 0x7fff00000000, Limit: 0x7fff10000000, File: "/lib/libc.so", HasFunctions: true}
	fs := []*profile.Function{fn(1, "umain"), fn(2, "ksys"), fn(3, "kirq"), fn(4, "libf"), fn(5, "ktop")}
	loc := func(id uint64, m *profile.Mapping, a uint64, f *profile.Function) *profile.Location {
		return &profile.Location{ID: id, Mapping: m, Address: a, Line: []profile.Line{{Function: f, Line: int64(id)}}}
	}
	ls := []*profile.Location{loc(1, um, 0x401000, fs[0]), loc(2, km, 0xffffffff81000000, fs[1]), loc(3, km, 0xffffffff81000040, fs[2]),
		loc(4, hm, 0x7fff00001234, fs[3]), loc(5, km, 0xffffffffbfffffff, fs[4])}
	p := &profile.Profile{SampleType: []*profile.ValueType{{Type: "samples", Unit: "count"}}, PeriodType: &profile.ValueType{Type: "cpu", Unit: "ns"}, Period: 1,
		Function: fs, Mapping: []*profile.Mapping{um, km, hm}, Location: ls,
		Sample: []*profile.Sample{
			{Location: []*profile.Location{ls[1], ls[0]}, Value: []int64{5}},
			{Location: []*profile.Location{ls[2], ls[1], ls[0]}, Value: []int64{3}},
			{Location: []*profile.Location{ls[4], ls[3], ls[0]}, Value: []int64{2}},
			{Location: []*profile.Location{ls[3]}, Value: []int64{1}},
			{Location: []*profile.Location{ls[4]}, Value: []int64{9}},
		}}
	want := map[uint64]bool{}
	for _, l := range ls {
		want[l.Address] = true
	}
	for _, extra := range [][]string{nil, {"-call_tree"}, {"-cum"}} {
		r := render(p, append([]string{"-callgrind"}, extra...)...)
		run.Count("callgrind-64bit|" + strings.Join(extra, ""))
		if r.Err != nil || r.Panic != nil {
			run.Violate("callgrind", "callgrind-error:64bit", fmt.Sprint(r.Err, r.Panic), nil, nil)
			continue
		}
		nodes, edges, err := vdrv.Callgrind(r.File("out"))
		if err != nil {
			run.Violate("callgrind", "callgrind-positions:64bit", fmt.Sprintf("%v\n%s", err, r.File("out")), nil, nil)
			continue
		}
		got := map[uint64]bool{}
		for _, n := range nodes {
			got[n.Addr] = true
		}
		for _, e := range edges {
			got[e.SrcAddr], got[e.DstAddr] = true, true
		}
		for a := range got {
			if !want[a] {
				run.Violate("callgrind", "callgrind-positions:64bit", fmt.Sprintf("a position resolves to %#x, which is no address of the profile\n%s", a, r.File("out")), nil, nil)
				break
			}
		}
		for a := range want {
			if !got[a] {
				run.Violate("callgrind", "callgrind-positions:64bit", fmt.Sprintf("no position resolves to %#x\n%s", a, r.File("out")), nil, nil)
				break
			}
		}
	}
}

func main() {
	run = vlib.NewRun("C18")
	var err error
	dotF, err = os.Create(run.TracePath + ".dot")
	if err != nil {
		run.Infra(err.Error())
	}
	cgF, _ = os.Create(run.TracePath + ".cg")
	run.EachCase(func(i int, raw json.RawMessage) {
		var c ecase
		if err := json.Unmarshal(raw, &c); err != nil {
			run.Infra("case decode: " + err.Error())
			return
		}
		one(raw, &c, i)
		if i%400 == 0 {
			run.Sample(json.RawMessage(raw))
		}
	})
	kernelCallgrind()
	dotF.Close()
	cgF.Close()
	run.Counter("dot_documents", nDot)
	run.Counter("callgrind_documents", nCg)
	run.Finish("cases = EmitSites.tla: 12 sites at which profile text enters the outputs (function, file, binary, build id, comment, label key/value, numeric label key/unit, sample type/unit, doc URL) x payload strings of 1-2 metacharacter classes (quote, backslash, newline, angle brackets, brace, bar, non-ASCII, ::, &, ', %s, literal \\n, </script>, backslash-quote, ], ;, -->) x {call_tree} x {functions, lines, files}; each rendered as DOT (validated character by character by DotSyntax.tla), callgrind (Callgrind.tla) and four HTML pages (raw marker scan); non-trivial = distinct (site, payload, options)")
}
