// C02 harness: renders WireSoup.tla's abstract malformed documents to bytes,
// feeds them to the real parser under recover and a watchdog, runs the
// follow-up operations on everything the parser accepts (write, copy, compact,
// every text report) and records one event per input for TraceParse.tla.
package main

import (
	"bytes"
	"compress/gzip"
	"encoding/binary"
	"encoding/json"
	"fmt"
	"os"
	"path/filepath"
	"regexp"
	"sort"
	"strings"
	"time"

	"github.com/google/pprof/internal/report"
	"github.com/google/pprof/internal/zzverif/vlib"
	"github.com/google/pprof/profile"
)

type node struct {
	Num  int64   `json:"num"`
	WT   int64   `json:"wt"`
	Kind string  `json:"kind"`
	X    int64   `json:"x"`
	Kids []int   `json:"kids"`
	S    string  `json:"s"`
	XS   []int64 `json:"xs"`
	// mutation flags
	dup, drop, overlong    bool
	trunc                  int // 0 none, 1 last byte, 2 half
	lenAdd                 int64
	garbage                int
	repeat, pack           int
	hasRepeat, hasPack, wt bool
}
type mut struct {
	Node int    `json:"node"`
	Op   string `json:"op"`
	Arg  int64  `json:"arg"`
}
type legacy struct {
	Doc string `json:"doc"`
	Mut string `json:"mut"`
	Pos int    `json:"pos"`
}
type soup struct {
	Nodes  []node `json:"nodes"`
	Top    []int  `json:"top"`
	Muts   []mut  `json:"muts"`
	Wrap   string `json:"wrap"`
	Legacy legacy `json:"legacy"`
}

var run *vlib.Run

func tok(x int64) uint64 {
	switch x {
	case 900001:
		return 1 << 63
	case 900002:
		return ^uint64(0)
	case 900003:
		return 1 << 32
	}
	return uint64(x)
}

func varint(b *bytes.Buffer, x uint64, overlong bool) {
	n := 0
	for x >= 128 {
		b.WriteByte(byte(x) | 0x80)
		x >>= 7
		n++
	}
	if overlong {
		b.WriteByte(byte(x) | 0x80)
		for n++; n < 10; n++ {
			b.WriteByte(0x80)
		}
		b.WriteByte(0x00)
		return
	}
	b.WriteByte(byte(x))
}

func (s *soup) payload(i int) []byte {
	n := &s.Nodes[i-1]
	var b bytes.Buffer
	switch n.Kind {
	case "varint":
		varint(&b, tok(n.X), n.overlong)
	case "str":
		b.WriteString(n.S)
	case "packed":
		for _, x := range n.XS {
			varint(&b, tok(x), false)
		}
	case "msg":
		switch n.garbage {
		case 1:
			b.Write(bytes.Repeat([]byte{0xff}, 7))
		case 2:
			b.Write(make([]byte, 5))
		case 3:
			b.Write([]byte{0x0a, 0x02, 0x08})
		case 4:
			// an empty message: every field at its default
		default:
			for _, k := range n.Kids {
				b.Write(s.field(k))
			}
		}
	}
	return b.Bytes()
}

// field renders node i (tag, length where the wire type needs one, payload) with its mutations.
func (s *soup) field(i int) []byte {
	n := &s.Nodes[i-1]
	if n.drop {
		return nil
	}
	one := func(x int64, usePayload bool) []byte {
		var b bytes.Buffer
		varint(&b, uint64(n.Num)<<3|uint64(n.WT), false)
		var p []byte
		if usePayload {
			p = s.payload(i)
		} else {
			var pb bytes.Buffer
			varint(&pb, tok(x), n.overlong)
			p = pb.Bytes()
		}
		switch n.WT {
		case 0:
			if n.Kind == "varint" || !usePayload {
				b.Write(p)
			} else {
				varint(&b, uint64(len(p)), false)
			}
		case 1:
			b.Write(append(p, make([]byte, 8)...)[:8])
		case 5:
			b.Write(append(p, make([]byte, 4)...)[:4])
		case 2:
			l := int64(len(p)) + n.lenAdd
			if n.lenAdd == 900001 {
				varint(&b, 1<<40, false)
			} else {
				varint(&b, uint64(l), false)
			}
			b.Write(p)
		default: // group / invalid wire types: tag followed by the payload bytes
			b.Write(p)
		}
		out := b.Bytes()
		switch n.trunc {
		case 1:
			if len(out) > 0 {
				out = out[:len(out)-1]
			}
		case 2:
			out = out[:len(out)/2]
		}
		return out
	}
	var out []byte
	switch {
	case n.hasPack:
		save := *n
		n.Kind, n.WT, n.XS = "packed", 2, nil
		for k := 0; k < n.pack; k++ {
			n.XS = append(n.XS, save.X+int64(k))
		}
		out = one(0, true)
		*n = save
	case n.hasRepeat:
		for k := 0; k < n.repeat; k++ {
			out = append(out, one(n.X+int64(k), false)...)
		}
	default:
		out = one(n.X, true)
	}
	if n.dup {
		out = append(out, out...)
	}
	return out
}

func gz(b []byte) []byte {
	var o bytes.Buffer
	w := gzip.NewWriter(&o)
	w.Write(b)
	w.Close()
	return o.Bytes()
}

func (s *soup) render() []byte {
	for _, m := range s.Muts {
		n := &s.Nodes[m.Node-1]
		switch m.Op {
		case "set":
			n.X = m.Arg
		case "wt":
			n.WT = m.Arg
		case "num":
			n.Num = m.Arg
		case "dup":
			n.dup = true
		case "drop":
			n.drop = true
		case "overlong":
			n.overlong = true
		case "truncLast":
			n.trunc = 1
		case "truncHalf":
			n.trunc = 2
		case "lenPlus1":
			n.lenAdd = 1
		case "lenHuge":
			n.lenAdd = 900001
		case "garbage":
			n.garbage = int(m.Arg)
		case "repeat":
			n.hasRepeat, n.repeat = true, int(m.Arg)
		case "pack":
			n.hasPack, n.pack = true, int(m.Arg)
		}
	}
	var b []byte
	for _, i := range s.Top {
		b = append(b, s.field(i)...)
	}
	switch s.Wrap {
	case "gzip":
		return gz(b)
	case "gzipTrunc":
		g := gz(b)
		return g[:len(g)*2/3]
	case "gzipBadMagic":
		g := gz(b)
		g[1] = 0x00
		return g
	case "gzipTwice":
		return gz(gz(b))
	case "concat":
		return append(append([]byte{}, b...), b...)
	case "empty":
		return nil
	case "gzipEmpty":
		return gz(nil)
	}
	return b
}

// ---- legacy documents ----

var testdata = map[string]string{"heap": "cppbench.heap", "heap_v2": "gobench.heap", "growth": "cppbench.growth", "contention": "cppbench.contention",
	"threadz": "cppbench.thread", "cpu64le": "cppbench.cpu", "javaheap": "java.heap", "javacont": "java.contention"}

const heapprofileDoc = "heap profile: 1: 1024 [ 2: 2048] @ heapprofile\n1: 1024 [ 2: 2048] @ 0x10 0x20\n\nMAPPED_LIBRARIES:\n00400000-00401000 r-xp 00000000 00:00 0 /bin/prog\n"
const gocountDoc = "goroutine profile: total 3\n2 @ 0x10 0x20 0x30\n#\t0x10\tmain.f+0x0\tx.go:1\n\n1 @ 0x40\n"
const mutexDoc = "--- mutex:\ncycles/second=1000\nsampling period=5\n2000 3 @ 0x10 0x20\n100 1 @ 0x30\n"

func cpu32be() []byte {
	w := []uint32{0, 3, 0, 100, 0, 2, 2, 0x10, 0x20, 1, 1, 0x30, 0, 1, 0}
	var b bytes.Buffer
	for _, x := range w {
		binary.Write(&b, binary.BigEndian, x)
	}
	b.WriteString("00400000-00401000 r-xp 00000000 00:00 0 /bin/prog\n")
	return b.Bytes()
}

var numRE = regexp.MustCompile(`(0x[0-9a-fA-F]+|[0-9]+)`)

func legacyBytes(l legacy) ([]byte, bool) {
	var doc []byte
	switch l.Doc {
	case "heapprofile":
		doc = []byte(heapprofileDoc)
	case "gocount":
		doc = []byte(gocountDoc)
	case "mutex":
		doc = []byte(mutexDoc)
	case "cpu32be":
		doc = cpu32be()
	default:
		repo := os.Getenv("VERIF_REPO")
		if repo == "" {
			repo = "/repo"
		}
		b, err := os.ReadFile(filepath.Join(repo, "profile", "testdata", testdata[l.Doc]))
		if err != nil {
			run.Infra("testdata: " + err.Error())
			return nil, false
		}
		doc = b
	}
	binaryDoc := strings.HasPrefix(l.Doc, "cpu")
	nthNum := func(repl string) []byte {
		locs := numRE.FindAllIndex(doc, -1)
		if len(locs) == 0 {
			return doc
		}
		k := locs[(l.Pos*7+3)%len(locs)]
		return append(append(append([]byte{}, doc[:k[0]]...), repl...), doc[k[1]:]...)
	}
	lines := func() [][]byte { return bytes.SplitAfter(doc, []byte("\n")) }
	switch l.Mut {
	case "none":
	case "numNonNumeric":
		if binaryDoc {
			return nil, false
		}
		doc = nthNum("zz")
	case "numHuge":
		if binaryDoc {
			return nil, false
		}
		doc = nthNum("99999999999999999999999")
	case "numNegative":
		if binaryDoc {
			return nil, false
		}
		doc = nthNum("-5")
	case "numEmpty":
		if binaryDoc {
			return nil, false
		}
		doc = nthNum("")
	case "addrOverflow":
		if binaryDoc {
			return nil, false
		}
		doc = nthNum("0xffffffffffffffffff")
	case "dropAt":
		idx := bytes.Index(doc, []byte("@"))
		for k := 0; k < l.Pos && idx >= 0; k++ {
			n := bytes.Index(doc[idx+1:], []byte("@"))
			if n < 0 {
				break
			}
			idx += 1 + n
		}
		if idx < 0 {
			return nil, false
		}
		doc = append(append([]byte{}, doc[:idx]...), doc[idx+1:]...)
	case "dropLine", "dupLine", "garbageLine":
		ls := lines()
		k := (l.Pos * 3) % len(ls)
		var out [][]byte
		for i, x := range ls {
			if i == k {
				switch l.Mut {
				case "dropLine":
					continue
				case "dupLine":
					out = append(out, x)
				case "garbageLine":
					out = append(out, []byte("\x00\xff garbage @ : --- \n"))
				}
			}
			out = append(out, x)
		}
		doc = bytes.Join(out, nil)
	case "emptyStack":
		// a record without any address: in thread dumps the frames of one thread are removed or replaced by the
		// "same as previous" marker (also for the very first thread); elsewhere nothing follows the '@'
		if binaryDoc {
			return nil, false
		}
		ls := lines()
		var out [][]byte
		if l.Doc == "threadz" {
			thread := -1
			for _, x := range ls {
				t := bytes.TrimSpace(x)
				if bytes.HasPrefix(t, []byte("--- Thread")) {
					thread++
					out = append(out, x)
					if thread == 0 && l.Pos%4 == 1 || l.Pos%4 == 2 {
						out = append(out, []byte("  [same as previous thread]\n"))
					}
					continue
				}
				isFrame := bytes.HasPrefix(t, []byte("PC:")) || bytes.HasPrefix(t, []byte("0x")) || bytes.HasPrefix(t, []byte("creator:")) || bytes.HasPrefix(t, []byte("[same"))
				if isFrame && thread >= 0 && (thread == 0 && l.Pos%4 <= 1 || l.Pos%4 == 2 || thread == 1 && l.Pos%4 == 3) {
					continue
				}
				out = append(out, x)
			}
		} else {
			k := 0
			for _, x := range ls {
				if i := bytes.IndexByte(x, '@'); i >= 0 && !bytes.HasPrefix(x, []byte("heap profile")) && !bytes.Contains(x, []byte("heap")) {
					if k == l.Pos {
						x = append(append([]byte{}, x[:i+1]...), '\n')
					}
					k++
				}
				out = append(out, x)
			}
		}
		doc = bytes.Join(out, nil)
	case "truncFrac":
		doc = doc[:len(doc)*(l.Pos+1)/(l.Pos+3)]
	case "crlf":
		if binaryDoc {
			return nil, false
		}
		doc = bytes.ReplaceAll(doc, []byte("\n"), []byte("\r\n"))
	case "dropMapHeader":
		doc = bytes.Replace(doc, []byte("MAPPED_LIBRARIES:"), nil, 1)
		doc = bytes.Replace(doc, []byte("--- Memory map: ---"), nil, 1)
	case "mapAnonHuge", "mapEmpty", "mapOddName":
		// replace the memory map by one holding a single /anon_hugepage mapping, or nothing at all
		for _, marker := range []string{"MAPPED_LIBRARIES:", "--- Memory map: ---"} {
			if k := bytes.Index(doc, []byte(marker)); k >= 0 {
				doc = doc[:k]
			}
		}
		if binaryDoc {
			return nil, false
		}
		doc = append(append([]byte{}, doc...), []byte("\n--- Memory map: ---\n")...)
		if l.Mut == "mapOddName" {
			// an executable mapping whose file name is nothing but decoration, ahead of an ordinary one
			names := []string{"(deleted)", "[", "(deleted)(deleted)", "[vdso] (deleted)", " (deleted) ", "[]", "(deleted) /x", "/", "//anon", "[stack:1]", "(deleted", "\t(deleted)"}
			doc = append(doc, []byte("00400000-00401000 r-xp 00000000 00:00 0 "+names[l.Pos%len(names)]+"\n")...)
			doc = append(doc, []byte("00500000-00600000 r-xp 00000000 00:00 0 /bin/x\n")...)
		}
		if l.Mut == "mapAnonHuge" {
			names := []string{"/anon_hugepage (deleted)", "/anon_hugepage", "/anon_hugepagexyz"}
			doc = append(doc, []byte("00400000-00500000 r-xp 00000000 00:00 0 "+names[l.Pos%3]+"\n")...)
		}
	case "mapGarbage":
		doc = append(doc, []byte("\nMAPPED_LIBRARIES:\nzzzz-yyyy r-xp q\n-\n00400000-003ff000 r-xp 00000000 00:00 0 /x\nffffffffffffffffff-0 r-xp 0 0 0\n")...)
	case "nstkHuge", "noEndMarker", "wordSwap":
		if !binaryDoc {
			return nil, false
		}
		word := 8
		order := binary.ByteOrder(binary.LittleEndian)
		if l.Doc == "cpu32be" {
			word, order = 4, binary.BigEndian
		}
		put := func(off int, v uint64) {
			if off+word > len(doc) {
				return
			}
			if word == 8 {
				order.PutUint64(doc[off:], v)
			} else {
				order.PutUint32(doc[off:], uint32(v))
			}
		}
		doc = append([]byte{}, doc...)
		switch l.Mut {
		case "nstkHuge":
			vals := []uint64{1 << 63, ^uint64(0), 1 << 31, 1 << 20}
			put(6*word, vals[l.Pos%4]) // the depth word of the first sample record
		case "noEndMarker":
			if len(doc) > 16*word {
				doc = doc[:(6+l.Pos)*word]
			}
		case "wordSwap":
			put((l.Pos%5)*word, uint64(7+l.Pos))
		}
	default:
		return nil, false
	}
	return doc, true
}

// ---- running the real code ----

type follow struct {
	Name    string `json:"name"`
	Outcome string `json:"outcome"`
}
type shape struct {
	NST     int        `json:"nst"`
	Fns     []int      `json:"fns"`
	Maps    []int      `json:"maps"`
	Locs    []shapeLoc `json:"locs"`
	Samples []shapeSmp `json:"samples"`
}
type shapeLoc struct {
	ID    int   `json:"id"`
	Map   int   `json:"map"`
	Lines []int `json:"lines"`
}
type shapeSmp struct {
	NVals int   `json:"nvals"`
	Locs  []int `json:"locs"`
}
type parseEvent struct {
	Op      string   `json:"op"`
	N       int      `json:"n"`
	Kind    string   `json:"kind"`
	Outcome string   `json:"outcome"`
	Ms      int64    `json:"ms"`
	Out     shape    `json:"out"`
	Follow  []follow `json:"follow"`
	Fix     bool     `json:"fix"`
	Bytes   bool     `json:"bytes"`
}

// guard runs f under recover and a watchdog.
func guard(f func() error) string {
	done := make(chan string, 1)
	go func() {
		defer func() {
			if r := recover(); r != nil {
				done <- fmt.Sprintf("panic: %v", r)
			}
		}()
		if err := f(); err != nil {
			done <- "err"
			return
		}
		done <- "ok"
	}()
	select {
	case s := <-done:
		return s
	case <-time.After(20 * time.Second):
		return "timeout"
	}
}

// rank compresses ids: 0 stays 0, nil pointers are -1, other ids get dense ranks (only equality matters).
type ranker map[uint64]int

func (r ranker) of(id uint64) int {
	if id == 0 {
		return 0
	}
	if v, ok := r[id]; ok {
		return v
	}
	r[id] = len(r) + 1
	return r[id]
}

func shapeOf(p *profile.Profile) shape {
	sh := shape{NST: len(p.SampleType), Fns: []int{}, Maps: []int{}, Locs: []shapeLoc{}, Samples: []shapeSmp{}}
	fr, mr, lr := ranker{}, ranker{}, ranker{}
	for _, f := range p.Function {
		if f == nil {
			sh.Fns = append(sh.Fns, -1)
			continue
		}
		sh.Fns = append(sh.Fns, fr.of(f.ID))
	}
	for _, m := range p.Mapping {
		if m == nil {
			sh.Maps = append(sh.Maps, -1)
			continue
		}
		sh.Maps = append(sh.Maps, mr.of(m.ID))
	}
	for _, l := range p.Location {
		if l == nil {
			sh.Locs = append(sh.Locs, shapeLoc{ID: -1, Lines: []int{}})
			continue
		}
		x := shapeLoc{ID: lr.of(l.ID), Lines: []int{}}
		if l.Mapping != nil {
			x.Map = mr.of(l.Mapping.ID)
		}
		for _, ln := range l.Line {
			if ln.Function == nil {
				x.Lines = append(x.Lines, -1)
			} else {
				x.Lines = append(x.Lines, fr.of(ln.Function.ID))
			}
		}
		sh.Locs = append(sh.Locs, x)
	}
	for _, s := range p.Sample {
		if s == nil {
			sh.Samples = append(sh.Samples, shapeSmp{NVals: -1, Locs: []int{}})
			continue
		}
		x := shapeSmp{NVals: len(s.Value), Locs: []int{}}
		for _, l := range s.Location {
			if l == nil {
				x.Locs = append(x.Locs, -1)
			} else {
				x.Locs = append(x.Locs, lr.of(l.ID))
			}
		}
		sh.Samples = append(sh.Samples, x)
	}
	return sh
}

var formats = map[string]int{"text": report.Text, "tree": report.Tree, "traces": report.Traces, "tags": report.Tags, "raw": report.Raw,
	"dot": report.Dot, "callgrind": report.Callgrind, "topproto": report.TopProto, "proto": report.Proto}

func feed(n int, kind string, data []byte, concrete interface{}) {
	ev := parseEvent{Op: "parse", N: n, Kind: kind, Follow: []follow{}, Out: shape{Fns: []int{}, Maps: []int{}, Locs: []shapeLoc{}, Samples: []shapeSmp{}}}
	var p *profile.Profile
	t0 := time.Now()
	ev.Outcome = guard(func() error {
		var err error
		p, err = profile.ParseData(data)
		return err
	})
	ev.Ms = time.Since(t0).Milliseconds()
	if strings.HasPrefix(ev.Outcome, "panic") {
		run.Note(fmt.Sprintf("event %d: %s", n, ev.Outcome))
		ev.Outcome = "panic"
	}
	nt := ""
	if ev.Outcome == "ok" && p != nil {
		nt = fmt.Sprintf("ok:%s", kind)
		ev.Out = shapeOf(p)
		// a panic inside the library may leave the profile's encode lock held: after the first
		// panic or timeout the profile is not used again (the event is rejected anyway)
		dead := false
		add := func(name string, f func() error) {
			if dead {
				return
			}
			o := guard(f)
			if strings.HasPrefix(o, "panic") {
				run.Note(fmt.Sprintf("event %d follow-up %s: %s", n, name, o))
				o = "panic"
			}
			if o == "panic" || o == "timeout" {
				dead = true
			}
			ev.Follow = append(ev.Follow, follow{name, o})
		}
		var w1 []byte
		add("write", func() error {
			var b bytes.Buffer
			err := p.Copy().WriteUncompressed(&b)
			w1 = b.Bytes()
			return err
		})
		add("copy", func() error { return p.Copy().CheckValid() })
		add("compact", func() error { return p.Copy().Compact().CheckValid() })
		// a profile that was serialised once is edited and serialised again (state carried by the encoder between
		// the two: string indices cached in the profile must be rebuilt): labels and half of the samples go, so the
		// string table shrinks in front of the comments; the second document parses back with the same comments
		add("rewrite", func() error {
			q := p.Copy()
			var b1, b2 bytes.Buffer
			if err := q.WriteUncompressed(&b1); err != nil {
				return err
			}
			for _, s := range q.Sample {
				s.Label, s.NumLabel, s.NumUnit = nil, nil, nil
			}
			q.Sample = q.Sample[:len(q.Sample)/2]
			q.DropFrames, q.KeepFrames = "", ""
			if err := q.WriteUncompressed(&b2); err != nil {
				return err
			}
			q2, err := profile.ParseUncompressed(b2.Bytes())
			if err != nil {
				panic("the second serialisation of an edited profile does not parse: " + err.Error())
			}
			if fmt.Sprint(q2.Comments) != fmt.Sprint(q.Comments) || len(q2.Sample) != len(q.Sample) {
				panic(fmt.Sprintf("the second serialisation of an edited profile has comments %q and %d samples, the profile has %q and %d", q2.Comments, len(q2.Sample), q.Comments, len(q.Sample)))
			}
			return nil
		})
		names := make([]string, 0, len(formats))
		for k := range formats {
			names = append(names, k)
		}
		sort.Strings(names)
		for _, name := range names {
			f := formats[name]
			add("report:"+name, func() error {
				q := p.Copy()
				if len(q.SampleType) == 0 {
					return fmt.Errorf("no sample types")
				}
				rpt := report.NewDefault(q, report.Options{OutputFormat: f, NodeFraction: 0.005, EdgeFraction: 0.001, NodeCount: 80})
				var b bytes.Buffer
				return report.Generate(&b, rpt, nil)
			})
		}
		// what the parser returns survives write-then-parse unchanged and re-serialises identically (C01)
		ev.Fix, ev.Bytes = false, false
		if !dead {
			guard(func() error {
				q, err := profile.ParseUncompressed(w1)
				if err != nil {
					return err
				}
				var b2 bytes.Buffer
				q.WriteUncompressed(&b2)
				ev.Fix = vlib.ProjectFull(q).Equal(vlib.ProjectFull(p))
				ev.Bytes = bytes.Equal(w1, b2.Bytes())
				return nil
			})
		}
	} else if ev.Outcome == "err" {
		nt = "err:" + kind
	}
	run.Count(nt)
	run.Event(ev)
	run.Aux(map[string]interface{}{"n": n, "kind": kind, "input": concrete, "hex": fmt.Sprintf("%x", clip(data))})
}

func clip(b []byte) []byte {
	if len(b) > 4096 {
		return b[:4096]
	}
	return b
}

func main() {
	run = vlib.NewRun("C02")
	n := 0
	run.EachCase(func(i int, raw json.RawMessage) {
		var s soup
		if err := json.Unmarshal(raw, &s); err != nil {
			run.Infra("case decode: " + err.Error())
			return
		}
		if strings.HasPrefix(s.Legacy.Doc, "tiny:") {
			var data []byte
			switch strings.TrimPrefix(s.Legacy.Doc, "tiny:") {
			case "scalar":
				data = []byte{0x48, 0x01} // time_nanos = 1, nothing else
			case "emptymsg":
				data = []byte{0x0a, 0x00} // one empty sample_type message
			case "unknownonly":
				data = []byte{0xa0, 0x06, 0x05, 0xaa, 0x06, 0x01, 0x78} // fields 100 and 101 only
			case "twoscalars":
				data = []byte{0x48, 0x01, 0x50, 0x02}
			case "emptystring":
				data = []byte{0x32, 0x00} // the string table holds only ""
			case "onlycomment":
				data = []byte{0x68, 0x00}
			}
			if s.Wrap == "gzip" {
				data = gz(data)
			}
			feed(n, "tiny:"+s.Wrap, data, s.Legacy)
			n++
			return
		}
		if s.Legacy.Doc != "" {
			data, ok := legacyBytes(s.Legacy)
			if !ok {
				return
			}
			feed(n, "legacy:"+s.Legacy.Doc+":"+s.Legacy.Mut, data, s.Legacy)
			n++
			return
		}
		kind := "proto"
		for _, m := range s.Muts {
			kind += ":" + m.Op
		}
		if s.Wrap != "none" {
			kind += ":" + s.Wrap
		}
		feed(n, kind, s.render(), map[string]interface{}{"muts": s.Muts, "wrap": s.Wrap})
		n++
		if i%1500 == 0 {
			run.Sample(map[string]interface{}{"muts": s.Muts, "wrap": s.Wrap, "legacy": s.Legacy})
		}
	})
	// seeds: the fuzz corpus and every testdata profile, plus byte-level noise on top of them
	repo := os.Getenv("VERIF_REPO")
	if repo == "" {
		repo = "/repo"
	}
	r := vlib.NewRand(run.Seed + 2)
	var seeds [][]byte
	for _, pat := range []string{"fuzz/testdata/*", "profile/testdata/*", "internal/driver/testdata/*.pb*", "internal/report/testdata/*.prof"} {
		ms, _ := filepath.Glob(filepath.Join(repo, pat))
		for _, m := range ms {
			if b, err := os.ReadFile(m); err == nil && len(b) < 1<<20 && !strings.HasSuffix(m, ".string") {
				seeds = append(seeds, b)
				feed(n, "seed-file", b, filepath.Base(m))
				n++
			}
		}
	}
	for it := 0; it < run.N && len(seeds) > 0; it++ {
		b := append([]byte{}, seeds[r.Intn(len(seeds))]...)
		if len(b) == 0 {
			continue
		}
		for k := 1 + r.Intn(3); k > 0; k-- {
			switch r.Intn(4) {
			case 0:
				b[r.Intn(len(b))] ^= byte(1 << uint(r.Intn(8)))
			case 1:
				b = b[:r.Intn(len(b))+1]
			case 2:
				j := r.Intn(len(b))
				b = append(append(append([]byte{}, b[:j]...), byte(r.Intn(256))), b[j:]...)
			case 3:
				j := r.Intn(len(b))
				b[j] = 0xff
			}
		}
		feed(n, "noise", b, fmt.Sprintf("noise %d", it))
		n++
	}
	run.Finish("inputs = every terminal state of WireSoup.tla (single point mutations of every node of a valid profile.proto document x 14 mutation classes, pairs of value mutations across tables, 8 wrappers; 12 legacy documents x 17 mutation classes x positions) rendered to bytes, plus the repository's corpus/testdata files and seeded byte noise on them; each fed to ParseData under recover and a watchdog, accepted profiles then written, copied, compacted and rendered in 9 report formats; non-trivial = distinct (mutation class, outcome) buckets")
}
