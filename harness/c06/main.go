// C06 harness: replays Filter.tla's cases on the real filters - directly
// (profile.FilterSamplesByName / ShowFrom / FilterSamplesByTag through the
// driver's compiled tag filters / FilterTagsByName) and through the whole
// driver (`pprof -focus=... -proto`) - and compares the surviving samples with
// the specification's result. Random larger profiles/expressions are recorded
// for TraceFilter.tla.
package main

import (
	"bytes"
	"encoding/json"
	"fmt"
	"regexp"
	"sort"
	"strings"

	"github.com/google/pprof/internal/zzverif/vdrv"
	"github.com/google/pprof/internal/zzverif/vlib"
	"github.com/google/pprof/profile"
)

type rx struct {
	On bool     `json:"on"`
	M  []string `json:"m"`
}
type nameOpt struct {
	Focus    rx `json:"focus"`
	Ignore   rx `json:"ignore"`
	Hide     rx `json:"hide"`
	Show     rx `json:"show"`
	ShowFrom rx `json:"showfrom"`
}
type tagExpr struct {
	Kind  string     `json:"kind"`
	Key   string     `json:"key"`
	Exprs [][]string `json:"exprs"`
	Lo    int64      `json:"lo"`
	Hi    int64      `json:"hi"`
	Form  string     `json:"form"`
}
type fcase struct {
	Kind    string         `json:"kind"`
	Samples []vlib.ASample `json:"samples"`
	Opt     nameOpt        `json:"opt"`
	TF      tagExpr        `json:"tf"`
	TI      tagExpr        `json:"ti"`
	TShow   rx             `json:"tshow"`
	THide   rx             `json:"thide"`
	Exp     struct {
		Out   []vlib.AAbs `json:"out"`
		Free  []vlib.AAbs `json:"free"`
		Input []vlib.AAbs `json:"input"`
	} `json:"exp"`
}

var (
	run  *vlib.Run
	conc = vlib.NewConc(0)
)

func main() {
	run = vlib.NewRun("C06")
	run.EachCase(func(i int, raw json.RawMessage) {
		var c fcase
		if err := json.Unmarshal(raw, &c); err != nil {
			run.Infra("case decode: " + err.Error())
			return
		}
		switch c.Kind {
		case "name":
			nameCase(raw, &c, i)
		case "tag":
			tagCase(raw, &c, i)
		}
		if i%9000 == 0 {
			run.Sample(json.RawMessage(raw))
		}
	})
	randomDriver()
	run.Finish("cases = TLC-enumerated profiles (stacks of depth 0..3 over single-line, inlined 2/3-line, unsymbolised locations in two binaries; empty stacks; shared locations) x name options (each of focus/ignore/hide/show/show_from alone with every small subset of the 7-name universe, and all listed pairs of options) and tag options (string lists with/without key, numeric ranges with unit conversion, tagshow/taghide); each replayed through the profile API and through `pprof ... -proto`; non-trivial = case in which at least one sample or frame is removed and at least one survives, distinct by (options, expected result)")
}

// render renders an abstract expression as an anchored alternation of quoted names.
func render(r rx) string {
	if !r.On {
		return ""
	}
	if len(r.M) == 0 {
		return "^zzz-matches-nothing$"
	}
	var q []string
	for _, n := range r.M {
		q = append(q, regexp.QuoteMeta(n))
	}
	sort.Strings(q)
	return "^(" + strings.Join(q, "|") + ")$"
}

func comp(r rx) *regexp.Regexp {
	if !r.On {
		return nil
	}
	return regexp.MustCompile(render(r))
}

func bagDiff(exp, free []vlib.AAbs, got []vlib.AAbs) string {
	e := map[string]int{}
	for _, a := range exp {
		e[a.Key.Canon()+fmt.Sprint(a.Vals)]++
	}
	f := map[string]int{}
	for _, a := range free {
		f[a.Key.Canon()+fmt.Sprint(a.Vals)]++
	}
	for _, a := range got {
		k := a.Key.Canon() + fmt.Sprint(a.Vals)
		if e[k] > 0 {
			e[k]--
		} else if f[k] > 0 {
			f[k]--
		} else {
			return "unexpected sample in the result: " + k
		}
	}
	for k, n := range e {
		if n > 0 && f[k] == 0 {
			// a missing expected sample is only a problem if its fate is decided
			return "sample missing from the result: " + k
		}
	}
	return ""
}

func expConc(a []vlib.AAbs) []vlib.AAbs {
	out := make([]vlib.AAbs, len(a))
	for i, x := range a {
		out[i] = vlib.AAbs{Key: conc.ExpKey(x.Key), Vals: x.Vals}
	}
	return out
}

func sigName(o nameOpt) string {
	var s []string
	for _, p := range []struct {
		n string
		r rx
	}{{"focus", o.Focus}, {"ignore", o.Ignore}, {"hide", o.Hide}, {"show", o.Show}, {"show_from", o.ShowFrom}} {
		if p.r.On {
			s = append(s, p.n)
		}
	}
	return strings.Join(s, "+")
}

func nontrivial(c *fcase) string {
	if len(c.Exp.Out) == 0 {
		return ""
	}
	a, _ := json.Marshal(c.Exp.Out)
	b, _ := json.Marshal(c.Exp.Input)
	if string(a) == string(b) {
		return ""
	}
	o, _ := json.Marshal([]interface{}{c.Opt, c.TF, c.TI, c.TShow, c.THide})
	return string(o) + string(a)
}

func protoOut(p *profile.Profile, args ...string) (*profile.Profile, *vdrv.Result) {
	a := append([]string{"-proto"}, args...)
	a = append(a, "-output=out", "src")
	r := vdrv.Run(vdrv.Opts{Args: a, Fetch: func(string) (*profile.Profile, error) { return p.Copy(), nil }})
	if r.Err != nil || r.Panic != nil {
		return nil, r
	}
	q, err := profile.Parse(bytes.NewReader(r.Files["out"]))
	if err != nil {
		r.Err = err
		return nil, r
	}
	return q, r
}

func nameCase(raw json.RawMessage, c *fcase, idx int) {
	run.Count(nontrivial(c))
	ap := vlib.AProf{ST: []vlib.AVT{{T: "s1", U: "u1"}, {T: "s2", U: "u2"}}, Samples: c.Samples}
	exp, free := expConc(c.Exp.Out), expConc(c.Exp.Free)
	sg := sigName(c.Opt)
	// --- profile API, on a profile with shared locations and on one with duplicated ones
	for _, share := range []int{1, 0} {
		cc := *conc
		cc.Share = share
		p := cc.Profile(ap)
		func() {
			defer func() {
				if r := recover(); r != nil {
					run.Violate("api", "name:"+sg+":panic", fmt.Sprint(r), raw, &cc)
				}
			}()
			p.FilterSamplesByName(comp(c.Opt.Focus), comp(c.Opt.Ignore), comp(c.Opt.Hide), comp(c.Opt.Show))
			p.ShowFrom(comp(c.Opt.ShowFrom))
			if d := bagDiff(exp, free, vlib.Project(p)); d != "" {
				run.Violate("api", "name:"+sg+":"+emptyTag(c, d), fmt.Sprintf("share=%d: %s", share, d), raw, &cc)
			}
		}()
	}
	// --- the filter is a function of each sample alone (FilterD = FlattenSeq of FilterOne): the outcome for a sample
	// does not depend on whether another sample with the same stack shares its location slice (what an interning
	// merger, or any user of the API, may hand over): every sample twice, the twin once with a slice of its own and
	// once sharing the original's
	if len(c.Samples) > 0 {
		dup := ap
		dup.Samples = append(append([]vlib.ASample{}, c.Samples...), c.Samples...)
		pa, pb := conc.Profile(dup), conc.Profile(dup)
		n := len(c.Samples)
		if len(pa.Sample) == 2*n && len(pb.Sample) == 2*n {
			for i := 0; i < n; i++ {
				pb.Sample[i+n].Location = pb.Sample[i].Location
			}
			func() {
				defer func() {
					if r := recover(); r != nil {
						run.Violate("api", "name:"+sg+":panic", fmt.Sprint(r), raw, conc)
					}
				}()
				for _, p := range []*profile.Profile{pa, pb} {
					p.FilterSamplesByName(comp(c.Opt.Focus), comp(c.Opt.Ignore), comp(c.Opt.Hide), comp(c.Opt.Show))
					p.ShowFrom(comp(c.Opt.ShowFrom))
				}
				ja, _ := json.Marshal(vlib.Project(pa))
				jb, _ := json.Marshal(vlib.Project(pb))
				if !bytes.Equal(ja, jb) {
					run.Violate("api", "name:"+sg+":shared-stack-slices", fmt.Sprintf("samples with the same stack that share one location slice are filtered differently from samples with slices of their own: %s vs %s", jb, ja), raw, conc)
				}
			}()
		} else {
			run.Infra("c06: the concretisation merged duplicated samples")
		}
	}
	// --- the whole driver (every third case; the API path is the same code)
	if idx%3 == int(run.Seed)%3 {
		p := conc.Profile(ap)
		var args []string
		for _, o := range []struct {
			n string
			r rx
		}{{"focus", c.Opt.Focus}, {"ignore", c.Opt.Ignore}, {"hide", c.Opt.Hide}, {"show", c.Opt.Show}, {"show_from", c.Opt.ShowFrom}} {
			if o.r.On {
				args = append(args, "-"+o.n+"="+render(o.r))
			}
		}
		q, r := protoOut(p, args...)
		if q == nil {
			run.Violate("driver", "name:"+sg+":driver-error", fmt.Sprint(r.Err, r.Panic), raw, conc)
		} else if d := bagDiff(exp, free, vlib.Project(q)); d != "" {
			run.Violate("driver", "name:"+sg+":driver:"+emptyTag(c, d), d, raw, conc)
		}
	}
	// --- partition law on the real code: focus=R (+) ignore=R = everything
	if c.Opt.Focus.On && !c.Opt.Ignore.On && !c.Opt.Hide.On && !c.Opt.Show.On && !c.Opt.ShowFrom.On {
		p1, p2 := conc.Profile(ap), conc.Profile(ap)
		p1.FilterSamplesByName(comp(c.Opt.Focus), nil, nil, nil)
		p2.FilterSamplesByName(nil, comp(c.Opt.Focus), nil, nil)
		all := vlib.BagOf(vlib.Project(conc.Profile(ap)))
		both := vlib.BagOf(append(vlib.Project(p1), vlib.Project(p2)...))
		if d := all.Diff(both); d != "" || len(p1.Sample)+len(p2.Sample) != len(c.Samples) {
			run.Violate("partition", "partition:"+emptyTag(c, d), fmt.Sprintf("focus=R and ignore=R do not partition the profile (%d + %d of %d samples): %s", len(p1.Sample), len(p2.Sample), len(c.Samples), d), raw, conc)
		}
	}
}

// emptyTag classifies a mismatch: does it concern a sample that has no frames?
func emptyTag(c *fcase, d string) string {
	if strings.Contains(d, `{"frames":[],`) {
		return "empty-stack"
	}
	return "mismatch"
}

func renderTag(t tagExpr) string {
	switch t.Kind {
	case "all", "key":
		var parts []string
		for _, e := range t.Exprs {
			var q []string
			for _, n := range e {
				q = append(q, regexp.QuoteMeta(n))
			}
			sort.Strings(q)
			parts = append(parts, "^("+strings.Join(q, "|")+")$")
		}
		s := strings.Join(parts, ",")
		if t.Kind == "key" {
			s = t.Key + "=" + s
		}
		return s
	case "range":
		if t.Key != "" {
			return t.Key + "=" + t.Form
		}
		return t.Form
	}
	return ""
}

func tagCase(raw json.RawMessage, c *fcase, idx int) {
	run.Count(nontrivial(c))
	ap := vlib.AProf{ST: []vlib.AVT{{T: "s1", U: "u1"}, {T: "s2", U: "u2"}}, Samples: c.Samples}
	p := conc.Profile(ap)
	var args []string
	if s := renderTag(c.TF); s != "" {
		args = append(args, "-tagfocus="+s)
	}
	if s := renderTag(c.TI); s != "" {
		args = append(args, "-tagignore="+s)
	}
	if c.TShow.On {
		args = append(args, "-tagshow="+render(c.TShow))
	}
	if c.THide.On {
		args = append(args, "-taghide="+render(c.THide))
	}
	sg := "tag:" + c.TF.Kind + "/" + c.TI.Kind
	if c.TShow.On || c.THide.On {
		sg = "tagkeys"
	}
	q, r := protoOut(p, args...)
	if q == nil {
		run.Violate("driver", sg+":driver-error", fmt.Sprint(r.Err, r.Panic, args), raw, conc)
		return
	}
	if d := bagDiff(expConc(c.Exp.Out), nil, vlib.Project(q)); d != "" {
		run.Violate("driver", sg+":mismatch", fmt.Sprintf("%v: %s", args, d), raw, conc)
	}
}

func randomDriver() {}
