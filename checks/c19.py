"""C19 - saved view configurations are durable and faithfully restored."""
import json
import os
import re
import shutil
import subprocess

from lib import vcheck


def strace_events(path, settings_dir):
    """Turn an strace log into the abstract syscall events on the settings directory."""
    fds = {}
    events = []
    target = os.path.join(settings_dir, "settings.json")
    for line in open(path, errors="replace"):
        m = re.match(r"^(\d+)\s+(\w+)\((.*)\)\s+=\s+(-?\d+)", line)
        if not m:
            continue
        pid, call, args, ret = m.group(1), m.group(2), m.group(3), int(m.group(4))
        if call in ("openat", "open") and ret >= 0:
            pm = re.search(r'"([^"]*)"', args)
            if pm and pm.group(1).startswith(settings_dir):
                p = pm.group(1)
                fds[ret] = p
                if "O_TRUNC" in args and p == target and ("O_WRONLY" in args or "O_RDWR" in args):
                    events.append({"op": "open_trunc"})
                elif p != target and "O_CREAT" in args:
                    events.append({"op": "create_tmp"})
                else:
                    events.append({"op": "read"})
        elif call == "write" and ret >= 0:
            fd = int(args.split(",")[0])
            if fd in fds:
                events.append({"op": "write_target" if fds[fd] == target else "write_tmp", "last": False})
        elif call == "close":
            fd = int(args.split(",")[0]) if args.split(",")[0].strip().isdigit() else -1
            if fd in fds:
                # the last write before close completes the contents
                for e in reversed(events):
                    if e["op"].startswith("write"):
                        e["last"] = True
                        break
                events.append({"op": "close"})
                del fds[fd]
        elif call in ("rename", "renameat", "renameat2") and ret == 0:
            ps = re.findall(r'"([^"]*)"', args)
            if len(ps) >= 2 and ps[-1] == target:
                events.append({"op": "rename"})
        elif call == "fsync":
            events.append({"op": "fsync"})
    return events


def run(ctx, replay):
    binary = ctx.build("c19")
    xdg = ctx.env["XDG_CONFIG_HOME"]
    sdir = os.path.join(xdg, "pprof")
    spath = os.path.join(sdir, "settings.json")
    if replay:
        raise vcheck.Infra("rerun `bin/check C19` (violations are histories / crash points recorded in the replay file)")
    # 1. the design space: only rename + lock satisfies AtomicOnDisk and Serializable
    ctx.tlc("Settings", "MCSettings.cfg", consts={"Strategy": "rename", "Locked": True}, timeout=600, name="Settings(rename,lock)")
    for strat, locked in (("inplace", True), ("inplace", False), ("rename", False)):
        g = ctx.tlc("Settings", "MCSettings.cfg", consts={"Strategy": strat, "Locked": locked}, expect_ok=False, timeout=600, name="Settings(%s,%s)" % (strat, locked))
        if not g["violated"]:
            raise vcheck.Infra("vacuity guard: design (%s, lock=%s) was not rejected" % (strat, locked))
    # 2. sequential histories, URL round trips, gated pairs on the real handlers
    cases = os.path.join(ctx.scratch, "cases.ndjson")
    ctx.tlc("Settings", "MCSettings.cfg", consts={"Strategy": "rename", "Locked": True, "Emit": True}, emit_to=cases, timeout=600, name="GenSettings")
    ctx.harness(binary, cases=cases, n=0)
    # 3. crash points of the real save path: record the syscalls, let TLC evaluate AtomicOnDisk at every crash point
    def child(query, pre=None, strace_args=None):
        log = os.path.join(ctx.scratch, "strace.log")
        cmd = [binary, "-out", os.path.join(ctx.scratch, "child.json"), "-extra", "child=" + query]
        if strace_args is not None:
            cmd = ["strace", "-f", "-qq", "-o", log] + strace_args + cmd
        p = subprocess.run(cmd, env=ctx.env, capture_output=True, text=True, errors="replace", timeout=120)
        return p, log

    def file_state():
        if not os.path.exists(spath):
            return "absent", None
        raw = open(spath, "rb").read()
        try:
            return "ok", json.loads(raw)
        except Exception:
            return "torn(%d bytes)" % len(raw), None

    shutil.rmtree(sdir, ignore_errors=True)
    child("/saveconfig?config=old&f=before")
    st, old = file_state()
    if st != "ok":
        raise vcheck.Infra("could not create the initial settings file: %s" % st)
    p, log = child("/saveconfig?config=new&h=after", strace_args=["-e", "trace=openat,open,write,close,rename,renameat,renameat2,fsync"])
    st, new = file_state()
    events = strace_events(log, sdir)
    if not any(e["op"].startswith("write") for e in events):
        raise vcheck.Infra("no write to the settings directory was recorded by strace\n" + open(log, errors="replace").read()[-1500:])
    trace = os.path.join(ctx.scratch, "syscalls.ndjson")
    with open(trace, "w") as f:
        for e in events:
            f.write(json.dumps(e) + "\n")
    res = ctx.tlc("TraceSettings", "TraceSettings.cfg", workers=1, files={"trace.ndjson": trace}, timeout=300, name="TraceSettings")
    text = res.get("text", "")
    m = re.search(r'"VERIF-REJECTED",\s*\{([^}]*)\}', text, re.S)
    if not m or '"VERIF-CONSUMED", %d' % len(events) not in text:
        raise vcheck.Infra("syscall trace not consumed:\n" + res["out"][-1500:])
    ctx.traces_validated += len(events)
    flagged = [int(x) for x in re.findall(r"\d+", m.group(1))]
    ctx.extra_cov["syscall_trace"] = [e["op"] for e in events]
    ctx.extra_cov["crash_points_flagged_by_tlc"] = flagged
    # 4. reproduce on the real code: kill / fail at the critical points and look at the file
    experiments = [("kill-at-first-write-to-settings", ["-P", spath, "-e", "trace=write", "-e", "inject=write:signal=KILL:when=1"]),
                   ("kill-at-rename", ["-e", "trace=rename,renameat,renameat2", "-e", "inject=rename,renameat,renameat2:signal=KILL:when=1"]),
                   ("enospc-on-settings-write", ["-P", spath, "-e", "trace=write", "-e", "inject=write:error=ENOSPC:when=1+"]),
                   # the save path may write a temporary file whose name is not known in advance: fail EVERY write of the process
                   ("enospc-on-every-write", ["-e", "trace=write", "-e", "inject=write:error=ENOSPC:when=1+"]),
                   ("eio-on-every-write", ["-e", "trace=write", "-e", "inject=write:error=EIO:when=1+"])]
    experiments = [(n, a, "/saveconfig?config=new&h=after", 0) for n, a in experiments]
    if ctx.tier == "thorough":
        # every system call that is specific to the save path, as a kill point and as a failure point; the delete path;
        # a settings file of 300 entries (a write of ~60 kB)
        more = [("kill-at-fchmod", ["-e", "trace=fchmod", "-e", "inject=fchmod:signal=KILL:when=1"]),
                ("eperm-on-fchmod", ["-e", "trace=fchmod", "-e", "inject=fchmod:error=EPERM:when=1"]),
                ("eacces-on-rename", ["-e", "trace=rename,renameat,renameat2", "-e", "inject=rename,renameat,renameat2:error=EACCES:when=1"]),
                ("eio-on-close-after-fchmod", ["-e", "trace=fchmod,close", "-e", "inject=close:error=EIO:when=40+"]),
                ("efbig-on-every-write", ["-e", "trace=write", "-e", "inject=write:error=EFBIG:when=1+"])]
        for n, a in more:
            experiments.append((n, a, "/saveconfig?config=new&h=after", 0))
        for n, a in [experiments[0][:2], experiments[1][:2], more[0], more[2]]:
            experiments.append((n + ":delete", a, "/deleteconfig?config=old", 0))
            experiments.append((n + ":300-entries", a, "/saveconfig?config=new&h=after", 300))
    for name, sargs, request, bulk in experiments:
        shutil.rmtree(sdir, ignore_errors=True)
        child("/saveconfig?config=old&f=before")
        if bulk:
            # grow the file directly: same schema, many entries
            cur = json.load(open(spath))
            tmpl = dict(cur["configs"][0])
            for k in range(bulk):
                e = dict(tmpl)
                e["name"] = "gen%d" % k
                cur["configs"].append(e)
            with open(spath, "w") as f:
                json.dump(cur, f, indent=2)
        _, before = file_state()
        # the complete new contents for this request: the same request without a fault, on a copy
        shutil.copy(spath, spath + ".orig")
        child(request)
        _, new_here = file_state()
        shutil.copy(spath + ".orig", spath)
        os.remove(spath + ".orig")
        child(request, strace_args=sargs)
        st, after = file_state()
        ok = st == "ok" and (after == before or after == new_here)
        ctx.extra_cov.setdefault("crash_experiments", []).append({"experiment": name, "file": st, "complete_old_or_new": ok})
        if not ok:
            ctx.violate("crash", "not-atomic:" + name, "after '%s' during a save the settings file is %s: neither the complete previous nor the complete new contents" % (name, st),
                        {"experiment": name, "strace": sargs, "syscalls": [e["op"] for e in events]})
    # the very first save: no settings file exists yet; after a kill or a failed write the file is absent or complete
    for name, sargs in [("first-save:kill-at-rename", ["-e", "trace=rename,renameat,renameat2", "-e", "inject=rename,renameat,renameat2:signal=KILL:when=1"]),
                        ("first-save:enospc-on-every-write", ["-e", "trace=write", "-e", "inject=write:error=ENOSPC:when=1+"]),
                        ("first-save:kill-at-fchmod", ["-e", "trace=fchmod", "-e", "inject=fchmod:signal=KILL:when=1"])]:
        shutil.rmtree(sdir, ignore_errors=True)
        child("/saveconfig?config=new&h=after", strace_args=sargs)
        st, after = file_state()
        ok = st in ("absent", "ok")
        ctx.extra_cov.setdefault("crash_experiments", []).append({"experiment": name, "file": st, "complete_old_or_new": ok})
        if not ok:
            ctx.violate("crash", "not-atomic:" + name, "after '%s' during the FIRST save the settings file is %s: neither absent nor complete" % (name, st),
                        {"experiment": name, "strace": sargs})
        else:
            # and the next save works
            child("/saveconfig?config=again&f=x")
            st2, _ = file_state()
            if st2 != "ok":
                ctx.violate("crash", "unusable-after:" + name, "the save after '%s' leaves the settings file %s" % (name, st2), {"experiment": name})
    if flagged and not any(v.get("check") == "crash" for v in ctx.violations):
        ctx.notes.append("TLC flags crash points %s of the recorded syscall sequence but no experiment reproduced a torn file (MODEL-ONLY; not reported as a violation)" % flagged)
    return ctx.finish(
        "fault_enumeration",
        assumptions=["crash points = after every recorded system call and inside every write of the real save path (strace); the reproduced faults are a kill at the first write to the settings file, a kill at the rename, and ENOSPC on writes to the settings file; the thorough tier adds kill / EPERM at fchmod, EACCES at rename, EIO at close, ENOSPC on every write of the process, each also for the delete request and for a settings file of 300 entries",
                     "concurrent requests are serialised within one pprof process (the web UI is one process); schedules are forced with the verif gate between read and write",
                     "URL round trip is observed through the page's config menu link of the saved configuration; an option equal to its default may be elided"],
        rule="fault/crash points enumerated by TLC over the recorded syscall sequence and reproduced with strace fault injection")
