"""C04 - report flat, cum and edge values equal their definition over samples."""
import json
import os

from lib import vcheck


def run(ctx, replay):
    binary = ctx.build("c04")
    if replay:
        r = json.load(open(replay))
        path = os.path.join(ctx.scratch, "replay.ndjson")
        with open(path, "w") as f:
            f.write(json.dumps(r["case"]) + "\n")
        if not (isinstance(r["case"], dict) and "exp" in r["case"]):
            raise vcheck.Infra("random-driver event: rerun the check with VERIF_SEED=%s" % r.get("seed"))
        ctx.harness(binary, cases=path, n=0)
        return ctx.finish("model_checking")
    thorough = ctx.tier == "thorough"
    cases = os.path.join(ctx.scratch, "cases.ndjson")
    ctx.tlc("Report", "MCReport.cfg", consts={"Tier": ctx.tier, "Emit": True}, emit_to=cases,
            timeout=3400 if thorough else 600, name="MCReport")
    for b, inv in (("seenNode", "GraphMeetsDefinition"), ("seenEdge", "EdgesMeetDefinition")):
        g = ctx.tlc("Report", "MCReport.cfg", consts={"Tier": "guard", "Emit": False, "Broken": b}, expect_ok=False,
                    timeout=600, name="MCReport-broken-" + b)
        if g["violated"] != inv:
            raise vcheck.Infra("vacuity guard: model with %s removed does not violate %s: %s" % (b, inv, g["out"][-1500:]))
    trace = os.path.join(ctx.scratch, "trace.ndjson")
    ctx.harness(binary, cases=cases, trace=trace, n=6000 if thorough else 600)
    res = ctx.tlc("TraceReport", "TraceReport.cfg", workers=1, files={"trace.ndjson": trace}, timeout=3000, name="TraceReport")
    vcheck.trace_verdict(ctx, res, trace, trace + ".in", check="trace-report",
                         describe=lambda ev: "trace:%s%s" % (ev["cfg"]["gran"], ",mean" if ev["cfg"]["mean"] else ""))
    return ctx.finish(
        "model_checking",
        assumptions=["entry identity per granularity is the code's (profile.Aggregate + graph.nodeInfo), transcribed in ReportRules.tla; the property leaves it to the report",
                     "direct self-adjacency (f calls f) is not an edge, by design of the report",
                     "sample units unknown to pprof so that printed values are plain integers; formatting is C15's subject",
                     "list/disasm/weblist need object files and sources and are left to the repository's tests; callgrind and the web top page are covered by C18/C10 harnesses"],
        exhaustive=True)
