import json
import os
import subprocess

from lib import vcheck


def run(ctx, replay):
    sess = ctx.build("c10")
    cli = ctx.build("c09")
    if replay:
        r = json.load(open(replay))
        case = r.get("case")
        path = os.path.join(ctx.scratch, "replay.ndjson")
        with open(path, "w") as f:
            f.write(json.dumps(case) + "\n")
        if isinstance(case, dict) and "lines" in case:
            ctx.harness(sess, cases=path, n=0, extra="c09")
        elif isinstance(case, dict) and "cmd" in case:
            run_cli(ctx, cli, path)
        else:
            raise vcheck.Infra("web script: rerun with VERIF_SEED=%s" % r.get("seed"))
        return ctx.finish("exploration")
    # 1. interactive lines and web queries (Session.tla grammar; rejected / ignored lines anywhere in a history)
    cases = os.path.join(ctx.scratch, "session.ndjson")
    ctx.tlc("Session", "MCSession.cfg", consts={"Tier": ctx.tier, "Emit": True}, emit_to=cases, timeout=1800, name="MCSession")
    ctx.harness(sess, cases=cases, n=(300 if ctx.tier == "thorough" else 60), extra="c09", name="sessions")
    # 2. command line: odd profiles x commands x option values
    cli_cases = os.path.join(ctx.scratch, "cli.ndjson")
    ctx.tlc("CliGrammar", "MCCliGrammar.cfg", consts={"Tier": ctx.tier, "Emit": True}, emit_to=cli_cases, timeout=1800, name="CliGrammar")
    run_cli(ctx, cli, cli_cases)
    # 3. the real binary: exit status and stderr for a sample of the same cases
    pprof = ctx.build_pprof()
    lines = open(cli_cases).read().splitlines()
    step = max(1, len(lines) // (600 if ctx.tier == "thorough" else 80))
    prof_path = os.path.join(ctx.scratch, "plain.pb.gz")
    subprocess.run([cli, "-out", os.path.join(ctx.scratch, "x.json"), "-extra", "dump=" + prof_path], env=ctx.env, capture_output=True)
    n = 0
    for ln in lines[(ctx.seed % step)::step]:
        s = json.loads(ln)
        c = json.loads(s) if isinstance(s, str) else s
        args = [pprof, "-" + c["cmd"] + ("=." if c["cmd"] in ("list", "disasm", "weblist", "peek") else "")]
        if c["flag"]:
            args.append("-" + c["flag"] + ("" if c["val"] == "true" else "=" + c["val"]))
        src = os.path.join(vcheck.REPO, "internal", "driver", "testdata", "cppbench.cpu") if False else os.path.join(vcheck.REPO, "profile", "testdata", "gobench.cpu")
        args.append(src)
        try:
            p = subprocess.run(args, capture_output=True, text=True, errors="replace", timeout=30, env=ctx.env, stdin=subprocess.DEVNULL)
        except subprocess.TimeoutExpired:
            ctx.violate("binary", "binary-hang:%s:%s" % (c["cmd"], c["flag"]), " ".join(args), c)
            continue
        n += 1
        if "panic:" in p.stderr or ("goroutine " in p.stderr and "[running]" in p.stderr) or p.returncode not in (0, 1, 2):
            ctx.violate("binary", "binary-crash:%s:%s" % (c["cmd"], c["flag"]), "exit %d: %s" % (p.returncode, p.stderr[-800:]), c)
    ctx.extra_cov["binary_runs"] = n
    return ctx.finish(
        "exploration",
        assumptions=["the quantifier is unbounded (all profiles x option strings x lines x queries): the grammars enumerate value CLASSES, each represented by a few members",
                     "acceptable outcomes are output or an error message; exit codes 0, 1, 2 of the binary",
                     "no Graphviz: svg/web style commands are expected to fail with an error, not to crash"])


def run_cli(ctx, cli, cases):
    progress = os.path.join(ctx.scratch, "progress")
    skip = 0
    for attempt in range(8):
        try:
            ctx.harness(cli, cases=cases, n=0, extra="skip=%d,progress=%s" % (skip, progress), name="cli(from %d)" % skip)
            return
        except vcheck.Crashed as e:
            # the harness process died in pprof code: a panic nobody could recover (e.g. on a fetch goroutine);
            # a death in the harness's own code is vcheck.Infra and is not caught here
            if not os.path.exists(progress):
                raise
            txt = open(progress).read().split("\n", 1)
            if txt[0] == "done":
                raise
            idx = int(txt[0])
            case = json.loads(txt[1]) if len(txt) > 1 and txt[1].strip() else None
            msg = str(e)
            i = msg.find("panic:")
            ctx.violate("cli", "process-crash:%s:%s" % ((case or {}).get("cmd"), (case or {}).get("flag")),
                        "the pprof process died on this command line: " + (msg[i:i + 900] if i >= 0 else msg[-900:]), case)
            skip = idx + 1
    # every crash so far is a recorded violation on the real code: report those; the rest of the catalogue was not explored
    ctx.notes.append("the cli harness process died %d times; exploration of the remaining command lines was abandoned" % 8)
    if not any(v.get("check") == "cli" for v in ctx.violations):
        raise vcheck.Infra("cli harness crashed too many times")
