"""C06 - sample filters keep exactly the documented samples, values untouched."""
import json
import os

from lib import vcheck


def run(ctx, replay):
    binary = ctx.build("c06")
    if replay:
        r = json.load(open(replay))
        path = os.path.join(ctx.scratch, "replay.ndjson")
        with open(path, "w") as f:
            f.write(json.dumps(r["case"]) + "\n")
        ctx.harness(binary, cases=path, n=0)
        return ctx.finish("model_checking")
    thorough = ctx.tier == "thorough"
    cases = os.path.join(ctx.scratch, "cases.ndjson")
    # the catalogue in five parts, one TLC process each (building the case set is the serial part of a TLC run)
    import concurrent.futures
    parts = [os.path.join(ctx.scratch, "cases-%d.ndjson" % k) for k in range(1, 6)]
    with concurrent.futures.ThreadPoolExecutor(max_workers=5) as ex:
        list(ex.map(lambda k: ctx.tlc("Filter", "MCFilter.cfg", consts={"Tier": ctx.tier, "Emit": True, "Part": k}, emit_to=parts[k - 1], workers=3,
                                      timeout=3400 if thorough else 900, name="MCFilter[%d/5]" % k), range(1, 6)))
    with open(cases, "w") as out:
        for pth in parts:
            out.write(open(pth).read())
    for b in ("hideFirst", "emptyIgnore"):
        g = ctx.tlc("Filter", "MCFilter.cfg", consts={"Tier": "guard", "Emit": False, "Broken": b},
                    expect_ok=False, timeout=900, name="MCFilter-broken-" + b)
        if g["violated"] not in ("MechanismMeetsDefinition", "Partition"):
            raise vcheck.Infra("vacuity guard %s: %s" % (b, g["out"][-1500:]))
    ctx.harness(binary, cases=cases, n=0)
    return ctx.finish(
        "model_checking",
        assumptions=["a regular expression is represented by the set of catalogue names it matches and rendered as an anchored alternation; regexp syntax itself is Go's regexp package",
                     "a sample that never had frames may be kept or dropped when hide/show are active (the statement only says a sample is dropped when no frame is left)",
                     "numeric label units are uniform per key within a profile (pprof uses the first unit seen per key)",
                     "order of application is the driver's: names, show_from, tags, tag keys"],
        exhaustive=True)
