"""C09 - no profile content, option value or typed command crashes pprof."""
from checks import c09impl


def run(ctx, replay):
    return c09impl.run(ctx, replay)
