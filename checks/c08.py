"""C08 - identical inputs and options give byte-identical output."""
import glob
import json
import os
import subprocess

from lib import vcheck


def run(ctx, replay):
    binary = ctx.build("c08")
    if replay:
        r = json.load(open(replay))
        if not (isinstance(r.get("case"), dict) and "order" in r["case"]):
            raise vcheck.Infra("pipeline repetition: rerun `bin/check C08` with VERIF_SEED=%s" % r.get("seed"))
        path = os.path.join(ctx.scratch, "replay.ndjson")
        with open(path, "w") as f:
            f.write(json.dumps(r["case"]) + "\n")
        ctx.harness(binary, cases=path, n=0)
        return ctx.finish("model_checking")
    cases = os.path.join(ctx.scratch, "cases.ndjson")
    ctx.tlc("Orders", "MCOrders.cfg", consts={"Tier": ctx.tier, "Emit": True}, emit_to=cases, timeout=1800, name="MCOrders")
    g = ctx.tlc("Orders", "MCOrders.cfg", consts={"Tier": "guard", "Emit": False, "Broken": "absOnlyIfDifferent"}, expect_ok=False,
                timeout=120, name="MCOrders-broken")
    if g["violated"] not in ("StrictTotalOrder", "Deterministic"):
        raise vcheck.Infra("vacuity guard: %s" % g["out"][-1500:])
    dump = os.path.join(ctx.scratch, "dump")
    os.makedirs(dump)
    ctx.harness(binary, cases=cases, n=0, extra="dump=" + dump)
    # fresh processes: the pprof binary, 3 runs per (profile, format)
    pprof = ctx.build_pprof()
    fresh = 0
    files = sorted(glob.glob(os.path.join(dump, "*.pb.gz")))
    if ctx.tier != "thorough":
        files = files[:3]
    for f in files:
        for fmt in (["-top"], ["-tree"], ["-dot"], ["-callgrind"], ["-tags"], ["-traces"], ["-raw"], ["-topproto"], ["-proto"]):
            outs = []
            for k in range(3):
                p = subprocess.run([pprof] + fmt + ["-nodecount=0", f], capture_output=True, env=ctx.env, timeout=60)
                if p.returncode != 0:
                    ctx.violate("fresh-process", "fresh-process-error:" + fmt[0], p.stderr.decode(errors="replace")[-500:], {"file": os.path.basename(f), "format": fmt})
                    break
                outs.append(p.stdout)
                fresh += 1
            if len(outs) == 3 and not (outs[0] == outs[1] == outs[2]):
                ctx.violate("fresh-process", "nondeterministic-output:fresh:" + fmt[0].lstrip("-"),
                            "three fresh pprof processes printed different bytes for %s %s" % (fmt, os.path.basename(f)), {"file": os.path.basename(f), "format": fmt})
    ctx.extra_cov["fresh_process_runs"] = fresh
    return ctx.finish(
        "model_checking",
        assumptions=["Go offers no control over map iteration: comparators are checked under every input permutation (edges: repeated fresh maps), whole-pipeline runs are repeated (each range re-randomises), which samples rather than enumerates seeds",
                     "ties beyond the pinned keys only have to be broken deterministically, not in a particular way"],
        exhaustive=True)
