"""C18 - graph outputs are syntactically valid for any names."""
import json
import os

from lib import vcheck


def run(ctx, replay):
    binary = ctx.build("c18")
    if replay:
        raise vcheck.Infra("rerun `bin/check C18` with VERIF_SEED=%s (the replay file holds the site, payload, options and the real output)" % json.load(open(replay)).get("seed"))
    cases = os.path.join(ctx.scratch, "cases.ndjson")
    ctx.tlc("EmitSites", "MCEmitSites.cfg", consts={"Tier": ctx.tier, "Emit": True}, emit_to=cases, timeout=900, name="EmitSites")
    trace = os.path.join(ctx.scratch, "trace.ndjson")
    ctx.harness(binary, cases=cases, trace=trace, n=0, timeout=3000)
    aux = {}
    for l in open(trace + ".in"):
        a = json.loads(l)
        aux[(a["kind"], a["n"])] = a
    for kind, module, suffix in (("dot", "DotSyntax", ".dot"), ("callgrind", "Callgrind", ".cg")):
        path = trace + suffix
        sub = trace + suffix + ".in"
        with open(sub, "w") as f:
            for (k, n), a in aux.items():
                if k == kind:
                    f.write(json.dumps({"n": n, "site": a["case"]["site"], "payload": a["case"]["payload"], "opt": a["case"]["opt"], "out": a["out"][:3000]}) + "\n")
        vcheck.sharded_trace(ctx, module, "TraceDot.cfg" if module == "DotSyntax" else "Callgrind.cfg", path, sub, check=kind,
                             describe=(lambda k: (lambda ev: k + ":" + site_of(aux, k, ev)))(kind), shards=16)
    return ctx.finish(
        "model_checking",
        assumptions=["no Graphviz in the sandbox: 'valid' means accepted by the DOT grammar written in DotSyntax.tla (from the published grammar: IDs, quoted strings with backslash escapes, node/edge/attr/subgraph statements), not rendered by dot",
                     "callgrind positions follow pprof's convention: relative to the previous entry's address",
                     "HTML: a planted marker must not reach a page unescaped (marker scan); the HTML grammar itself is not modelled"],
        exhaustive=True)


def site_of(aux, kind, ev):
    a = aux.get((kind, ev.get("n")))
    return a["case"]["site"] if a else "?"
