"""bin/check PIPE: whole-run trace validation against Pprof.tla (evidence/PIPE.json; not a MANIFEST property)."""
from checks.pipeline import run  # noqa: F401
