"""C10 - each interactive command or web request sees the pristine profile."""
import json
import os

from lib import vcheck
from checks.pipeline import pipeline

PROP = "C10"
MODE = "c10"


def run(ctx, replay, mode=MODE):
    binary = ctx.build("c10")
    if replay:
        r = json.load(open(replay))
        if not (isinstance(r.get("case"), dict) and "lines" in r["case"]):
            raise vcheck.Infra("web script: rerun the check with VERIF_SEED=%s" % r.get("seed"))
        path = os.path.join(ctx.scratch, "replay.ndjson")
        with open(path, "w") as f:
            f.write(json.dumps(r["case"]) + "\n")
        ctx.harness(binary, cases=path, n=0)
        return ctx.finish("model_checking")
    cases = os.path.join(ctx.scratch, "cases.ndjson")
    ctx.tlc("Session", "MCSession.cfg", consts={"Tier": ctx.tier, "Emit": True}, emit_to=cases, timeout=1800, name="MCSession")
    for b, want in (("SharedWork", "OutputDependsOnlyOn"), ("PersistArgs", "ArgsDoNotPersist")):
        g = ctx.tlc("Session", "MCSession.cfg", consts={"Tier": "guard", "Emit": False, b: True}, expect_ok=False, timeout=300, name="MCSession-" + b)
        if not g["violated"]:
            raise vcheck.Infra("vacuity guard %s: %s" % (b, g["out"][-1500:]))
    s = ctx.harness(binary, cases=cases, n=(400 if ctx.tier == "thorough" else 60), extra=mode)
    cnt = s.get("counters") or {}
    if mode == MODE and not (ctx.violations or (cnt.get("listings_with_source", 0) > 0 and cnt.get("disassemblies", 0) > 0)):
        raise vcheck.Infra("the directed histories over source listings / disassembly produced no listing (%s): objdump or the test binary is missing"
                           % {k: cnt.get(k) for k in ("listings_with_source", "disassemblies")})
    if mode == MODE:
        # whole runs against Pprof.tla: every report's numbers are those of the pristine merged profile under the
        # options in effect (absolute oracle, complementing the fresh-session comparison above)
        try:
            pipeline(ctx, kinds=("assign", "report", "noop", "end"))
        except vcheck.Infra as e:
            # violations recorded from the real code stand; a hang found by the first part would only recur here
            if not ctx.violations:
                raise
            ctx.notes.append("whole-run validation not completed: %s" % str(e)[:300])
    return ctx.finish(
        "model_checking",
        assumptions=["the reference for a command is the same line typed into a fresh in-process session after exactly the assignments the specification says are in effect; the real code supplies the report function F",
                     "sessions start with -functions -flat given explicitly (the driver's option store is process-global; every in-process run resets every other option to its pristine default)",
                     "no Graphviz in the sandbox: the graph page (/) answers 501 and is only checked for not crashing"],
        exhaustive=True)
