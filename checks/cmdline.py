"""bin/check CMDLINE: what a command line means (Cmdline.tla) against the real driver (evidence/CMDLINE.json; not a MANIFEST property)."""
import json
import os

from lib import vcheck


def run(ctx, replay):
    binary = ctx.build("cmdline")
    cases = os.path.join(ctx.scratch, "cases.ndjson")
    if replay:
        r = json.load(open(replay))
        with open(cases, "w") as f:
            f.write(json.dumps(r["case"]) + "\n")
        ctx.harness(binary, cases=cases, n=0)
        return ctx.finish("model_checking")
    g = ctx.tlc("Cmdline", "MCCmdline.cfg", consts={"Tier": "quick", "Emit": False, "Broken": "formatCheckAfterHttp"}, expect_ok=False,
                timeout=300, name="MCCmdline-broken")
    if g["violated"] != "ErrorOrder":
        raise vcheck.Infra("vacuity guard: %s" % g["out"][-1500:])
    ctx.tlc("Cmdline", "MCCmdline.cfg", consts={"Tier": ctx.tier, "Emit": True, "Broken": "none"}, emit_to=cases, timeout=1800, name="MCCmdline")
    ctx.harness(binary, cases=cases, n=0)
    return ctx.finish(
        "model_checking",
        assumptions=["one in-process driver.PProf call per command line through the plug-in boundaries; the flag parser is the harness's own (plugin.FlagSet), so the spelling of flags is not covered, only their meaning",
                     "the order of the flags on the line is fixed per VERIF_SEED (sorted / reversed)",
                     "web mode is observed only as far as the HTTPServer plug-in being called"],
        exhaustive=True)
