"""Whole-run trace validation against Pprof.tla (used by C10 and C16; also `bin/check PIPE`)."""
import os

from lib import vcheck


def pipeline(ctx, n=None, kinds=None):
    """Model-check the machine (with its vacuity guard), run the whole-run harness, validate every event.
    kinds: the event kinds whose rejection is THIS property's subject (None = all)."""
    g = ctx.tlc("Pprof", "MCPprof.cfg", consts={"Broken": "reportFiltersInPlace"}, expect_ok=False, timeout=300, name="MCPprof-broken")
    if g["violated"] != "PristineNeverChanges":
        raise vcheck.Infra("vacuity guard (Pprof.tla): %s" % g["out"][-1500:])
    ctx.tlc("Pprof", "MCPprof.cfg", consts={"Broken": "none"}, timeout=600, name="MCPprof")
    binary = ctx.build("pipe")
    trace = os.path.join(ctx.scratch, "pipe-trace.ndjson")
    n = n or (1500 if ctx.tier == "thorough" else 300)
    ctx.harness(binary, trace=trace, n=n, name="pipe")
    return vcheck.sharded_trace(ctx, "TracePprof", "TracePprof.cfg", trace, aux_path=trace + ".in", check="pipeline",
                                describe=lambda ev: "pipeline:%s" % ev.get("ev"), key="run",
                                group_start=lambda ev: ev.get("ev") == "config",
                                only=(lambda ev: ev.get("ev") in kinds) if kinds else None)


def run(ctx, replay):
    pipeline(ctx)
    return ctx.finish("model_checking", assumptions=["whole runs observed at plug-in boundaries only"], exhaustive=False)
