"""C02 - parsing is total: an error or a valid profile for any bytes."""
import json
import os
import subprocess

from lib import vcheck


def run(ctx, replay):
    binary = ctx.build("c02")
    if replay:
        raise vcheck.Infra("C02 violations are trace events; the replay file holds the input (hex) - rerun `bin/check C02` with VERIF_SEED=%s" % json.load(open(replay)).get("seed"))
    thorough = ctx.tier == "thorough"
    cases = os.path.join(ctx.scratch, "cases.ndjson")
    ctx.tlc("WireSoup", "MCWireSoup.cfg", consts={"Tier": ctx.tier, "Emit": True}, emit_to=cases, timeout=1800, name="WireSoup")
    trace = os.path.join(ctx.scratch, "trace.ndjson")
    ctx.harness(binary, cases=cases, trace=trace, n=20000 if thorough else 1500, env={"VERIF_REPO": vcheck.REPO})
    vcheck.sharded_trace(ctx, "TraceParse", "TraceParse.cfg", trace, trace + ".in", check="trace-parse",
                         describe=lambda ev: "parse:" + ev.get("kind", "").split(":")[0] + ":" + ev.get("outcome", ""))
    # CLI observation: exit status / 'panic:' of the real binary on a sample of the inputs
    pprof = ctx.build_pprof()
    aux = [json.loads(l) for l in open(trace + ".in")]
    step = max(1, len(aux) // (400 if thorough else 60))
    for a in aux[::step]:
        path = os.path.join(ctx.scratch, "in.bin")
        with open(path, "wb") as f:
            f.write(bytes.fromhex(a["hex"]))
        try:
            p = subprocess.run([pprof, "-top", path], capture_output=True, text=True, errors="replace", timeout=20, env=ctx.env)
        except subprocess.TimeoutExpired:
            ctx.violate("cli", "cli:timeout", "pprof -top did not finish in 20 s", a)
            continue
        if "panic:" in p.stderr or "goroutine " in p.stderr and "[running]" in p.stderr or p.returncode not in (0, 1, 2):
            ctx.violate("cli", "cli:crash", "pprof -top: exit %d, stderr %s" % (p.returncode, p.stderr[-600:]), a)
    return ctx.finish(
        "exploration",
        assumptions=["the quantifier is all byte strings: the specification generates structure-aware malformations, not coverage-guided noise; memory safety inside the decoder is outside TLA+",
                     "'promptly' = under 4 s for inputs of at most a few kilobytes",
                     "validity contract evaluated by TLC on the rank-compressed shape of the returned profile"])
