"""Per-property registration data; bin/mkmanifest turns it into MANIFEST.json."""

CHECKS = {
 "C03": dict(
  category="model_checking",
  text="Merge.tla: TLC checks an operational model of the keyed merger (memo tables, zero-sample GC, header fold) against the declarative bag-sum/header rules over an exhaustive catalogue of (base stack, single-attribute variant) pairs x labels x values x profile splits; every enumerated case is replayed on the real profile.Merge/Compact under all input permutations and several concretisations (Binding A); 1.5k-20k random merges of the real code are validated by TLC against TraceMerge.tla (Binding B). Bounded-exhaustive on the spec, conformance-checked on the code: the right level for a quadratic identity space no example test spans.",
  note="Trusted: TLC, the Go harness' Project/Concretise bridge (vlib), the reading of 'stack identity' stated in the evidence assumptions. Bounds: <=3 profiles, <=3 samples per case in the exhaustive part; random traces up to 3 profiles x 8 samples x depth 3.",
  technique="TLA+ spec + TLC exhaustive case enumeration replayed on real code; TLC trace validation of recorded real executions",
  design_ref="DESIGN.md 5/C03"),
 "C04": dict(
  category="model_checking",
  text="Report.tla/ReportRules.tla: TLC checks the operational graph builder (per-sample seen-node/seen-edge sets, flat to the last node) against the declarative flat/cum/edge/total/call-tree definitions over every enumerated (profile, configuration) pair; every case is rendered by the real pipeline (driver.PProf in-process) as top, tree, peek, dot, dot+call_tree, topproto and traces, independent readers extract the numbers and they must equal the spec's (Binding A); 600-6000 random recursion-heavy profiles rendered by the real code are validated by TLC against TraceReport.tla (Binding B).",
  note="Trusted: TLC, the output readers (vdrv/parse.go), entry identity per granularity transcribed from the code (the property leaves it to the report). Bounds: 2 samples, depth<=4 exhaustive; random traces up to 8 samples x depth 6. callgrind/web-top numbers are not read here.",
  technique="TLA+ spec + TLC exhaustive enumeration replayed on the real report pipeline; TLC trace validation of recorded real reports",
  design_ref="DESIGN.md 5/C04"),
 "C05": dict(
  category="model_checking",
  text="Trim.tla/TrimRules.tla: TLC checks the rebuild-from-samples-with-a-kept-set mechanism (nil nodes, residual flag, flat only if no removed entry follows) against the declarative trimmed tables for EVERY subset K of the entries of every catalogue profile (shown rows keep untrimmed flat/cum, edge weight = adjacency after deleting removed entries, residual marking, accounting). TraceTrim.tla then validates thousands of real trimmed -top/-tree/-dot reports (nodecount x nodefraction x edgefraction x sort, cutoffs landing on chosen integers) using the set of entries the real report shows as the witness K: admissible K for text reports (cum cutoff, top N by the active key), untrimmed numbers, no dangling edge, residual marking, accounting figure.",
  note="Trusted: TLC, the output readers, PName (printable name) transcription. dot: survivors are heuristic, only invariance/no-dangling/residual/accounting are demanded. Ties in the sort key may break either way. One known finding (text tree has no residual marker).",
  technique="TLA+ spec model-checked over all kept sets; TLC trace validation of recorded real trimmed reports",
  design_ref="DESIGN.md 5/C05"),
 "C06": dict(
  category="model_checking",
  text="Filter.tla: regular expressions abstracted to the set of names they match; TLC checks the two-pass in-place mechanism (location pass with match maps and line surgery, sample pass) against the per-sample documented meaning of focus/ignore/hide/show/show_from, the partition law focus=R (+) ignore=R, and that kept samples keep values and labels, over every enumerated (profile, option set); tag filters (string lists with and without key, numeric ranges with unit conversion, tagshow/taghide) are specified declaratively. All ~60k cases are replayed on the real filters through the profile API (shared and duplicated locations) and through `pprof ... -proto` (Binding A).",
  note="Trusted: TLC, vlib bridge, rendering of an abstract expression as an anchored quoted alternation (Go's regexp engine itself is not modelled). Empty-stack samples under hide/show are unspecified. Bounds: 2 samples, depth<=3, universe of 7 names.",
  technique="TLA+ spec + TLC exhaustive case enumeration replayed on the real filters (API and driver)",
  design_ref="DESIGN.md 5/C06"),
 "C11": dict(
  category="model_checking",
  text="Prune.tla: the rule is stated on the frame sequence of a sample (first match after a non-matching frame goes with its leaf side; prune_from keeps the leaf-most match) with Simplify as a table; TLC checks the location-granular in-place mechanism (location pass: root-most matching line, whole vs beneath, line trimming; sample pass with the first-user-frame guard) against it, plus root-side-untouched, never-empties, counts/values/labels kept and no-expression-is-identity, and classifies the inputs the mechanism cannot follow. Every enumerated case is replayed on the real RemoveUninteresting (bare alternation that must be anchored as a whole), PruneFrom, with shared and duplicated locations, and through `pprof -proto` / `-prune_from`.",
  note="Trusted: TLC, vlib bridge. Three known findings (input classes computed by the specification) are downgraded; every other class is reported. Bounds: 2 samples, depth<=3, 3-line locations, names {a,b,u,.a,a(int),ab,xb}.",
  technique="TLA+ spec + TLC exhaustive case enumeration replayed on real Prune/PruneFrom/RemoveUninteresting and the driver",
  design_ref="DESIGN.md 5/C11"),
 "C07": dict(
  category="model_checking",
  text="Combine.tla: the fetch pipeline (per-group sample-type alignment, unit harmonisation with ScaleN's keep rule, merge; base labelling for diff_base, negation, cross-group combination) as actions, against the declarative statement report = SUM sources - SUM bases entry-wise per common column in the finest unit; TLC checks PipelineMeetsDefinition, Linear, SelfDiffEmpty and NoValueDropped over every enumerated tuple. Each tuple is replayed through the real driver (in-memory Fetcher, -base/-diff_base/-normalize): -top rows and totals of every common column, then -proto, reopen and compare again.",
  note="Trusted: TLC, output readers. Unit factors exact integers; -normalize only with ratio 1. One known finding (ScaleN keep rule) identified by the input class the specification computes.",
  technique="TLA+ spec + TLC exhaustive enumeration of profile tuples replayed through driver.PProf",
  design_ref="DESIGN.md 5/C07"),
 "C01": dict(
  category="model_checking",
  text="Codec.tla/CodecRules.tla: lifecycle state machine mem -> Write -> wire -> Parse -> mem over a field-level wire model (string table, label records, id references with the dense/sparse lookup, nil period type); TLC checks RoundTrip (result = Norm(profile), the only loss proto3 forces), Fixpoint (nothing changes from the second generation on), NormIdempotent and OnlyAllowedLoss on a catalogue that straddles the codec's data-dependent thresholds. Every catalogue profile is concretised twice (plain; int64/uint64 extremes, huge sparse ids, non-UTF8/empty strings) and pushed through Write/WriteUncompressed x Parse/ParseData/ParseUncompressed, Copy and pprof -proto, compared table-by-table with ids against Norm(profile), plus second round trip and byte-identical re-serialisation (Binding A); 3k-30k random profiles are round-tripped and validated by TLC against TraceCodec.tla (Binding B).",
  note="Trusted: TLC, vlib table bridge. The varint byte codec is below the model (exercised, not modelled).",
  technique="TLA+ lifecycle spec + TLC enumeration replayed on the real codec; TLC trace validation of recorded round trips",
  design_ref="DESIGN.md 5/C01"),
 "C02": dict(
  category="exploration",
  text="WireSoup.tla is a generator grammar (state machine) of malformed inputs: point mutations of every node of a valid profile.proto document tree (value to 0 / dangling id / index past the string table / huge / negative, wrong wire type, bad field number, duplicated or dropped field, truncation, length past the end, over-long varint, packed/unpacked, garbage sub-message), pairs of cross-table value mutations, 8 wrappers (gzip variants, concatenation, empty) and 12 legacy documents x 17 text/binary mutation classes; every terminal state is rendered to bytes and fed to the real ParseData under recover and a watchdog, accepted profiles are written, copied, compacted and rendered in 9 report formats, and TraceParse.tla decides each recorded event: error, or a profile satisfying the validity contract whose follow-ups end in ok/err and which survives a second round trip. Corpus/testdata files and seeded byte noise are included; a sample of inputs also goes through the pprof binary (exit status / panic on stderr).",
  note="Model-guided generation, not coverage-guided fuzzing; memory safety is outside TLA+. Validity is evaluated by TLC on the rank-compressed shape of the parser's result.",
  technique="TLA+ generator grammar enumerated by TLC, rendered and fed to the real parser; TLC trace validation of the recorded outcomes",
  design_ref="DESIGN.md 5/C02"),
 "C08": dict(
  category="model_checking",
  text="Orders.tla writes every output ordering as its key tuple and models the runtime's freedom explicitly (Iterate: any arrival order; Sort: any arrangement without inversion); TLC checks StrictTotalOrder, Deterministic and KeysSeparate for every set drawn from tie-rich attribute domains, and shows that the comparator shape the code had (`if a != b return |a|>|b|`) violates them. Every set is then sorted by the real Nodes.Sort / EdgeMap.Sort / SortTags from every input permutation (edges from repeatedly rebuilt maps): identical outputs, ordered by the pinned keys. Whole pipeline: 8 tie-rich profiles x 15 format/option combinations rendered 12-24 times in-process, 3 formats under opposite fetch completion orders, and fresh pprof processes run 3 times per (profile, format); all bytes must agree.",
  note="Go map seeds cannot be enumerated for whole-pipeline runs (sampled by repetition); comparators are covered exhaustively over input permutations for the enumerated domains.",
  technique="TLA+ order spec model-checked by TLC; enumerated tie-rich sets replayed on the real comparators under all permutations; repeated-run byte comparison of the pipeline",
  design_ref="DESIGN.md 5/C08"),
 "C09": dict(
  category="exploration",
  text="Two generator specifications enumerate value classes: Session.tla's line grammar (rejected and ignored interactive lines placed anywhere in a history of commands and assignments: lone '>', invalid regexps, unknown commands/options, missing or non-numeric or overflowing values, ranges beyond int64, late failures such as an unopenable output file) and CliGrammar.tla (16 odd-profile classes x 16 commands x ~330 option values). Sessions run through the real interactive loop (panic = outcome nothing accepts; the session must read every line and answer a probe command exactly as a fresh session would), malformed URL queries go to the real web handlers, every command line runs in-process (a process-killing panic on a goroutine is attributed to its case through a progress file) and a sample also through the pprof binary (exit status, 'panic:' on stderr).",
  note="Model-guided exploration of value classes; not a proof of absence of crashes. Graphviz-dependent commands are expected to fail cleanly.",
  technique="TLA+ generator grammars enumerated by TLC, replayed on the real interactive loop, web handlers, in-process driver and binary",
  design_ref="DESIGN.md 5/C09"),
 "C10": dict(
  category="model_checking",
  text="Session.tla models the persistent option store, the pristine profile, the per-command copy that report generation mutates, and the history of effective options; TLC checks PristineNeverChanges, ArgsDoNotPersist and OutputDependsOnlyOn over all histories of length <= 3 and rejects the two broken designs (reports on the shared profile; arguments written to the store). Every history is typed into a real interactive session and each command's output is compared byte-for-byte with the same line in a fresh session that saw only the assignments the specification says are in effect (the real code supplies the report function); web: random sequences and concurrent mixes of requests against the real handlers, each response compared with the same request on a fresh server, /download compared with the loaded profile.",
  note="Trusted: TLC, the in-process driver wrapper (explicit -functions -flat; other options reset to pristine defaults per run). Web mixes are sampled (seeded), not enumerated.",
  technique="TLA+ session state machine model-checked by TLC; every behaviour replayed on the real interactive loop and web handlers with fresh-session references",
  design_ref="DESIGN.md 5/C10"),
 "C12": dict(
  category="model_checking",
  text="Symbolize.tla is a state machine that fixes a catalogue profile, parses a mode and then chooses, in the order the code consults them, the FUTURE ANSWERS of the plug-ins (object file: open ok/error/build-id mismatch, SourceLine one/two frames/none/error per location; symbol service: all/subset/unasked/garbage/error/empty names). Every behaviour is replayed on the real symbolizer.Symbolizer with scripted ObjTool/ObjFile and a scripted HTTP transport; the before/after tables are decided by TraceSymbolize.tla: the frame condition (samples, values, labels, stack depth and order, location ids/addresses/mappings, mapping ranges, header untouched), functions only appended, no non-empty name emptied, validity with unique ids, symbolised mappings left alone unless force, mode none = identity.",
  note="Plug-in behaviours are answer CLASSES with one scripted representative each. Bounds: 3 locations, 2 mappings, 14 modes.",
  technique="TLA+ generator of plug-in answer scripts enumerated by TLC, replayed on the real symbolizer; TLC trace validation of the before/after frame condition",
  design_ref="DESIGN.md 5/C12"),
 "C17": dict(
  category="model_checking",
  text="StacksRules.tla states the stack-set contract (one stack per sample rooted at source 0, frames caller->callee with inlined lines expanded and flagged, value = selected sample value, self = sum of the stacks a source terminates, places = every stack containing the source exactly once at its outermost occurrence, indices in range, arrays non-null, sources interned); Stacks.tla models MakeStack/FillPlaces as actions and TLC checks them against the contract on every catalogue case, rejecting two broken mechanisms. TraceStacks.tla then evaluates the same contract on the JSON produced by the real report.Stacks() - directly and as embedded in the /flamegraph page - for every catalogue case and for random recursion-heavy profiles.",
  note="Trusted: TLC, JSON extraction from the page. Presentation fields (Display, Color, UniqueName) only checked for presence.",
  technique="TLA+ contract + operational model checked by TLC; TLC trace validation of the real stack-set JSON",
  design_ref="DESIGN.md 5/C17"),
 "C15": dict(
  category="model_checking",
  text="Units.tla holds the unit families with SYMBOLIC factors (2^a 10^b 3600^c), the alias tables and the documented meaning of Scale for explicit, auto, minimum and unknown targets; TLC checks the algebraic laws on the symbolic model (identity, transitive and antisymmetric exact ratios, never crossing families, unambiguous aliases, strictly ordered families) and enumerates every (alias x spelling variant, target, value class) case incl. one below / at / one above every unit boundary, MaxInt64, MinInt64 and unknown units, plus every ordered triple of units for harmonisation. Each case is instantiated with exact rationals and run through the real Scale / ScaledLabel / Label / Percentage / CommonValueType / ScaleProfiles: exact unit name, ratio within 1e-9, commutation with negation, label read-back within display rounding, label monotonicity, totals preserved by harmonisation.",
  note="Floating-point rounding is outside TLA+: ratios compared with 1e-9 relative tolerance; at an exact unit boundary either neighbouring unit is accepted when the magnitude is within 1e-9 of it.",
  technique="TLA+ symbolic unit algebra checked by TLC; enumerated cases replayed on the real measurement package with exact rational oracles",
  design_ref="DESIGN.md 5/C15"),
 "C16": dict(
  category="model_checking",
  text="Fetch.tla: two groups (sources, bases) in parallel, chunks of ChunkSize, one process per source with independently enabled Start/Complete so that TLC explores every completion order and failure subset, the barrier, index-ordered collection with error accounting, incremental merge, Decide; TLC checks ResultIsMergeOfSucceededInOrder, OneErrorPerFailure, FailsIffGroupEmpty, NoReadBeforeBarrier and termination (liveness under fairness), with chunk sizes that cross boundaries in the model, and rejects three broken designs. Every behaviour (failure subset x completion order, 3 sources + 1 base) is forced on the real driver with a gating, fault-injecting Fetcher and transport; runs with 127..300 sources cross the real chunk size of 128 under forward/reverse/random orders; TraceFetch.tla decides every recorded run (merge = exactly the succeeded sources in command-line order, one error line per failure, failure iff a group is empty).",
  note="Completion order is forced at the Fetcher plug-in boundary; the goroutine's bookkeeping after Fetch returns is not gated (Go offers no scheduler control).",
  technique="TLA+ concurrent fetch model checked exhaustively by TLC (safety + liveness); schedule-directed replay with a gating Fetcher; TLC trace validation",
  design_ref="DESIGN.md 5/C16"),
 "C19": dict(
  category="fault_enumeration",
  text="Settings.tla models the settings file at syscall granularity (in-place truncate+write vs temporary file+rename; with or without a lock; Crash at any time; failing writes): TLC shows that only rename+lock satisfies AtomicOnDisk, Serializable and OthersUntouched and rejects the other three designs. Which design the CODE has is read off reality: the syscalls of the real /saveconfig handler are recorded with strace and TraceSettings.tla evaluates AtomicOnDisk at every crash point of that sequence (after each syscall and inside each write); a kill at the first write to the settings file, a kill at the rename and ENOSPC on the settings write are then injected for real (strace inject) and the file must hold the complete old or new contents. Schedules: request pairs are forced through read(a) read(b) write(a) write(b) with the verif gate and the file must equal a serial order. Sequential histories from the model and 32 option values x 3 combinations go through save -> config-menu link -> compare.",
  note="Crash points are those of the recorded syscall sequence; power-loss ordering (fsync/dir sync) is not modelled. Concurrency within one pprof process.",
  technique="TLA+ syscall-level model checked by TLC; strace-recorded syscall trace validated by TLC; strace fault injection and gated schedules on the real handlers",
  design_ref="DESIGN.md 5/C19"),
 "C20": dict(
  category="model_checking",
  text="Shared.tla models the three lock protocols with one process per concurrent caller: encode (Lock, PreEncode writes the scratch fields, Marshal reads them, Unlock - NoTornEncode), temporary files (exclusive create with retry - DistinctNames) and the copy-on-write tool configuration (ReadersSeeConsistentRep); TLC explores every interleaving of 3 processes, checks termination, and must find the violation for each of four broken variants (no mutex, unlock before marshal, check-then-create, in-place update). Binding: a race-detector build of the harnesses runs concurrent mixes generated from those operations - k goroutines x Write/WriteUncompressed/Copy on one profile with the verif gate sleeping between preEncode and marshal, concurrent SourceLine on one ObjFile during reconfiguration, web request mixes and option get/set, parallel fetch - comparing every result with the sequential one and turning every DATA RACE report into a violation; 12 concurrent pprof processes saving a fetched profile into one PPROF_TMPDIR must produce 12 distinct intact files.",
  note="Go offers no controllable scheduler: implementation-level interleavings are widened at the gate and otherwise sampled; 'no data race' is the race detector's verdict on the executions performed.",
  technique="TLA+ lock-protocol models checked exhaustively by TLC; race-detector executions of model-derived concurrent mixes with a verif gate; sequential-equivalence comparison",
  design_ref="DESIGN.md 5/C20"),
 "C18": dict(
  category="model_checking",
  text="DotSyntax.tla is a character-level DOT lexer (identifier, quoted string with escapes, '->') feeding a statement-level grammar (digraph/subgraph, node, edge, attribute lists) as ONE state machine that consumes one character per step; the trace is the real `pprof -dot` output, and NeverReject, EndsAccepting, EdgesReferenceDeclaredNodes and IdsUnique are evaluated per document (about 2 million TLC states per quick run). Callgrind.tla is a line-level machine over the tokenised real -callgrind output: only grammar lines, every (n) back-reference defined earlier in its name space, no id or name defined twice, positions absolute or relative to the previous entry and decoding to an address of the profile. EmitSites.tla generates the inputs: 12 sites at which profile text enters the outputs x payloads of 1-2 metacharacter classes x call_tree x granularity; HTML pages /top, /flamegraph, /peek, /source are scanned for a planted marker reaching the page unescaped.",
  note="No Graphviz in the sandbox: validity = acceptance by the DOT grammar as written in the specification. HTML by marker scan only.",
  technique="TLA+ character-level grammar machines validated by TLC against the real DOT/callgrind output; TLC-enumerated (site, payload, option) inputs",
  design_ref="DESIGN.md 5/C18"),
 "C13": dict(
  category="model_checking",
  text="ElfLoad.tla states loader semantics as ground truth (PT_LOAD segments mapped at bias + page-rounded vaddr with page-rounded file offsets) and enumerates layouts, ELF types, biases, page-granular splits of the executable mapping and addresses at segment/page edges, with for each address the link-time address the loader put there and whether its owning segment is unique; plus sorted symbol tables with duplicates, zero sizes, code/data and lookup addresses. The harness writes a minimal ELF file per case and calls the exported binutils.Binutils.Open + ObjAddr (the real findProgramHeader/computeBase/GetBase composition), in both address orders on one ObjFile, and the nm-based ObjFile with a fake nm selected through SetTools; the answer must be runtime address minus bias, or an error only where the specification says the segment is ambiguous.",
  note="Enumerated small layouts (TLC 32-bit integers; a 47-bit constant is added to the bias by the harness). The Apalache unbounded-integer check planned in DESIGN.md was not built. ELF user space only.",
  technique="TLA+ loader-semantics specification enumerated by TLC; cases replayed on the real binutils/elfexec code with synthetic ELF files and a fake nm",
  design_ref="DESIGN.md 5/C13"),
 "C14": dict(
  category="model_checking",
  text="Legacy.tla models an abstract legacy document (format, header variant, records of counts/sizes/stack addresses, rate/period/clock, memory-map form) and states the documented conversion as operators: one sample per record in order (threadz same-as-previous adds one to the preceding sample), call sites moved back by one with the leaf left alone for binary CPU and threadz, the named deviations StripSignalFrame (second frame shared by all but n/32 samples, twice) and DropDuplicatedLeaf, values raw / x period / unsampled / cycles->ns (float rules named, evaluated independently by the harness), the block-size label, the period, and the mapping each address falls in. TLC checks the rules' well-formedness (one sample per record, leaf kept, addresses drawn from the input in order, every thread counted once) and enumerates the documents; a printer per format renders each in several surface variants and the real profile.ParseData must return exactly the expected samples.",
  note="Printers exist for Go count, heap (heapprofile, heap_v2, heapz_v2, heap), contention/mutex, threadz and binary CPU (4 encodings); Java formats and growth/fragmentation headers are not rendered. Bounded record counts and small address sets.",
  technique="TLA+ conversion-rule specification enumerated by TLC; documents rendered by format printers and parsed by the real profile.ParseData",
  design_ref="DESIGN.md 5/C14"),
}

NOT_YET = "check not built yet in this session (planned in DESIGN.md section 5)"
NOT_APPLICABLE = {}
