"""C03 - merging conserves every stack's weight and symbol information."""
import json
import os

from lib import vcheck


def run(ctx, replay):
    binary = ctx.build("c03")
    if replay:
        r = json.load(open(replay))
        case = r["case"]
        if r.get("conc") and isinstance(case, dict) and "exp" in case:
            case["conc"] = r["conc"]
        path = os.path.join(ctx.scratch, "replay.ndjson")
        with open(path, "w") as f:
            f.write(json.dumps(case) + "\n")
        if isinstance(case, dict) and "exp" in case:
            ctx.harness(binary, cases=path, n=0)
        else:
            raise vcheck.Infra("replay of random-driver events: rerun with VERIF_SEED=%s" % r.get("seed"))
        return ctx.finish("model_checking")

    thorough = ctx.tier == "thorough"
    # 1. the model: operational merger against the declarative meaning, all cases of the catalogue;
    #    the same run prints every case with its expected result
    cases = os.path.join(ctx.scratch, "cases.ndjson")
    ctx.tlc("Merge", "MCMerge.cfg", consts={"Tier": ctx.tier, "Emit": True}, emit_to=cases,
            timeout=5400 if thorough else 600, name="MCMerge")
    # 2. vacuity guard: the model with the code's ORIGINAL (defective) location key must fail
    broken = ctx.tlc("Merge", "MCMerge.cfg", consts={"Tier": "quick", "Emit": False, "Broken": "lockey"},
                     expect_ok=False, timeout=600, name="MCMerge-broken-lockey")
    if broken["violated"] not in ("Conservation", "KeysInjective"):
        raise vcheck.Infra("vacuity guard: broken location key not detected by the model: %s" % broken["out"][-1500:])
    # 3. Binding A: replay on the real code; Binding B: record random merges
    trace = os.path.join(ctx.scratch, "trace.ndjson")
    ctx.harness(binary, cases=cases, trace=trace, n=20000 if thorough else 1500)
    # 4. Binding B: TLC validates the recorded executions
    res = ctx.tlc("TraceMerge", "TraceMerge.cfg", workers=1, files={"trace.ndjson": trace}, timeout=1800, name="TraceMerge")
    vcheck.trace_verdict(ctx, res, trace, trace + ".in", check="trace-merge", describe=lambda ev: "trace:" + why(ev))
    return ctx.finish(
        "model_checking",
        assumptions=["stack identity = binary identity (build id, else file), mapping-relative address, function name/system name/file/start line, line, column, inline nesting, folded flag; mapping size and file offset are NOT part of the identity the property names, so the check accepts either choice for them",
                     "sample order, ids and mapping flags of the result are unspecified",
                     "values small integers (TLC 32-bit); linearity makes the magnitude irrelevant"],
        exhaustive=True)


def why(ev):
    w = []
    for k in ("valid", "intact", "compact"):
        if not ev.get(k):
            w.append(k)
    if ev.get("dups"):
        w.append("dups")
    return "+".join(w) or "bag-or-header"
