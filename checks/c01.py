"""C01 - profile serialization round-trips without loss."""
import json
import os

from lib import vcheck


def run(ctx, replay):
    binary = ctx.build("c01")
    if replay:
        r = json.load(open(replay))
        if not (isinstance(r.get("case"), dict) and "exp" in r["case"]):
            raise vcheck.Infra("random-driver event: rerun with VERIF_SEED=%s" % r.get("seed"))
        path = os.path.join(ctx.scratch, "replay.ndjson")
        with open(path, "w") as f:
            f.write(json.dumps(r["case"]) + "\n")
        ctx.harness(binary, cases=path, n=0)
        return ctx.finish("model_checking")
    cases = os.path.join(ctx.scratch, "cases.ndjson")
    ctx.tlc("Codec", "MCCodec.cfg", consts={"Tier": ctx.tier, "Emit": True}, emit_to=cases, timeout=1800, name="MCCodec")
    g = ctx.tlc("Codec", "MCCodec.cfg", consts={"Tier": "guard", "Emit": False, "Broken": "noDrop"}, expect_ok=False, timeout=300,
                name="MCCodec-broken-noDrop")
    if g["violated"] not in ("RoundTrip", "OnlyAllowedLoss"):
        raise vcheck.Infra("vacuity guard: %s" % g["out"][-1500:])
    trace = os.path.join(ctx.scratch, "trace.ndjson")
    ctx.harness(binary, cases=cases, trace=trace, n=30000 if ctx.tier == "thorough" else 3000)
    vcheck.sharded_trace(ctx, "TraceCodec", "TraceCodec.cfg", trace, trace + ".in", check="trace-codec",
                         describe=lambda ev: "trace:" + ev.get("via", ""))
    return ctx.finish(
        "model_checking",
        assumptions=["the varint byte codec is below the field-level wire model: it is exercised with extreme values through the round trip, not modelled",
                     "labels are a per-key map: the order of keys is not part of the profile",
                     "valid profiles only (NumUnit, when present, as long as NumLabel; every id non-zero and unique)"],
        exhaustive=True)
