"""C12 - symbolization only adds names; measurements are untouched."""
import json
import os

from lib import vcheck


def run(ctx, replay):
    binary = ctx.build("c12")
    if replay:
        r = json.load(open(replay))
        case = r.get("case")
        if isinstance(case, dict) and "case" in case:
            case = case["case"]
        path = os.path.join(ctx.scratch, "replay.ndjson")
        with open(path, "w") as f:
            f.write(json.dumps(case) + "\n")
        trace = os.path.join(ctx.scratch, "trace.ndjson")
        ctx.harness(binary, cases=path, trace=trace, n=0)
        res = ctx.tlc("TraceSymbolize", "TraceSymbolize.cfg", workers=1, files={"trace.ndjson": trace}, timeout=600)
        vcheck.trace_verdict(ctx, res, trace, trace + ".in", check="trace-symbolize", describe=lambda ev: "symbolize:" + ev["mode"])
        return ctx.finish("model_checking")
    cases = os.path.join(ctx.scratch, "cases.ndjson")
    ctx.tlc("Symbolize", "MCSymbolize.cfg", consts={"Tier": ctx.tier, "Emit": True}, emit_to=cases, timeout=3000, name="Symbolize")
    trace = os.path.join(ctx.scratch, "trace.ndjson")
    ctx.harness(binary, cases=cases, trace=trace, n=0)
    vcheck.sharded_trace(ctx, "TraceSymbolize", "TraceSymbolize.cfg", trace, trace + ".in", check="trace-symbolize",
                         describe=lambda ev: "symbolize:" + ("force" if ev["force"] else "noforce"))
    return ctx.finish(
        "model_checking",
        assumptions=["'already carries symbols' = the mapping's has-functions flag; force = the mode contains force or an explicit demangle=full|none|templates",
                     "plug-in behaviours are drawn from answer classes (one scripted representative each); real binutils/addr2line output parsing is C13's neighbourhood",
                     "existing functions keep their position and id; new ones are appended"])
