"""C12 - symbolization only adds names; measurements are untouched."""
import json
import os

from lib import vcheck


def describe(ev):
    # the events of a sequence of runs on one profile carry their position; a single run keeps the plain signature
    where = "run%d:" % ev["step"] if ev.get("of", 1) > 1 else ""
    return "symbolize:" + where + ("force" if ev["force"] else "noforce")


def run(ctx, replay):
    binary = ctx.build("c12")
    if replay:
        r = json.load(open(replay))
        case = r.get("case")
        if isinstance(case, dict) and "case" in case:
            case = case["case"]
        path = os.path.join(ctx.scratch, "replay.ndjson")
        with open(path, "w") as f:
            f.write(json.dumps(case) + "\n")
        trace = os.path.join(ctx.scratch, "trace.ndjson")
        ctx.harness(binary, cases=path, trace=trace, n=0)
        res = ctx.tlc("TraceSymbolize", "TraceSymbolize.cfg", workers=1, files={"trace.ndjson": trace}, timeout=600)
        vcheck.trace_verdict(ctx, res, trace, trace + ".in", check="trace-symbolize", describe=describe)
        return ctx.finish("model_checking")
    cases = os.path.join(ctx.scratch, "cases.ndjson")
    ctx.tlc("Symbolize", "MCSymbolize.cfg", consts={"Tier": ctx.tier, "Emit": True}, emit_to=cases, timeout=3000, name="Symbolize")
    trace = os.path.join(ctx.scratch, "trace.ndjson")
    ctx.harness(binary, cases=cases, trace=trace, n=0)
    # the events of one sequence stay together and in order: TraceSymbolize.tla carries the flags seen so far from run to run
    vcheck.sharded_trace(ctx, "TraceSymbolize", "TraceSymbolize.cfg", trace, trace + ".in", check="trace-symbolize",
                         describe=describe, group_start=lambda ev: ev["step"] == 1)
    seqs = sum(s.get("counters", {}).get("sequences", 0) for s in ctx.summaries)
    if seqs == 0:
        raise vcheck.Infra("no sequence of runs was replayed (Symbolize.tla emitted none)")
    return ctx.finish(
        "model_checking",
        assumptions=["'already carries symbols' = the mapping's has-functions flag; force = the mode contains force or an explicit demangle=full|none|templates",
                     "plug-in behaviours are drawn from answer classes (one scripted representative each); real binutils/addr2line output parsing is C13's neighbourhood",
                     "existing functions keep their position and id; new ones are appended",
                     "sequences of runs: 3 runs per sequence over a fixed set of run scripts (8 quick, 12 thorough) on 4 (thorough: all) catalogue profiles; the profile object is handed from run to run as it is (written and parsed only on the side)",
                     "'identical to an existing function' = one frame repeating name = system name, file and start line of the first such function in the table at the start of the run"])
