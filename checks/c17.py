"""C17 - flame-graph stack data is a faithful, self-consistent index of samples."""
import json
import os

from lib import vcheck


def run(ctx, replay):
    binary = ctx.build("c17")
    if replay:
        raise vcheck.Infra("C17 violations are trace events (the replay file holds the abstract profile and configuration): rerun with VERIF_SEED=%s" % json.load(open(replay)).get("seed"))
    cases = os.path.join(ctx.scratch, "cases.ndjson")
    ctx.tlc("Stacks", "MCStacks.cfg", consts={"Tier": ctx.tier, "Emit": True}, emit_to=cases, timeout=1800, name="MCStacks")
    for b in ("placesAdjacentOnly", "internNoInlined"):
        g = ctx.tlc("Stacks", "MCStacks.cfg", consts={"Tier": "guard", "Emit": False, "Broken": b}, expect_ok=False, timeout=120, name="MCStacks-" + b)
        if g["violated"] != "MechanismMeetsDefinition":
            raise vcheck.Infra("vacuity guard %s: %s" % (b, g["out"][-1500:]))
    trace = os.path.join(ctx.scratch, "trace.ndjson")
    ctx.harness(binary, cases=cases, trace=trace, n=4000 if ctx.tier == "thorough" else 400)
    vcheck.sharded_trace(ctx, "TraceStacks", "TraceStacks.cfg", trace, trace + ".in", check="trace-stacks",
                         describe=lambda ev: "stacks:%s:%s" % (ev.get("via"), ev["cfg"]["gran"]))
    return ctx.finish(
        "model_checking",
        assumptions=["a location without line information contributes no frame (the code's choice, modelled as is)",
                     "source identity = (name with line info, file, inlined); Display/Color/UniqueName are presentation and only checked for being non-empty",
                     "total/scale/unit of the stack set are C15's subject"])
