"""C20 - shared profile and tool state is safe under concurrent use."""
import glob
import json
import os
import re
import subprocess
import threading
import http.server
import socketserver

from lib import vcheck


def races(ctx, where, logdir):
    n = 0
    for f in glob.glob(os.path.join(logdir, "race.*")):
        txt = open(f, errors="replace").read()
        for blk in txt.split("==================")[1:]:
            if "DATA RACE" not in blk:
                continue
            n += 1
            # signature: the innermost pprof frames of the two accesses
            frames = re.findall(r"\n\s+(github\.com/google/pprof/[^\s(]+)\(", blk)
            frames = [x for x in frames if "zzverif" not in x][:2]
            ctx.violate("race", "data-race:%s:%s" % (where, ",".join(x.split("/pprof/")[-1] for x in frames) or "unknown"), blk[:1500], {"where": where})
        os.remove(f)
    return n


def run(ctx, replay):
    if replay:
        raise vcheck.Infra("rerun `bin/check C20` (schedules are sampled under the race detector)")
    # the lock protocols as modelled: exhaustive for 3 processes, four broken variants must fail
    ctx.tlc("Shared", "MCShared.cfg", consts={"Broken": "none"}, timeout=900, name="MCShared")
    for b in ("noMutex", "unlockEarly", "noExcl", "inPlaceUpdate"):
        g = ctx.tlc("Shared", "MCShared.cfg", consts={"Broken": b}, expect_ok=False, timeout=300, name="MCShared-" + b)
        if not g["violated"]:
            raise vcheck.Infra("vacuity guard %s not detected" % b)
    ctx.tlc("SharedState", "MCSharedState.cfg", consts={"Broken": "none"}, timeout=300, name="MCSharedState")
    for b, inv in (("cleanupUnlocked", "NoLeak"), ("lazyInitUnlocked", "SetterNeverLost")):
        g = ctx.tlc("SharedState", "MCSharedState.cfg", consts={"Broken": b}, expect_ok=False, timeout=300, name="MCSharedState-" + b)
        if g["violated"] != inv:
            raise vcheck.Infra("vacuity guard %s not detected" % b)
    # (f) the shared tool pipe: the mutex is released on every exit path (ToolPipe.tla)
    ctx.tlc("ToolPipe", "MCToolPipe.cfg", consts={"Broken": "none"}, timeout=300, name="MCToolPipe")
    for b, inv in (("noUnlockOnReadError", "NoOrphanLock"), ("unlockBeforeRead", "OwnAnswer")):
        g = ctx.tlc("ToolPipe", "MCToolPipe.cfg", consts={"Broken": b}, expect_ok=False, timeout=300, name="MCToolPipe-" + b)
        if g["violated"] != inv:
            raise vcheck.Infra("vacuity guard %s not detected (%s)" % (b, g["violated"]))
    thorough = ctx.tier == "thorough"
    logdir = os.path.join(ctx.scratch, "race")
    os.makedirs(logdir)
    env = {"GORACE": "halt_on_error=0 exitcode=0 log_path=%s/race" % logdir, "VERIF_REPO": vcheck.REPO}
    # 1. encode + binutils under the race detector
    c20 = ctx.build("c20", race=True)
    for procs in (["1", "16"] if not thorough else ["1", "2", "16"]):
        e = dict(env, GOMAXPROCS=procs)
        ctx.harness(c20, n=400 if thorough else 60, env=e, name="c20-race(GOMAXPROCS=%s)" % procs, timeout=3000)
        races(ctx, "encode+binutils", logdir)
    # 2. web handlers, option store, report generation on a shared profile: the C10 web mixes under -race
    c10 = ctx.build("c10", race=True)
    empty = os.path.join(ctx.scratch, "empty.ndjson")
    open(empty, "w").close()
    # ... preceded by a few interactive sessions whose lines take the option store's error paths (a store that
    # deadlocks on itself blocks every later reader and writer)
    optcases = os.path.join(ctx.scratch, "optstore.ndjson")
    with open(optcases, "w") as f:
        for line in ("cum=false", "lines=no", "flat=0", "granularity=bogus", "nodecount=abc"):
            f.write(json.dumps({"lines": [{"kind": "bad", "line": line, "opt": "", "val": ""}, {"kind": "command", "line": "top", "opt": "", "val": ""}],
                                "prefix": [[], []], "final": []}) + "\n")
    ctx.harness(c10, cases=optcases, n=300 if thorough else 50, env=env, extra="c10", name="c10-web-race", timeout=3000)
    races(ctx, "web", logdir)
    # 3. parallel fetch under -race
    c16 = ctx.build("c16", race=True)
    # every (failure subset, completion order) of three sources and a base from Fetch.tla, replayed with a gating
    # Fetcher under the race detector; the recorded runs are validated by TraceFetch.tla: the merged result is the
    # one the sources give when fetched one at a time, in command-line order
    fcases = os.path.join(ctx.scratch, "fetch-cases.ndjson")
    ctx.tlc("Fetch", "MCFetch.cfg", consts={"NSrc": 3, "NBase": 1, "ChunkSize": 128, "Emit": True}, emit_to=fcases, timeout=900, name="GenFetch")
    ftrace = os.path.join(ctx.scratch, "fetch-trace.ndjson")
    ctx.harness(c16, cases=fcases, trace=ftrace, n=6, env=env, name="c16-fetch-race", timeout=3000)
    races(ctx, "fetch", logdir)
    res = ctx.tlc("TraceFetch", "TraceFetch.cfg", workers=1, files={"trace.ndjson": ftrace}, timeout=1800, name="TraceFetch")
    vcheck.trace_verdict(ctx, res, ftrace, ftrace + ".in", check="trace-fetch", describe=lambda ev: "fetch:%s:n=%d" % (ev.get("schedule"), len(ev["srcok"])))
    # 4. temporary/saved files from concurrent pprof PROCESSES sharing one PPROF_TMPDIR: distinct names, never overwritten
    pprof = ctx.build_pprof()
    src = os.path.join(vcheck.REPO, "internal", "driver", "testdata", "cppbench.cpu")
    if not os.path.exists(src):
        src = glob.glob(os.path.join(vcheck.REPO, "profile", "testdata", "*.cpu"))[0]
    data = open(src, "rb").read()

    class H(http.server.BaseHTTPRequestHandler):
        def do_GET(self):
            self.send_response(200)
            self.send_header("Content-Length", str(len(data)))
            self.end_headers()
            self.wfile.write(data)

        def log_message(self, *a):
            pass
    srv = socketserver.ThreadingTCPServer(("127.0.0.1", 0), H)
    port = srv.server_address[1]
    t = threading.Thread(target=srv.serve_forever, daemon=True)
    t.start()
    try:
        tmpdir = ctx.env["PPROF_TMPDIR"]
        for f in glob.glob(os.path.join(tmpdir, "*")):
            os.remove(f)
        k = 12
        ps = [subprocess.Popen([pprof, "-top", "-symbolize=none", "http://127.0.0.1:%d/pprof/profile" % port], env=ctx.env,
                               stdout=subprocess.PIPE, stderr=subprocess.PIPE) for _ in range(k)]
        saved = []
        for p in ps:
            out, err = p.communicate(timeout=120)
            m = re.search(r"Saved profile in (\S+)", err.decode(errors="replace"))
            if p.returncode != 0 or not m:
                raise vcheck.Infra("concurrent pprof process failed: %s" % err.decode(errors="replace")[-500:])
            saved.append(m.group(1))
        files = sorted(glob.glob(os.path.join(tmpdir, "*.pb.gz")))
        ctx.extra_cov["concurrent_processes"] = k
        ctx.extra_cov["saved_files"] = len(files)
        if len(set(saved)) != k or len(files) != k:
            ctx.violate("tempfile", "saved-file-name-collision", "%d concurrent pprof processes reported %d distinct saved files; the directory holds %d" % (k, len(set(saved)), len(files)), {"saved": saved})
        sizes = {os.path.getsize(f) for f in files}
        if len(sizes) > 1 or 0 in sizes:
            ctx.violate("tempfile", "saved-file-overwritten", "saved copies differ in size: %s" % sorted(sizes), {"files": files})
        # names that are already taken - by a file another process just created, or by an entry a plain stat cannot
        # see (a dangling symbolic link) - must be left alone: the new file gets the next free name
        first = sorted(saved)[0]
        stem = re.sub(r"\.\d{3}\.pb\.gz$", "", first)
        if stem != first:
            for f in glob.glob(os.path.join(tmpdir, "*")):
                os.remove(f)
            outside = os.path.join(ctx.scratch, "symlink-target-must-not-appear")
            if os.path.exists(outside):
                os.remove(outside)
            os.symlink(outside, stem + ".001.pb.gz")
            with open(stem + ".002.pb.gz", "w") as f:
                f.write("precious")
            p1 = subprocess.run([pprof, "-top", "-symbolize=none", "http://127.0.0.1:%d/pprof/profile" % port], env=ctx.env, capture_output=True, timeout=120)
            m = re.search(r"Saved profile in (\S+)", p1.stderr.decode(errors="replace"))
            got = m.group(1) if m else None
            ctx.extra_cov["taken_names_probe"] = got
            if os.path.exists(outside) or os.path.lexists(stem + ".001.pb.gz") and not os.path.islink(stem + ".001.pb.gz"):
                ctx.violate("tempfile", "existing-entry-claimed:symlink", "a dangling symbolic link at the first candidate name was followed or replaced (saved in %s)" % got, {"saved": got})
            if open(stem + ".002.pb.gz").read() != "precious":
                ctx.violate("tempfile", "existing-entry-claimed:file", "an existing file at a candidate name was overwritten (saved in %s)" % got, {"saved": got})
            if p1.returncode == 0 and got in (stem + ".001.pb.gz", stem + ".002.pb.gz"):
                ctx.violate("tempfile", "existing-entry-claimed:name", "the profile was saved under a name that was already taken: %s" % got, {"saved": got})
    finally:
        srv.shutdown()
    return ctx.finish(
        "model_checking",
        assumptions=["Go offers no controllable scheduler: at the implementation level interleavings are widened at the gated point (sleep between preEncode and marshal) and otherwise SAMPLED; 'no data race' is the race detector's verdict on the executions performed, not a proof",
                     "the lock protocols as modelled are checked exhaustively by TLC for 3 processes",
                     "temporary-file naming is exercised across 12 concurrent pprof processes sharing PPROF_TMPDIR"],
        samples=[{"mixes": "encode Write/WriteUncompressed/Copy x k goroutines; SourceLine x5 + SetTools; web request mixes; parallel fetch; 12 pprof processes saving a remote profile"}])
