"""C07 - combining and subtracting profiles is linear in every entry."""
import json
import os

from lib import vcheck


def run(ctx, replay):
    binary = ctx.build("c07")
    if replay:
        r = json.load(open(replay))
        path = os.path.join(ctx.scratch, "replay.ndjson")
        with open(path, "w") as f:
            f.write(json.dumps(r["case"]) + "\n")
        ctx.harness(binary, cases=path, n=0)
        return ctx.finish("model_checking")
    cases = os.path.join(ctx.scratch, "cases.ndjson")
    ctx.tlc("Combine", "MCCombine.cfg", consts={"Tier": ctx.tier, "Emit": True}, emit_to=cases,
            timeout=3400 if ctx.tier == "thorough" else 900, name="MCCombine")
    g = ctx.tlc("Combine", "MCCombine.cfg", consts={"Tier": "guard", "Emit": False, "Broken": "keepScaledOnly"}, expect_ok=False,
                timeout=300, name="MCCombine-broken-keep")
    if g["violated"] not in ("PipelineMeetsDefinition", "NoValueDropped"):
        raise vcheck.Infra("vacuity guard: %s" % g["out"][-1500:])
    ctx.harness(binary, cases=cases, n=0)
    return ctx.finish(
        "model_checking",
        assumptions=["unit factors are exact integers (us/ms/s, B/kB) so harmonisation is exact; float rounding of general ratios is C15's subject",
                     "-normalize is exercised where the ratio of totals is exactly 1 (p - p); other ratios round per sample and are not pinned by the statement",
                     "values are read from -top with -unit=<finest unit of the column>, which prints integers"],
        exhaustive=True)
