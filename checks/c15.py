"""C15 - unit conversion and value formatting preserve magnitude."""
import json
import os

from lib import vcheck


def run(ctx, replay):
    binary = ctx.build("c15")
    cases = os.path.join(ctx.scratch, "cases.ndjson")
    if replay:
        r = json.load(open(replay))
        with open(cases, "w") as f:
            f.write(json.dumps(r["case"]) + "\n")
        ctx.harness(binary, cases=cases, n=0)
        return ctx.finish("model_checking")
    ctx.tlc("Units", "MCUnits.cfg", consts={"Tier": ctx.tier, "Emit": True}, emit_to=cases, timeout=1800, name="MCUnits")
    ctx.harness(binary, cases=cases, n=0)
    return ctx.finish(
        "model_checking",
        assumptions=["unit factors are symbolic exponent triples in the specification; the harness evaluates them with exact rationals and compares floats with relative error 1e-9 (floating-point rounding itself is outside TLA+)",
                     "display rounding = 0.005 of the printed unit",
                     "canonical GCU spellings such as 'm*GCU' are output-only in pprof's tables and not used as input spellings"],
        exhaustive=True)
