"""C11 - frame-dropping rules remove only the frames they name."""
import json
import os

from lib import vcheck


def run(ctx, replay):
    binary = ctx.build("c11")
    if replay:
        r = json.load(open(replay))
        path = os.path.join(ctx.scratch, "replay.ndjson")
        with open(path, "w") as f:
            f.write(json.dumps(r["case"]) + "\n")
        ctx.harness(binary, cases=path, n=0)
        return ctx.finish("model_checking")
    cases = os.path.join(ctx.scratch, "cases.ndjson")
    ctx.tlc("Prune", "MCPrune.cfg", consts={"Tier": ctx.tier, "Emit": True}, emit_to=cases,
            timeout=3400 if ctx.tier == "thorough" else 900, name="MCPrune")
    g = ctx.tlc("Prune", "MCPrune.cfg", consts={"Tier": "guard", "Emit": False, "Broken": "guardBeneath"}, expect_ok=False,
                timeout=300, name="MCPrune-broken-guard")
    if g["violated"] != "MechanismMeetsDefinition":
        raise vcheck.Infra("vacuity guard: %s" % g["out"][-1500:])
    ctx.harness(binary, cases=cases, n=0)
    return ctx.finish(
        "model_checking",
        assumptions=["an expression is represented by the set of simplified catalogue names it fully matches and written, as profiles carry it, as a bare alternation a|b that pprof must anchor as a whole",
                     "Simplify is the table {'.a' -> 'a', 'a(int)' -> 'a'}; reserved names are C09/C12 material",
                     "a location without line information has no name and never matches"],
        exhaustive=True)
