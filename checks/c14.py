"""C14 - legacy text and binary profiles convert with the documented values."""
import json
import os

from lib import vcheck


def run(ctx, replay):
    binary = ctx.build("c14")
    cases = os.path.join(ctx.scratch, "cases.ndjson")
    if replay:
        r = json.load(open(replay))
        with open(cases, "w") as f:
            f.write(json.dumps(r["case"]) + "\n")
        ctx.harness(binary, cases=cases, n=0)
        return ctx.finish("model_checking")
    g = ctx.tlc("Legacy", "MCLegacy.cfg", consts={"Tier": "guard", "Emit": False, "Broken": "sameAsPreviousDropped"}, expect_ok=False,
                timeout=300, name="MCLegacy-broken")
    if g["violated"] != "ThreadzCountsAllThreads":
        raise vcheck.Infra("vacuity guard: %s" % g["out"][-1500:])
    ctx.tlc("Legacy", "MCLegacy.cfg", consts={"Tier": ctx.tier, "Emit": True, "Broken": "none"}, emit_to=cases, timeout=1800, name="MCLegacy")
    # vacuity guard for the memory-map forms: the catalogue must still hold a split mapping that the rules join and
    # move to the top, and file names that go through an attribute defined before the most recent one
    joined = attrs = 0
    with open(cases) as f:
        for line in f:
            if 'split2' not in line and 'attrs' not in line:
                continue
            c = json.loads(json.loads(line))
            ml = [(m["file"], m["start"], m["limit"], m["off"]) for m in c["maplist"] if m["file"]]
            if c["map"] == "split2" and ml == [("/bin/exe", 8, 4096, 0), ("/lib/libc.so.6", 4096, 8192, 0)] \
                    and sum(1 for e in c["mapsrc"] if e["k"] == "map" and e["x"]) == 3:
                joined += 1
            if c["map"] == "attrs" and [m[0] for m in ml] == ["/b/bin/exe", "/s/lib/libc.so.6", "/usr/lib/libm.so.6"] \
                    and [e["name"] for e in c["mapsrc"] if e["k"] == "attr"] == ["build", "source", "libs"]:
                attrs += 1
    if not joined or not attrs:
        raise vcheck.Infra("vacuity guard: the emitted cases hold %d split2 and %d attrs memory maps with the expected mapping list" % (joined, attrs))
    ctx.harness(binary, cases=cases, n=0)
    return ctx.finish(
        "model_checking",
        assumptions=["the unsampling and cycles->ns rules are named in the specification and evaluated by the harness with an independent formula (expm1 / exact rationals); truncated floats are compared within one unit or 1e-9 relative",
                     "Java stacks are compared through the names the trailing location section gives each address (the parser clears the addresses)",
                     "a heap record with count 0 carries no block-size label (zero numeric labels cannot be represented in profile.proto; fix recorded under C02)",
                     "memory maps: the specification lists the lines of each map form (entries, attr=value lines) and derives the expected Mapping list with the named rules Substitute, SkipNonExec, MergeAdjacent, MainFirst, ExtendDown and Fake; the whole list of the parsed profile is compared. Not covered: the 0x400000 and /anon_hugepage rules, an attribute assigned twice, more than one $attr in a file name",
                     "parsing is history-free: every document of the split and offset map forms is rendered once more with file names of its own and parsed four times in the harness process; parses 2 to 4 must print exactly as parse 1 (which is held against the specification), must leave the earlier profiles alone and must not hand out a Mapping object that an earlier profile holds",
                     "the codec round trip of the parsed profile is uncompressed except for one comparison in 64 (gzip is C02's subject and was nine tenths of this check's harness time)"],
        exhaustive=True)
