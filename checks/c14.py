"""C14 - legacy text and binary profiles convert with the documented values."""
import json
import os

from lib import vcheck


def run(ctx, replay):
    binary = ctx.build("c14")
    cases = os.path.join(ctx.scratch, "cases.ndjson")
    if replay:
        r = json.load(open(replay))
        with open(cases, "w") as f:
            f.write(json.dumps(r["case"]) + "\n")
        ctx.harness(binary, cases=cases, n=0)
        return ctx.finish("model_checking")
    g = ctx.tlc("Legacy", "MCLegacy.cfg", consts={"Tier": "guard", "Emit": False, "Broken": "sameAsPreviousDropped"}, expect_ok=False,
                timeout=300, name="MCLegacy-broken")
    if g["violated"] != "ThreadzCountsAllThreads":
        raise vcheck.Infra("vacuity guard: %s" % g["out"][-1500:])
    ctx.tlc("Legacy", "MCLegacy.cfg", consts={"Tier": ctx.tier, "Emit": True, "Broken": "none"}, emit_to=cases, timeout=1800, name="MCLegacy")
    ctx.harness(binary, cases=cases, n=0)
    return ctx.finish(
        "model_checking",
        assumptions=["the unsampling and cycles->ns rules are named in the specification and evaluated by the harness with an independent formula (expm1 / exact rationals); truncated floats are compared within one unit or 1e-9 relative",
                     "Java stacks are compared through the names the trailing location section gives each address (the parser clears the addresses)",
                     "a heap record with count 0 carries no block-size label (zero numeric labels cannot be represented in profile.proto; fix recorded under C02)",
                     "memory maps: two executable mappings and one non-executable one; the mapping-merging heuristics of massageMappings are exercised only as far as they must leave these alone"],
        exhaustive=True)
