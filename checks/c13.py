"""C13 - sample addresses map to the right link-time address in ELF binaries."""
import json
import os
import shutil
import subprocess

from lib import vcheck


def run(ctx, replay):
    binary = ctx.build("c13")
    cases = os.path.join(ctx.scratch, "cases.ndjson")
    if replay:
        r = json.load(open(replay))
        with open(cases, "w") as f:
            f.write(json.dumps(r["case"]) + "\n")
        ctx.harness(binary, cases=cases, n=0)
        return ctx.finish("model_checking")
    # the arithmetic core for unbounded integers (Apalache): base = bias for every layout that satisfies the gABI
    # congruence; without the congruence a counterexample must exist (vacuity guard)
    adir = os.path.join(ctx.scratch, "apalache")
    os.makedirs(adir, exist_ok=True)
    shutil.copy(os.path.join(vcheck.VERIF, "spec", "ElfBase.tla"), adir)
    apal = {}
    for name, init, want in (("ElfBase", "Init", "NoError"), ("ElfBase-noCongruence", "InitNoCongruence", "Error")):
        try:
            p = subprocess.run(["timeout", "600", "apalache-mc", "check", "--init=" + init, "--inv=Inv", "--length=0", "ElfBase.tla"],
                               cwd=adir, env=ctx.env, capture_output=True, text=True, errors="replace", timeout=700)
        except Exception as e:
            raise vcheck.Infra("apalache: %s" % e)
        m = [l for l in p.stdout.splitlines() if "The outcome is:" in l]
        got = m[-1].split("The outcome is:")[1].split()[0] if m else "none"
        apal[name] = got
        if got != want:
            raise vcheck.Infra("apalache %s: outcome %s, expected %s\n%s" % (name, got, want, p.stdout[-1500:]))
    ctx.extra_cov["apalache"] = apal
    ctx.tlc("ElfLoad", "MCElfLoad.cfg", consts={"Tier": ctx.tier, "Emit": True}, emit_to=cases, timeout=1800, name="ElfLoad")
    ctx.harness(binary, cases=cases, n=0)
    return ctx.finish(
        "model_checking",
        assumptions=["ground truth = System V loader semantics for PT_LOAD segments (gABI: offset and vaddr congruent modulo the page size), not any particular linker's habits",
                     "ELF only (Mach-O and PE are not covered); kernel images: ground truth is link address + KASLR slide (or the ChromeOS remap of the relocation symbol into page 0) with a perf-style mapping that starts at the relocation symbol and an image called vmlinux or a mapping that is not page aligned - the documented blind spot (unnamed image, page-aligned _stext away from the segment start) is not enumerated",
                     "a lookup past the end of the last symbol may return that symbol or nothing",
                     "ElfBase.tla (Apalache, unbounded integers, not uint64 wrap-around) proves base = bias for the transcribed formula; the harness checks that elfexec.GetBase evaluates that formula on every enumerated case"],
        exhaustive=True)
