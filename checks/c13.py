"""C13 - sample addresses map to the right link-time address in ELF binaries."""
import json
import os

from lib import vcheck


def run(ctx, replay):
    binary = ctx.build("c13")
    cases = os.path.join(ctx.scratch, "cases.ndjson")
    if replay:
        r = json.load(open(replay))
        with open(cases, "w") as f:
            f.write(json.dumps(r["case"]) + "\n")
        ctx.harness(binary, cases=cases, n=0)
        return ctx.finish("model_checking")
    ctx.tlc("ElfLoad", "MCElfLoad.cfg", consts={"Tier": ctx.tier, "Emit": True}, emit_to=cases, timeout=1800, name="ElfLoad")
    ctx.harness(binary, cases=cases, n=0)
    return ctx.finish(
        "model_checking",
        assumptions=["ground truth = System V loader semantics for PT_LOAD segments (gABI: offset and vaddr congruent modulo the page size), not any particular linker's habits",
                     "ELF user space only; Mach-O, PE and the kernel heuristics are not covered",
                     "a lookup past the end of the last symbol may return that symbol or nothing",
                     "Apalache run for unbounded integers was planned in DESIGN.md but not built in this session"],
        exhaustive=True)
