"""C05 - trimming hides entries but never changes the numbers of those shown."""
import json
import os

from lib import vcheck


def run(ctx, replay):
    binary = ctx.build("c05")
    if replay:
        r = json.load(open(replay))
        if isinstance(r.get("case"), dict) and r["case"].get("kind") == "kept":
            path = os.path.join(ctx.scratch, "replay.ndjson")
            with open(path, "w") as f:
                f.write(json.dumps(r["case"]) + "\n")
            ctx.harness(binary, cases=path, n=0)
            return ctx.finish("model_checking")
        raise vcheck.Infra("C05 violations are trace events: rerun `bin/check C05` with VERIF_SEED=%s (the replay file holds the concrete report options and profile)" % json.load(open(replay)).get("seed"))
    thorough = ctx.tier == "thorough"
    # model: the rebuild-with-kept-set mechanism against the declarative tables, every subset K
    kept = os.path.join(ctx.scratch, "kept.ndjson")
    ctx.tlc("Trim", "MCTrim.cfg", consts={"Tier": ctx.tier, "Emit": True}, emit_to=kept, timeout=3000, name="MCTrim")
    ctx.harness(binary, cases=kept, n=0, name="c05-kept-sets")
    g = ctx.tlc("Trim", "MCTrim.cfg", consts={"Tier": "quick", "Broken": "flatToLastKept"}, expect_ok=False, timeout=600,
                name="MCTrim-broken-flat")
    if g["violated"] != "ShownKeepNumbers":
        raise vcheck.Infra("vacuity guard failed for Trim.tla: %s" % g["out"][-1500:])
    # profiles: the Report.tla catalogue (shared with C04) plus random ones
    cases = os.path.join(ctx.scratch, "cases.ndjson")
    ctx.tlc("Report", "MCReport.cfg", consts={"Tier": "quick", "Emit": True}, emit_to=cases, timeout=900, name="GenReportCases")
    # the comparison profiles of Trim.tla (samples labelled pprof::base) also go through the real trimmed reports,
    # in the traced run: the harness takes each such profile once
    with open(kept) as f, open(cases, "a") as out:
        n_base = 0
        for line in f:
            if "pprof::base" in line:
                out.write(line)
                n_base += 1
    if n_base == 0:
        raise vcheck.Infra("Trim.tla emitted no comparison profile")
    trace = os.path.join(ctx.scratch, "trace.ndjson")
    ctx.harness(binary, cases=cases, trace=trace, n=1500 if thorough else 300)
    vcheck.sharded_trace(ctx, "TraceTrim", "TraceTrim.cfg", trace, trace + ".in", check="trace-trim",
                         describe=lambda ev: "trim:%s:%s" % (ev["form"], why(ev)), key="id")
    return ctx.finish(
        "model_checking",
        assumptions=["the node cutoff is |int64(total_of_flats * nodefraction)| and removes |cum| < cutoff; fractions are chosen so that the cutoff lands on a chosen integer",
                     "graphical reports may pick survivors heuristically: for -dot only invariance, no-dangling, residual marking and accounting are demanded",
                     "ties in the active sort order may be broken either way here (tie-breaking is C08's subject)",
                     "an edge whose contributing adjacencies are partly direct and partly bypassing may or may not be marked residual",
                     "granularities whose printable names identify entries (functions, filefunctions, lines); mean is covered by C04 except for call trees",
                     "call trees (-dot -call_tree, trimmed in place by TrimTree): forests in which every function has one calling context, edge cutoff 0; the expectations are computed by the harness from the untrimmed real report (nearest shown caller, weight of the untrimmed edge into the entry, also under mean), not by TLC"])


def why(ev):
    return "dangling" if ev.get("dangling") else "n=%s,nc=%s,ec=%s,%s" % (ev["n"] > 0, ev["nc"] > 0, ev["ec"] > 0, ev["sort"])
