"""C16 - multi-source fetch merges whatever succeeded, independent of timing."""
import json
import os

from lib import vcheck
from checks.pipeline import pipeline


def run(ctx, replay):
    binary = ctx.build("c16")
    if replay:
        raise vcheck.Infra("C16 violations are trace events: rerun with VERIF_SEED=%s" % json.load(open(replay)).get("seed"))
    # the design: every completion order x failure subset, chunks of 2 so that chunk boundaries are crossed in the model
    ctx.tlc("Fetch", "MCFetch.cfg", consts={"NSrc": 3, "NBase": 1, "ChunkSize": 2, "Emit": False}, timeout=900, name="MCFetch(chunk=2)")
    if ctx.tier == "thorough":
        ctx.tlc("Fetch", "MCFetch.cfg", consts={"NSrc": 3, "NBase": 2, "ChunkSize": 1, "Emit": False}, timeout=3000, name="MCFetch(chunk=1,2 bases)")
    for b in ("completionOrder", "emptyChunkFails", "noBarrier"):
        g = ctx.tlc("Fetch", "MCFetch.cfg", consts={"Broken": b}, expect_ok=False, timeout=300, name="MCFetch-" + b)
        if not g["violated"]:
            raise vcheck.Infra("vacuity guard %s: %s" % (b, g["out"][-1500:]))
    # behaviours with everything in one chunk (the real chunk size is 128): replayed with a gating Fetcher
    cases = os.path.join(ctx.scratch, "cases.ndjson")
    ctx.tlc("Fetch", "MCFetch.cfg", consts={"NSrc": 3, "NBase": 1, "ChunkSize": 128, "Emit": True}, emit_to=cases, timeout=900, name="GenFetch")
    trace = os.path.join(ctx.scratch, "trace.ndjson")
    ctx.harness(binary, cases=cases, trace=trace, n=60 if ctx.tier == "thorough" else 12, timeout=3000)
    res = ctx.tlc("TraceFetch", "TraceFetch.cfg", workers=1, files={"trace.ndjson": trace}, timeout=1800, name="TraceFetch")
    vcheck.trace_verdict(ctx, res, trace, trace + ".in", check="trace-fetch", describe=lambda ev: "fetch:%s:n=%d" % (ev.get("schedule"), len(ev["srcok"])))
    # whole runs against Pprof.tla: every source fetched once, the Symbolizer sees the bag sum of whatever succeeded,
    # an error only when nothing was fetched
    pipeline(ctx, kinds=("config", "fetch", "sym", "error"))
    return ctx.finish(
        "model_checking",
        assumptions=["completion orders are forced at the Fetcher plug-in boundary (each fetch returns only when released, the next is released after the previous returned); the goroutine's own bookkeeping after Fetch returns is not gated",
                     "the merge order is observed through the comment each source contributes (comments merge as an ordered union) and every source's unique sample",
                     "failure kinds: plug-in error, invalid profile, missing file, garbage file, HTTP 500 through the transport plug-in"])
