"""C16 - multi-source fetch merges whatever succeeded, independent of timing."""
import concurrent.futures
import json
import os

from lib import vcheck
from checks.pipeline import pipeline


def _tlc_all(ctx, jobs, width=5):
    """Independent TLC runs side by side (small models, the JVM start dominates: 4 workers each unless the job says
    otherwise). jobs: list of kwargs of ctx.tlc."""
    with concurrent.futures.ThreadPoolExecutor(max_workers=width) as ex:
        futs = [ex.submit(ctx.tlc, "Fetch", "MCFetch.cfg", **dict({"workers": 4}, **j)) for j in jobs]
        concurrent.futures.wait(futs)
    return [f.result() for f in futs]      # the first failure (Infra) is raised here, in job order


def run(ctx, replay):
    binary = ctx.build("c16")
    if replay:
        raise vcheck.Infra("C16 violations are trace events: rerun with VERIF_SEED=%s" % json.load(open(replay)).get("seed"))
    cases_a = os.path.join(ctx.scratch, "cases-local.ndjson")
    cases_b = os.path.join(ctx.scratch, "cases-urls.ndjson")
    thorough = ctx.tier == "thorough"
    # the design: every completion order x class vector, chunks of 2 so that chunk boundaries are crossed in the model;
    # with the URL classes (errbody, remote) and both outcomes of the shared transport's one-time initialisation in
    # chunks of 1, so that what the initialisation left behind is carried across chunk boundaries
    jobs = [dict(consts={"NSrc": 3, "NBase": 1, "ChunkSize": 2, "Emit": False}, timeout=900, name="MCFetch(chunk=2)"),
            dict(consts={"NSrc": 2, "NBase": 1, "ChunkSize": 1, "Classes": "all", "Emit": False}, timeout=900, name="MCFetch(all classes,chunk=1)")]
    if thorough:
        jobs.append(dict(consts={"NSrc": 3, "NBase": 2, "ChunkSize": 1, "Emit": False}, timeout=3000, workers=vcheck.NCPU, name="MCFetch(chunk=1,2 bases)"))
        jobs.append(dict(consts={"NSrc": 3, "NBase": 1, "ChunkSize": 2, "Classes": "all", "Emit": False}, timeout=3000, workers=vcheck.NCPU, name="MCFetch(all classes,chunk=2)"))
    guards = [("completionOrder", {}), ("emptyChunkFails", {}), ("noBarrier", {}),
              # the outcome of a source must not depend on which fetch reached the shared transport first / on the
              # body of an error answer
              ("initErrOnce", {"NSrc": 2, "Classes": "all"}), ("errBodyParsed", {"NSrc": 2, "Classes": "all"})]
    for b, extra in guards:
        jobs.append(dict(consts=dict(extra, Broken=b), expect_ok=False, timeout=300, name="MCFetch-" + b))
    # behaviours with everything in one chunk (the real chunk size is 128): replayed with a gating Fetcher;
    # 3 sources + 1 base of the classes ok / fail, and 2 (thorough: 3) sources + 1 base of the classes ok / errbody / remote
    # under a transport whose initialisation succeeds or fails
    jobs.append(dict(consts={"NSrc": 3, "NBase": 1, "ChunkSize": 128, "Emit": True}, emit_to=cases_a, timeout=900, name="GenFetch"))
    jobs.append(dict(consts={"NSrc": 3 if thorough else 2, "NBase": 1, "ChunkSize": 128, "Classes": "remote", "Emit": True}, emit_to=cases_b, timeout=900,
                     name="GenFetch(urls)"))
    results = _tlc_all(ctx, jobs)
    for (b, _), g in zip(guards, [r for r in results if r["name"].startswith("MCFetch-")]):
        if not g["violated"]:
            raise vcheck.Infra("vacuity guard %s: %s" % (b, g["out"][-1500:]))
    cases = os.path.join(ctx.scratch, "cases.ndjson")
    with open(cases, "w") as f:
        for p in (cases_a, cases_b):
            n = 0
            for line in open(p):
                f.write(line)
                n += 1
            if n == 0:
                raise vcheck.Infra("no cases emitted into %s" % os.path.basename(p))
    trace = os.path.join(ctx.scratch, "trace.ndjson")
    s = ctx.harness(binary, cases=cases, trace=trace, n=60 if thorough else 12, timeout=3000)
    c = s.get("counters") or {}
    if not s.get("infra_errors") and not (c.get("runs:urls") and c.get("runs:urls-tls-setup-broken")):
        raise vcheck.Infra("the harness ran no behaviour with URL sources: %s" % c)
    # the runs with URL sources and the others are decided separately (side by side), so that the rejections reported
    # for one kind do not crowd out those of the other
    parts = {"local": trace + ".local", "urls": trace + ".urls"}
    outs = {k: open(p, "w") for k, p in parts.items()}
    for line in open(trace):
        outs["urls" if str(json.loads(line).get("schedule", "")).startswith("urls") else "local"].write(line)
    for f in outs.values():
        f.close()
    with concurrent.futures.ThreadPoolExecutor(max_workers=2) as ex:
        futs = {k: ex.submit(ctx.tlc, "TraceFetch", "TraceFetch.cfg", workers=1, files={"trace.ndjson": p}, timeout=1800, name="TraceFetch(%s)" % k)
                for k, p in parts.items()}
        concurrent.futures.wait(list(futs.values()))
    for k, p in parts.items():
        vcheck.trace_verdict(ctx, futs[k].result(), p, trace + ".in", check="trace-fetch",
                             describe=lambda ev: "fetch:%s:n=%d" % (ev.get("schedule"), len(ev["srcout"])))
    # whole runs against Pprof.tla: every source fetched once, the Symbolizer sees the bag sum of whatever succeeded,
    # an error only when nothing was fetched
    pipeline(ctx, kinds=("config", "fetch", "sym", "error"))
    return ctx.finish(
        "model_checking",
        assumptions=["completion orders are forced at the Fetcher plug-in boundary (each fetch returns only when released, the next is released after the previous returned) and, for URL sources in half of the runs, in front of the real transport's RoundTrip; the goroutine's own bookkeeping after Fetch returns is not gated",
                     "the merge order is observed through the comment each source contributes (comments merge as an ordered union) and every source's unique sample",
                     "failure kinds: plug-in error, invalid profile, missing file, garbage file, HTTP 500 / HTTP 404 with a profile as the body through the transport plug-in; URL sources served by local plain / TLS servers through the real internal/transport: error status (500, 404, 503, 403, 502) with a well-formed profile as the body, and 200 under TLS set-ups whose one-time initialisation succeeds or fails",
                     "whether a source counts as fetched is Fetch.tla's Ok(class, transport initialisation) - a function of the source and the configuration alone; timing decides nothing"])
