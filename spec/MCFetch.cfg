SPECIFICATION Spec
CONSTANTS
  NSrc = 3
  NBase = 1
  ChunkSize = 2
  Emit = FALSE
  Broken = "none"
  Classes = "local"
INVARIANTS ResultIsMergeOfSucceededInOrder OneErrorPerFailure FailsIffGroupEmpty NoReadBeforeBarrier
PROPERTIES Terminates
CHECK_DEADLOCK FALSE
