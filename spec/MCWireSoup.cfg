SPECIFICATION Spec
CONSTANTS
  Tier = "quick"
  Emit = FALSE
INVARIANTS WellFormed
CHECK_DEADLOCK FALSE
