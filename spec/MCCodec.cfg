SPECIFICATION Spec
CONSTANTS
  Tier = "quick"
  Emit = FALSE
  Broken = "none"
INVARIANTS RoundTrip NormIdempotent OnlyAllowedLoss
PROPERTIES Fixpoint
CHECK_DEADLOCK FALSE
