SPECIFICATION Spec
CONSTANTS
  Tier = "quick"
  Emit = FALSE
  Broken = "none"
INVARIANTS GraphMeetsDefinition EdgesMeetDefinition CumAtLeastFlat FlatsAddUp TreeAgreesWithGraph
CHECK_DEADLOCK FALSE
