------------------------------ MODULE ToolPipe ------------------------------
(***************************************************************************)
(* C20 (f): the line-oriented pipe to addr2line / llvm-symbolizer that     *)
(* several goroutines share through one ObjFile                            *)
(* (internal/binutils/addr2liner.go, addr2liner_llvm.go: addrInfo).        *)
(* A caller takes the connection's mutex, writes its query, reads the      *)
(* reply and releases the mutex - ON EVERY EXIT PATH, also when the write  *)
(* or the read fails because the tool has died.  The tool answers at most  *)
(* MaxAnswers queries and then exits (a crash, a closed pipe).             *)
(*   OwnAnswer:    a caller gets its own reply or an error, never          *)
(*                 another caller's reply;                                 *)
(*   NoOrphanLock: the mutex is only ever held by a caller that is still   *)
(*                 inside addrInfo - so a fault costs the calls it hits    *)
(*                 an error and nobody else anything (no caller blocks     *)
(*                 for ever);                                              *)
(*   AllReturn:    under fairness every call returns.                      *)
(* Broken = "noUnlockOnReadError": the read-error path returns without     *)
(* releasing the mutex (seed C20-16); "unlockBeforeRead": the mutex only   *)
(* covers the write, so replies are read by whoever comes first.           *)
(* Bound to the code by harness/c20 dyingToolPart: a scripted tool that    *)
(* exits after k answers, 4 callers on one ObjFile: every call returns     *)
(* within the watchdog and an answer is the caller's own.                  *)
(***************************************************************************)
EXTENDS Integers, FiniteSets, Sequences, TLC
CONSTANTS Procs, Broken, MaxAnswers

VARIABLES pc, lock, alive, answered, queue, got
vars == <<pc, lock, alive, answered, queue, got>>
Free == "free"

Init == /\ pc = [p \in Procs |-> "idle"] /\ lock = Free /\ alive = TRUE /\ answered = 0
        /\ queue = <<>> /\ got = [p \in Procs |-> "none"]

Acquire(p) == /\ pc[p] = "idle" /\ lock = Free /\ lock' = p
              /\ pc' = [pc EXCEPT ![p] = "write"] /\ UNCHANGED <<alive, answered, queue, got>>
\* writing to a dead tool fails (EPIPE): error path, the mutex is released
Write(p) == /\ pc[p] = "write"
            /\ IF alive
                 THEN /\ queue' = Append(queue, p) /\ got' = got
                      /\ pc' = [pc EXCEPT ![p] = IF Broken = "unlockBeforeRead" THEN "unlock-then-read" ELSE "read"]
                 ELSE /\ got' = [got EXCEPT ![p] = "error"] /\ queue' = queue /\ pc' = [pc EXCEPT ![p] = "unlock"]
            /\ UNCHANGED <<lock, alive, answered>>
EarlyUnlock(p) == /\ pc[p] = "unlock-then-read" /\ lock' = Free /\ pc' = [pc EXCEPT ![p] = "read"]
                  /\ UNCHANGED <<alive, answered, queue, got>>
\* the tool answers queries in order; the reader takes the next reply in the pipe
Read(p) == /\ pc[p] = "read"
           /\ IF alive /\ answered < MaxAnswers /\ queue # <<>>
                THEN /\ got' = [got EXCEPT ![p] = Head(queue)] /\ queue' = Tail(queue) /\ answered' = answered + 1 /\ alive' = alive
                     /\ pc' = [pc EXCEPT ![p] = IF Broken = "unlockBeforeRead" THEN "done" ELSE "unlock"]
                ELSE \* the tool has exited: EOF
                     /\ alive' = FALSE /\ got' = [got EXCEPT ![p] = "error"] /\ UNCHANGED <<queue, answered>>
                     /\ pc' = [pc EXCEPT ![p] = IF Broken \in {"noUnlockOnReadError", "unlockBeforeRead"} THEN "done" ELSE "unlock"]
           /\ UNCHANGED lock
Unlock(p) == /\ pc[p] = "unlock" /\ lock' = Free /\ pc' = [pc EXCEPT ![p] = "done"]
             /\ UNCHANGED <<alive, answered, queue, got>>
Terminated == (\A p \in Procs : pc[p] = "done") /\ UNCHANGED vars

Next == (\E p \in Procs : Acquire(p) \/ Write(p) \/ EarlyUnlock(p) \/ Read(p) \/ Unlock(p)) \/ Terminated
Spec == Init /\ [][Next]_vars /\ WF_vars(Next)

TypeOK == /\ pc \in [Procs -> {"idle", "write", "unlock-then-read", "read", "unlock", "done"}]
          /\ lock \in Procs \cup {Free} /\ answered \in 0..MaxAnswers
OwnAnswer == \A p \in Procs : got[p] \in {"none", "error", p}
NoOrphanLock == lock # Free => pc[lock] \in {"write", "unlock-then-read", "read", "unlock"}
AllReturn == <>(\A p \in Procs : pc[p] = "done")
=============================================================================
