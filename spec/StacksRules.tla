----------------------------- MODULE StacksRules -----------------------------
(***************************************************************************)
(* C17 - declarative meaning of the flame-graph stack set: one stack per   *)
(* sample, rooted at a synthetic root (source 0), frames caller -> callee  *)
(* with inlined lines expanded and flagged; stack values = the selected    *)
(* sample value; a source's self = sum of the stacks it terminates; a      *)
(* source's places = every stack containing it exactly once, at its        *)
(* outermost occurrence.  A location without line information contributes  *)
(* no frame (the code's choice; such a stack may consist of the root       *)
(* only).                                                                  *)
(***************************************************************************)
EXTENDS ReportRules

AddLineInfo(str, line, col) ==
  IF col # 0 THEN str \o ":" \o ToString(line) \o ":" \o ToString(col)
  ELSE IF line # 0 THEN str \o ":" \o ToString(line) ELSE str
\* frames of one location, caller (outermost line) first; inlined = not the outermost line
LocStackFrames(l, cfg) ==
  LET g == GFlags(cfg)
      n == Len(l.lines)
      one(j) == LET ln == l.lines[j]
                    name == IF g.fn THEN ln.fn.name ELSE ""
                    file == IF g.file THEN ln.fn.file ELSE ""
                    line == IF g.line THEN ln.line ELSE 0
                    col  == IF g.col THEN ln.col ELSE 0
                IN [full |-> AddLineInfo(IF name # "" THEN name ELSE file, line, col), file |-> file, inlined |-> j # n /\ ~cfg.noinl]
  IN IF n = 0 THEN <<>>
     ELSE IF cfg.noinl THEN <<one(n)>>
     ELSE [i \in 1..n |-> one(n + 1 - i)]
StackFrames(s, cfg) == FlattenSeq([i \in 1..Len(s.locs) |-> LocStackFrames(s.locs[Len(s.locs) + 1 - i], cfg)])
FrameOfSource(src) == [full |-> src.full, file |-> src.file, inlined |-> src.inlined]

\* acceptance of a recorded stack set (sources / stacks use 0-based indices as in the JSON)
Src(e, k) == e.sources[k + 1]
FirstPos(seq, x) == CHOOSE j \in DOMAIN seq : seq[j] = x /\ \A m \in 1..(j - 1) : seq[m] # x
StackSetFailed(e) ==
  LET ns == Len(e.sources)
      inRange == \A i \in DOMAIN e.stacks : \A j \in DOMAIN e.stacks[i].sources : e.stacks[i].sources[j] >= 0 /\ e.stacks[i].sources[j] < ns
      p == [
        nonnull  |-> e.nulls = 0,
        onePerSample |-> Len(e.stacks) = Len(e.samples),
        inrange  |-> /\ inRange
                     /\ \A k \in DOMAIN e.sources : \A q \in DOMAIN e.sources[k].places :
                          LET pl == e.sources[k].places[q] IN
                          pl.stack >= 0 /\ pl.stack < Len(e.stacks) /\ pl.pos >= 0 /\ pl.pos < Len(e.stacks[pl.stack + 1].sources),
        rooted   |-> inRange => \A i \in DOMAIN e.stacks : Len(e.stacks[i].sources) >= 1 /\ e.stacks[i].sources[1] = 0,
        \* the root is synthetic: no frame of any sample is source 0, whatever the frame is called
        rootonly |-> inRange => \A i \in DOMAIN e.stacks : \A j \in 2..Len(e.stacks[i].sources) : e.stacks[i].sources[j] # 0,
        frames   |-> (inRange /\ Len(e.stacks) = Len(e.samples)) =>
                       \A i \in DOMAIN e.stacks :
                          LET want == StackFrames(e.samples[i], e.cfg)
                              got == [j \in 1..(Len(e.stacks[i].sources) - 1) |-> FrameOfSource(Src(e, e.stacks[i].sources[j + 1]))]
                          IN got = want,
        values   |-> Len(e.stacks) = Len(e.samples) => \A i \in DOMAIN e.stacks : e.stacks[i].value = W(e.samples[i], e.cfg),
        self     |-> inRange => \A k \in DOMAIN e.sources :
                       e.sources[k].self = FoldFunction(LAMBDA st, acc : IF st.sources[Len(st.sources)] = k - 1 THEN acc + st.value ELSE acc, 0, e.stacks),
        places   |-> inRange => \A k \in DOMAIN e.sources :
                       LET want == { [stack |-> i - 1, pos |-> FirstPos(e.stacks[i].sources, k - 1) - 1] :
                                       i \in {x \in DOMAIN e.stacks : (k - 1) \in Range(e.stacks[x].sources)} }
                       IN Range(e.sources[k].places) = want /\ Len(e.sources[k].places) = Cardinality(want),
        interned |-> \A a, b \in 2..Len(e.sources) : a # b => FrameOfSource(e.sources[a]) # FrameOfSource(e.sources[b]),
        display  |-> \A k \in DOMAIN e.sources : e.sources[k].ndisplay >= 1 ]
  IN {f \in DOMAIN p : ~p[f]}
=============================================================================
