------------------------------- MODULE ElfLoad -------------------------------
(***************************************************************************)
(* C13 - sample addresses map to the right link-time address.              *)
(*                                                                         *)
(* Ground truth is LOADER SEMANTICS, not pprof's algorithm: a layout is a  *)
(* list of PT_LOAD segments [off, vaddr, filesz, memsz, x] with            *)
(* off = vaddr (mod page); the loader maps segment k at                    *)
(*   [bias + floor(vaddr), bias + ceil(vaddr + memsz)) with file offset    *)
(* floor(off); the profile's mapping is (a page-granular part of) the      *)
(* mapping of the executable segment.  For every runtime address x in it   *)
(* that is backed by the segment, Translate demands                        *)
(*        ObjAddr(x) \in {x - bias, Error}                                 *)
(* and Error only if the owning segment cannot be identified uniquely      *)
(* (several segments' file ranges contain the address's file offset).      *)
(* NmLookup(table, a): the symbol with the greatest start <= a; a data     *)
(* symbol only within its size.                                            *)
(* All quantities are in bytes but small (page = 4096; TLC integers); the  *)
(* harness adds a large page-aligned constant to the bias for ET_DYN.      *)
(***************************************************************************)
EXTENDS Integers, Sequences, FiniteSets, TLC, Json

CONSTANTS Tier, Emit

Page == 4096
Floor(a) == (a \div Page) * Page
Ceil(a) == ((a + Page - 1) \div Page) * Page
Seg(off, vaddr, filesz, memsz, x) == [off |-> off, vaddr |-> vaddr, filesz |-> filesz, memsz |-> memsz, x |-> x]

\* layouts a linker can emit: 1..3 segments, non-zero first vaddr, off = vaddr (mod page), bss, segments sharing a file page
VBase == 2097152   \* 0x200000
Layouts ==
  << \* ld-style: each segment page aligned in the file
     << Seg(0, VBase, 1000, 1000, TRUE) >>,
     << Seg(0, VBase, 800, 800, FALSE), Seg(4096, VBase + 4096, 5000, 5000, TRUE), Seg(12288, VBase + 12288 + 4096, 100, 9000, FALSE) >>,
     \* lld-style: segments share file pages; vaddr advances by one page per segment
     << Seg(0, VBase, 1600, 1600, FALSE), Seg(1600, VBase + 4096 + 1600, 3000, 3000, TRUE), Seg(4600, VBase + 8192 + 4600, 600, 700, FALSE) >>,
     \* executable segment first, data with bss after it on the same file page
     << Seg(0, VBase, 3000, 3000, TRUE), Seg(3000, VBase + 4096 + 3000, 500, 6000, FALSE) >>,
     \* executable segment spanning several pages, starting mid page, preceded by read-only data
     << Seg(0, VBase, 9040, 9040, FALSE), Seg(9040, VBase + 4096 + 9040, 10000, 10000, TRUE) >>,
     \* huge-page style alignment: large gap in vaddr
     << Seg(0, VBase, 4096, 4096, FALSE), Seg(4096, VBase + 2097152, 8192, 8192, TRUE) >>,
     \* an executable segment whose memory size exceeds its file size by several pages (zero-filled tail)
     << Seg(0, VBase, 5000, 5000 + 12288, TRUE) >>,
     << Seg(0, VBase, 800, 800, FALSE), Seg(4096, VBase + 4096, 4500, 4500 + 8192, TRUE), Seg(8596, VBase + 28672 + 404, 300, 300, FALSE) >>,
     \* program headers are sorted by vaddr (gABI), NOT by file offset: the lowest segment is stored at the end of the
     \* file (a segment added to a linked binary by a post-link tool), the executable one before it
     << Seg(12288, VBase, 800, 800, FALSE), Seg(4096, VBase + 4096, 5000, 5000, TRUE) >>,
     << Seg(20480, VBase, 800, 800, FALSE), Seg(4096, VBase + 4096, 5000, 5000, TRUE), Seg(12288, VBase + 12288 + 4096, 3000, 3000, FALSE) >> >>
Types == {"EXEC", "DYN"}
Biases == {0, 5 * Page, 77 * Page, 0 - 16 * Page}      \* the last one: loaded BELOW the link-time address (prelinked object moved down)

ExecIdx(l) == CHOOSE k \in DOMAIN l : l[k].x
\* the loader's mapping of the executable segment
MapStartV(s) == Floor(s.vaddr)
MapLimitV(s) == Ceil(s.vaddr + s.memsz)
\* sub-ranges of the mapping at page granularity (what /proc/maps may show after a split)
Splits(s) == LET np == (MapLimitV(s) - MapStartV(s)) \div Page IN
             { <<a, b>> \in (0..np) \X (0..np) : a < b /\ (Tier = "thorough" \/ (a = 0 /\ b = np) \/ (a = 0 /\ b = 1) \/ (a = np - 1 /\ b = np) \/ (a = 1 /\ b = np)) }
\* interesting link-time addresses inside the segment
Addrs(s, lo, hi) == { a \in {s.vaddr, s.vaddr + 1, s.vaddr + s.memsz - 1, lo, lo + 64, hi - 1, Floor(s.vaddr) + Page, Floor(s.vaddr) + Page - 1, s.vaddr + (s.memsz \div 2)} :
                        a >= lo /\ a < hi /\ a >= s.vaddr /\ a < s.vaddr + s.memsz }

\* which segments' FILE ranges contain the file offset of link address a of segment s (ambiguity = several)
FileOff(s, a) == a - s.vaddr + s.off
Owners(l, fo) == {k \in DOMAIN l : l[k].filesz > 0 /\ fo >= l[k].off /\ fo < l[k].off + l[k].memsz}

VARIABLES pc, c
vars == <<pc, c>>
Init == pc = "gen" /\ c = <<>>
Gen ==
  /\ pc = "gen"
  /\ \E li \in DOMAIN Layouts, ty \in Types, bias \in Biases :
       \* the mapping of the executable segment, or of the segment loaded right after it (samples are addresses
       \* inside A mapping; which segment backs it must be decided from the mapping and the address alone)
       \E si \in {ExecIdx(Layouts[li])} \cup ({ExecIdx(Layouts[li]) + 1} \cap DOMAIN Layouts[li]) :
       LET l == Layouts[li]  s == l[si] IN
       /\ (ty = "EXEC" => bias = 0)
       /\ \E sp \in Splits(s) :
            LET lo == MapStartV(s) + sp[1] * Page
                hi == MapStartV(s) + sp[2] * Page
            IN /\ Addrs(s, lo, hi) # {}
               /\ c' = [kind |-> "elf", seg |-> si, layout |-> l, type |-> ty, bias |-> bias,
                        mapstart |-> bias + lo, maplimit |-> bias + hi, mapoff |-> Floor(s.off) + sp[1] * Page,
                        addrs |-> { [x |-> bias + a, want |-> a, unique |-> Cardinality(Owners(l, FileOff(s, a))) = 1] : a \in Addrs(s, lo, hi) }]
  /\ pc' = "emit"
\* symbol tables: <= 4 symbols over a small address range, duplicates and zero sizes, code and data
SymAddrs == {16, 24, 32, 48}      \* 24 lies inside a 16-byte symbol at 16: nested entry points
Syms == { [a |-> a, size |-> sz, data |-> dt] : a \in SymAddrs, sz \in {0, 8, 16}, dt \in BOOLEAN }
Tables == { <<x>> : x \in Syms } \cup { <<x, y>> : x, y \in Syms } \cup (IF Tier = "thorough" THEN { <<x, y, z>> : x, y, z \in {s \in Syms : s.size # 16} } ELSE {})
Sorted(t) == \A i \in 1..(Len(t) - 1) : t[i].a <= t[i + 1].a
Lookup(t, q) == LET cand == {i \in DOMAIN t : t[i].a <= q} IN
                IF cand = {} THEN 0
                ELSE LET top == CHOOSE i \in cand : \A j \in cand : t[j].a < t[i].a \/ (t[j].a = t[i].a /\ j <= i) \/ j = i IN top
GenNm ==
  /\ pc = "gen"
  /\ \E t \in Tables : Sorted(t) /\
       c' = [kind |-> "nm", table |-> t,
             queries |-> { [q |-> q,
                            \* candidates: any symbol starting at the greatest start <= q (duplicates: any of them)
                            best |-> IF {i \in DOMAIN t : t[i].a <= q} = {} THEN 0 ELSE t[Lookup(t, q)].a,
                            beyond |-> q >= t[Len(t)].a + t[Len(t)].size] : q \in {8, 16, 17, 24, 31, 32, 40, 48, 56, 63, 64, 70} }]
  /\ pc' = "emit"
(***************************************************************************)
(* Kernel images (the kernel heuristics of GetBase / kernelBase).          *)
(* Ground truth is again the loader - here the boot loader with KASLR: an  *)
(* image linked with its text segment at KV is run at KV + slide, so link  *)
(* address a is found at a + slide.  perf names the mapping by the         *)
(* relocation symbol (_stext, or _text at the start of the segment): the   *)
(* mapping STARTS at that symbol's runtime address and its offset is 0,    *)
(* the start itself, or PAGE_OFFSET on ppc64.  ChromeOS remaps the kernel  *)
(* so that the relocation symbol lands in page 0 ("remap0": runtime        *)
(* address of the symbol = its offset within its page).  In every case     *)
(*     ObjAddr(runtime address of a) = a.                                  *)
(* Numbers are relative: the harness adds 0xffffffff80000000 to every link *)
(* address (TLC integers are 32 bit); addresses are given by their         *)
(* distance from the relocation symbol.  The image is called vmlinux, or   *)
(* (the code reads the symbol table then as well) has a mapping that is    *)
(* not page aligned.                                                       *)
(***************************************************************************)
KV == 16 * Page
KLayouts == << << Seg(4096, KV, 12288, 12288, TRUE) >>,
               << Seg(4096, KV, 12288, 12288, TRUE), Seg(16384, KV + 16384, 4096, 8192, FALSE) >>,
               \* read-only data first: the text segment is not the first PT_LOAD
               << Seg(4096, KV - 8192, 4096, 4096, FALSE), Seg(8192, KV, 12288, 12288, TRUE) >> >>
StextOffs == {0, 408, 4096, 4096 + 408}
Slides == {0, 16 * Page, 4096 * Page}
GenKernel ==
  /\ pc = "gen"
  /\ \E li \in DOMAIN KLayouts, ty \in Types, d \in StextOffs, reloc \in {"", "_stext", "_text"}, named \in BOOLEAN,
        mode \in {"kaslr", "remap0"}, slide \in Slides, offmode \in {"zero", "start", "ppc64"} :
       LET l == KLayouts[li]
           s == l[ExecIdx(l)]
           stext == s.vaddr + d
           relocaddr == IF reloc = "_text" THEN s.vaddr ELSE stext
           endv == s.vaddr + s.memsz
           as == { a \in {relocaddr, relocaddr + 1, relocaddr + 64, stext, stext + 4096, endv - 1, s.vaddr + (s.memsz \div 2)} : a >= relocaddr /\ a < endv }
       IN /\ (named \/ relocaddr % Page # 0)
          /\ (mode = "remap0" => slide = 0 /\ offmode = "zero")
          /\ c' = [kind |-> "kernel", layout |-> l, type |-> ty, seg |-> ExecIdx(l), stext |-> stext, text |-> s.vaddr, textsec |-> stext,
                   reloc |-> reloc, named |-> named, mode |-> mode, slide |-> slide, offmode |-> offmode,
                   relocaddr |-> relocaddr, mapsize |-> endv - relocaddr,
                   addrs |-> { [x |-> a - relocaddr, want |-> a, unique |-> TRUE] : a \in as }]
  /\ pc' = "emit"
Finish == pc = "emit" /\ pc' = "end" /\ (Emit => PrintT(ToJson(c))) /\ UNCHANGED c
Next == Gen \/ GenNm \/ GenKernel \/ Finish
Spec == Init /\ [][Next]_vars

\* sanity of the loader model: off = vaddr (mod page) for every segment; the executable mapping contains its addresses
LayoutsWellFormed == \A li \in DOMAIN Layouts : \A k \in DOMAIN Layouts[li] :
                        (Layouts[li][k].off % Page = Layouts[li][k].vaddr % Page) /\ Layouts[li][k].filesz <= Layouts[li][k].memsz
ASSUME LayoutsWellFormed
TypeOK == pc \in {"gen", "emit", "end"}
=============================================================================
