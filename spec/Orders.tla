------------------------------- MODULE Orders -------------------------------
(***************************************************************************)
(* C08 - identical inputs and options give byte-identical output.          *)
(*                                                                         *)
(* Every ordering used in output is written as its KEY TUPLE, most         *)
(* significant first (internal/graph/graph.go: Nodes.Sort, edgeList.Less,  *)
(* tags.Less).  The runtime's freedom is explicit: Iterate delivers the    *)
(* elements of a set in ANY permutation (Go map iteration); Sort(less)     *)
(* then yields any permutation consistent with `less`; the output is       *)
(* deterministic iff `less` is a strict total order on what it orders.     *)
(* TLC checks StrictTotalOrder for every set drawn from tie-rich attribute *)
(* domains (equal magnitudes of opposite sign, equal flat and cum, equal   *)
(* names at different addresses / object files, equal tag weights) and     *)
(* that all behaviours from the same set end in the same output.           *)
(* Broken = "absOnlyIfDifferent" is the comparator shape the code had for  *)
(* edges and tags: `if a # b then return |a| > |b|` - TLC shows it is not  *)
(* total on +w / -w.                                                       *)
(***************************************************************************)
EXTENDS Integers, Sequences, FiniteSets, TLC, SequencesExt, Json

CONSTANTS Tier, Emit, Broken

AbsI(x) == IF x < 0 THEN 0 - x ELSE x
\* lexicographic comparison of two integer tuples of equal length: -1, 0, 1
Cmp(a, b) ==
  LET d == {i \in DOMAIN a : a[i] # b[i]} IN
  IF d = {} THEN 0
  ELSE LET i == CHOOSE i \in d : \A j \in d : i <= j IN IF a[i] < b[i] THEN 0 - 1 ELSE 1

\* ---- elements (names, object files and addresses are small integers: the harness renders them as
\*      strings whose lexicographic order is the numeric one)
Nodes == { [kind |-> "node", flat |-> f, cum |-> c, name |-> n, obj |-> o, addr |-> a] :
             f \in {0 - 1, 1, 2}, c \in {0 - 2, 0 - 1, 1, 2}, n \in {1, 2}, o \in {1, 2}, a \in {0} }
\* sobj / dobj: the object files of source and destination - nodes that print alike; two edges may be ordered one
\* way by their sources and the other way by their destinations
EdgesAll == { [kind |-> "edge", w |-> w, src |-> s, dst |-> d, dobj |-> o, sobj |-> so] :
                w \in {0 - 2, 0 - 1, 1, 2}, s \in {1, 2}, d \in {1, 2}, o \in {1, 2}, so \in {1, 2} }
Edges == { e \in EdgesAll : Tier # "thorough" \/ e.src = 1 \/ e.sobj = 1 }
Tags  == { [kind |-> "tag", cum |-> c, flat |-> f, name |-> n] : c \in {0 - 1, 1, 2}, f \in {0 - 1, 0, 1}, n \in {1, 2, 3} }

\* ---- key tuples: smaller tuple = earlier in the output.  The last components are the identity tie-break
\*      ("some total order, the same on every run" - only its existence is demanded of the code)
Key(e, order) ==
  CASE order = "flat"    -> <<0 - AbsI(e.flat), e.name, 0 - AbsI(e.cum), e.obj, e.addr, 0 - e.flat, 0 - e.cum>>
    [] order = "cum"     -> <<0 - AbsI(e.cum), e.name, 0 - AbsI(e.flat), e.obj, e.addr, 0 - e.cum, 0 - e.flat>>
    [] order = "edges"   -> <<0 - AbsI(e.w), e.src, e.dst, 0 - e.w, e.sobj, e.dobj>>
    [] order = "tagscum" -> <<0 - AbsI(e.cum), 0 - AbsI(e.flat), e.name, 0 - e.cum, 0 - e.flat>>
    [] order = "tagsflat" -> <<0 - AbsI(e.flat), e.name, 0 - e.flat, 0 - AbsI(e.cum), 0 - e.cum>>
\* the part of the key the documentation pins (the rest only has to be deterministic)
Pinned(order) == CASE order \in {"flat", "cum"} -> 3 [] order = "edges" -> 3 [] order = "tagscum" -> 3 [] order = "tagsflat" -> 2
PinnedKey(e, order) == SubSeq(Key(e, order), 1, Pinned(order))

\* the comparator: Broken reproduces `if a # b { return |a| > |b| }` on the first key, with no identity tie-break
Less(a, b, order) ==
  IF Broken = "absOnlyIfDifferent" /\ order \in {"edges", "tagscum", "tagsflat"}
  THEN LET first(e) == IF order = "edges" THEN e.w ELSE IF order = "tagscum" THEN e.cum ELSE e.flat
           rest(e) == IF order = "edges" THEN <<e.src, e.dst>> ELSE IF order = "tagscum" THEN <<e.flat, e.name>> ELSE <<e.name>>
       IN IF first(a) # first(b) THEN AbsI(first(a)) > AbsI(first(b)) ELSE Cmp(rest(a), rest(b)) < 0
  ELSE Cmp(Key(a, order), Key(b, order)) < 0

Domain(order) == CASE order \in {"flat", "cum"} -> Nodes [] order = "edges" -> Edges [] OTHER -> Tags
OrdersAll == {"flat", "cum", "edges", "tagscum", "tagsflat"}
\* tags of one node have distinct names; edges of one listing have distinct (src, dst, dobj)
Admissible(S, order) ==
  CASE order \in {"tagscum", "tagsflat"} -> \A a, b \in S : a # b => a.name # b.name
    [] order = "edges" -> \A a, b \in S : a # b => <<a.src, a.dst, a.dobj, a.sobj>> # <<b.src, b.dst, b.dobj, b.sobj>>
    [] OTHER -> \A a, b \in S : a # b => <<a.name, a.obj, a.addr>> # <<b.name, b.obj, b.addr>>
Size == IF Tier = "thorough" THEN 3 ELSE 2
SetsOf(o) == { S \in ({ {a, b} : a, b \in Domain(o) } \cup (IF Size >= 3 THEN { {a, b, c} : a, b, c \in Domain(o) } ELSE {})) :
                 Cardinality(S) >= 2 /\ Admissible(S, o) }
GuardSets == { { [kind |-> "edge", w |-> 1, src |-> 1, dst |-> 1, dobj |-> 1, sobj |-> 1], [kind |-> "edge", w |-> 0 - 1, src |-> 2, dst |-> 1, dobj |-> 1, sobj |-> 1] } }

VARIABLES order, set, arrival, output, pc
vars == <<order, set, arrival, output, pc>>
SeqsOf(S) == { q \in [1..Cardinality(S) -> S] : \A x \in S : \E i \in 1..Cardinality(S) : q[i] = x }
Init == /\ order \in (IF Tier = "guard" THEN {"edges"} ELSE OrdersAll)
        /\ set \in (IF Tier = "guard" THEN GuardSets ELSE SetsOf(order))
        /\ arrival = <<>> /\ output = <<>> /\ pc = "iterate"
\* Go map iteration: the elements arrive in any order
Iterate == /\ pc = "iterate" /\ arrival' \in SeqsOf(set)
           /\ pc' = "sort" /\ UNCHANGED <<order, set, output>>
\* sort.Sort with `less`: any arrangement without an inversion (the algorithm is not stable, so elements
\* that `less` does not separate may end up in either order, depending on the arrival order)
NoInversion(q) == \A i, j \in DOMAIN q : i < j => ~Less(q[j], q[i], order)
Sort == /\ pc = "sort"
        /\ output' \in { q \in SeqsOf(set) : NoInversion(q) /\
                            \* ties keep the arrival order or swap: both are possible results
                            TRUE }
        /\ pc' = "done" /\ UNCHANGED <<order, set, arrival>>
Canonical == CHOOSE q \in SeqsOf(set) : \A i, j \in DOMAIN q : i < j => Cmp(Key(q[i], order), Key(q[j], order)) < 0
Finish == /\ pc = "done" /\ pc' = "end"
          /\ (Emit => PrintT(ToJson([order |-> order, elems |-> arrival,
                                     pinned |-> [i \in DOMAIN Canonical |-> PinnedKey(Canonical[i], order)],
                                     canonical |-> Canonical])))
          /\ UNCHANGED <<order, set, arrival, output>>
Next == Iterate \/ Sort \/ Finish
Spec == Init /\ [][Next]_vars

\* ---- properties
StrictTotalOrder ==
  /\ \A a \in set : ~Less(a, a, order)
  /\ \A a, b \in set : a # b => (Less(a, b, order) \/ Less(b, a, order))          \* trichotomy: distinct elements are ordered
  /\ \A a, b \in set : ~(Less(a, b, order) /\ Less(b, a, order))
  /\ \A a, b, c \in set : (Less(a, b, order) /\ Less(b, c, order)) => Less(a, c, order)
\* whatever the arrival order, the output is the same
Deterministic == pc = "done" => output = Canonical
\* keys are injective on admissible sets (otherwise no comparator could be total)
KeysSeparate == \A a, b \in set : a # b => Key(a, order) # Key(b, order)
=============================================================================
