SPECIFICATION Spec
CONSTANTS
  Procs = {1, 2, 3}
  Broken = "none"
INVARIANTS NoLeak SetterNeverLost
PROPERTIES Terminates
CHECK_DEADLOCK FALSE
