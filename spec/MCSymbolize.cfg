SPECIFICATION Spec
CONSTANTS
  Tier = "quick"
  Emit = FALSE
INVARIANTS CatalogueValid
CHECK_DEADLOCK FALSE
