--------------------------- MODULE ProfileModel ---------------------------
(***************************************************************************)
(* The abstract data model shared by every pprof specification.            *)
(*                                                                         *)
(* An abstract profile has the same STRUCTURE as profile.Profile           *)
(* (functions, mappings, locations with inline lines, samples with values  *)
(* and labels, header fields) but entities are DENORMALISED records: a     *)
(* location record contains its mapping record and its line records, a     *)
(* line record contains its function record.  Ids, sharing (one id used    *)
(* twice) and duplication (two ids, same content) are decided when a case  *)
(* is concretised by the harness (fields share / idmode of a case), since  *)
(* every property in properties.jsonl compares stacks "by what the frames  *)
(* are rather than by ids".                                                *)
(*                                                                         *)
(* Abs(sample) is the id-free denotation the properties talk about.        *)
(***************************************************************************)
EXTENDS Integers, Sequences, FiniteSets, TLC, SequencesExt, FiniteSetsExt, Functions, Folds

\* ---------------------------------------------------------------- entities
Fn(name, sys, file, start) == [name |-> name, sys |-> sys, file |-> file, start |-> start]
Ln(fn, line, col)          == [fn |-> fn, line |-> line, col |-> col]
\* start/size/off in abstract address units (the harness scales them; one
\* page = 2 units so that "sizes equal after rounding up to 4K" is expressible)
Mp(build, file, start, size, off) ==
    [nil |-> FALSE, build |-> build, file |-> file, start |-> start, size |-> size, off |-> off]
NoMap == [nil |-> TRUE, build |-> "", file |-> "", start |-> 0, size |-> 0, off |-> 0]
\* rel = address - mapping start (absolute address when the mapping is nil)
Loc(map, rel, lines, folded) == [map |-> map, rel |-> rel, lines |-> lines, folded |-> folded]
Smp(locs, vals, lab, num) == [locs |-> locs, vals |-> vals, lab |-> lab, num |-> num]
\* string label: [k, v \in Seq(STRING)]; numeric label: [k, v \in Seq(Int), u \in Seq(STRING)]
SLab(k, v) == [k |-> k, v |-> v]
NLab(k, v, u) == [k |-> k, v |-> v, u |-> u]

\* ---------------------------------------------------------------- helpers
SeqSum(s) == FoldFunction(LAMBDA x, acc : x + acc, 0, s)
SetSum(S) == FoldSet(LAMBDA x, acc : x + acc, 0, S)
AbsI(x) == IF x < 0 THEN -x ELSE x
Max2(a, b) == IF a >= b THEN a ELSE b
Min2(a, b) == IF a <= b THEN a ELSE b
VecAdd(a, b) == [i \in DOMAIN a |-> a[i] + b[i]]
VecZero(a) == \A i \in DOMAIN a : a[i] = 0
ZeroVec(n) == [i \in 1..n |-> 0]
\* truncating integer division (Go's int64 division), TLC's \div floors
TruncDiv(a, b) == IF b = 0 THEN 0
                  ELSE LET q == AbsI(a) \div AbsI(b) IN
                       IF (a < 0) = (b < 0) THEN q ELSE -q
SeqOfSet(S) == SetToSeq(S)

\* ---------------------------------------------------------------- denotation
\* binary identity of a mapping: build id, else file name, else "fake"; nil mapping is "none"
BinId(m) == IF m.nil THEN [k |-> "none", v |-> ""]
            ELSE IF m.build # "" THEN [k |-> "id", v |-> m.build]
            ELSE IF m.file # "" THEN [k |-> "file", v |-> m.file]
            ELSE [k |-> "fake", v |-> ""]

\* what frame i (1 = leaf-most inline line) of location l IS
Frame(l, i) == [bin |-> BinId(l.map), rel |-> l.rel,
                name |-> l.lines[i].fn.name, sys |-> l.lines[i].fn.sys,
                file |-> l.lines[i].fn.file, start |-> l.lines[i].fn.start,
                line |-> l.lines[i].line, col |-> l.lines[i].col,
                pos |-> i, of |-> Len(l.lines), folded |-> l.folded]
\* a location without line information is one anonymous frame
BareFrame(l) == [bin |-> BinId(l.map), rel |-> l.rel, name |-> "", sys |-> "", file |-> "",
                 start |-> 0, line |-> 0, col |-> 0, pos |-> 0, of |-> 0, folded |-> l.folded]
LocFrames(l) == IF Len(l.lines) = 0 THEN <<BareFrame(l)>>
                ELSE [i \in 1..Len(l.lines) |-> Frame(l, i)]
\* the sample's frames leaf -> root with inlined lines expanded
Frames(s) == FlattenSeq([i \in 1..Len(s.locs) |-> LocFrames(s.locs[i])])

\* label sets are compared as sets of (key, values-in-order[, units]) - key order is free
LabSet(s) == [lab |-> Range(s.lab), num |-> Range(s.num)]
\* the identity of a sample: its stack and its labels
StackKey(s) == [frames |-> Frames(s), lab |-> Range(s.lab), num |-> Range(s.num)]
Abs(s) == [key |-> StackKey(s), vals |-> s.vals]

\* bag-sum of a sequence of samples by StackKey, all-zero vectors removed:
\* the set of [key, vals] records
Keys(samples) == {StackKey(samples[i]) : i \in DOMAIN samples}
SumFor(samples, k, n) ==
    FoldFunction(LAMBDA s, acc : IF StackKey(s) = k THEN VecAdd(acc, s.vals) ELSE acc,
                 ZeroVec(n), samples)
BagSum(samples, n) ==
    {r \in {[key |-> k, vals |-> SumFor(samples, k, n)] : k \in Keys(samples)} : ~VecZero(r.vals)}
Totals(samples, n) ==
    FoldFunction(LAMBDA s, acc : VecAdd(acc, s.vals), ZeroVec(n), samples)
=============================================================================
