----------------------------- MODULE CodecRules -----------------------------
(***************************************************************************)
(* Norm (the only loss proto3 forces), the field-level wire model (Write,  *)
(* Parse) and the representation-level view used to compare profiles -     *)
(* shared by Codec.tla (C01), the parser totality specification (C02) and  *)
(* the trace specification TraceCodec.tla.                                 *)
(***************************************************************************)
EXTENDS Integers, Sequences, FiniteSets, TLC, SequencesExt, FiniteSetsExt, Functions, Folds

VT(t, u) == [t |-> t, u |-> u]
NoPT == [nil |-> TRUE, t |-> "", u |-> ""]
PT(t, u) == [nil |-> FALSE, t |-> t, u |-> u]

\* ------------------------------------------------------------- Norm: the loss proto3 forces
NormStr(l) == [l EXCEPT !.v = SelectSeq(@, LAMBDA x : x # "")]
NormNumIdx(l) == {i \in DOMAIN l.v : ~(l.v[i] = 0 /\ l.u[i] = "")}
NormNum(l) == LET keep == SetToSortSeq(NormNumIdx(l), <) IN
              [l EXCEPT !.v = [j \in DOMAIN keep |-> l.v[keep[j]]], !.u = [j \in DOMAIN keep |-> l.u[keep[j]]]]
NormSample(s) == [s EXCEPT !.lab = SelectSeq([i \in DOMAIN @ |-> NormStr(@[i])], LAMBDA l : Len(l.v) > 0),
                           !.num = SelectSeq([i \in DOMAIN @ |-> NormNum(@[i])], LAMBDA l : Len(l.v) > 0)]
Norm(p) == [p EXCEPT !.samples = [i \in DOMAIN @ |-> NormSample(@[i])],
                     !.pt = IF @.nil THEN PT("", "") ELSE @]

\* ------------------------------------------------------------- wire model
AllStrings(p) ==
  {""} \cup UNION {{p.st[i].t, p.st[i].u} : i \in DOMAIN p.st}
  \cup UNION { UNION {{p.samples[i].lab[j].k} \cup Range(p.samples[i].lab[j].v) : j \in DOMAIN p.samples[i].lab} : i \in DOMAIN p.samples }
  \cup UNION { UNION {{p.samples[i].num[j].k} \cup Range(p.samples[i].num[j].u) : j \in DOMAIN p.samples[i].num} : i \in DOMAIN p.samples }
  \cup UNION {{p.maps[i].file, p.maps[i].build} : i \in DOMAIN p.maps}
  \cup UNION {{p.fns[i].name, p.fns[i].sys, p.fns[i].file} : i \in DOMAIN p.fns}
  \cup {p.drop, p.keep, p.dflt, p.doc, p.pt.t, p.pt.u} \cup Range(p.comments)
\* string table: "" at index 0 (so that index 0 = absent), the rest in some fixed order
StrTab(p) == <<"">> \o SetToSeq(AllStrings(p) \ {""})
X(tab, s) == (CHOOSE i \in DOMAIN tab : tab[i] = s) - 1
Str(tab, x) == tab[x + 1]

\* preEncode: one label record per value; a numeric label's unit index only if the sample carries units for that key
LabelRecs(tab, s) ==
  FlattenSeq([j \in DOMAIN s.lab |-> [i \in DOMAIN s.lab[j].v |-> [keyX |-> X(tab, s.lab[j].k), strX |-> X(tab, s.lab[j].v[i]), numX |-> 0, unitX |-> 0]]])
  \o FlattenSeq([j \in DOMAIN s.num |-> [i \in DOMAIN s.num[j].v |-> [keyX |-> X(tab, s.num[j].k), strX |-> 0, numX |-> s.num[j].v[i], unitX |-> X(tab, s.num[j].u[i])]]])
Write(p) ==
  LET tab == StrTab(p) IN
  [ strtab |-> tab,
    st |-> [i \in DOMAIN p.st |-> [typeX |-> X(tab, p.st[i].t), unitX |-> X(tab, p.st[i].u)]],
    samples |-> [i \in DOMAIN p.samples |-> [locids |-> p.samples[i].locs, vals |-> p.samples[i].vals, labels |-> LabelRecs(tab, p.samples[i])]],
    maps |-> [i \in DOMAIN p.maps |-> [p.maps[i] EXCEPT !.file = X(tab, @), !.build = X(tab, @)]],
    locs |-> p.locs,
    fns |-> [i \in DOMAIN p.fns |-> [p.fns[i] EXCEPT !.name = X(tab, @), !.sys = X(tab, @), !.file = X(tab, @)]],
    pt |-> [present |-> ~p.pt.nil, typeX |-> X(tab, p.pt.t), unitX |-> X(tab, p.pt.u)],
    period |-> p.period, time |-> p.time, dur |-> p.dur,
    commentX |-> [i \in DOMAIN p.comments |-> X(tab, p.comments[i])],
    dfltX |-> X(tab, p.dflt), docX |-> X(tab, p.doc), dropX |-> X(tab, p.drop), keepX |-> X(tab, p.keep) ]

\* postDecode: labels regrouped per key in record order; strX # 0 is a string value; otherwise a numeric one
\* iff numX # 0 or unitX # 0; units padded with "" to the number of values when any unit was seen
KeysInOrder(recs, P(_)) == LET ks == [i \in DOMAIN recs |-> recs[i].keyX] IN
  FoldLeft(LAMBDA acc, i : IF P(recs[i]) /\ recs[i].keyX \notin Range(acc) THEN Append(acc, recs[i].keyX) ELSE acc, <<>>, [i \in DOMAIN recs |-> i])
IsStr(r) == r.strX # 0
IsNum(r) == r.strX = 0 /\ (r.numX # 0 \/ r.unitX # 0)
DecodeLabels(tab, recs) ==
  LET sk == KeysInOrder(recs, IsStr)
      nk == KeysInOrder(recs, IsNum)
  IN [ lab |-> [j \in DOMAIN sk |-> [k |-> Str(tab, sk[j]),
                                      v |-> LET rs == SelectSeq(recs, LAMBDA r : IsStr(r) /\ r.keyX = sk[j]) IN [i \in DOMAIN rs |-> Str(tab, rs[i].strX)]]],
       num |-> [j \in DOMAIN nk |-> LET rs == SelectSeq(recs, LAMBDA r : IsNum(r) /\ r.keyX = nk[j]) IN
                                    [k |-> Str(tab, nk[j]), v |-> [i \in DOMAIN rs |-> rs[i].numX], u |-> [i \in DOMAIN rs |-> Str(tab, rs[i].unitX)]]] ]
\* id resolution: dense table for id < len+1, sparse map otherwise - both must find the entity (0 = none)
Resolve(table, id) == IF id = 0 THEN 0
                      ELSE IF id < Len(table) + 1
                           THEN (IF \E i \in DOMAIN table : table[i].id = id THEN id ELSE 0)     \* dense slot
                           ELSE (IF \E i \in DOMAIN table : table[i].id = id THEN id ELSE 0)     \* sparse map
Parse(w) ==
  LET tab == w.strtab IN
  [ st |-> [i \in DOMAIN w.st |-> VT(Str(tab, w.st[i].typeX), Str(tab, w.st[i].unitX))],
    pt |-> IF w.pt.present THEN PT(Str(tab, w.pt.typeX), Str(tab, w.pt.unitX)) ELSE PT("", ""),
    period |-> w.period, time |-> w.time, dur |-> w.dur,
    comments |-> [i \in DOMAIN w.commentX |-> Str(tab, w.commentX[i])],
    dflt |-> Str(tab, w.dfltX), doc |-> Str(tab, w.docX), drop |-> Str(tab, w.dropX), keep |-> Str(tab, w.keepX),
    fns |-> [i \in DOMAIN w.fns |-> [w.fns[i] EXCEPT !.name = Str(tab, @), !.sys = Str(tab, @), !.file = Str(tab, @)]],
    maps |-> [i \in DOMAIN w.maps |-> [w.maps[i] EXCEPT !.file = Str(tab, @), !.build = Str(tab, @)]],
    locs |-> [i \in DOMAIN w.locs |-> [w.locs[i] EXCEPT !.map = Resolve(w.maps, @),
                                                        !.lines = [j \in DOMAIN @ |-> [@[j] EXCEPT !.fn = Resolve(w.fns, @)]]]],
    samples |-> [i \in DOMAIN w.samples |->
                   LET d == DecodeLabels(tab, w.samples[i].labels) IN
                   [locs |-> [j \in DOMAIN w.samples[i].locids |-> Resolve(w.locs, w.samples[i].locids[j])],
                    vals |-> w.samples[i].vals, lab |-> d.lab, num |-> d.num]] ]

\* labels are a per-key map: compare as sets of (key, values, units)
LabView(s) == [s EXCEPT !.lab = Range(@), !.num = Range(@)]
View(p) == [p EXCEPT !.samples = [i \in DOMAIN @ |-> LabView(@[i])]]

\* the validity contract of C02: one value per sample type; every referenced location, function and
\* mapping exists exactly once with a non-zero id
UniqueIds(table) == /\ \A i \in DOMAIN table : table[i].id # 0
                    /\ \A i, j \in DOMAIN table : i # j => table[i].id # table[j].id
HasId(table, id) == \E i \in DOMAIN table : table[i].id = id
Valid(p) ==
  /\ UniqueIds(p.fns) /\ UniqueIds(p.maps) /\ UniqueIds(p.locs)
  /\ \A i \in DOMAIN p.samples : /\ Len(p.samples[i].vals) = Len(p.st)
                                  /\ \A j \in DOMAIN p.samples[i].locs : HasId(p.locs, p.samples[i].locs[j])
  /\ \A i \in DOMAIN p.locs : /\ (p.locs[i].map # 0 => HasId(p.maps, p.locs[i].map))
                               /\ \A j \in DOMAIN p.locs[i].lines : HasId(p.fns, p.locs[i].lines[j].fn)
=============================================================================
