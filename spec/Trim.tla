-------------------------------- MODULE Trim --------------------------------
(***************************************************************************)
(* C05 - trimming hides entries but never changes the numbers shown.       *)
(*                                                                         *)
(* Declarative: for a kept set K of entries                                *)
(*   shown nodes  = the untrimmed rows of K, flat and cum unchanged        *)
(*   edge (a,b)   = sum of W(s) over samples in which a and b become       *)
(*                  adjacent after deleting the removed entries            *)
(*   residual     = the adjacency bypasses at least one removed entry      *)
(*   accounting   = sum of the flat values shown                           *)
(*   no edge refers to a removed entry.                                    *)
(* Operational (graph.go newGraph with Options.KeptNodes): the rebuild     *)
(* from samples in which a removed entry is a nil node that sets the       *)
(* `residual` flag; flat goes to the last node only if no nil node follows *)
(* it.  TLC checks the rebuild against the declarative tables for EVERY    *)
(* subset K of the entries of every catalogue profile.                     *)
(* Which K a given nodecount/nodefraction yields is checked on the real    *)
(* code by TraceTrim.tla.                                                  *)
(***************************************************************************)
EXTENDS TrimRules, Json

CONSTANTS Tier, Broken, Emit

F  == Fn("f", "f", "a.c", 0)
G  == Fn("g", "g", "a.c", 0)
H  == Fn("h", "h", "b.c", 0)
M0 == Mp("B1", "bin", 16, 8, 0)
LF   == Loc(M0, 3, <<Ln(F, 10, 1)>>, FALSE)
LG   == Loc(M0, 4, <<Ln(G, 20, 1)>>, FALSE)
LH   == Loc(M0, 5, <<Ln(H, 30, 1)>>, FALSE)
LGF  == Loc(M0, 6, <<Ln(G, 21, 1), Ln(F, 11, 1)>>, FALSE)
LU   == Loc(M0, 8, <<>>, FALSE)
LF0  == Loc(M0, 9, <<Ln(F, 0, 0)>>, FALSE)                      \* f without a line number: the whole-function entry at line granularity

\* chains, diamonds, recursion; cut the leaf, the root, the middle, everything
Shapes == { << <<LH, LG, LF>>, <<LG, LF>> >>,                 \* chain f>g>h and f>g
            << <<LH, LG, LF>>, <<LH, LF>> >>,                 \* f>g>h and f>h: direct and bypass
            << <<LH, LG, LF>>, <<LH, LGF>> >>,                \* diamond through an inlined location
            << <<LF, LG, LF>>, <<LG, LF, LG, LF>> >>,         \* recursion
            << <<LF, LH, LG, LH, LF>>, <<LU, LF>> >>,         \* f>h>g>h>f: pair (h) repeated around g
            << <<LH, LG, LF, LH, LF>>, <<>> >>,               \* direct f>h first (root side), bypass f>g>h later
            << <<LH, LF, LH, LG, LF>>, <<LG>> >> }            \* bypass first, direct later
Vals == IF Tier = "quick" THEN { << <<1, 3>>, <<1, 2>> >>, << <<1, 2>>, <<1, -2>> >> }
        ELSE { << <<1, 3>>, <<1, 2>> >>, << <<1, 2>>, <<1, -2>> >>, << <<1, -1>>, <<1, 3>> >>, << <<0, 0>>, <<1, 1>> >> }
Cfg0(g) == [gran |-> g, noinl |-> FALSE, si |-> 2, mean |-> FALSE, troot |-> <<>>, tleaf |-> <<>>]
Grans == IF Tier = "quick" THEN {"functions"} ELSE {"functions", "lines", "files"}

Profiles == { << Smp(sh[1], v[1], <<>>, <<>>), Smp(sh[2], v[2], <<>>, <<>>) >> : sh \in Shapes, v \in Vals }
\* at line granularity an entry for "f, no line" coexists with the entries of f's lines
LineZeroProfiles == { << Smp(<<LH, LF>>, v[1], <<>>, <<>>), Smp(<<LG, LF0>>, v[2], <<>>, <<>>) >> : v \in Vals }
                    \cup { << Smp(<<LH, LF, LF0>>, v[1], <<>>, <<>>), Smp(<<LF0, LG>>, v[2], <<>>, <<>>) >> : v \in Vals }
\* a comparison against a small base (-diff_base labels the negated base samples): the report total is the base total only,
\* so the entries shown add up to far more than the total
DiffProfiles == { << Smp(<<LH, LG, LF>>, <<1, 10>>, <<>>, <<>>), Smp(<<LG, LF>>, <<0 - 1, 0 - 1>>, <<SLab("pprof::base", <<"true">>)>>, <<>>) >>,
                  << Smp(<<LH, LF>>, <<2, 7>>, <<>>, <<>>), Smp(<<LH, LG, LF>>, <<0 - 1, 0 - 2>>, <<SLab("pprof::base", <<"true">>)>>, <<>>) >> }
Cases == UNION { { [samples |-> pg[1], cfg |-> Cfg0(pg[2]), K |-> k] : k \in SUBSET AllEntries(pg[1], Cfg0(pg[2])) } :
                   pg \in (Profiles \X Grans) \cup (LineZeroProfiles \X {"lines"}) \cup (DiffProfiles \X {"functions"}) }

\* ------------------------------------------------------------- declarative
Kept(c) == c.K
\* ------------------------------------------------------------- operational
VARIABLES case, pc, idx, nodes, edges
vars == <<case, pc, idx, nodes, edges>>
KK == Kept(case)
Z4 == [flat |-> 0, cum |-> 0]
Init == /\ case \in Cases /\ pc = "build" /\ idx = 1
        /\ nodes = [e \in Kept(case) |-> Z4]
        /\ edges = [p \in Kept(case) \X Kept(case) |-> [w |-> 0, n |-> 0, res |-> FALSE]]

\* newGraph with a kept set: a removed entry is a nil node
WalkK(es, w, K, ns, eds) ==
  LET step(acc, i) ==
        LET n == es[i] IN
        IF n \notin K THEN [acc EXCEPT !.residual = TRUE]
        ELSE
          LET ns1 == IF n \notin acc.seenN THEN [acc.ns EXCEPT ![n].cum = @ + w] ELSE acc.ns
              hasP == acc.parent # <<>>
              p == IF hasP THEN acc.parent[1] ELSE n
              isEdge == hasP /\ p # n /\ <<p, n>> \notin acc.seenE
              eds1 == IF isEdge
                      THEN [acc.eds EXCEPT ![<<p, n>>].w = @ + w, ![<<p, n>>].n = @ + 1,
                                           ![<<p, n>>].res = @ \/ acc.residual]
                      ELSE acc.eds
          IN [ns |-> ns1, eds |-> eds1, seenN |-> acc.seenN \cup {n},
              seenE |-> IF hasP THEN acc.seenE \cup {<<p, n>>} ELSE acc.seenE,
              parent |-> <<n>>, residual |-> FALSE]
      r == FoldLeft(step, [ns |-> ns, eds |-> eds, seenN |-> {}, seenE |-> {}, parent |-> <<>>, residual |-> FALSE],
                    [i \in 1..Len(es) |-> i])
  IN IF r.parent # <<>> /\ (~r.residual \/ Broken = "flatToLastKept")
     THEN [ns |-> [r.ns EXCEPT ![r.parent[1]].flat = @ + w], eds |-> r.eds]
     ELSE [ns |-> r.ns, eds |-> r.eds]

Rebuild ==
  /\ pc = "build" /\ idx <= Len(case.samples)
  /\ LET s == case.samples[idx] IN
     IF Counted(s, case.cfg)
     THEN LET r == WalkK(Entries(s, case.cfg), W(s, case.cfg), KK, nodes, edges) IN
          nodes' = r.ns /\ edges' = r.eds
     ELSE UNCHANGED <<nodes, edges>>
  /\ idx' = idx + 1
  /\ pc' = IF idx = Len(case.samples) THEN "done" ELSE "build"
  /\ UNCHANGED case
Expected ==
  [ nodes |-> TrimNodesD(case.samples, case.cfg, KK),
    edges |-> { [src |-> x.src, dst |-> x.dst, w |-> x.w,
                 allbypass |-> AllBypass(case.samples, case.cfg, KK, x.src, x.dst),
                 nobypass |-> NoBypass(case.samples, case.cfg, KK, x.src, x.dst)] :
                 x \in TrimEdgesD(case.samples, case.cfg, KK) } ]
Finish ==
  /\ pc = "done" /\ pc' = "end"
  /\ (Emit => PrintT(ToJson([kind |-> "kept", samples |-> case.samples, cfg |-> case.cfg, K |-> KK, exp |-> Expected])))
  /\ UNCHANGED <<case, idx, nodes, edges>>
Next == Rebuild \/ Finish
Spec == Init /\ [][Next]_vars

\* ------------------------------------------------------------- properties
Done == pc = "done"
\* THE property: what is shown keeps exactly its untrimmed numbers
ShownKeepNumbers ==
  Done => \A r \in NodeTableD(case.samples, case.cfg) :
            r.e \in KK => nodes[r.e].flat = r.rawflat /\ nodes[r.e].cum = r.rawcum
NothingElseShown ==
  Done => \A e \in KK : (nodes[e].flat # 0 \/ nodes[e].cum # 0) =>
            \E r \in NodeTableD(case.samples, case.cfg) : r.e = e
EdgeWeights ==
  Done => \A p \in DOMAIN edges :
            IF edges[p].n > 0
            THEN /\ edges[p].w = TrimEdgeW(case.samples, case.cfg, KK, p[1], p[2])
                 /\ ResidualOK(case.samples, case.cfg, KK, p[1], p[2], edges[p].res)
            ELSE \A x \in TrimEdgesD(case.samples, case.cfg, KK) : ~(x.src = p[1] /\ x.dst = p[2])
\* an edge between two shown entries that were adjacent untrimmed keeps its untrimmed weight
\* unless a bypass adds to it (then it must be marked residual)
NonResidualKeepsWeight ==
  Done => \A p \in DOMAIN edges :
            (edges[p].n > 0 /\ ~edges[p].res) =>
               edges[p].w = EdgeD(case.samples, case.cfg, p[1], p[2], W)
Accounting ==
  Done => FoldSet(LAMBDA e, acc : acc + nodes[e].flat, 0, KK)
          = FoldSet(LAMBDA r, acc : acc + r.rawflat, 0, TrimNodesD(case.samples, case.cfg, KK))
=============================================================================
