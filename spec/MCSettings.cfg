SPECIFICATION Spec
CONSTANTS
  Strategy = "rename"
  Locked = TRUE
  Emit = FALSE
INVARIANTS AtomicOnDisk Serializable
PROPERTIES OthersUntouched
CHECK_DEADLOCK FALSE
