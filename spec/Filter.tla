------------------------------- MODULE Filter -------------------------------
(***************************************************************************)
(* C06 - sample filters keep exactly the documented samples.               *)
(*                                                                         *)
(* A regular expression is abstracted to the SET OF NAMES IT MATCHES over  *)
(* the catalogue's function names, file names and binary names (the        *)
(* harness renders it as an anchored alternation of quoted names).  A tag  *)
(* expression is a set of "key:value" strings (no key given) or a set of   *)
(* values (key given); numeric ranges are [lo, hi] in bytes.               *)
(*                                                                         *)
(* Declarative meaning, per sample (doc/README.md, profile/filter.go doc   *)
(* comments, properties.jsonl C06) - FilterD; mechanism (profile/filter.go:*)
(* one pass over the DISTINCT locations that records match sets and        *)
(* rewrites their lines in place, then one pass over the samples) - the    *)
(* LocPass / SamplePass actions.  TLC checks the mechanism against the     *)
(* meaning and the partition law focus=R (+) ignore=R = everything.        *)
(***************************************************************************)
EXTENDS ProfileModel, Json

CONSTANTS Tier, Emit, Broken,
          Part      \* 0 = the whole catalogue; 1..5 = a fifth of it (the check runs the parts as parallel TLC processes)

\* ------------------------------------------------------------- catalogue
F  == Fn("f", "f", "a.c", 0)
G  == Fn("g", "g", "a.c", 0)
H  == Fn("h", "h", "b.c", 0)
M0 == Mp("B1", "bin", 16, 8, 0)
M1 == Mp("B2", "lib", 32, 8, 0)
LF  == Loc(M0, 3, <<Ln(F, 10, 1)>>, FALSE)
LG  == Loc(M0, 4, <<Ln(G, 20, 1)>>, FALSE)
LH  == Loc(M1, 5, <<Ln(H, 30, 1)>>, FALSE)
LGF == Loc(M0, 6, <<Ln(G, 21, 1), Ln(F, 11, 1)>>, FALSE)          \* g inlined into f
L3  == Loc(M1, 7, <<Ln(H, 31, 1), Ln(G, 22, 1), Ln(F, 12, 1)>>, FALSE)
LU  == Loc(M0, 8, <<>>, FALSE)                                    \* unsymbolised
F2  == Fn("f", "f", "b.c", 0)                                     \* another function called f, in another file
LF2 == Loc(M0, 9, <<Ln(F2, 40, 1)>>, FALSE)
LN  == Loc(NoMap, 10, <<Ln(G, 23, 1)>>, FALSE)                    \* a symbolized location without any mapping (Java profiles, hand-built ones)
FE  == Fn("e", "e", "", 0)                                        \* a function whose source file is not known
LE  == Loc(M0, 11, <<Ln(FE, 50, 1)>>, FALSE)
Locs == <<LF, LG, LH, LGF, L3, LU>>
\* "" stands for an expression that matches the empty string only (^()$): it matches a frame through an empty file name
Universe == {"f", "g", "h", "a.c", "b.c", "bin", "lib", ""}

Stacks(dummy) == {<<>>} \cup {<<Locs[i]>> : i \in DOMAIN Locs} \cup {<<Locs[i], Locs[j]>> : i, j \in DOMAIN Locs}
          \cup {<<LF, LGF, LH>>, <<L3, LG, L3>>, <<LU, LF, LU>>}
          \cup {<<LF2>>, <<LF, LF2>>, <<LF2, LF>>, <<LF2, LH>>, <<LGF, LF2>>}      \* two functions of one name in different files
          \cup {<<LE>>, <<LE, LF>>, <<LG, LE>>}
          \cup {<<LN, LF>>, <<LH, LN>>, <<LN, LGF, LN>>}     \* (always next to a mapped location: a profile without ANY mapping gets one made up by the driver)
Second(dummy) == IF Tier # "thorough" THEN {<<LGF, LH>>, <<>>} ELSE {<<LGF, LH>>, <<>>, <<L3, LF>>}
Profiles(dummy) == { << Smp(a, <<1, 3>>, <<SLab("k", <<"x">>)>>, <<>>), Smp(b, <<2, -2>>, <<>>, <<>>) >> : a \in Stacks(0), b \in Second(0) }

None == [on |-> FALSE, m |-> {}]
Rx(S) == [on |-> TRUE, m |-> S]
Small(dummy) == {S \in SUBSET Universe : Cardinality(S) <= (IF Tier # "thorough" THEN 1 ELSE 2)}
Opt0 == [focus |-> None, ignore |-> None, hide |-> None, show |-> None, showfrom |-> None]
Singles(dummy) == { [Opt0 EXCEPT ![o] = Rx(S)] : o \in {"focus", "ignore", "hide", "show", "showfrom"},
                                          S \in (IF Tier # "thorough" THEN {T \in SUBSET Universe : Cardinality(T) <= 2} ELSE SUBSET Universe) }
OptPairSeq == << <<"focus", "ignore">>, <<"focus", "hide">>, <<"focus", "show">>, <<"ignore", "hide">>, <<"hide", "show">>,
                 <<"show", "showfrom">>, <<"hide", "showfrom">>, <<"focus", "showfrom">>, <<"ignore", "show">>, <<"ignore", "showfrom">> >>
OptPairs == { OptPairSeq[i] : i \in { j \in DOMAIN OptPairSeq : Part = 0 \/ (j % 4) + 1 = Part } }
\* (thorough: the first option of a pair ranges over single names, the second over sets of up to two: TLC caps an enumerated set at 10^6)
Pairs(dummy) == { [Opt0 EXCEPT ![p[1]] = Rx(S1), ![p[2]] = Rx(S2)] : p \in OptPairs, S1 \in {{n} : n \in Universe}, S2 \in Small(0) \ {{}} }
Options(dummy) == (IF Part \in {0, 5} THEN Singles(0) ELSE {}) \cup (IF Part = 5 THEN {} ELSE Pairs(0))
NameCases(dummy) == { [kind |-> "name", samples |-> p, opt |-> o] : p \in Profiles(0), o \in Options(0) }

\* ------------------------------------------------------------- declarative: names
LineMatches(ln, R) == ln.fn.name \in R \/ ln.fn.file \in R
MapMatches(l, R) == ~l.map.nil /\ l.map.file \in R
LocMatches(l, R) == (\E i \in DOMAIN l.lines : LineMatches(l.lines[i], R)) \/ MapMatches(l, R)
HasMatch(s, R) == \E i \in DOMAIN s.locs : LocMatches(s.locs[i], R)

\* hide: a matching binary removes the whole location; otherwise matching lines go
HideLoc(l, R) == IF ~LocMatches(l, R) THEN l
                 ELSE IF MapMatches(l, R) THEN [l EXCEPT !.lines = <<>>]
                 ELSE [l EXCEPT !.lines = SelectSeq(l.lines, LAMBDA ln : ~LineMatches(ln, R))]
HideGone(l, R) == LocMatches(l, R) /\ Len(HideLoc(l, R).lines) = 0
\* show: a matching binary keeps everything; otherwise only matching lines stay
ShowLoc(l, R) == IF MapMatches(l, R) THEN l
                 ELSE [l EXCEPT !.lines = SelectSeq(l.lines, LAMBDA ln : LineMatches(ln, R))]
ShowGone(l, R) == Len(ShowLoc(l, R).lines) = 0

\* show_from: inside a matching location the lines on the ROOT side of its root-most matching line go
\* (lines are leaf -> root; everything is kept when the binary matches)
LastMatch(l, R) == IF \E i \in DOMAIN l.lines : LineMatches(l.lines[i], R)
                   THEN CHOOSE i \in DOMAIN l.lines : LineMatches(l.lines[i], R) /\ \A j \in (i + 1)..Len(l.lines) : ~LineMatches(l.lines[j], R)
                   ELSE 0
ShowFromLoc(l, R) == IF MapMatches(l, R) \/ LastMatch(l, R) = 0 THEN l ELSE [l EXCEPT !.lines = SubSeq(l.lines, 1, LastMatch(l, R))]

\* one sample through focus/ignore/hide/show: result is <<>> (dropped) or <<s'>>
NameFilterD(s, o) ==
  LET keepFI == (~o.focus.on \/ HasMatch(s, o.focus.m)) /\ ~(o.ignore.on /\ HasMatch(s, o.ignore.m))
      step1 == [i \in DOMAIN s.locs |-> IF o.hide.on THEN HideLoc(s.locs[i], o.hide.m) ELSE s.locs[i]]
      gone1 == {i \in DOMAIN s.locs : o.hide.on /\ HideGone(s.locs[i], o.hide.m)}
      step2 == [i \in DOMAIN s.locs |-> IF o.show.on THEN ShowLoc(step1[i], o.show.m) ELSE step1[i]]
      gone2 == {i \in DOMAIN s.locs : o.show.on /\ ShowGone(step1[i], o.show.m)}
      left  == SelectSeq([i \in DOMAIN s.locs |-> [l |-> step2[i], gone |-> i \in (gone1 \cup gone2)]], LAMBDA x : ~x.gone)
      locs  == [i \in DOMAIN left |-> left[i].l]
  IN IF ~keepFI THEN <<>>
     ELSE IF Len(s.locs) > 0 /\ Len(locs) = 0 THEN <<>>             \* no frame left
     ELSE << [s EXCEPT !.locs = locs] >>
\* three-valued: a sample that never had frames may be kept or dropped by hide/show (the text says
\* "dropping a sample only when no frame is left")
EmptyUnspecified(s, o) == Len(s.locs) = 0 /\ (o.hide.on \/ o.show.on)

ShowFromD(s, o) ==
  IF ~o.showfrom.on THEN <<s>>
  ELSE LET R == o.showfrom.m
           hit == {i \in DOMAIN s.locs : LocMatches(s.locs[i], R)}
       IN IF hit = {} THEN <<>>
          ELSE LET top == CHOOSE i \in hit : \A j \in hit : j <= i IN
               << [s EXCEPT !.locs = [i \in 1..top |-> ShowFromLoc(s.locs[i], R)]] >>

FilterOne(s, o) == LET a == NameFilterD(s, o) IN IF a = <<>> THEN <<>> ELSE ShowFromD(a[1], o)
FilterD(samples, o) == FlattenSeq([i \in DOMAIN samples |-> FilterOne(samples[i], o)])

\* ------------------------------------------------------------- declarative: tags
\* string tag filters: no key: EVERY expression must match some key:value of the sample;
\* with a key: SOME expression matches some value of that key
KV(s) == UNION { {s.lab[i].k \o ":" \o s.lab[i].v[j] : j \in DOMAIN s.lab[i].v} : i \in DOMAIN s.lab }
ValuesOf(s, k) == UNION { {s.lab[i].v[j] : j \in DOMAIN s.lab[i].v} : i \in {x \in DOMAIN s.lab : s.lab[x].k = k} }
TagMatchD(s, t) ==
  CASE t.kind = "none"  -> TRUE
    [] t.kind = "all"   -> \A i \in DOMAIN t.exprs : KV(s) \cap t.exprs[i] # {}
    [] t.kind = "key"   -> \E i \in DOMAIN t.exprs : ValuesOf(s, t.key) \cap t.exprs[i] # {}
    \* (the ranges of the catalogue are given in bytes / kb: a value in a unit of another family - a duration - never matches)
    [] t.kind = "range" -> \E i \in DOMAIN s.num : (t.key = "" \/ s.num[i].k = t.key) /\
                              \E j \in DOMAIN s.num[i].v : LET b == s.num[i].v[j] * (IF s.num[i].u[j] = "kb" THEN 1024 ELSE 1)
                                                           IN s.num[i].u[j] \in {"bytes", "kb"} /\ t.lo <= b /\ b <= t.hi
TagFilterD(samples, tf, ti) ==
  SelectSeq(samples, LAMBDA s : (tf.kind = "none" \/ TagMatchD(s, tf)) /\ ~(ti.kind # "none" /\ TagMatchD(s, ti)))
\* tagshow / taghide act on label keys
TagKeysD(samples, show, hide) ==
  [i \in DOMAIN samples |->
     LET keep(k) == (~show.on \/ k \in show.m) /\ ~(hide.on /\ k \in hide.m) IN
     [samples[i] EXCEPT !.lab = SelectSeq(@, LAMBDA x : keep(x.k)), !.num = SelectSeq(@, LAMBDA x : keep(x.k))]]

NoTag == [kind |-> "none"]
TagSamples(dummy) ==
  { << Smp(<<LF>>, <<1, 1>>, a, n1), Smp(<<LG>>, <<1, 2>>, b, n2), Smp(<<LH>>, <<1, 4>>, <<>>, <<>>) >> :
      a \in { <<SLab("k", <<"x">>)>>, <<SLab("k", <<"x", "y">>)>>, <<SLab("k", <<"x">>), SLab("j", <<"z">>)>>, <<SLab("k", <<"a=b">>)>> },
      b \in { <<>>, <<SLab("k", <<"y">>)>>, <<SLab("j", <<"x">>)>> },
      n1 \in { <<>>, <<NLab("n", <<2048>>, <<"bytes">>)>>, <<NLab("n", <<2500>>, <<"bytes">>)>>, <<NLab("t", <<5000>>, <<"nanoseconds">>)>> },
      n2 \in { <<>>, <<NLab("n", <<1024, 4096>>, <<"bytes", "bytes">>)>>, <<NLab("m", <<2048>>, <<"bytes">>)>>,
               <<NLab("t", <<90>>, <<"seconds">>), NLab("n", <<7>>, <<"bytes">>)>> } }
TagExprs == { [kind |-> "all", exprs |-> <<{"k:x"}>>], [kind |-> "all", exprs |-> <<{"k:x"}, {"j:z"}>>],
              [kind |-> "all", exprs |-> <<{"k:x", "k:y"}>>], [kind |-> "all", exprs |-> <<{"j:x", "j:z"}, {"k:y", "k:x"}>>],
              [kind |-> "key", key |-> "k", exprs |-> <<{"x"}>>], [kind |-> "key", key |-> "k", exprs |-> <<{"y"}, {"z"}>>],
              [kind |-> "key", key |-> "j", exprs |-> <<{"x", "z"}>>],
              [kind |-> "key", key |-> "k", exprs |-> <<{"a=b"}>>],            \* the value expression itself contains '=': the key ends at the FIRST one
              [kind |-> "range", key |-> "", lo |-> 2048, hi |-> 2048, form |-> "2kb"],
              [kind |-> "range", key |-> "", lo |-> 0 - 1000000, hi |-> 2048, form |-> ":2kb"],
              [kind |-> "range", key |-> "", lo |-> 2048, hi |-> 1000000, form |-> "2kb:"],
              [kind |-> "range", key |-> "n", lo |-> 1024, hi |-> 2048, form |-> "1kb:2kb"],
              [kind |-> "range", key |-> "m", lo |-> 2048, hi |-> 2048, form |-> "2048b"],
              [kind |-> "range", key |-> "n", lo |-> 2500, hi |-> 4096, form |-> "2500b:4kb"] }
TagCases(dummy) ==
  { [kind |-> "tag", samples |-> p, tf |-> tf, ti |-> ti, tshow |-> None, thide |-> None] :
      p \in TagSamples(0), tf \in TagExprs \cup {NoTag}, ti \in (IF Tier # "thorough" THEN {NoTag} ELSE TagExprs \cup {NoTag}) }
  \cup { [kind |-> "tag", samples |-> p, tf |-> NoTag, ti |-> ti, tshow |-> None, thide |-> None] : p \in TagSamples(0), ti \in TagExprs }
  \cup { [kind |-> "tag", samples |-> p, tf |-> NoTag, ti |-> NoTag, tshow |-> sh, thide |-> hd] :
           p \in TagSamples(0), sh \in {None, Rx({"k"}), Rx({"n", "j"}), Rx({})}, hd \in {None, Rx({"k"}), Rx({"j", "m"})} }
  \* tag filters together with tagshow / taghide: the filters see the labels before any key is hidden
  \cup { [kind |-> "tag", samples |-> p, tf |-> tf, ti |-> NoTag, tshow |-> None, thide |-> hd] :
           p \in TagSamples(0), tf \in TagExprs, hd \in {Rx({"k"}), Rx({"j", "n"})} }
  \cup { [kind |-> "tag", samples |-> p, tf |-> NoTag, ti |-> ti, tshow |-> sh, thide |-> None] :
           p \in TagSamples(0), ti \in TagExprs, sh \in {Rx({"j"}), Rx({"m"})} }

GuardCases == { [kind |-> "name",
                 samples |-> << Smp(<<LGF, LH>>, <<1, 3>>, <<>>, <<>>), Smp(<<>>, <<2, -2>>, <<>>, <<>>) >>,
                 opt |-> o] :
                 o \in { [Opt0 EXCEPT !.focus = Rx({"g"}), !.hide = Rx({"g"})], [Opt0 EXCEPT !.ignore = Rx({"f"})],
                         [Opt0 EXCEPT !.focus = Rx({"h"})] } }
Cases == IF Tier = "guard" THEN GuardCases ELSE NameCases(0) \cup (IF Part \in {0, 5} THEN TagCases(0) ELSE {})

\* ------------------------------------------------------------- operational: names
VARIABLES case, pc,
          todo,      \* distinct locations not yet visited by the location pass
          fi,        \* location -> "focused" | "ignored" | "none"
          cur,       \* location -> its (rewritten) self
          hidden,    \* set of locations left without lines
          out        \* resulting samples
vars == <<case, pc, todo, fi, cur, hidden, out>>

DistinctLocs(samples) == UNION { {samples[i].locs[j] : j \in DOMAIN samples[i].locs} : i \in DOMAIN samples }
Init == /\ case \in Cases
        /\ pc = IF case.kind = "name" THEN "locs" ELSE "tags"
        /\ todo = DistinctLocs(case.samples)
        /\ fi = [l \in DistinctLocs(case.samples) |-> "none"]
        /\ cur = [l \in DistinctLocs(case.samples) |-> l]
        /\ hidden = {} /\ out = <<>>

\* FilterSamplesByName, first loop: one location at a time, lines rewritten in place
LocPass ==
  /\ pc = "locs" /\ todo # {}
  /\ LET l == CHOOSE x \in todo : TRUE IN    \* the order of the location pass is irrelevant (each location is independent)
       LET o == case.opt
           \* Broken = "hideFirst": focus/ignore evaluated on the lines that hide/show left over
           afterHS == LET a == IF o.hide.on THEN HideLoc(l, o.hide.m) ELSE l IN IF o.show.on THEN ShowLoc(a, o.show.m) ELSE a
           subj == IF Broken = "hideFirst" THEN afterHS ELSE l
           f == IF o.ignore.on /\ LocMatches(subj, o.ignore.m) THEN "ignored"
                ELSE IF ~o.focus.on \/ LocMatches(subj, o.focus.m) THEN "focused" ELSE "none"
           l1 == IF o.hide.on THEN HideLoc(l, o.hide.m) ELSE l
           g1 == o.hide.on /\ HideGone(l, o.hide.m)
           l2 == IF o.show.on THEN ShowLoc(l1, o.show.m) ELSE l1
           g2 == o.show.on /\ ShowGone(l1, o.show.m)
       IN /\ fi' = [fi EXCEPT ![l] = f]
          /\ cur' = [cur EXCEPT ![l] = l2]
          /\ hidden' = IF g1 \/ g2 THEN hidden \cup {l} ELSE hidden
          /\ todo' = todo \ {l}
  /\ UNCHANGED <<case, pc, out>>
LocsDone == /\ pc = "locs" /\ todo = {} /\ pc' = "samples" /\ UNCHANGED <<case, todo, fi, cur, hidden, out>>

\* second loop: all samples (one atomic step; samples do not interact)
SamplePass ==
  /\ pc = "samples"
  /\ LET o == case.opt
         noFilter == ~o.focus.on /\ ~o.ignore.on /\ ~o.hide.on /\ ~o.show.on
         \* Broken = "emptyIgnore": the code before the fix - without a focus expression a sample still
         \* needed one "focused" location, so an empty stack was dropped by ignore alone
         keepS(s) == /\ \/ \E i \in DOMAIN s.locs : fi[s.locs[i]] = "focused"
                        \/ (~o.focus.on /\ Len(s.locs) = 0 /\ Broken # "emptyIgnore")
                     /\ \A i \in DOMAIN s.locs : fi[s.locs[i]] # "ignored"
         one(s) == IF noFilter THEN <<s>>
                   ELSE IF ~keepS(s) THEN <<>>
                   ELSE IF hidden = {} THEN << [s EXCEPT !.locs = [i \in DOMAIN s.locs |-> cur[s.locs[i]]]] >>
                   ELSE LET left == SelectSeq(s.locs, LAMBDA l : l \notin hidden) IN
                        IF Len(left) = 0 THEN <<>> ELSE << [s EXCEPT !.locs = [i \in DOMAIN left |-> cur[left[i]]]] >>
         afterNames == FlattenSeq([i \in DOMAIN case.samples |-> one(case.samples[i])])
     IN out' = FlattenSeq([i \in DOMAIN afterNames |-> ShowFromD(afterNames[i], o)])
  /\ pc' = "done"
  /\ UNCHANGED <<case, todo, fi, cur, hidden>>

TagPass ==
  /\ pc = "tags"
  /\ out' = TagKeysD(TagFilterD(case.samples, case.tf, case.ti), case.tshow, case.thide)
  /\ pc' = "done"
  /\ UNCHANGED <<case, todo, fi, cur, hidden>>

AbsSeq(ss) == [i \in DOMAIN ss |-> Abs(ss[i])]
ExpectedName ==
  [ out     |-> AbsSeq(FilterD(case.samples, case.opt)),
    \* samples whose fate the text leaves open (never had frames, hide/show active)
    free    |-> AbsSeq(SelectSeq(case.samples, LAMBDA s : EmptyUnspecified(s, case.opt))),
    input   |-> AbsSeq(case.samples) ]
ExpectedTag == [ out |-> AbsSeq(out), free |-> <<>>, input |-> AbsSeq(case.samples) ]

Finish ==
  /\ pc = "done" /\ pc' = "end"
  /\ (Emit => PrintT(ToJson(IF case.kind = "name"
                            THEN [kind |-> "name", samples |-> case.samples, opt |-> case.opt, exp |-> ExpectedName]
                            ELSE [kind |-> "tag", samples |-> case.samples, tf |-> case.tf, ti |-> case.ti,
                                  tshow |-> case.tshow, thide |-> case.thide, exp |-> ExpectedTag])))
  /\ UNCHANGED <<case, todo, fi, cur, hidden, out>>

Next == LocPass \/ LocsDone \/ SamplePass \/ TagPass \/ Finish
Spec == Init /\ [][Next]_vars

\* ------------------------------------------------------------- properties
Done == pc = "done"
\* the in-place two-pass mechanism yields the documented result; samples that never had frames are
\* compared only when the text decides their fate
Decided(ss, o) == SelectSeq(ss, LAMBDA s : Len(s.locs) > 0 \/ ~(o.hide.on \/ o.show.on))
MechanismMeetsDefinition ==
  (Done /\ case.kind = "name") =>
     Decided(out, case.opt) = Decided(FilterD(case.samples, case.opt), case.opt)
\* kept samples keep values and labels; frames are a subsequence of the original frames
ValuesLabelsOrderKept ==
  (Done /\ case.kind = "name") =>
     \A i \in DOMAIN out : \E j \in DOMAIN case.samples :
        /\ out[i].vals = case.samples[j].vals /\ out[i].lab = case.samples[j].lab /\ out[i].num = case.samples[j].num
\* focus=R and ignore=R partition the profile
Partition ==
  (Done /\ case.kind = "name" /\ case.opt.focus.on /\ ~case.opt.ignore.on /\ ~case.opt.hide.on /\ ~case.opt.show.on /\ ~case.opt.showfrom.on) =>
     LET R == case.opt.focus.m
         inF == FilterD(case.samples, [Opt0 EXCEPT !.focus = Rx(R)])
         inI == FilterD(case.samples, [Opt0 EXCEPT !.ignore = Rx(R)])
     IN BagSum(inF \o inI, 2) = BagSum(case.samples, 2) /\ Len(inF) + Len(inI) = Len(case.samples)
=============================================================================
