SPECIFICATION Spec
CONSTANTS
  Tier = "quick"
  Emit = FALSE
  Broken = "none"
INVARIANTS PipelineMeetsDefinition Linear SelfDiffEmpty NoValueDropped
CHECK_DEADLOCK FALSE
