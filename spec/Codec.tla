-------------------------------- MODULE Codec --------------------------------
(***************************************************************************)
(* C01 - profile serialization round-trips without loss.                   *)
(*                                                                         *)
(* State: mem (the in-memory profile, tables WITH ids - the property is    *)
(* about the representation), wire (a field-level message: string table,   *)
(* X-indices, label records, id references, optional fields omitted when   *)
(* zero), gen (number of completed round trips).                           *)
(* Actions (profile/encode.go, proto.go): PreEncode+Marshal = Write,       *)
(* Unmarshal+PostDecode = Parse (dense table for id < len+1, sparse map    *)
(* otherwise; label regrouping by key; unit padding; nil period type       *)
(* becomes an empty one).                                                  *)
(* Norm(p) is the only loss proto3 forces: a string label value "" and a   *)
(* numeric label value 0 without unit cannot be represented.               *)
(* TLC checks RoundTrip, Fixpoint (from the second generation on nothing   *)
(* changes), NormIdempotent and OnlyAllowedLoss on every catalogue profile *)
(* and prints each profile with Norm(profile) for replay on the real code. *)
(***************************************************************************)
EXTENDS CodecRules, Json

CONSTANTS Tier, Emit, Broken

\* ------------------------------------------------------------- catalogue
FnR(id, n) == [id |-> id, name |-> n, sys |-> n \o "_", file |-> n \o ".c", start |-> id]
\* every other mapping is the relocated kernel image, whose name the decoder inspects (and must leave as it is)
MapR(id) == [id |-> id, start |-> 16 * id, limit |-> 16 * id + 8, off |-> id - 1,
             file |-> IF id % 2 = 0 THEN "[kernel.kallsyms]_stext" ELSE "bin", build |-> "B",
             hasfn |-> TRUE, hasfile |-> id = 1, hasline |-> FALSE, hasinl |-> id # 1]
LineR(fn, l, c) == [fn |-> fn, line |-> l, col |-> c]
LocR(id, m, a, lines, fo) == [id |-> id, map |-> m, addr |-> a, lines |-> lines, folded |-> fo]
SmpR(locs, vals, lab, num) == [locs |-> locs, vals |-> vals, lab |-> lab, num |-> num]
SLab(k, v) == [k |-> k, v |-> v]
NLab(k, v, u) == [k |-> k, v |-> v, u |-> u]

Hdr0 == [pt |-> PT("cpu", "ns"), period |-> 3, time |-> 2, dur |-> 0 - 1, comments |-> <<>>, dflt |-> "", doc |-> "", drop |-> "", keep |-> ""]
Base(st, fns, maps, locs, samples, h) ==
  [st |-> st, pt |-> h.pt, period |-> h.period, time |-> h.time, dur |-> h.dur, comments |-> h.comments,
   dflt |-> h.dflt, doc |-> h.doc, drop |-> h.drop, keep |-> h.keep,
   fns |-> fns, maps |-> maps, locs |-> locs, samples |-> samples]

\* --- family A: label shapes (<= 2 values per key, every order of {"" , s} and {0, n} x {"", u})
StrVals == { <<"x">>, <<"">>, <<"x", "">>, <<"", "x">>, <<"x", "y">>, <<"", "">>, <<"x", "x">> }
NumVals == { [v |-> <<1>>, u |-> <<"u">>], [v |-> <<0>>, u |-> <<"">>], [v |-> <<0>>, u |-> <<"u">>], [v |-> <<1>>, u |-> <<"">>],
             [v |-> <<0, 1>>, u |-> <<"", "u">>], [v |-> <<1, 0>>, u |-> <<"u", "">>], [v |-> <<1, 2>>, u |-> <<"", "u">>],
             [v |-> <<1, 2>>, u |-> <<"u", "">>], [v |-> <<0, 0>>, u |-> <<"", "">>], [v |-> <<0, 2>>, u |-> <<"u", "">>],
             [v |-> <<1, 2, 3>>, u |-> <<"u", "", "">>], [v |-> <<1, 2, 3>>, u |-> <<"", "", "w">>], [v |-> <<1, 0, 3>>, u |-> <<"", "", "">>],
             [v |-> <<1, 2>>, u |-> <<"", "">>] }
LabelProfiles(d) ==
  { Base(<<VT("s", "c")>>, <<FnR(1, "f")>>, <<MapR(1)>>, <<LocR(1, 1, 17, <<LineR(1, 5, 0)>>, FALSE)>>,
         << SmpR(<<1>>, <<4>>, lab, num), SmpR(<<1>>, <<5>>, <<>>, <<>>) >>, Hdr0) :
      lab \in { <<>> } \cup { <<SLab("k", sv)>> : sv \in StrVals } \cup { <<SLab("k", <<"x">>), SLab("", <<"y">>)>> },
      num \in { <<>> } \cup { <<NLab("n", nv.v, nv.u)>> : nv \in NumVals } \cup { <<NLab("n", <<1>>, <<"u">>), NLab("k", <<0, 2>>, <<"", "">>)>> } }

\* --- family B: ids around the dense/sparse threshold (id < len+1), unused and shared entities, 0..3 lines / locations
IdSets == { <<1, 2>>, <<2, 1>>, <<2, 3>>, <<1, 3>>, <<5, 1>>, <<90, 91>>, <<3, 90>> }   \* 90.. are concretised as huge ids
LineSets(f1, f2) == << <<>>, <<LineR(f1, 5, 0)>>, <<LineR(f1, 5, 2), LineR(f2, 0 - 6, 0)>>, <<LineR(f2, 1, 1), LineR(f2, 1, 1), LineR(f1, 0, 0)>> >>
SampleLocs(a, b) == << <<>>, <<a>>, <<b, a>>, <<a, a, b>>, <<b, a, b, a>> >>
IdProfiles(d) ==
  { Base(<<VT("s", "c"), VT("t", "")>>,
         <<FnR(fi[1], "f"), FnR(fi[2], "g")>>, <<MapR(mi[1]), MapR(mi[2])>>,
         <<LocR(li[1], mi[1], 17, LineSets(fi[1], fi[2])[ls], FALSE), LocR(li[2], 0, 0, <<>>, TRUE)>>,
         << SmpR(SampleLocs(li[1], li[2])[sl], <<4, 0 - 2>>, <<>>, <<>>) >>, Hdr0) :
      fi \in IdSets, mi \in {<<1, 2>>, <<2, 5>>, <<90, 1>>}, li \in IdSets, ls \in 1..4, sl \in 1..5 }

\* --- family C: header fields, sample-type counts around the packed threshold (0..4 values), nil period type
Hdrs == { Hdr0,
          [Hdr0 EXCEPT !.pt = NoPT],
          [Hdr0 EXCEPT !.pt = PT("", "")],
          [Hdr0 EXCEPT !.comments = <<"a">>, !.dflt = "s", !.doc = "http://d", !.drop = "d.*", !.keep = "k"],
          [Hdr0 EXCEPT !.comments = <<"a", "", "a">>, !.period = 0, !.time = 0, !.dur = 0],
          [Hdr0 EXCEPT !.comments = <<"c1", "c2", "c3", "c4">>, !.period = 0 - 3, !.time = 3] }
STs == { <<VT("s", "c")>>, <<VT("s", "c"), VT("", "")>>, <<VT("", ""), VT("s", "c"), VT("s", "c")>>, <<VT("a", ""), VT("", "b"), VT("c", "c"), VT("d", "d")>> }
HdrProfiles(d) ==
  { Base(st, <<FnR(1, "f"), FnR(2, "")>>, <<MapR(1)>>, <<LocR(1, 1, 17, <<LineR(1, 5, 0)>>, FALSE)>>,
         << SmpR(<<1>>, [i \in DOMAIN st |-> i - 2], <<>>, <<>>), SmpR(<<>>, [i \in DOMAIN st |-> 0], <<>>, <<>>) >>, h) :
      st \in STs, h \in Hdrs }

Profiles == IF Tier = "guard" THEN { Base(<<VT("s", "c")>>, <<>>, <<>>, <<>>, << SmpR(<<>>, <<4>>, <<SLab("k", <<"", "x">>)>>, <<NLab("n", <<0, 2>>, <<"", "">>)>>) >>, Hdr0) }
            ELSE LabelProfiles(0) \cup IdProfiles(0) \cup HdrProfiles(0)

\* ------------------------------------------------------------- lifecycle
VARIABLES orig, mem, wire, gen, pc
vars == <<orig, mem, wire, gen, pc>>
MaxGen == 3
Init == orig \in Profiles /\ mem = orig /\ wire = <<>> /\ gen = 0 /\ pc = "mem"
DoWrite == pc = "mem" /\ gen < MaxGen /\ wire' = Write(mem) /\ pc' = "wire" /\ UNCHANGED <<orig, mem, gen>>
DoParse == pc = "wire" /\ mem' = (IF Broken = "noDrop" THEN mem ELSE Parse(wire)) /\ gen' = gen + 1 /\ pc' = "mem" /\ UNCHANGED <<orig, wire>>
Finish == /\ pc = "mem" /\ gen = MaxGen /\ pc' = "end"
          /\ (Emit => PrintT(ToJson([p |-> orig, exp |-> Norm(orig)])))
          /\ UNCHANGED <<orig, mem, wire, gen>>
Next == DoWrite \/ DoParse \/ Finish
Spec == Init /\ [][Next]_vars

\* ------------------------------------------------------------- properties
RoundTrip == (pc = "mem" /\ gen >= 1) => View(mem) = View(Norm(orig))
Fixpoint == [][(pc = "wire" /\ gen >= 1) => View(mem') = View(mem)]_vars
NormIdempotent == Norm(Norm(orig)) = Norm(orig)
\* anything missing from the result is one of the two droppable label shapes: same number of samples, same
\* locations/values per sample, and every (key, value) that survives Norm is there
OnlyAllowedLoss ==
  (pc = "mem" /\ gen >= 1) =>
     /\ Len(mem.samples) = Len(orig.samples)
     /\ \A i \in DOMAIN orig.samples :
          /\ mem.samples[i].vals = orig.samples[i].vals /\ mem.samples[i].locs = orig.samples[i].locs
          /\ \A j \in DOMAIN orig.samples[i].lab : \A x \in Range(orig.samples[i].lab[j].v) :
                x # "" => \E l \in Range(mem.samples[i].lab) : l.k = orig.samples[i].lab[j].k /\ x \in Range(l.v)
=============================================================================
