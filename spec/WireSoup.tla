------------------------------ MODULE WireSoup ------------------------------
(***************************************************************************)
(* C02 - parsing is total.  This module is the GENERATOR side: a grammar   *)
(* of malformed inputs as a state machine over an abstract document.       *)
(*                                                                         *)
(* A protobuf document is a tree of field nodes (field number, wire type,  *)
(* payload kind) - BaseDoc is a small valid profile.proto message.  The    *)
(* actions apply point mutations of the classes the property names:        *)
(* a value replaced by 0 / a dangling id / an index just past the string   *)
(* table / a huge or negative number; a wrong wire type; an out-of-range   *)
(* or zero field number; a duplicated or dropped field (repeated singular  *)
(* fields, duplicate ids, missing tables); a truncated payload; a length   *)
(* prefix past the end; an over-long varint; packed/unpacked repeated      *)
(* scalars; garbage inside a sub-message; then a wrapper (none, gzip,      *)
(* truncated gzip, wrong magic, gzip twice, two concatenated documents).   *)
(* Legacy text/binary documents are named base documents (rendered by the  *)
(* harness) with one mutation from a class set at a position.              *)
(* Every terminal state is printed; the harness renders it to bytes and    *)
(* feeds the real parser; TraceParse.tla decides the recorded outcome.     *)
(***************************************************************************)
EXTENDS Integers, Sequences, FiniteSets, TLC, Json

CONSTANTS Tier, Emit

HUGE == 900001      \* rendered as 2^63
NEG  == 900002      \* rendered as 2^64-1 (-1 as int64)
BIG  == 900003      \* rendered as 2^32
V(n, x)        == [num |-> n, wt |-> 0, kind |-> "varint", x |-> x, kids |-> <<>>, s |-> "", xs |-> <<>>]
M(n, kids)     == [num |-> n, wt |-> 2, kind |-> "msg", x |-> 0, kids |-> kids, s |-> "", xs |-> <<>>]
S(n, s)        == [num |-> n, wt |-> 2, kind |-> "str", x |-> 0, kids |-> <<>>, s |-> s, xs |-> <<>>]
Pk(n, xs)      == [num |-> n, wt |-> 2, kind |-> "packed", x |-> 0, kids |-> <<>>, s |-> "", xs |-> xs]

\* node table of the base document (ids are positions in this sequence)
BaseNodes ==
  << M(1, <<2, 3>>), V(1, 1), V(2, 2),                         \* 1: sample_type {type=1, unit=2}
     M(2, <<5, 6, 7, 40, 44>>), V(1, 1), V(2, 5), M(3, <<8, 9>>), V(1, 3), V(2, 4),   \* 4: sample {loc=1, value=5, label{key=3,str=4}, 2 numeric labels}
     M(3, <<11, 12, 13, 14>>), V(1, 1), V(2, 16), V(3, 32), V(5, 5),          \* 10: mapping {id=1,start,limit,filename=5}
     M(4, <<16, 17, 18, 19>>), V(1, 1), V(2, 1), V(3, 17), M(4, <<20, 21>>), V(1, 1), V(2, 3),  \* 15: location {id=1, mapping=1, addr, line{fn=1, line=3}}
     M(5, <<23, 24, 25, 26>>), V(1, 1), V(2, 3), V(3, 3), V(4, 4),            \* 22: function {id=1,name=3,sys=3,file=4}
     S(6, ""), S(6, "samples"), S(6, "count"), S(6, "f"), S(6, "f.c"), S(6, "bin"),   \* 27..32: string table
     V(9, 5), M(11, <<35, 36>>), V(1, 1), V(2, 2), V(12, 1),                  \* 33: time, 34: period_type, 37: period
     V(13, 3), V(14, 1),                                                      \* 38: comment, 39: default_sample_type
     M(3, <<41, 42, 43>>), V(1, 3), V(3, 7), V(4, 2),                         \* 40: numeric label key=3 num=7 unit=2
     M(3, <<45, 46>>), V(1, 3), V(3, 8) >>                                    \* 44: same key, num=8, NO unit (units must be padded)
BaseTop == <<1, 4, 10, 15, 22, 27, 28, 29, 30, 31, 32, 33, 34, 37, 38, 39>>
NodeIds == DOMAIN BaseNodes
VarintNodes == {i \in NodeIds : BaseNodes[i].kind = "varint"}
MsgNodes == {i \in NodeIds : BaseNodes[i].kind = "msg"}

\* mutation classes
VarintVals == {0, 2, 6, 7, HUGE, NEG, BIG}
Muts1 ==
     { [node |-> i, op |-> "set", arg |-> x] : i \in VarintNodes, x \in VarintVals }
  \cup { [node |-> i, op |-> "wt", arg |-> w] : i \in NodeIds, w \in {0, 1, 2, 3, 4, 5, 6, 7} }
  \cup { [node |-> i, op |-> "num", arg |-> n] : i \in NodeIds, n \in {0, 16, 99, 536870911} }
  \cup { [node |-> i, op |-> o, arg |-> 0] : i \in NodeIds, o \in {"dup", "drop", "overlong", "truncLast", "truncHalf", "lenPlus1", "lenHuge"} }
  \cup { [node |-> i, op |-> "garbage", arg |-> g] : i \in MsgNodes, g \in {1, 2, 3, 4} }    \* 4: a message of length zero
  \cup { [node |-> i, op |-> "repeat", arg |-> n] : i \in {5, 6}, n \in {0, 2, 3} }      \* 0 / 2 / 3 location ids or values (unpacked)
  \cup { [node |-> i, op |-> "pack", arg |-> n] : i \in {5, 6}, n \in {0, 1, 3} }        \* the same as one packed field
Wraps == {"none", "gzip", "gzipTrunc", "gzipBadMagic", "gzipTwice", "concat", "empty", "gzipEmpty"}

\* legacy documents: base document name x mutation class x position
LegacyDocs == {"heap", "heap_v2", "heapprofile", "growth", "gocount", "contention", "mutex", "threadz", "cpu64le", "cpu32be", "javaheap", "javacont"}
LegacyMuts == {"none", "numNonNumeric", "numHuge", "numNegative", "numEmpty", "dropAt", "dropLine", "dupLine", "truncFrac", "garbageLine", "crlf",
               "dropMapHeader", "mapGarbage", "mapAnonHuge", "mapEmpty", "mapOddName", "emptyStack", "addrOverflow", "nstkHuge", "noEndMarker", "wordSwap"}
Positions == IF Tier = "thorough" THEN 0..11 ELSE 0..3

VARIABLES pc, muts, wrap, legacy
vars == <<pc, muts, wrap, legacy>>
NoLegacy == [doc |-> "", mut |-> "", pos |-> 0]

Init == pc = "start" /\ muts = <<>> /\ wrap = "none" /\ legacy = NoLegacy
\* protobuf branch: one or two point mutations, then a wrapper
Mutate1 == /\ pc = "start" /\ \E m \in Muts1 : muts' = <<m>>
           /\ pc' = "mutated" /\ UNCHANGED <<wrap, legacy>>
\* pairs: two value mutations on different nodes (cross-table inconsistencies: duplicate/dangling ids, counts)
PairNodes == IF Tier = "thorough" THEN VarintNodes ELSE {5, 6, 11, 16, 17, 20, 23, 2, 8, 14}
Mutate2 == /\ pc = "mutated" /\ Len(muts) = 1 /\ muts[1].op = "set" /\ muts[1].node \in PairNodes
           /\ \E m \in {x \in Muts1 : x.op \in {"set", "dup"} /\ x.node \in PairNodes /\ x.node > muts[1].node} : muts' = Append(muts, m)
           /\ pc' = "mutated2" /\ UNCHANGED <<wrap, legacy>>
\* a profile WITHOUT samples whose tables are broken: the validity contract covers the tables whether or not a sample uses them
Mutate2NoSamples ==
           /\ pc = "mutated" /\ Len(muts) = 1 /\ muts[1].op = "drop" /\ muts[1].node = 4
           /\ \E m \in {x \in Muts1 : x.op \in {"set", "dup"} /\ x.node \in {10, 11, 15, 16, 17, 19, 20, 22, 23}} : muts' = Append(muts, m)
           /\ pc' = "mutated2" /\ UNCHANGED <<wrap, legacy>>
Wrap == /\ pc \in {"start", "mutated", "mutated2"}
        /\ \E w \in (IF pc = "mutated2" \/ (pc = "mutated" /\ Tier # "thorough") THEN {"none", "gzip"} ELSE Wraps) : wrap' = w
        /\ pc' = "done" /\ UNCHANGED <<muts, legacy>>
\* tiny documents: valid protobuf wire format that is (almost) nothing - no string table, one scalar, an empty
\* sub-message, only unknown fields; bare or gzip-wrapped
Tiny == {"scalar", "emptymsg", "unknownonly", "twoscalars", "emptystring", "onlycomment"}
TinyDoc == /\ pc = "start"
           /\ \E t \in Tiny, w \in {"none", "gzip"} : legacy' = [doc |-> "tiny:" \o t, mut |-> "none", pos |-> 0] /\ wrap' = w
           /\ pc' = "done" /\ UNCHANGED muts
\* legacy branch
Legacy == /\ pc = "start"
          /\ \E d \in LegacyDocs, m \in LegacyMuts, p \in Positions : legacy' = [doc |-> d, mut |-> m, pos |-> p]
          /\ pc' = "done" /\ UNCHANGED <<muts, wrap>>
Finish == /\ pc = "done" /\ pc' = "end"
          /\ (Emit => PrintT(ToJson([nodes |-> BaseNodes, top |-> BaseTop, muts |-> muts, wrap |-> wrap, legacy |-> legacy])))
          /\ UNCHANGED <<muts, wrap, legacy>>
Next == Mutate1 \/ Mutate2 \/ Mutate2NoSamples \/ Wrap \/ Legacy \/ TinyDoc \/ Finish
Spec == Init /\ [][Next]_vars

\* sanity of the generator: mutations address existing nodes; a legacy case carries no protobuf mutation
WellFormed == /\ \A i \in DOMAIN muts : muts[i].node \in NodeIds
              /\ (legacy.doc # "" => muts = <<>>)
              /\ \A i \in NodeIds : \A j \in DOMAIN BaseNodes[i].kids : BaseNodes[i].kids[j] \in NodeIds
=============================================================================
