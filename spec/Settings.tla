------------------------------ MODULE Settings ------------------------------
(***************************************************************************)
(* C19 - saved view configurations are durable and faithfully restored.    *)
(*                                                                         *)
(* The settings file at SYSCALL granularity.  disk is either a complete    *)
(* settings value ("ok": a sequence of named configurations) or torn       *)
(* (truncated / partially written).  Every web request is a process:       *)
(*   [Acquire] Read Compute (OpenTrunc Write | CreateTmp WriteTmp Rename)  *)
(*   [Release]                                                             *)
(* with Crash (any time: all requests vanish, disk stays) and WriteFails   *)
(* (ENOSPC/EIO at a write).  Strategy \in {"inplace", "rename"} and Locked *)
(* select the design; which one the CODE has is read off the recorded      *)
(* syscall trace (TraceSettings.tla) and off gated schedules.              *)
(* TLC results (see DESIGN.md): inplace violates AtomicOnDisk after        *)
(* OpenTrunc;Crash; rename without lock violates Serializable (lost        *)
(* update); rename + lock satisfies both.                                  *)
(***************************************************************************)
EXTENDS Integers, Sequences, FiniteSets, TLC, SequencesExt, Json

CONSTANTS Strategy, Locked, Emit

\* a configuration is an abstract option set: 1 = "focus=f", 2 = "hide=g nodecount=3", 3 = default
Reqs == << [op |-> "save", name |-> "a", cfg |-> 1], [op |-> "save", name |-> "b", cfg |-> 2],
           [op |-> "delete", name |-> "a", cfg |-> 0], [op |-> "save", name |-> "a", cfg |-> 2] >>
R == DOMAIN Reqs
Init0 == << [name |-> "a", cfg |-> 3] >>              \* the file starts with one saved configuration

Apply(val, r) ==
  IF Reqs[r].op = "save"
  THEN IF \E i \in DOMAIN val : val[i].name = Reqs[r].name
       THEN [i \in DOMAIN val |-> IF val[i].name = Reqs[r].name THEN [name |-> Reqs[r].name, cfg |-> Reqs[r].cfg] ELSE val[i]]
       ELSE Append(val, [name |-> Reqs[r].name, cfg |-> Reqs[r].cfg])
  ELSE SelectSeq(val, LAMBDA c : c.name # Reqs[r].name)
DeleteFails(val, r) == Reqs[r].op = "delete" /\ ~\E i \in DOMAIN val : val[i].name = Reqs[r].name

VARIABLES disk, tmp, pc, snap, new, lock, crashed, serial, reply, started
vars == <<disk, tmp, pc, snap, new, lock, crashed, serial, reply, started>>
Init == /\ disk = [kind |-> "ok", val |-> Init0] /\ tmp = [r \in R |-> "none"]
        /\ pc = [r \in R |-> "idle"] /\ snap = [r \in R |-> <<>>] /\ new = [r \in R |-> <<>>]
        /\ lock = 0 /\ crashed = FALSE /\ serial = <<>> /\ reply = [r \in R |-> "none"] /\ started = {}

MaxConcurrent == 2
Begin(r) == /\ ~crashed /\ pc[r] = "idle" /\ r \notin started /\ Cardinality({x \in R : pc[x] \notin {"idle", "done"}}) < MaxConcurrent
            /\ Cardinality(started) < 3
            /\ started' = started \cup {r}
            /\ pc' = [pc EXCEPT ![r] = IF Locked THEN "acquire" ELSE "read"]
            /\ UNCHANGED <<disk, tmp, snap, new, lock, crashed, serial, reply>>
Acquire(r) == /\ ~crashed /\ pc[r] = "acquire" /\ lock = 0 /\ lock' = r /\ pc' = [pc EXCEPT ![r] = "read"]
              /\ UNCHANGED <<disk, tmp, snap, new, crashed, serial, reply, started>>
Read(r) == /\ ~crashed /\ pc[r] = "read"
           /\ IF disk.kind # "ok" THEN reply' = [reply EXCEPT ![r] = "err"] /\ pc' = [pc EXCEPT ![r] = "release"] /\ UNCHANGED <<snap, new>>
              ELSE /\ snap' = [snap EXCEPT ![r] = disk.val]
                   /\ IF DeleteFails(disk.val, r)
                      THEN reply' = [reply EXCEPT ![r] = "err"] /\ pc' = [pc EXCEPT ![r] = "release"] /\ UNCHANGED new
                      ELSE new' = [new EXCEPT ![r] = Apply(disk.val, r)] /\ pc' = [pc EXCEPT ![r] = "write1"] /\ UNCHANGED reply
           /\ UNCHANGED <<disk, tmp, lock, crashed, serial, started>>
\* in place: O_TRUNC empties the file, then the data is written (a failing write leaves it torn)
OpenTrunc(r) == /\ ~crashed /\ Strategy = "inplace" /\ pc[r] = "write1"
                /\ disk' = [kind |-> "torn", val |-> <<>>] /\ pc' = [pc EXCEPT ![r] = "write2"]
                /\ UNCHANGED <<tmp, snap, new, lock, crashed, serial, reply, started>>
WriteInPlace(r) == /\ ~crashed /\ Strategy = "inplace" /\ pc[r] = "write2"
                   /\ \/ disk' = [kind |-> "ok", val |-> new[r]] /\ reply' = [reply EXCEPT ![r] = "ok"] /\ serial' = Append(serial, r)
                      \/ UNCHANGED disk /\ reply' = [reply EXCEPT ![r] = "err"] /\ UNCHANGED serial      \* ENOSPC
                   /\ pc' = [pc EXCEPT ![r] = "release"]
                   /\ UNCHANGED <<tmp, snap, new, lock, crashed, started>>
\* atomic: temporary file, then rename over the target
WriteTmp(r) == /\ ~crashed /\ Strategy = "rename" /\ pc[r] = "write1"
               /\ \/ tmp' = [tmp EXCEPT ![r] = "full"] /\ pc' = [pc EXCEPT ![r] = "rename"] /\ UNCHANGED reply
                  \/ tmp' = [tmp EXCEPT ![r] = "partial"] /\ pc' = [pc EXCEPT ![r] = "release"] /\ reply' = [reply EXCEPT ![r] = "err"]   \* ENOSPC
               /\ UNCHANGED <<disk, snap, new, lock, crashed, serial, started>>
Rename(r) == /\ ~crashed /\ Strategy = "rename" /\ pc[r] = "rename"
             /\ disk' = [kind |-> "ok", val |-> new[r]] /\ tmp' = [tmp EXCEPT ![r] = "none"]
             /\ reply' = [reply EXCEPT ![r] = "ok"] /\ serial' = Append(serial, r) /\ pc' = [pc EXCEPT ![r] = "release"]
             /\ UNCHANGED <<snap, new, lock, crashed, started>>
Release(r) == /\ ~crashed /\ pc[r] = "release" /\ lock' = (IF lock = r THEN 0 ELSE lock) /\ pc' = [pc EXCEPT ![r] = "done"]
              /\ UNCHANGED <<disk, tmp, snap, new, crashed, serial, reply, started>>
Crash == /\ ~crashed /\ crashed' = TRUE /\ UNCHANGED <<disk, tmp, pc, snap, new, lock, serial, reply, started>>
Finish == /\ Emit /\ ~crashed /\ (\A r \in started : pc[r] = "done") /\ started # {} /\ crashed' = TRUE
          /\ PrintT(ToJson([serial |-> [i \in DOMAIN serial |-> Reqs[serial[i]]], replies |-> [r \in R |-> reply[r]],
                            final |-> disk.val, kind |-> disk.kind]))
          /\ UNCHANGED <<disk, tmp, pc, snap, new, lock, serial, reply, started>>
Next == (\E r \in R : Begin(r) \/ Acquire(r) \/ Read(r) \/ OpenTrunc(r) \/ WriteInPlace(r) \/ WriteTmp(r) \/ Rename(r) \/ Release(r)) \/ Crash \/ Finish
Spec == Init /\ [][Next]_vars

\* ---- properties
\* at every state (= every possible crash point) the file is a complete settings value
AtomicOnDisk == disk.kind = "ok"
\* the acknowledged requests took effect as if performed one after another, in commit order
Fold(val, rs) == FoldLeft(Apply, val, rs)
Serializable == disk.kind = "ok" => disk.val = Fold(Init0, serial)
\* saving or deleting X never alters another configuration Y
OthersUntouched ==
  [][\A r \in R : (disk'.kind = "ok" /\ disk.kind = "ok" /\ disk' # disk /\ serial' = Append(serial, r)) =>
        \A n \in {"a", "b"} : n # Reqs[r].name =>
           SelectSeq(disk'.val, LAMBDA c : c.name = n) = SelectSeq(snap[r], LAMBDA c : c.name = n)]_vars
=============================================================================
