------------------------------- MODULE Legacy -------------------------------
(***************************************************************************)
(* C14 - legacy text and binary profiles convert with the documented       *)
(* values.  An abstract legacy document is a format, a header variant, a   *)
(* list of records (counts, sizes, stack addresses) and a memory map; the  *)
(* conversion rules documented in the source comments are operators that   *)
(* give the expected samples: one sample per record in order (a threadz    *)
(* "same as previous thread" record adds one to the preceding sample),     *)
(* addresses (call sites moved back by one; the leaf left alone for binary *)
(* CPU profiles and threadz), the named deviations StripSignalFrame and    *)
(* DropDuplicatedLeaf, values by rule (raw, x period, unsampled by         *)
(* 1/(1-exp(-size/rate)), cycles -> ns), the block-size label, the mapping *)
(* from the trailing memory map.  Float rules are NAMED here (TLA+ has no  *)
(* reals) and evaluated by the harness with an independent formula.        *)
(* TLC checks the rules' well-formedness and enumerates the documents; a   *)
(* printer per format renders each for the real ParseData.                 *)
(***************************************************************************)
EXTENDS Integers, Sequences, FiniteSets, TLC, SequencesExt, Json

CONSTANTS Tier, Emit, Broken   \* Broken = "sameAsPreviousDropped": vacuity guard, the model must then violate ThreadzCountsAllThreads

Addrs == {16, 17, 32, 4096, 4097}      \* 4097 - 1 = 4096: the first address of the second mapping, which is the limit of the first
StacksOf == { <<a>> : a \in Addrs } \cup { <<a, b>> : a, b \in Addrs } \cup { <<17, 16, 32>>, <<32, 32, 16>>, <<16, 4096, 32>> }
Rec(c, s, c2, s2, st) == [c |-> c, s |-> s, c2 |-> c2, s2 |-> s2, stack |-> st]

AdjAll(a) == [i \in DOMAIN a |-> a[i] - 1]
AdjCallers(a) == [i \in DOMAIN a |-> IF i = 1 THEN a[1] ELSE a[i] - 1]
DropDupLeaf(a) == IF Len(a) > 1 /\ a[1] = a[2] + 1 THEN <<a[1]>> \o SubSeq(a, 3, Len(a)) ELSE a

\* StripSignalFrame: if (nearly) all samples share their second frame it is removed; at most twice
SecondOf(st) == IF Len(st) > 1 THEN st[2] ELSE 0 - 1
StripOnce(stacks) ==
  LET n == Len(stacks)
      margin == n \div 32
      cands == { a \in {SecondOf(stacks[i]) : i \in DOMAIN stacks} \ {0 - 1} :
                   Cardinality({i \in DOMAIN stacks : SecondOf(stacks[i]) = a}) >= n - margin }
  IN IF cands = {} THEN stacks
     ELSE LET a == CHOOSE x \in cands : TRUE IN
          [i \in DOMAIN stacks |-> IF SecondOf(stacks[i]) = a THEN <<stacks[i][1]>> \o SubSeq(stacks[i], 3, Len(stacks[i])) ELSE stacks[i]]
StripSignalFrame(stacks) == StripOnce(StripOnce(stacks))

\* ---- documents and their expected conversion
BaseDocs(d) ==
  \* Go count profiles: values [n], every address - 1
  { [fmt |-> "gocount", variant |-> v, recs |-> rs, rate |-> 0, period |-> 0, hz |-> 0] :
      v \in {"goroutine", "threadcreate"}, rs \in { <<Rec(n, 0, 0, 0, st)>> : n \in {0, 1, 5}, st \in StacksOf } \cup { <<Rec(2, 0, 0, 0, <<16, 32>>), Rec(1, 0, 0, 0, <<32>>)>> } }
  \cup
  \* heap profiles
  { [fmt |-> "heap", variant |-> v, recs |-> rs, rate |-> r, period |-> 0, hz |-> 0] :
      v \in {"heapprofile", "heap_v2", "heapz_v2", "heap"}, r \in {1, 4, 524288},
      rs \in { <<Rec(c, s, c, s, st)>> : c \in {1, 3}, s \in {10, 4096}, st \in {<<16>>, <<17, 32>>} }
             \cup { <<Rec(0, 0, 2, 64, <<16, 32>>)>>, <<Rec(1, 16, 3, 48, <<32>>)>>, <<Rec(3, 300, 3, 900, <<32>>)>>, <<Rec(2, 64, 5, 64, <<16>>)>>,   \* in-use and alloc pairs agreeing in one number only
              <<Rec(2, 100, 2, 100, <<16>>), Rec(7, 7000, 7, 7000, <<4096, 17>>)>>,
              <<Rec(2, 100, 2, 100, <<16>>), Rec(0 - 2, 0 - 2048, 0, 0, <<32>>)>>,     \* a negative in-use pair (the grammar allows it): unsampled like any other
              <<Rec(1, 16, 3, 48, <<32>>), Rec(0 - 3, 0 - 300, 3, 900, <<16>>)>>,
              <<Rec(4, 8, 4, 8, <<16>>)>>, <<Rec(50, 50, 50, 50, <<32>>)>> } }    \* tiny objects: at rate 1 nothing is unsampled, at rate 4 a lot
  \cup
  \* growth and fragmentation profiles: the heap grammar with period 1, no unsampling, in-use pair only
  { [fmt |-> "heap", variant |-> v, recs |-> rs, rate |-> 0, period |-> 0, hz |-> 0] :
      v \in {"growthz", "growth", "fragmentationz"},
      rs \in { <<Rec(c, s, c2, s2, st)>> : c \in {1, 3}, s \in {10, 4096}, c2 \in {0, 5}, s2 \in {0, 50}, st \in {<<16>>, <<17, 32>>} } }
  \cup
  \* Java heapz / contentionz / CPU: addresses are identifiers resolved by a trailing location section, never adjusted
  { [fmt |-> "javaheap", variant |-> "heapz", recs |-> rs, rate |-> 524288, period |-> 0, hz |-> 0] :
      rs \in { <<Rec(c, s, 0, 0, st)>> : c \in {1, 3}, s \in {10, 4096, 1048576}, st \in StacksOf } \cup { <<Rec(2, 100, 0, 0, <<16, 32>>), Rec(7, 7000, 0, 0, <<32, 16>>), Rec(1, 8, 0, 0, <<16, 32>>)>>, <<Rec(1, 0, 0, 0, <<16>>), Rec(3, 2, 0, 0, <<32>>)>> } }   \* block size 0: no label
  \cup
  { [fmt |-> "javacontention", variant |-> "contentionz", recs |-> rs, rate |-> 0, period |-> p, hz |-> 0] :
      p \in {0, 1, 100}, rs \in { <<Rec(c, cy, 0, 0, st)>> : c \in {1, 3}, cy \in {0, 2000}, st \in {<<16>>, <<17, 32>>, <<32, 32, 16>>} } \cup { <<Rec(1, 10, 0, 0, <<16, 17>>), Rec(2, 30, 0, 0, <<32>>)>> } }
  \cup
  { [fmt |-> "javacpu", variant |-> v, recs |-> rs, rate |-> 0, period |-> p, hz |-> 0] :
      v \in {"64le", "64be", "32le", "32be"}, p \in {1, 10000},
      rs \in { <<Rec(c, 0, 0, 0, st)>> : c \in {1, 4}, st \in {<<16>>, <<17, 16>>, <<16, 4096, 32>>, <<17, 17, 32>>} }
             \cup { <<Rec(1, 0, 0, 0, <<16, 4096, 32>>), Rec(2, 0, 0, 0, <<17, 4096, 32>>)>> } }    \* nothing is stripped from Java stacks
  \cup
  \* contention / mutex (hz in MHz: TLC integers are 32 bit)
  { [fmt |-> "contention", variant |-> v, recs |-> rs, rate |-> 0, period |-> p, hz |-> hz] :
      v \in {"contentionz", "mutex", "contention"}, p \in {0, 1, 100}, hz \in {0, 1000, 2500},
      rs \in { <<Rec(c, cy, 0, 0, st)>> : c \in {1, 3}, cy \in {0, 2000}, st \in {<<16>>, <<17, 32>>} } \cup { <<Rec(1, 10, 0, 0, <<16, 17>>), Rec(2, 30, 0, 0, <<32>>)>> } }
  \cup
  \* threadz: c = 1 normal record, c = 0 "same as previous thread"
  { [fmt |-> "threadz", variant |-> "threadz", recs |-> rs, rate |-> 0, period |-> 0, hz |-> 0] :
      rs \in { <<Rec(1, 0, 0, 0, st)>> : st \in StacksOf } \cup { <<Rec(1, 0, 0, 0, st), Rec(0, 0, 0, 0, <<>>), Rec(0, 0, 0, 0, <<>>)>> : st \in {<<16, 32>>, <<17, 16>>} }
             \cup { <<Rec(1, 0, 0, 0, <<16, 32>>), Rec(1, 0, 0, 0, <<32, 16>>), Rec(0, 0, 0, 0, <<>>)>> } }
  \cup
  \* binary CPU profiles: word size x endianness
  { [fmt |-> "cpu", variant |-> v, recs |-> rs, rate |-> 0, period |-> p, hz |-> 0] :
      v \in {"64le", "64be", "32le", "32be"}, p \in {1, 10000},
      rs \in { <<Rec(c, 0, 0, 0, st)>> : c \in {1, 4}, st \in StacksOf }
             \cup { <<Rec(1, 0, 0, 0, <<16, 4096, 32>>), Rec(2, 0, 0, 0, <<17, 4096, 32>>), Rec(1, 0, 0, 0, <<32, 4096>>)>>,      \* shared signal frame
                    <<Rec(1, 0, 0, 0, <<16, 4096, 32>>), Rec(1, 0, 0, 0, <<17, 32>>)>>,                                            \* not shared by all
                    <<Rec(1, 0, 0, 0, <<16, 32>>), Rec(2, 0, 0, 0, <<16, 17>>)>>,                                                  \* distinct callers: nothing stripped
                    <<Rec(1, 0, 0, 0, <<32, 17, 4096>>), Rec(1, 0, 0, 0, <<32, 16, 4096>>), Rec(5, 0, 0, 0, <<17>>)>>,
                    <<Rec(1, 0, 0, 0, <<16, 4096, 32, 17>>), Rec(1, 0, 0, 0, <<17, 4096, 32, 16>>)>>,                            \* two shared frames: both stripped
                    [i \in 1..33 |-> IF i = 7 THEN Rec(1, 0, 0, 0, <<16, 32>>) ELSE Rec(i, 0, 0, 0, <<16 + (i % 2), 4096, 32>>)],  \* nearly all (32 of 33)
                    [i \in 1..33 |-> IF i = 7 THEN Rec(1, 0, 0, 0, <<16, 17>>) ELSE Rec(i, 0, 0, 0, <<16 + (i % 2), 4096, 32>>)],  \* the outlier keeps its own caller
                    [i \in 1..34 |-> IF i \in {7, 9} THEN Rec(1, 0, 0, 0, <<16, 32>>) ELSE Rec(1, 0, 0, 0, <<17, 4096, 32>>)],     \* 32 of 34: not enough
                    <<Rec(3, 0, 0, 0, <<17, 17, 32>>)>> } }                                                                          \* duplicated leaf

\* ---- the trailing memory map
\* A memory map is a list of lines: mapping entries ([start, limit) at a file offset, executable or not, of a file whose
\* name is a list of parts: literal text or a reference $attr) and attribute lines "attr=value".  The documented rules
\* (comments of legacy_profile.go and profile.go), as named operators:
\*   Substitute     an attr=value line defines $attr for every LATER entry; all the attributes defined so far apply, not
\*                  only the most recent one (the catalogue never assigns one attribute twice: which assignment wins
\*                  then is not documented)
\*   SkipNonExec    entries whose permissions lack x are skipped
\*   MergeAdjacent  an entry that starts where the previous mapping ends, of the same file and (where both state one)
\*                  at the consecutive file offset, is the same mapping split in two: the two are joined
\*   MainFirst      the first mapping that is not a shared library is the main binary; it changes places with the top one
\*   ExtendDown     an address no mapping covers but which lies within the file offset in front of a mapping belongs to
\*                  it (its first part was not listed): the mapping is extended downwards to file offset 0
\*   Fake           addresses still uncovered belong to one made-up mapping [0, max) at the end of the list
\* (the 0x400000 rule for main binaries and the /anon_hugepage rule are kept clear of: no mapping of the catalogue has
\* start - offset = 0x400000 or that name)
Growth(doc) == doc.variant \in {"growthz", "growth", "fragmentationz"}
Java(doc) == doc.fmt \in {"javaheap", "javacontention", "javacpu"}
Lit(s) == [ref |-> FALSE, s |-> s]
Ref(n) == [ref |-> TRUE, s |-> n]
Ent(s, l, o, x, f, so) == [k |-> "map", start |-> s, limit |-> l, off |-> o, x |-> x, file |-> f, shlib |-> so]
Attr(n, v) == [k |-> "attr", name |-> n, value |-> v]
ExeF == <<Lit("/bin/exe")>>
LibF == <<Lit("/lib/libc.so.6")>>
\* none; procmaps and brief: exe = [8, 4096), lib = [4096, 8192) and a non-executable entry (two syntaxes of one map);
\* split3: the executable and the library each listed as three adjacent pieces (to be joined again); offsetlib: the
\* library listed from its second part only, with a file offset (extended downwards to cover the addresses in front of
\* it); split2: the library first, then the executable as two adjacent pieces (joined, then moved to the top);
\* attrs: three attribute lines, each later entry naming its file through one of them - the first, the second and the
\* last defined
MapForms == {"none", "procmaps", "brief", "split3", "offsetlib", "split2", "attrs"}
MapSrc(form) ==
  CASE form = "none" -> <<>>
    [] form \in {"procmaps", "brief"} -> <<Ent(8, 4096, 0, TRUE, ExeF, FALSE), Ent(12288, 16384, 8192, FALSE, ExeF, FALSE), Ent(4096, 8192, 0, TRUE, LibF, TRUE)>>
    [] form = "offsetlib" -> <<Ent(8, 4096, 0, TRUE, ExeF, FALSE), Ent(6144, 8192, 2048, TRUE, LibF, TRUE)>>
    [] form = "split3" -> <<Ent(8, 17, 0, TRUE, ExeF, FALSE), Ent(17, 32, 9, TRUE, ExeF, FALSE), Ent(32, 4096, 24, TRUE, ExeF, FALSE),   \* 16, 17 and 32 fall into the first, second and third piece
                            Ent(12288, 16384, 8192, FALSE, ExeF, FALSE),
                            Ent(4096, 4097, 0, TRUE, LibF, TRUE), Ent(4097, 6144, 1, TRUE, LibF, TRUE), Ent(6144, 8192, 2048, TRUE, LibF, TRUE)>>
    [] form = "split2" -> <<Ent(4096, 8192, 0, TRUE, LibF, TRUE), Ent(8, 32, 0, TRUE, ExeF, FALSE), Ent(32, 4096, 24, TRUE, ExeF, FALSE),
                            Ent(12288, 16384, 8192, FALSE, ExeF, FALSE)>>
    [] form = "attrs" -> <<Attr("build", "/b"), Attr("source", "/s"),
                           Ent(8, 4096, 0, TRUE, <<Ref("build"), Lit("/bin/exe")>>, FALSE),
                           Attr("libs", "/usr/lib"),
                           Ent(12288, 16384, 8192, FALSE, <<Ref("build"), Lit("/bin/exe")>>, FALSE),
                           Ent(4096, 8192, 0, TRUE, <<Ref("source"), Lit("/lib/libc.so.6")>>, TRUE),
                           Ent(8192, 12288, 0, TRUE, <<Ref("libs"), Lit("/libm.so.6")>>, TRUE)>>
Docs(d) == UNION { { [doc |-> b, map |-> m] : m \in (IF b.fmt = "threadz" THEN MapForms \ {"none"} ELSE IF Java(b) THEN {"none"} ELSE MapForms) } : b \in BaseDocs(d) }

\* Substitute: the value of $n for line i of the map (the reference stays as it is if nothing defined it)
ValueOf(src, i, n) == LET defs == {j \in 1..(i - 1) : src[j].k = "attr" /\ src[j].name = n}
                      IN IF defs = {} THEN "$" \o n ELSE src[CHOOSE j \in defs : \A j2 \in defs : j <= j2].value
FileOf(src, i) == FoldLeft(LAMBDA acc, p : acc \o (IF p.ref THEN ValueOf(src, i, p.s) ELSE p.s), "", src[i].file)
\* SkipNonExec
ExecMaps(src) == LET idx == SelectSeq([i \in DOMAIN src |-> i], LAMBDA i : src[i].k = "map" /\ src[i].x)
                 IN [n \in DOMAIN idx |-> [file |-> FileOf(src, idx[n]), start |-> src[idx[n]].start, limit |-> src[idx[n]].limit,
                                           off |-> src[idx[n]].off, shlib |-> src[idx[n]].shlib]]
Adjacent(a, b) == a.file = b.file /\ a.limit = b.start /\ (a.off = 0 \/ b.off = 0 \/ a.off + (a.limit - a.start) = b.off)
MergeAdjacent(ms) == FoldLeft(LAMBDA acc, m : IF acc # <<>> /\ Adjacent(acc[Len(acc)], m) THEN [acc EXCEPT ![Len(acc)].limit = m.limit] ELSE Append(acc, m), <<>>, ms)
MainFirst(ms) == LET mains == {i \in DOMAIN ms : ~ms[i].shlib} IN
                 IF mains = {} THEN ms
                 ELSE LET i == CHOOSE x \in mains : \A y \in mains : x <= y
                      IN [ms EXCEPT ![1] = ms[i], ![i] = ms[1]]
\* ExtendDown and Fake: the addresses are looked up in order of appearance; at holds <<address, index>> (0: none)
Covers(m, a) == m.start <= a /\ a < m.limit
Below(m, a) == m.off # 0 /\ m.start - m.off <= a /\ a < m.start
FirstOf(S) == IF S = {} THEN 0 ELSE CHOOSE x \in S : \A y \in S : x <= y
Place(st, a) ==
  LET i == FirstOf({x \in DOMAIN st.ms : Covers(st.ms[x], a)})
      j == FirstOf({x \in DOMAIN st.ms : Below(st.ms[x], a)})
  IN IF \E p \in st.at : p[1] = a THEN st
     ELSE IF i # 0 THEN [st EXCEPT !.at = @ \cup {<<a, i>>}]
     ELSE IF j # 0 THEN [ms |-> [st.ms EXCEPT ![j].start = @ - st.ms[j].off, ![j].off = 0], at |-> st.at \cup {<<a, j>>}]
     ELSE [st EXCEPT !.at = @ \cup {<<a, 0>>}]
Flat(stacks) == FoldLeft(LAMBDA acc, s : acc \o s, <<>>, stacks)
Placed(form, stacks) == FoldLeft(Place, [ms |-> MainFirst(MergeAdjacent(ExecMaps(MapSrc(form)))), at |-> {}], Flat(stacks))
FakeMap == [file |-> "", start |-> 0, limit |-> 0 - 1, off |-> 0, shlib |-> FALSE]      \* limit -1 stands for the largest address
MapListExpected(form, stacks) == LET st == Placed(form, stacks) IN IF \E p \in st.at : p[2] = 0 THEN Append(st.ms, FakeMap) ELSE st.ms
MapIdxExpected(form, stacks) == LET st == Placed(form, stacks)
                                    ix(a) == LET p == CHOOSE p \in st.at : p[1] = a IN IF p[2] = 0 THEN Len(st.ms) + 1 ELSE p[2]
                                IN [i \in DOMAIN stacks |-> [j \in DOMAIN stacks[i] |-> ix(stacks[i][j])]]
PeriodExpected(doc) ==
  CASE doc.fmt = "gocount" -> 1
    [] doc.fmt = "threadz" -> 1
    [] doc.fmt \in {"cpu", "javacpu"} -> doc.period * 1000
    [] doc.fmt \in {"contention", "javacontention"} -> doc.period
    [] doc.fmt = "javaheap" -> 0
    [] doc.fmt = "heap" -> IF doc.variant = "heapprofile" \/ Growth(doc) THEN 1 ELSE IF doc.variant = "heap" THEN doc.rate \div 2 ELSE doc.rate

StacksExpected(doc) ==
  CASE doc.fmt \in {"gocount", "heap", "contention"} -> [i \in DOMAIN doc.recs |-> AdjAll(doc.recs[i].stack)]
    [] Java(doc) -> [i \in DOMAIN doc.recs |-> doc.recs[i].stack]
    [] doc.fmt = "threadz" -> LET real == SelectSeq(doc.recs, LAMBDA r : r.c = 1) IN [i \in DOMAIN real |-> DropDupLeaf(AdjCallers(real[i].stack))]
    [] doc.fmt = "cpu" -> LET adj == [i \in DOMAIN doc.recs |-> AdjCallers(doc.recs[i].stack)]
                              str == StripSignalFrame(adj)
                          IN [i \in DOMAIN str |-> DropDupLeaf(str[i])]
\* values: either concrete integers or a named float rule
HeapRate(doc) == IF doc.variant = "heapprofile" THEN 1 ELSE IF doc.variant = "heap" THEN doc.rate \div 2 ELSE doc.rate
HasAlloc(doc) == LET r == doc.recs[1] IN ~Growth(doc) /\ ((r.c2 # r.c /\ r.c2 # 0) \/ (r.s2 # r.s /\ r.s2 # 0))   \* the header repeats the first record
ValuesExpected(doc) ==
  CASE doc.fmt = "gocount" -> [i \in DOMAIN doc.recs |-> [rule |-> "raw", v |-> <<doc.recs[i].c>>]]
    [] doc.fmt = "heap" ->
         [i \in DOMAIN doc.recs |->
            LET r == doc.recs[i] IN
            [rule |-> IF doc.variant = "heapprofile" \/ Growth(doc) THEN "raw" ELSE "unsample", rate |-> HeapRate(doc),
             v |-> IF HasAlloc(doc) THEN <<r.c2, r.s2, r.c, r.s>> ELSE <<r.c, r.s>>,
             bytes |-> IF r.c < 0 /\ r.s < 0 THEN (0 - r.s) \div (0 - r.c) ELSE IF r.c # 0 THEN r.s \div r.c ELSE IF HasAlloc(doc) /\ r.c2 # 0 THEN r.s2 \div r.c2 ELSE 0]]
    [] doc.fmt = "contention" ->
         [i \in DOMAIN doc.recs |-> [rule |-> "contention", period |-> doc.period, hz |-> doc.hz, v |-> <<doc.recs[i].c, doc.recs[i].s>>]]
    [] doc.fmt = "threadz" ->
         LET idx == {i \in DOMAIN doc.recs : doc.recs[i].c = 1}
             ord == SetToSortSeq(idx, <)
         IN [k \in DOMAIN ord |-> [rule |-> "raw",
               v |-> <<1 + IF Broken = "sameAsPreviousDropped" THEN 0 ELSE Cardinality({j \in DOMAIN doc.recs : j > ord[k] /\ doc.recs[j].c = 0 /\ \A m \in (ord[k] + 1)..j : doc.recs[m].c = 0})>>]]
    [] doc.fmt \in {"cpu", "javacpu"} -> [i \in DOMAIN doc.recs |-> [rule |-> "raw", v |-> <<doc.recs[i].c, doc.recs[i].c * doc.period * 1000>>]]
    [] doc.fmt = "javaheap" -> [i \in DOMAIN doc.recs |-> [rule |-> "unsample", rate |-> doc.rate, v |-> <<doc.recs[i].c, doc.recs[i].s>>,
                                                            bytes |-> doc.recs[i].s \div doc.recs[i].c]]
    [] doc.fmt = "javacontention" ->
         [i \in DOMAIN doc.recs |-> [rule |-> "raw", v |-> IF doc.period # 0 THEN <<doc.recs[i].c * doc.period, doc.recs[i].s * doc.period>>
                                                            ELSE <<doc.recs[i].c, doc.recs[i].s>>]]

VARIABLES pc, doc, map
Init == pc = "gen" /\ doc = <<>> /\ map = ""
Gen == pc = "gen" /\ (\E x \in Docs(0) : doc' = x.doc /\ map' = x.map) /\ pc' = "emit"
Finish == pc = "emit" /\ pc' = "end"
          /\ (Emit => PrintT(ToJson([doc |-> doc, map |-> map, stacks |-> StacksExpected(doc), values |-> ValuesExpected(doc), period |-> PeriodExpected(doc),
                                     mapsrc |-> MapSrc(map),
                                     maplist |-> IF Java(doc) THEN <<>> ELSE MapListExpected(map, StacksExpected(doc)),
                                     mapidx |-> IF Java(doc) THEN <<>> ELSE MapIdxExpected(map, StacksExpected(doc))])))
          /\ UNCHANGED <<doc, map>>
Next == Gen \/ Finish
Spec == Init /\ [][Next]_<<pc, doc, map>>

\* ---- well-formedness of the rules
OneSamplePerRecord == pc = "emit" => Len(StacksExpected(doc)) = Len(ValuesExpected(doc))
                                     /\ (doc.fmt # "threadz" => Len(StacksExpected(doc)) = Len(doc.recs))
\* every thread of a threadz document is counted exactly once
ThreadzCountsAllThreads == (pc = "emit" /\ doc.fmt = "threadz") =>
   LET v == ValuesExpected(doc) IN FoldLeft(LAMBDA acc, x : acc + x.v[1], 0, v) = Len(doc.recs)
\* every expected address is the input address or the input address moved back by one, in input order
AddressesFromInput == pc = "emit" => LET st == StacksExpected(doc)
                                         real == IF doc.fmt = "threadz" THEN SelectSeq(doc.recs, LAMBDA r : r.c = 1) ELSE doc.recs
                                     IN \A i \in DOMAIN st : \A j \in DOMAIN st[i] : \E k \in DOMAIN real[i].stack : k >= j /\ real[i].stack[k] \in {st[i][j], st[i][j] + 1}
\* no rule ever empties a stack that had frames, and the leaf survives
LeafKept == pc = "emit" => \A i \in DOMAIN StacksExpected(doc) : Len(StacksExpected(doc)[i]) >= 1
\* the memory-map rules: every expected address lies inside the mapping it is attributed to; no two neighbours of the
\* expected list are still the halves of one split mapping; a main binary, if the map lists one, is on top
MappingsCoverAddresses == (pc = "emit" /\ ~Java(doc)) =>
   LET st == StacksExpected(doc)
       ml == MapListExpected(map, st)
       ix == MapIdxExpected(map, st)
   IN /\ \A i \in DOMAIN st : \A j \in DOMAIN st[i] : LET m == ml[ix[i][j]] IN m.start <= st[i][j] /\ (m.limit = 0 - 1 \/ st[i][j] < m.limit)
      /\ \A n \in 1..(Len(ml) - 1) : ~Adjacent(ml[n], ml[n + 1])
      /\ ((\E n \in DOMAIN ml : ~ml[n].shlib /\ ml[n].file # "") => ~ml[1].shlib)
=============================================================================
