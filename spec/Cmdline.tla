------------------------------ MODULE Cmdline ------------------------------
(***************************************************************************)
(* What a command line MEANS: the decision procedure of                    *)
(* internal/driver/cli.go parseFlags, transcribed as one action per check  *)
(* in the order the code makes them.  A command line is a set of flags     *)
(* (Atoms) plus 0..2 positional arguments; the first of two arguments is   *)
(* taken as the binary when the ObjTool can open it.                       *)
(*                                                                         *)
(*   parse     -> nosource    no positional argument                       *)
(*   config    -> conflict    two choices of one option group (-lines      *)
(*                            -files, -flat -cum)                          *)
(*   format    -> manyformats more than one report format                  *)
(*   http      -> httpformat  -http together with a report format          *)
(*             -> nobrowser   -no_browser without -http                    *)
(*   sample    (never fails)  -sample_index wins; otherwise the FIRST of   *)
(*                            the selection flags in the code's fixed      *)
(*                            order; every other selection flag is         *)
(*                            reported ("Multiple value selections")       *)
(*   bases     -> bothbases   -base and -diff_base                         *)
(*   normalize -> normnobase  -normalize without a base                    *)
(*   accept                   mode = cli | interactive | http              *)
(*                                                                         *)
(* The machine walks these stages; invariants: a rejected line fetched     *)
(* nothing, an accepted line has exactly one mode, the binary is never a   *)
(* source.  Every reachable final state is emitted as a case; the harness  *)
(* runs the real driver.PProf on the command line and compares error       *)
(* class, mode, sources fetched, sample type, granularity, order and the   *)
(* number of ignored selections.                                           *)
(***************************************************************************)
EXTENDS Naturals, Sequences, FiniteSets, TLC, Json
CONSTANTS Tier, Emit, Broken   \* Broken = "formatCheckAfterHttp": vacuity guard, must violate ErrorOrder

Formats == {"top", "traces", "peek"}
Gran == {"lines", "files"}
Sort == {"flat", "cum"}
SelOrder == <<"inuse_space", "inuse_objects", "alloc_space">>   \* the order of the sampleIndex calls in parseFlags
Sel == {SelOrder[i] : i \in DOMAIN SelOrder}
Other == {"http", "no_browser", "base", "diff_base", "normalize", "sample_index"}   \* sample_index stands for -sample_index=alloc_objects
Atoms == Formats \cup Gran \cup Sort \cup Sel \cup Other

VARIABLES flags, nargs, execOK, stage, err, mode, si, ignored, fetched
vars == <<flags, nargs, execOK, stage, err, mode, si, ignored, fetched>>

Small(S) == Cardinality(S) <= 4
Init == /\ flags \in IF Tier = "quick" THEN {S \in SUBSET Atoms : Small(S)} ELSE SUBSET Atoms
        /\ nargs \in 0..2 /\ execOK \in BOOLEAN
        /\ stage = "parse" /\ err = "" /\ mode = "" /\ si = "" /\ ignored = 0 /\ fetched = {}

Fail(e) == stage' = "rejected" /\ err' = e /\ UNCHANGED <<flags, nargs, execOK, mode, si, ignored, fetched>>
Go(s) == stage' = s /\ UNCHANGED <<flags, nargs, execOK, err, mode, si, ignored, fetched>>

Parse == stage = "parse" /\ IF nargs = 0 THEN Fail("nosource") ELSE Go("config")
Config == stage = "config" /\ IF Cardinality(flags \cap Gran) > 1 \/ Cardinality(flags \cap Sort) > 1 THEN Fail("conflict") ELSE Go("format")
Format == stage = "format" /\ IF Broken = "formatCheckAfterHttp" THEN Go("http")
                              ELSE IF Cardinality(flags \cap Formats) > 1 THEN Fail("manyformats") ELSE Go("http")
Http == stage = "http" /\ IF "http" \in flags /\ flags \cap Formats # {} THEN Fail("httpformat")
                          ELSE IF Broken = "formatCheckAfterHttp" /\ Cardinality(flags \cap Formats) > 1 THEN Fail("manyformats")
                          ELSE IF "no_browser" \in flags /\ "http" \notin flags THEN Fail("nobrowser") ELSE Go("sample")
FirstSel == LET S == {i \in DOMAIN SelOrder : SelOrder[i] \in flags} IN IF S = {} THEN "" ELSE SelOrder[CHOOSE i \in S : \A j \in S : i <= j]
Sample == /\ stage = "sample" /\ stage' = "bases"
          /\ si' = IF "sample_index" \in flags THEN "alloc_objects" ELSE FirstSel
          /\ ignored' = IF "sample_index" \in flags THEN Cardinality(flags \cap Sel)
                        ELSE IF flags \cap Sel = {} THEN 0 ELSE Cardinality(flags \cap Sel) - 1
          /\ UNCHANGED <<flags, nargs, execOK, err, mode, fetched>>
Bases == stage = "bases" /\ IF {"base", "diff_base"} \subseteq flags THEN Fail("bothbases") ELSE Go("normalize")
Normalize == stage = "normalize" /\ IF "normalize" \in flags /\ flags \cap {"base", "diff_base"} = {} THEN Fail("normnobase") ELSE Go("accept")
\* the positional arguments that are profile sources
Sources == IF nargs = 2 /\ ~execOK THEN {"a0", "a1"} ELSE IF nargs = 2 THEN {"a1"} ELSE {"a0"}
Accept == /\ stage = "accept" /\ stage' = "accepted"
          /\ mode' = IF "http" \in flags THEN "http" ELSE IF flags \cap Formats # {} THEN "cli" ELSE "interactive"
          /\ fetched' = Sources \cup (IF flags \cap {"base", "diff_base"} # {} THEN {"b0"} ELSE {})
          /\ UNCHANGED <<flags, nargs, execOK, err, si, ignored>>
Final == stage \in {"rejected", "accepted"}
Done == /\ Final /\ stage' = "emitted"
        /\ (Emit => PrintT(ToJson([flags |-> flags, nargs |-> nargs, execok |-> execOK, err |-> err, mode |-> mode,
                                    si |-> IF si = "" THEN "inuse_space" ELSE si,     \* the profile's default sample type
                                    ignored |-> ignored, fetched |-> fetched,
                                    gran |-> IF "lines" \in flags THEN "lines" ELSE IF "files" \in flags THEN "files" ELSE "functions",
                                    sort |-> IF "cum" \in flags THEN "cum" ELSE "flat"])))
        /\ UNCHANGED <<flags, nargs, execOK, err, mode, si, ignored, fetched>>
Next == Parse \/ Config \/ Format \/ Http \/ Sample \/ Bases \/ Normalize \/ Accept \/ Done
Spec == Init /\ [][Next]_vars

RejectedFetchesNothing == err # "" => fetched = {} /\ mode = ""
AcceptedHasMode == stage \in {"accepted", "emitted"} /\ err = "" => mode \in {"cli", "interactive", "http"} /\ fetched # {}
BinaryIsNoSource == (nargs = 2 /\ execOK) => "a0" \notin fetched
CliNeedsOneFormat == mode = "cli" => Cardinality(flags \cap Formats) = 1 /\ "http" \notin flags
\* the documented precedence: a line with several report formats is rejected for that, whatever else is wrong after it
ErrorOrder == (Final /\ nargs > 0 /\ Cardinality(flags \cap Gran) < 2 /\ Cardinality(flags \cap Sort) < 2 /\ Cardinality(flags \cap Formats) > 1) => err = "manyformats"
NormalizeNeedsBase == (stage = "accepted" /\ "normalize" \in flags) => "b0" \in fetched
=============================================================================
