-------------------------------- MODULE Units --------------------------------
(***************************************************************************)
(* C15 - unit conversion and value formatting preserve magnitude.          *)
(*                                                                         *)
(* Unit families with SYMBOLIC factors: a factor is 2^e2 * 10^e10 *        *)
(* 3600^e36, so ratios between units are exact exponent triples (TLA+ has  *)
(* no reals; the harness evaluates the triples with exact rationals).      *)
(* Resolve maps a spelling - any alias, its plural, upper-case or          *)
(* capitalised form - to its unit, or to "unknown".  Convert states the    *)
(* documented meaning of Scale for the four target modes (explicit unit,   *)
(* auto, minimum, unknown).  TLC checks the algebraic laws on the symbolic *)
(* model (identity, exact and transitive ratios, never crossing families,  *)
(* unambiguous spellings, unknown stays unknown) and enumerates every      *)
(* (spelling, target, value class) case for replay on the real             *)
(* measurement package.                                                    *)
(***************************************************************************)
EXTENDS Integers, Sequences, FiniteSets, TLC, Json

CONSTANTS Tier, Emit

U(fam, name, aliases, e2, e10, e36) == [fam |-> fam, name |-> name, aliases |-> aliases, e2 |-> e2, e10 |-> e10, e36 |-> e36]
Units ==
  << U("mem", "B",  <<"b", "byte">>, 0, 0, 0),      U("mem", "kB", <<"kb", "kbyte", "kilobyte">>, 10, 0, 0),
     U("mem", "MB", <<"mb", "mbyte", "megabyte">>, 20, 0, 0), U("mem", "GB", <<"gb", "gbyte", "gigabyte">>, 30, 0, 0),
     U("mem", "TB", <<"tb", "tbyte", "terabyte">>, 40, 0, 0), U("mem", "PB", <<"pb", "pbyte", "petabyte">>, 50, 0, 0),
     U("time", "ns", <<"ns", "nanosecond">>, 0, 0, 0), U("time", "us", <<"{mu}s", "us", "microsecond">>, 0, 3, 0),
     U("time", "ms", <<"ms", "millisecond">>, 0, 6, 0), U("time", "s", <<"s", "sec", "second">>, 0, 9, 0),
     U("time", "hrs", <<"hour", "hr">>, 0, 9, 1),
     U("gcu", "n*GCU", <<"nanogcu">>, 0, 0 - 9, 0), U("gcu", "u*GCU", <<"microgcu">>, 0, 0 - 6, 0), U("gcu", "m*GCU", <<"milligcu">>, 0, 0 - 3, 0),
     U("gcu", "GCU", <<"gcu">>, 0, 0, 0), U("gcu", "k*GCU", <<"kilogcu">>, 0, 3, 0), U("gcu", "M*GCU", <<"megagcu">>, 0, 6, 0),
     U("gcu", "G*GCU", <<"gigagcu">>, 0, 9, 0), U("gcu", "T*GCU", <<"teragcu">>, 0, 12, 0), U("gcu", "P*GCU", <<"petagcu">>, 0, 15, 0) >>
Families == {"mem", "time", "gcu"}
DefaultOf(fam) == CASE fam = "mem" -> 1 [] fam = "time" -> 10 [] fam = "gcu" -> 15
UnitIdx == DOMAIN Units
Variants == {"asis", "plural", "upper", "cap", "upperplural"}
\* "{mu}" stands for the Greek letter mu (TLC's JSON output is not UTF-8 clean); plural forms exist for unit WORDS
\* (byte, second, hour, gcu ...), not for one- or two-letter symbols
Symbols == {"b", "s", "kb", "mb", "gb", "tb", "pb", "ns", "us", "ms", "{mu}s"}
VariantOK(alias, v) == v \in {"asis", "upper", "cap"} \/ alias \notin Symbols
Unknowns == {"", "widgets", "count", "parsecs", "b2", "msec2", "sample", "bs", "ss", "SS", "xs", "Bs"}   \* (two-letter words ending in s are no plurals of one-letter units)
SkipTargets == {"count", "sample", "unit", "minimum", "auto"}

\* ---- intended semantics
Ratio(a, b) == [e2 |-> Units[a].e2 - Units[b].e2, e10 |-> Units[a].e10 - Units[b].e10, e36 |-> Units[a].e36 - Units[b].e36]
Zero3 == [e2 |-> 0, e10 |-> 0, e36 |-> 0]
Add3(x, y) == [e2 |-> x.e2 + y.e2, e10 |-> x.e10 + y.e10, e36 |-> x.e36 + y.e36]
SameFam(a, b) == Units[a].fam = Units[b].fam
\* explicit target: same family -> that unit; other family or unknown -> the source family's default unit
TargetOf(a, t) == IF t # 0 /\ SameFam(a, t) THEN t ELSE DefaultOf(Units[a].fam)

\* ---- laws checked on the symbolic model
IdentityOnEqualUnits == \A a \in UnitIdx : Ratio(a, a) = Zero3
RatioTransitive == \A a, b, c \in UnitIdx : (SameFam(a, b) /\ SameFam(b, c)) => Add3(Ratio(a, b), Ratio(b, c)) = Ratio(a, c)
RatioAntisymmetric == \A a, b \in UnitIdx : SameFam(a, b) => Add3(Ratio(a, b), Ratio(b, a)) = Zero3
NeverCrossesFamilies == \A a, t \in UnitIdx : SameFam(a, TargetOf(a, t))
\* no spelling names two units
AliasesUnambiguous == \A a, b \in UnitIdx : a # b => \A i \in DOMAIN Units[a].aliases : \A j \in DOMAIN Units[b].aliases : Units[a].aliases[i] # Units[b].aliases[j]
\* units of a family are strictly ordered by factor (needed for "the largest unit with magnitude >= 1")
Less3(x, y) == \/ x.e36 < y.e36 \/ (x.e36 = y.e36 /\ (x.e2 < y.e2 \/ (x.e2 = y.e2 /\ x.e10 < y.e10)))
FamilyOrdered == \A a, b \in UnitIdx : (SameFam(a, b) /\ a < b) => Less3([e2 |-> Units[a].e2, e10 |-> Units[a].e10, e36 |-> Units[a].e36], [e2 |-> Units[b].e2, e10 |-> Units[b].e10, e36 |-> Units[b].e36])

\* the laws are statements about constants: TLC evaluates them once (a false ASSUME aborts the run)
ASSUME IdentityOnEqualUnits /\ RatioTransitive /\ RatioAntisymmetric /\ NeverCrossesFamilies /\ AliasesUnambiguous /\ FamilyOrdered

\* ---- case generator
VARIABLES pc, c
vars == <<pc, c>>
ValueClasses == {"zero", "one", "minus1", "seven", "maxint", "minint", "minint1", "just_below", "at", "just_above", "neg_just_below", "neg_at", "big_round"}
Init == pc = "gen" /\ c = <<>>
Gen ==
  /\ pc = "gen"
  /\ \/ \E a \in UnitIdx, i \in 1..3, v \in Variants, t \in UnitIdx, cls \in ValueClasses :
          /\ i <= Len(Units[a].aliases) /\ VariantOK(Units[a].aliases[i], v)
          /\ (Tier = "thorough" \/ v \in {"asis", "plural"} \/ cls \in {"seven", "at"})
          /\ (Tier = "thorough" \/ SameFam(a, t) \/ cls = "seven")
          /\ c' = [kind |-> "explicit", from |-> a, spelling |-> Units[a].aliases[i], variant |-> v, to |-> t, tospelling |-> Units[t].aliases[1],
                   cls |-> cls, bound |-> t, expunit |-> Units[TargetOf(a, t)].name, ratio |-> Ratio(a, TargetOf(a, t))]
     \/ \E a \in UnitIdx, i \in 1..3, mode \in {"auto", "minimum"}, b \in UnitIdx, cls \in ValueClasses :
          /\ i <= Len(Units[a].aliases) /\ SameFam(a, b) /\ b >= a
          /\ c' = [kind |-> "auto", from |-> a, spelling |-> Units[a].aliases[i], variant |-> "asis", to |-> 0, tospelling |-> mode,
                   cls |-> cls, bound |-> b, expunit |-> "", ratio |-> Zero3]
     \/ \E a \in UnitIdx, t \in Unknowns \ SkipTargets, cls \in {"seven", "minint", "at"} :     \* unknown target: family default
          c' = [kind |-> "explicit", from |-> a, spelling |-> Units[a].aliases[1], variant |-> "asis", to |-> 0, tospelling |-> t,
                cls |-> cls, bound |-> a, expunit |-> Units[DefaultOf(Units[a].fam)].name, ratio |-> Ratio(a, DefaultOf(Units[a].fam))]
     \/ \E f \in Unknowns, t \in Unknowns \cup {"ms", "kb", "auto", "minimum"}, cls \in {"seven", "minint", "zero"} :   \* unknown source stays unknown
          c' = [kind |-> "unknown", from |-> 0, spelling |-> f, variant |-> "asis", to |-> 0, tospelling |-> t,
                cls |-> cls, bound |-> 0, expunit |-> IF t \in SkipTargets THEN "" ELSE t, ratio |-> Zero3]
     \/ \E a, b, d \in UnitIdx : /\ SameFam(a, b) /\ SameFam(b, d) /\ a # b /\ b # d /\ a # d   \* harmonising three profiles
                                 /\ (Tier = "thorough" \/ Units[a].fam \in {"time", "gcu"})
                                 /\ c' = [kind |-> "harmonise", from |-> a, spelling |-> Units[a].name, variant |-> "asis", to |-> b, tospelling |-> Units[b].name,
                                          cls |-> "seven", bound |-> d, expunit |-> "", ratio |-> Zero3]
     \/ \E a, b \in UnitIdx : /\ SameFam(a, b) /\ a # b                                     \* two columns with one source unit and different targets
                              /\ (Tier = "thorough" \/ Units[a].fam = "time")
                              /\ c' = [kind |-> "twocolumn", from |-> a, spelling |-> Units[a].name, variant |-> "asis", to |-> b, tospelling |-> Units[b].name,
                                       cls |-> "seven", bound |-> a, expunit |-> "", ratio |-> Zero3]
     \/ \E a, b \in UnitIdx : /\ ~SameFam(a, b)                                             \* harmonising never crosses families: an error
                              /\ (Tier = "thorough" \/ a \in {1, 7, 12} \/ b \in {2, 9, 15})
                              /\ c' = [kind |-> "crossfamily", from |-> a, spelling |-> Units[a].name, variant |-> "asis", to |-> b, tospelling |-> Units[b].name,
                                       cls |-> "seven", bound |-> a, expunit |-> "", ratio |-> Zero3]
  /\ pc' = "emit"
Finish == /\ pc = "emit" /\ pc' = "end"
          /\ (Emit => PrintT(ToJson([case |-> c, units |-> Units])))
          /\ UNCHANGED c
Next == Gen \/ Finish
Spec == Init /\ [][Next]_vars
TypeOK == pc \in {"gen", "emit", "end"}
=============================================================================
