SPECIFICATION Spec
CONSTANTS
  Procs = {"p1", "p2", "p3"}
  Broken = "none"
  MaxAnswers = 1
INVARIANTS TypeOK OwnAnswer NoOrphanLock
PROPERTIES AllReturn
