------------------------------- MODULE Report -------------------------------
(***************************************************************************)
(* C04 (and the base of C05, C07, C08, C17): what a pprof report shows.    *)
(*                                                                         *)
(* Declarative meaning (properties.jsonl C04): for an untrimmed report at  *)
(* a granularity,                                                          *)
(*   Flat(e)   = sum of W(s) over samples whose leaf frame maps to e       *)
(*   Cum(e)    = sum of W(s) over samples in which e occurs (once/sample)  *)
(*   Edge(a,b) = sum of W(s) over samples in which a calls b (once/sample) *)
(*   Total     = sum of |W(s)|                                             *)
(* and with the mean option each sum is divided by the matching sum of     *)
(* sample counts D(s) (truncating division, as int64 division does).       *)
(*                                                                         *)
(* Operational model (internal/graph/graph.go newGraph / newTree): one     *)
(* action per sample with seen-node / seen-edge sets, flat to the last     *)
(* node; tree mode: one node per path.                                     *)
(* Entry identity per granularity transcribes profile.Aggregate +          *)
(* graph.nodeInfo (DESIGN appendix A.1) - the property leaves "entry" to   *)
(* the report, so this part is the code's choice, stated here.             *)
(***************************************************************************)
EXTENDS ReportRules, Json

CONSTANTS Tier, Emit, Broken

\* ------------------------------------------------------------- catalogue
F  == Fn("f", "f", "a.c", 1)
G  == Fn("g", "g", "a.c", 5)
H  == Fn("h", "h", "b.c", 7)
F2 == Fn("f", "f", "b.c", 3)          \* same name, other file
M0 == Mp("B1", "bin", 16, 8, 0)
M1 == Mp("B2", "lib", 32, 8, 0)

LF   == Loc(M0, 3, <<Ln(F, 10, 1)>>, FALSE)
LG   == Loc(M0, 4, <<Ln(G, 20, 1)>>, FALSE)
LH   == Loc(M1, 5, <<Ln(H, 30, 1)>>, FALSE)
LGF  == Loc(M0, 6, <<Ln(G, 21, 2), Ln(F, 11, 3)>>, FALSE)             \* g inlined into f
L3   == Loc(M0, 7, <<Ln(H, 31, 1), Ln(G, 22, 1), Ln(F, 12, 1)>>, FALSE)
LU   == Loc(M0, 8, <<>>, FALSE)                                       \* unsymbolised
LF2  == Loc(M1, 9, <<Ln(F2, 10, 1)>>, FALSE)
LFb  == Loc(M0, 10, <<Ln(F, 15, 2)>>, FALSE)                          \* same function, other line
LFF  == Loc(M0, 11, <<Ln(F, 13, 1), Ln(F, 14, 1)>>, FALSE)            \* f inlined into f (recursion inside a location)

LocsQ == <<LF, LG, LGF, LU, LF2, LFb>>
LocsT == <<LF, LG, LH, LGF, L3, LU, LF2, LFb, LFF>>
Locs  == IF Tier = "thorough" THEN LocsT ELSE LocsQ

StacksUpTo2 == {<<>>} \cup {<<Locs[i]>> : i \in DOMAIN Locs}
               \cup {<<Locs[i], Locs[j]>> : i, j \in DOMAIN Locs}
\* recursion and deeper shapes
DeepStacks == {<<LF, LG, LF>>, <<LG, LF, LG, LF>>, <<LF, LF, LG>>, <<LGF, LG, LF>>, <<LF, LGF, LGF>>,
               <<LU, LF, LU>>, <<LF2, LF, LFb>>}
Second == IF Tier = "quick" THEN {<<>>, <<LG, LF>>, <<LF, LG, LF>>}
          ELSE {<<>>, <<LF>>, <<LG, LF>>, <<LF, LG>>, <<LGF>>, <<LF, LG, LF>>}

LabOpts == << [lab |-> <<>>, num |-> <<>>],
              [lab |-> <<SLab("k", <<"x">>)>>, num |-> <<>>],
              [lab |-> <<SLab("k", <<"y">>), SLab("j", <<"z">>)>>, num |-> <<>>] >>

ValPairs == IF Tier = "quick"
            THEN { << <<1, 3>>, <<2, -2>> >>, << <<-1, 1>>, <<1, 3>> >>, << <<1, 3>>, <<2, 0>> >> }
            ELSE { << <<1, 3>>, <<2, -2>> >>, << <<-1, 1>>, <<1, 3>> >>, << <<0, 3>>, <<2, 0>> >>, << <<2, 1>>, <<-2, -1>> >> }

Profiles ==
  { << Smp(st[1], vp[1], LabOpts[lo[1]].lab, <<>>), Smp(st[2], vp[2], LabOpts[lo[2]].lab, <<>>) >> :
      st \in (StacksUpTo2 \cup DeepStacks) \X Second, vp \in ValPairs,
      lo \in IF Tier = "quick" THEN {<<2, 3>>} ELSE {<<2, 1>>, <<2, 3>>} }

Grans == {"functions", "filefunctions", "files", "lines", "addresses"}
WeightCfgs == { [si |-> 2, mean |-> FALSE, troot |-> <<>>, tleaf |-> <<>>],
                [si |-> 1, mean |-> FALSE, troot |-> <<>>, tleaf |-> <<>>],
                [si |-> 2, mean |-> TRUE,  troot |-> <<>>, tleaf |-> <<>>],
                [si |-> 2, mean |-> FALSE, troot |-> <<"k">>, tleaf |-> <<>>],
                [si |-> 2, mean |-> FALSE, troot |-> <<>>, tleaf |-> <<"k">>],
                [si |-> 2, mean |-> FALSE, troot |-> <<"k", "j">>, tleaf |-> <<"j">>] }
MkCfg(g, ni, w) == [gran |-> g, noinl |-> ni, si |-> w.si, mean |-> w.mean, troot |-> w.troot, tleaf |-> w.tleaf]
PlainW == [si |-> 2, mean |-> FALSE, troot |-> <<>>, tleaf |-> <<>>]
Cfgs == IF Tier = "quick"
        THEN { MkCfg(g, ni, PlainW) : g \in Grans, ni \in BOOLEAN }
             \cup { MkCfg(g, FALSE, w) : g \in {"functions", "lines"}, w \in WeightCfgs }
             \cup { MkCfg("addresses", FALSE, [si |-> 2, mean |-> TRUE, troot |-> <<>>, tleaf |-> <<>>]) }   \* callgrind is written at this granularity
             \cup { MkCfg(g, FALSE, PlainW) : g \in {"lines+cols", "functions+cols", "files+cols"} }
        ELSE { MkCfg(g, ni, w) : g \in Grans, ni \in BOOLEAN, w \in WeightCfgs }
             \cup { MkCfg(g, ni, PlainW) : g \in {"lines+cols", "functions+cols", "files+cols"}, ni \in BOOLEAN }

GuardProfiles == { << Smp(<<LF, LG, LF>>, <<1, 3>>, <<>>, <<>>), Smp(<<LG, LF, LG, LF>>, <<2, 2>>, <<>>, <<>>) >> }
Cases == IF Tier = "guard" THEN { [samples |-> p, cfg |-> MkCfg("functions", FALSE, PlainW)] : p \in GuardProfiles }
         ELSE { [samples |-> p, cfg |-> c] : p \in Profiles, c \in Cfgs }

\* ------------------------------------------------------------- operational (graph mode)
VARIABLES case, pc, idx,
          nodes,    \* entry -> [flat, cum, fdiv, cdiv]
          edges     \* <<src, dst>> -> [w, div]
vars == <<case, pc, idx, nodes, edges>>

Ent == AllEntries(case.samples, case.cfg)
Z4 == [flat |-> 0, cum |-> 0, fdiv |-> 0, cdiv |-> 0]
Init == /\ case \in Cases /\ pc = "build" /\ idx = 1
        /\ nodes = [e \in AllEntries(case.samples, case.cfg) |-> Z4]
        /\ edges = [p \in AllEntries(case.samples, case.cfg) \X AllEntries(case.samples, case.cfg) |-> [w |-> 0, div |-> 0, n |-> 0]]

\* walk one sample root -> leaf: cum once per node (seenNode), edge once per pair (seenEdge), flat to the last node
Walk(es, w, d, ns, eds) ==
  LET step(acc, i) ==
        LET n == es[i]
            newNode == n \notin acc.seenN
            ns1 == IF newNode \/ Broken = "seenNode"
                   THEN [acc.ns EXCEPT ![n].cum = @ + w, ![n].cdiv = @ + d] ELSE acc.ns
            isEdge == i > 1 /\ es[i - 1] # n /\ (<<es[i - 1], n>> \notin acc.seenE \/ Broken = "seenEdge")
            es1 == IF isEdge THEN [acc.eds EXCEPT ![<<es[i - 1], n>>].w = @ + w, ![<<es[i - 1], n>>].div = @ + d,
                                                  ![<<es[i - 1], n>>].n = @ + 1]
                   ELSE acc.eds
        IN [ns |-> ns1, eds |-> es1, seenN |-> acc.seenN \cup {n},
            seenE |-> IF i > 1 THEN acc.seenE \cup {<<es[i - 1], n>>} ELSE acc.seenE]
      r == FoldLeft(step, [ns |-> ns, eds |-> eds, seenN |-> {}, seenE |-> {}], [i \in 1..Len(es) |-> i])
  IN IF Len(es) = 0 THEN [ns |-> ns, eds |-> eds]
     ELSE [ns |-> [r.ns EXCEPT ![es[Len(es)]].flat = @ + w, ![es[Len(es)]].fdiv = @ + d], eds |-> r.eds]

GraphStep ==
  /\ pc = "build" /\ idx <= Len(case.samples)
  /\ LET s == case.samples[idx] IN
     IF Counted(s, case.cfg)
     THEN LET r == Walk(Entries(s, case.cfg), W(s, case.cfg), D(s, case.cfg), nodes, edges) IN
          nodes' = r.ns /\ edges' = r.eds
     ELSE UNCHANGED <<nodes, edges>>
  /\ idx' = idx + 1
  /\ pc' = IF idx = Len(case.samples) THEN "done" ELSE "build"
  /\ UNCHANGED case

NodeTableO ==
  { r \in { [e |-> e, flat |-> MeanOf(nodes[e].flat, nodes[e].fdiv), cum |-> MeanOf(nodes[e].cum, nodes[e].cdiv),
             rawflat |-> nodes[e].flat, rawcum |-> nodes[e].cum] : e \in DOMAIN nodes } :
      ~(r.rawflat = 0 /\ r.rawcum = 0) }

Expected ==
  [ nodes |-> NodeTableD(case.samples, case.cfg),
    edges |-> EdgeTableD(case.samples, case.cfg),
    total |-> TotalD(case.samples, case.cfg),
    tree  |-> TreeTableD(case.samples, case.cfg),
    traces |-> [i \in DOMAIN case.samples |->
                  [w |-> W(case.samples[i], case.cfg), d |-> D(case.samples[i], case.cfg),
                   es |-> Entries(case.samples[i], case.cfg)]] ]

Finish ==
  /\ pc = "done" /\ pc' = "end"
  /\ (Emit => PrintT(ToJson([samples |-> case.samples, cfg |-> case.cfg, exp |-> Expected])))
  /\ UNCHANGED <<case, idx, nodes, edges>>

Next == GraphStep \/ Finish
Spec == Init /\ [][Next]_vars

\* ------------------------------------------------------------- properties
Done == pc = "done"
GraphMeetsDefinition == Done => NodeTableO = NodeTableD(case.samples, case.cfg)
EdgeTableO ==
  LET shown == {r.e : r \in NodeTableO} IN
  { [src |-> p[1], dst |-> p[2], w |-> MeanOf(edges[p].w, edges[p].div), raw |-> edges[p].w] :
      p \in {q \in DOMAIN edges : edges[q].n > 0 /\ q[1] \in shown /\ q[2] \in shown} }
EdgesMeetDefinition == Done => EdgeTableO = EdgeTableD(case.samples, case.cfg)
\* with non-negative weights cum >= flat (sanity of the definitions)
CumAtLeastFlat ==
  (Done /\ \A i \in DOMAIN case.samples : W(case.samples[i], case.cfg) >= 0)
          => \A r \in NodeTableD(case.samples, case.cfg) : r.rawcum >= r.rawflat
\* flats add up to the signed total of the samples that have at least one frame
FlatsAddUp ==
  Done => FoldSet(LAMBDA r, acc : acc + r.rawflat, 0, NodeTableD(case.samples, case.cfg))
          = SumOver(case.samples, case.cfg, LAMBDA s : Len(Entries(s, case.cfg)) > 0, W)
\* tree and graph agree on per-entry flat totals
TreeAgreesWithGraph ==
  Done => \A r \in NodeTableD(case.samples, case.cfg) :
            r.rawflat = FoldSet(LAMBDA t, acc : IF Leaf(t.path) = r.e THEN acc + t.rawflat ELSE acc, 0,
                                TreeTableD(case.samples, case.cfg))
=============================================================================
