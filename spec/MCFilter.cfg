SPECIFICATION Spec
CONSTANTS
  Tier = "quick"
  Emit = FALSE
  Broken = "none"
INVARIANTS MechanismMeetsDefinition ValuesLabelsOrderKept Partition
CHECK_DEADLOCK FALSE
