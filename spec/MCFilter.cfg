SPECIFICATION Spec
CONSTANTS
  Tier = "quick"
  Emit = FALSE
  Broken = "none"
  Part = 0
INVARIANTS MechanismMeetsDefinition ValuesLabelsOrderKept Partition
CHECK_DEADLOCK FALSE
