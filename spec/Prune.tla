-------------------------------- MODULE Prune --------------------------------
(***************************************************************************)
(* C11 - frame-dropping rules remove only the frames they name.            *)
(*                                                                         *)
(* Declarative meaning on the frame sequence root -> leaf of one sample:   *)
(*   Prune(drop, keep): skip frames until one NON-matching frame has been  *)
(*   seen; the first later frame whose simplified name fully matches drop  *)
(*   and not keep goes, together with everything on its leaf side; the     *)
(*   root side is intact; a sample that had frames never becomes empty.    *)
(*   PruneFrom(R): the leaf-most matching frame stays, its leaf side goes. *)
(*   Sample count, values and labels never change; no expression = no-op.  *)
(* A regular expression is the set of SIMPLIFIED names it fully matches;   *)
(* Simplify is a table over the catalogue's names.                         *)
(*                                                                         *)
(* Operational model (profile/prune.go): a pass over the distinct          *)
(* locations (root-most matching line, whole-location vs beneath, in-place *)
(* line trimming shared by all samples) and a pass over the samples with   *)
(* the first-user-frame guard.                                             *)
(***************************************************************************)
EXTENDS ProfileModel, Json

CONSTANTS Tier, Emit, Broken

Names == {"a", "b", "u", ".a", "a(int)", "ab", "xb"}
Simplify(n) == CASE n = ".a" -> "a" [] n = "a(int)" -> "a" [] OTHER -> n
Fx(n) == Fn(n, n, "x.c", 0)
M0 == Mp("B1", "bin", 16, 8, 0)
\* a location is identified by its address: rel is derived from the names so that equal content = same location
Code(n) == CASE n = "a" -> 1 [] n = "b" -> 2 [] n = "u" -> 3 [] n = ".a" -> 4 [] n = "a(int)" -> 5 [] n = "ab" -> 6 [] n = "xb" -> 7
L1(n) == Loc(M0, Code(n), <<Ln(Fx(n), 1, 0)>>, FALSE)
L2(n, m) == Loc(M0, 10 + 8 * Code(n) + Code(m), <<Ln(Fx(n), 1, 0), Ln(Fx(m), 2, 0)>>, FALSE)           \* n inlined into m
L3(n, m, k) == Loc(M0, 100 + 64 * Code(n) + 8 * Code(m) + Code(k), <<Ln(Fx(n), 1, 0), Ln(Fx(m), 2, 0), Ln(Fx(k), 3, 0)>>, FALSE)
LU == Loc(M0, 9, <<>>, FALSE)
\* a function without a name (only a system name): matches nothing, is no cut point, stays where it is
FE == Fn("", "sysonly", "x.c", 0)
LE == Loc(M0, 8, <<Ln(FE, 1, 0)>>, FALSE)
LEmid == Loc(M0, 90, <<Ln(Fx("b"), 1, 0), Ln(FE, 2, 0), Ln(Fx("u"), 3, 0)>>, FALSE)

Base == {"a", "b", "u"}
Singles(d) == {L1(n) : n \in Names} \cup {LU}
Doubles(d) == {L2(n, m) : n, m \in Base}
Triples(d) == {L3(n, m, k) : n, m, k \in Base}
AllLocs(d) == Singles(0) \cup Doubles(0) \cup (IF Tier = "thorough" THEN Triples(0) ELSE {L3("u", "a", "u"), L3("a", "u", "a"), L3("u", "u", "a"), L3("a", "b", "u")})
Mid(d) == {L1(n) : n \in Base} \cup Doubles(0)
Stacks(d) == {<<l>> : l \in AllLocs(0)}
             \cup {<<l, m>> : l \in Mid(0), m \in (IF Tier = "thorough" THEN Mid(0) ELSE {L1("u"), L1("a"), L2("u", "a"), L2("a", "u")})}
             \cup {<<L1(x), L1(y), L1(z)>> : x, y, z \in Base}
             \cup {<<L1("b"), L2(x, y), L1("u")>> : x, y \in Base}      \* an inlined location between a user root and a leaf
             \cup {<<LE>>, <<L1("b"), LE, L1("u")>>, <<L1("a"), LE, L1("u")>>, <<L1("b"), LEmid>>, <<L1("b"), LEmid, L1("u")>>}
             \cup (IF Tier = "thorough" THEN {<<l, L1("u"), m>> : l \in Doubles(0), m \in Doubles(0)} ELSE {})
\* second sample: shares the first sample's root-most location in a position where the rule applies differently
Seconds(st) == IF Tier = "thorough" THEN {<<>>, <<st[Len(st)]>>, <<st[Len(st)], L1("u")>>, <<L1("a"), st[Len(st)], L1("u")>>, <<L1("u"), L1("a")>>, <<L1("a")>>, <<L1("u"), L1("b"), L1("a")>>,
                                          <<L1("b"), st[Len(st)], L1("u")>>}
               ELSE {<<>>, <<st[Len(st)], L1("u")>>, <<L1("a"), st[Len(st)], L1("u")>>,
                     <<L1("u"), L1("a")>>, <<L1("a")>>,      \* a later sample whose ROOT matches: the first-user-frame guard is per sample
                     <<L1("b"), st[Len(st)], L1("u")>>}      \* the first sample's root location in the middle, with no name of its own anywhere else

Exprs(d) == { [drop |-> dr, keep |-> kp] : dr \in SUBSET {"a", "b", "ab"}, kp \in (IF Tier = "thorough" THEN {{}, {"a"}, {"b"}} ELSE {{}, {"a"}}) }
PruneCases(d) == UNION { { [op |-> "prune", samples |-> << Smp(st, <<1, 2>>, <<SLab("k", <<"v">>)>>, <<>>), Smp(sd, <<3, 4>>, <<>>, <<>>) >>,
                            drop |-> e.drop, keep |-> e.keep] : sd \in Seconds(st), e \in Exprs(0) } : st \in Stacks(0) }
FromCases(d) == UNION { { [op |-> "prunefrom", samples |-> << Smp(st, <<1, 2>>, <<SLab("k", <<"v">>)>>, <<>>), Smp(sd, <<3, 4>>, <<>>, <<>>) >>,
                           drop |-> dr, keep |-> {}] : sd \in Seconds(st), dr \in (SUBSET {"a", "b", "ab"}) \ {{}} } : st \in Stacks(0) }
GuardCases == { [op |-> "prune", samples |-> << Smp(<<L1("u"), L2("a", "u")>>, <<1, 2>>, <<>>, <<>>), Smp(<<>>, <<3, 4>>, <<>>, <<>>) >>,
                 drop |-> {"a"}, keep |-> {}] }
Cases == IF Tier = "guard" THEN GuardCases ELSE PruneCases(0) \cup FromCases(0)

\* ------------------------------------------------------------- declarative
Hit(n, c) == n # "" /\ Simplify(n) \in c.drop /\ Simplify(n) \notin c.keep
\* frames root -> leaf as <<location index (in s.locs), line index>>; a location without lines has no named frame
FrameIdx(s) ==
  FlattenSeq([k \in 1..Len(s.locs) |->
     LET li == Len(s.locs) + 1 - k
         l == s.locs[li]
     IN IF Len(l.lines) = 0 THEN << <<li, 0>> >>
        ELSE [j \in 1..Len(l.lines) |-> <<li, Len(l.lines) + 1 - j>>]])
NameAt(s, f) == IF f[2] = 0 THEN "" ELSE s.locs[f[1]].lines[f[2]].fn.name
\* keep the frames f[1..n] (root side): rebuild the sample
KeepRootSide(s, fr, n) ==
  IF n >= Len(fr) THEN s
  ELSE IF n = 0 THEN [s EXCEPT !.locs = <<>>]
  ELSE LET last == fr[n]            \* leaf-most surviving frame
           li == last[1]
           \* lines of that location on the root side of the cut (line index >= last[2])
           cutLoc == IF last[2] = 0 THEN s.locs[li]
                     ELSE [s.locs[li] EXCEPT !.lines = SubSeq(@, last[2], Len(@))]
       IN [s EXCEPT !.locs = <<cutLoc>> \o SubSeq(s.locs, li + 1, Len(s.locs))]

PruneD(s, c) ==
  LET fr == FrameIdx(s)
      users == {i \in DOMAIN fr : ~Hit(NameAt(s, fr[i]), c)}
  IN IF users = {} THEN s
     ELSE LET u == CHOOSE i \in users : \A j \in users : i <= j
              hits == {i \in DOMAIN fr : i > u /\ Hit(NameAt(s, fr[i]), c)}
          IN IF hits = {} THEN s
             ELSE KeepRootSide(s, fr, (CHOOSE i \in hits : \A j \in hits : i <= j) - 1)
PruneFromD(s, c) ==
  LET fr == FrameIdx(s)
      hits == {i \in DOMAIN fr : NameAt(s, fr[i]) # "" /\ Simplify(NameAt(s, fr[i])) \in c.drop}
  IN IF hits = {} THEN s
     ELSE KeepRootSide(s, fr, CHOOSE i \in hits : \A j \in hits : i >= j)
ResultD(c) == [i \in DOMAIN c.samples |->
                 IF c.op = "prune" THEN (IF c.drop = {} THEN c.samples[i] ELSE PruneD(c.samples[i], c))
                 ELSE PruneFromD(c.samples[i], c)]

\* ------------------------------------------------------------- operational (Prune only)
VARIABLES case, pc, todo, cls, cur, out
vars == <<case, pc, todo, cls, cur, out>>
DistinctLocs(samples) == UNION { {samples[i].locs[j] : j \in DOMAIN samples[i].locs} : i \in DOMAIN samples }
Init == /\ case \in Cases /\ pc = "locs"
        /\ todo = DistinctLocs(case.samples)
        /\ cls = [l \in DistinctLocs(case.samples) |-> "user"]        \* "user" | "whole" | "beneath"
        /\ cur = [l \in DistinctLocs(case.samples) |-> l]
        /\ out = <<>>

\* root-most matching line of a location (0 = none)
RootMostHit(l, c) ==
  LET h == {i \in DOMAIN l.lines : Hit(l.lines[i].fn.name, c)} IN
  IF h = {} THEN 0 ELSE CHOOSE i \in h : \A j \in h : i >= j
LocPass ==
  /\ pc = "locs" /\ todo # {} /\ case.op = "prune"
  /\ LET l == CHOOSE x \in todo : TRUE
         i == RootMostHit(l, case)
     IN /\ cls' = [cls EXCEPT ![l] = IF i = 0 THEN "user" ELSE IF i = Len(l.lines) THEN "whole" ELSE "beneath"]
        /\ cur' = [cur EXCEPT ![l] = IF i = 0 \/ i = Len(l.lines) THEN l ELSE [l EXCEPT !.lines = SubSeq(@, i + 1, Len(@))]]
        /\ todo' = todo \ {l}
  /\ UNCHANGED <<case, pc, out>>
\* per-sample scan root -> leaf. A "beneath" location always carries a user frame (its root-side
\* lines) in front of its match, so it is always a cut point; a "whole" location is one only after a
\* user location.  Broken = "guardBeneath": the code before the fix, which skipped both kinds.
ScanSample(s) ==
  LET n == Len(s.locs)
      step(acc, k) ==
        IF acc.done THEN acc
        ELSE LET i == n + 1 - k
                 c == cls[s.locs[i]]
             IN IF c = "user" THEN [acc EXCEPT !.found = TRUE]
                ELSE IF c = "beneath" /\ (acc.found \/ Broken # "guardBeneath") THEN [acc EXCEPT !.done = TRUE, !.cut = i]
                ELSE IF c = "whole" /\ acc.found THEN [acc EXCEPT !.done = TRUE, !.cut = i + 1]
                ELSE acc
      r == FoldLeft(step, [found |-> FALSE, done |-> FALSE, cut |-> 1], [k \in 1..n |-> k])
  IN [s EXCEPT !.locs = [j \in 1..(n + 1 - r.cut) |-> cur[s.locs[r.cut + j - 1]]]]
SamplePass ==
  /\ pc = "locs" /\ (todo = {} \/ case.op # "prune")
  /\ out' = IF case.op = "prune" /\ case.drop # {} THEN [i \in DOMAIN case.samples |-> ScanSample(case.samples[i])]
            ELSE ResultD(case)
  /\ pc' = "done"
  /\ UNCHANGED <<case, todo, cls, cur>>

Expressible(s, c) ==
  LET fr == FrameIdx(s)
      users == {i \in DOMAIN fr : ~Hit(NameAt(s, fr[i]), c)}
  IN users = {} \/
     LET u == CHOOSE i \in users : \A j \in users : i <= j IN
     \* the first user frame is the root-most line of its location, or that location is not "whole"
     fr[u][2] = 0 \/ fr[u][2] = Len(s.locs[fr[u][1]].lines) \/ RootMostHit(s.locs[fr[u][1]], c) # Len(s.locs[fr[u][1]].lines)

\* ---- classes of inputs on which the location-granular, in-place mechanism cannot follow the definition
\* (reported with each case so that a failing case is identified by its class)
LeafMostHit(l, c) ==
  LET h == {i \in DOMAIN l.lines : l.lines[i].fn.name # "" /\ Simplify(l.lines[i].fn.name) \in c.drop} IN
  IF h = {} THEN 0 ELSE CHOOSE i \in h : \A j \in h : i <= j
\* Prune: a location with a match below a non-matching root-side line ("beneath") met before any user location
GuardedBeneath(s, c) ==
  \E i \in DOMAIN s.locs :
     /\ RootMostHit(s.locs[i], c) \notin {0, Len(s.locs[i].lines)}
     /\ \A j \in (i + 1)..Len(s.locs) : RootMostHit(s.locs[j], c) # 0
\* PruneFrom: a matching location on the root side of the sample's cut whose own leaf-side lines get trimmed
RootSideTrim(s, c) ==
  LET hits == {i \in DOMAIN s.locs : LeafMostHit(s.locs[i], c) # 0} IN
  hits # {} /\ LET cut == CHOOSE i \in hits : \A j \in hits : i <= j IN
               \E i \in hits : i > cut /\ LeafMostHit(s.locs[i], c) > 1
Classes(c) ==
  IF c.op = "prune"
  THEN (IF \E i \in DOMAIN c.samples : GuardedBeneath(c.samples[i], c) THEN {"guarded-beneath"} ELSE {})
       \cup (IF \E i \in DOMAIN c.samples : ~Expressible(c.samples[i], c) THEN {"inexpressible"} ELSE {})
  ELSE (IF \E i \in DOMAIN c.samples : RootSideTrim(c.samples[i], c) THEN {"rootside-trim"} ELSE {})

\* the same per sample: a mismatch of sample i is filed under the classes of sample i (and of the samples it shares a
\* location with, whose in-place line surgery it sees), so that a sample outside every class is never excused
SharesLoc(s, t) == \E i \in DOMAIN s.locs : \E j \in DOMAIN t.locs : s.locs[i] = t.locs[j]
OwnClasses(s, c) ==
  IF c.op = "prune"
  THEN (IF GuardedBeneath(s, c) THEN {"guarded-beneath"} ELSE {}) \cup (IF ~Expressible(s, c) THEN {"inexpressible"} ELSE {})
  ELSE (IF RootSideTrim(s, c) THEN {"rootside-trim"} ELSE {})
SampleClasses(c) ==
  [i \in DOMAIN c.samples |->
     UNION { OwnClasses(c.samples[j], c) : j \in {k \in DOMAIN c.samples : k = i \/ SharesLoc(c.samples[i], c.samples[k])} }]

AbsSeq(ss) == [i \in DOMAIN ss |-> Abs(ss[i])]
Finish ==
  /\ pc = "done" /\ pc' = "end"
  /\ (Emit => PrintT(ToJson([op |-> case.op, samples |-> case.samples, drop |-> case.drop, keep |-> case.keep,
                             cls |-> Classes(case), scls |-> SampleClasses(case), exp |-> AbsSeq(ResultD(case))])))
  /\ UNCHANGED <<case, todo, cls, cur, out>>
Next == LocPass \/ SamplePass \/ Finish
Spec == Init /\ [][Next]_vars

\* ------------------------------------------------------------- properties
Done == pc = "done"
\* the location-granular mechanism cannot express a cut INSIDE a whole-class location that precedes the
\* first user frame of a sample (it would need a per-sample copy of a shared location); on every other
\* case it must meet the definition
MechanismMeetsDefinition ==
  (Done /\ case.op = "prune") =>
     \A i \in DOMAIN case.samples :
        Expressible(case.samples[i], case) => Abs(out[i]) = Abs(ResultD(case)[i])
RootSideUntouched ==
  Done => \A i \in DOMAIN case.samples :
            LET a == Frames(ResultD(case)[i])  b == Frames(case.samples[i]) IN
            Len(a) <= Len(b) /\ \A j \in 0..(Len(a) - 1) :
               LET x == a[Len(a) - j]  y == b[Len(b) - j] IN x.name = y.name /\ x.line = y.line /\ x.rel = y.rel
NeverEmpties ==
  Done => \A i \in DOMAIN case.samples : Len(case.samples[i].locs) > 0 => Len(ResultD(case)[i].locs) > 0
CountsValuesLabelsKept ==
  Done => /\ Len(ResultD(case)) = Len(case.samples)
          /\ \A i \in DOMAIN case.samples : ResultD(case)[i].vals = case.samples[i].vals /\ ResultD(case)[i].lab = case.samples[i].lab
NoExprIsIdentity == (Done /\ case.op = "prune" /\ case.drop = {}) => ResultD(case) = case.samples
=============================================================================
