------------------------------ MODULE Symbolize ------------------------------
(***************************************************************************)
(* C12 - symbolization only adds names.  Generator side: a profile from a  *)
(* small catalogue (partly symbolised, sparse function ids, several        *)
(* mappings incl. a fake one, a URL-sourced one and two mappings whose     *)
(* locations share a numeric address, addresses at mapping edges), a mode  *)
(* string, and the FUTURE ANSWERS of the plug-ins chosen step by step in   *)
(* the order the code consults them (internal/symbolizer/symbolizer.go):   *)
(* ParseMode; per mapping Open (ok / error / build-id mismatch) and per    *)
(* location SourceLine (1 frame / 2 inlined frames / nothing / error);     *)
(* then per mapping the symbol service (all addresses / a subset /         *)
(* addresses nobody asked for / garbage / error).  Each terminal state is  *)
(* replayed on the real Symbolizer with scripted plug-ins and the recorded *)
(* before/after pair is decided by TraceSymbolize.tla (frame condition).   *)
(* A behaviour is either ONE run over the whole catalogue or a SEQUENCE of *)
(* SeqLen runs on one profile (the driver symbolizes a fetched profile,    *)
(* the user saves it and symbolizes the saved file again, with force, with *)
(* other binaries): the script of every run is drawn from SeqScripts and   *)
(* the runs are replayed one after the other on the same profile object;   *)
(* TraceSymbolize.tla decides every run of the sequence and carries the    *)
(* has-symbols flags seen so far from run to run.                          *)
(***************************************************************************)
EXTENDS CodecRules, Json

CONSTANTS Tier, Emit

FnR(id, n, s) == [id |-> id, name |-> n, sys |-> s, file |-> "", start |-> 0]
MapR(id, st, file, build, sym) == [id |-> id, start |-> st, limit |-> st + 16, off |-> 0, file |-> file, build |-> build,
                                  hasfn |-> sym, hasfile |-> sym, hasline |-> FALSE, hasinl |-> FALSE]
LocR(id, m, a, lines) == [id |-> id, map |-> m, addr |-> a, lines |-> lines, folded |-> FALSE]
LineR(fn) == [fn |-> fn, line |-> 7, col |-> 0]
SmpR(locs, vals) == [locs |-> locs, vals |-> vals, lab |-> <<[k |-> "k", v |-> <<"x">>]>>, num |-> <<>>]
Prof(fns, maps, locs) ==
  [st |-> <<VT("s", "c"), VT("t", "u")>>, pt |-> PT("cpu", "ns"), period |-> 1, time |-> 0, dur |-> 0, comments |-> <<>>,
   dflt |-> "", doc |-> "", drop |-> "", keep |-> "", fns |-> fns, maps |-> maps, locs |-> locs,
   samples |-> << SmpR(<<locs[1].id, locs[Len(locs)].id>>, <<1, 0 - 2>>), SmpR(<<locs[Len(locs)].id>>, <<3, 4>>), SmpR(<<>>, <<5, 6>>) >>]

\* function tables: sparse ids, names that exercise demangling (mangled, C++-looking, the "(a::b)" trap, no system name)
FnSets == << <<>>,
             <<[FnR(2, "keep", "keep") EXCEPT !.file = "k.c", !.start = 3]>>,      \* (with a file name and a start line: the "same" answer repeats all of it)
             <<FnR(5, "ns::f(int)", "ns::f(int)"), FnR(1, "_Z3foov", "_Z3foov")>>,
             <<FnR(1, "named", ""), FnR(3, "(a::b)", "(a::b)")>>,
             <<FnR(2, "<unknown>", "<unknown>"), FnR(4, "(anonymous namespace)<T>", "(anonymous namespace)<T>")>> >>   \* names made of bracket groups only
\* mapping sets: 1 unsymbolised + 1 symbolised; two unsymbolised sharing the address range; fake + URL-sourced
MapSets == << <<MapR(1, 16, "bin1", "b1", FALSE), MapR(2, 48, "bin2", "", TRUE)>>,
              <<MapR(1, 16, "bin1", "", FALSE), MapR(4, 16, "bin2", "b2", TRUE)>>,
              <<MapR(3, 16, "", "", FALSE), MapR(1, 48, "http://host/debug/pprof/profile", "", FALSE)>>,
              <<MapR(1, 16, "bin1", "b1", FALSE), MapR(2, 48, "bin2", "b2", FALSE)>>,
              \* partly symbolised: line numbers / file names but no has-functions flag (e.g. after a merge that ANDs the flags)
              <<[MapR(1, 16, "bin1", "b1", FALSE) EXCEPT !.hasline = TRUE], [MapR(2, 48, "bin2", "b2", FALSE) EXCEPT !.hasfile = TRUE]>>,
              \* two mappings of ONE binary (two segments, or the same library in merged profiles), only the second symbolised
              <<MapR(1, 16, "bin1", "b1", FALSE), MapR(2, 48, "bin1", "b1", TRUE)>>,
              \* a mapping without a range (limit 0: the one the driver makes up for profiles that have none, given a file name)
              <<[MapR(1, 0, "bin1", "", FALSE) EXCEPT !.limit = 0], MapR(2, 48, "bin2", "b2", TRUE)>> >>
\* locations: first mapping at its start and at limit-1; second mapping (symbolised or not) at start
LocsFor(maps, fns, symd) ==
  << LocR(1, maps[1].id, maps[1].start, IF maps[1].hasline /\ Len(fns) > 0 THEN <<LineR(fns[1].id)>> ELSE <<>>),
     LocR(7, maps[1].id, IF maps[1].limit = 0 THEN maps[1].start + 5 ELSE maps[1].limit - 1, <<>>),
     LocR(3, maps[2].id, maps[2].start, IF symd /\ Len(fns) > 0 THEN <<LineR(fns[1].id)>> ELSE <<>>) >>
     \* a second location at the address of the first, without lines, where the first has some (distinct locations may share an address)
     \o (IF maps[1].hasline /\ Len(fns) > 0 THEN << LocR(9, maps[1].id, maps[1].start, <<>>) >> ELSE <<>>)
PAt(f, m) == Prof(FnSets[f], MapSets[m], LocsFor(MapSets[m], FnSets[f], MapSets[m][2].hasfn))
Profiles == { PAt(f, m) : f \in DOMAIN FnSets, m \in DOMAIN MapSets }

Modes == {"", "local", "fastlocal", "remote", "none", "force", "local:force", "remote:force", "demangle=full", "demangle=none",
          "local:demangle=templates", "force:demangle=default", "bogus", "local:bogus",
          "demangle=default", "local:demangle=default"}      \* the default demangling is no request to force
OpenAnswers == {"ok", "error", "mismatch"}
\* "same": one frame IDENTICAL in every attribute (name = system name, file, start line) to a function that is already in
\* the profile's table when the run starts (the first one whose name equals its system name; an inline function of a shared
\* header when there is none, so that two locations of one run get the very same frame)
LineAnswers == {"one", "two", "empty", "error", "hole", "same"}
RemoteAnswers == {"all", "subset", "extra", "garbage", "error", "emptyname"}

\* ---- sequences of runs on one profile ----
Script(m, o, ls, rs) == [mode |-> m, opens |-> o, lines |-> ls, remotes |-> rs]
U3(a) == <<a, a, a>>
OkOk == <<"ok", "ok">>
AllAll == <<"all", "all">>
SeqLen == 3
\* a plain run; a plain run with other answers (other names, another number of inlined lines); forced runs in which the
\* object file answers NOTHING (SourceLine fails or returns no frames: a stripped or unreadable binary), answers with a
\* function that is already in the table, answers something else; forced local+remote; the service alone; a forced run in
\* which neither the object file nor the service answers
SeqScriptsQuick ==
  { Script("local", OkOk, U3("one"), AllAll), Script("local", OkOk, U3("two"), AllAll),
    Script("local:force", OkOk, <<"error", "empty", "error">>, AllAll), Script("local:force", OkOk, U3("same"), AllAll),
    Script("local:force", OkOk, U3("two"), AllAll), Script("force", OkOk, U3("one"), AllAll),
    Script("remote", OkOk, U3("one"), AllAll), Script("demangle=none", OkOk, U3("empty"), <<"error", "error">>) }
SeqScripts == IF Tier = "thorough"
              THEN SeqScriptsQuick \cup { Script("local:force", OkOk, U3("one"), AllAll), Script("remote:force", OkOk, U3("one"), AllAll),
                                          Script("", OkOk, U3("one"), <<"subset", "subset">>), Script("local", OkOk, U3("same"), AllAll) }
              ELSE SeqScriptsQuick
\* quick: a fresh profile (nothing symbolised, empty function table), unsymbolised + symbolised mapping, the partly
\* symbolised pair (line numbers / file names only), two mappings of one binary with mangled names in the table
SeqProfiles == IF Tier = "thorough" THEN Profiles ELSE { PAt(1, 4), PAt(2, 1), PAt(2, 5), PAt(3, 6) }

VARIABLES pc, prof, mode, opens, lineans, remotes, seq, done
vars == <<pc, prof, mode, opens, lineans, remotes, seq, done>>
Cur == Script(mode, opens, lineans, remotes)
Init == /\ pc = "mode" /\ prof \in Profiles /\ mode = "" /\ opens = <<>> /\ lineans = <<>> /\ remotes = <<>>
        /\ seq \in (IF prof \in SeqProfiles THEN BOOLEAN ELSE {FALSE}) /\ done = <<>>
ParseMode == pc = "mode" /\ ~seq /\ mode' \in Modes /\ pc' = "local" /\ UNCHANGED <<prof, opens, lineans, remotes, seq, done>>
UsesLocal(m) == m \notin {"remote", "remote:force", "none"}
UsesRemote(m) == m \notin {"local", "fastlocal", "local:force", "local:demangle=templates", "local:demangle=default", "local:bogus", "none"}
Both(m) == UsesLocal(m) /\ UsesRemote(m)
OpenChoices == IF Tier = "thorough" THEN [1..2 -> OpenAnswers]
               ELSE { <<"ok", "ok">>, <<"error", "ok">>, <<"mismatch", "ok">>, <<"ok", "error">> }
\* (thorough: "same" is one frame like "one", it differs in the function it names: not crossed with everything else)
LineChoices == IF Tier = "thorough" THEN [1..3 -> LineAnswers \ {"same"}] \cup { <<"same", "same", "same">>, <<"one", "same", "same">>, <<"same", "error", "two">>, <<"two", "same", "empty">> }
               ELSE { [i \in 1..3 |-> a] : a \in LineAnswers } \cup { <<"one", "error", "two">>, <<"empty", "two", "one">>, <<"hole", "one", "hole">>, <<"one", "same", "same">> }
RemoteChoices == IF Tier = "thorough" THEN [1..2 -> RemoteAnswers]
                 ELSE { [i \in 1..2 |-> a] : a \in RemoteAnswers } \cup { <<"all", "error">>, <<"subset", "extra">> }
\* the object-file plug-in answers for both mappings (one answer each) and one SourceLine answer class per location;
\* answers of a plug-in the mode never consults are irrelevant and fixed
Local == /\ pc = "local"
         /\ IF ~UsesLocal(mode) THEN opens' = <<"ok", "ok">> /\ lineans' = <<"one", "one", "one">>
            ELSE IF Both(mode) /\ Tier # "thorough"
                 THEN opens' \in { <<"ok", "ok">>, <<"error", "ok">> } /\ lineans' \in { <<"one", "one", "one">>, <<"empty", "empty", "empty">>, <<"one", "error", "two">> }
                 ELSE IF Both(mode)      \* thorough: every pair of Open answers and every pair of remote answers, the line answers that differ in kind
                 THEN opens' \in OpenChoices /\ lineans' \in { <<"one", "one", "one">>, <<"empty", "empty", "empty">>, <<"one", "error", "two">>, <<"two", "empty", "error">>, <<"same", "same", "same">> }
                 ELSE opens' \in OpenChoices /\ lineans' \in LineChoices
         /\ pc' = "remote" /\ UNCHANGED <<prof, mode, remotes, seq, done>>
Remote == /\ pc = "remote"
          /\ IF ~UsesRemote(mode) THEN remotes' = <<"all", "all">> ELSE remotes' \in RemoteChoices
          /\ pc' = "done" /\ UNCHANGED <<prof, mode, opens, lineans, seq, done>>
\* a run of a sequence: the whole script of the run is chosen at once
SeqRun == /\ pc = "mode" /\ seq
          /\ \E sc \in SeqScripts : mode' = sc.mode /\ opens' = sc.opens /\ lineans' = sc.lines /\ remotes' = sc.remotes
          /\ pc' = "done" /\ UNCHANGED <<prof, seq, done>>
Again == /\ pc = "done" /\ seq /\ Len(done) < SeqLen - 1
         /\ done' = Append(done, Cur) /\ pc' = "mode" /\ mode' = "" /\ opens' = <<>> /\ lineans' = <<>> /\ remotes' = <<>>
         /\ UNCHANGED <<prof, seq>>
\* (only complete sequences are emitted: every run is decided, so the shorter ones are their prefixes)
Finish == /\ pc = "done" /\ (seq => Len(done) = SeqLen - 1) /\ pc' = "end"
          /\ (Emit => PrintT(ToJson([prof |-> prof, runs |-> Append(done, Cur)])))
          /\ UNCHANGED <<prof, mode, opens, lineans, remotes, seq, done>>
Next == ParseMode \/ Local \/ Remote \/ SeqRun \/ Again \/ Finish
Spec == Init /\ [][Next]_vars
\* the catalogue only contains valid profiles (the frame condition includes "the result is valid")
CatalogueValid == Valid(prof)
=============================================================================
