----------------------------- MODULE TraceCodec -----------------------------
(***************************************************************************)
(* Binding B for C01: each event is one real write-then-parse of a random  *)
(* profile through one of the public entry points: the input and the       *)
(* result as tables with ids, whether a second round trip left the result  *)
(* unchanged (fix) and re-serialised to identical bytes (bytes).           *)
(***************************************************************************)
EXTENDS CodecRules, Json

Trace == ndJsonDeserialize("trace.ndjson")
VARIABLES l, bad

Failed(e) ==
  LET p == [ valid    |-> Valid(e.in) => Valid(e.out),
             roundtrip |-> View(e.out) = View(Norm(e.in)),
             fixpoint |-> e.fix,
             bytes    |-> e.bytes ]
  IN {f \in DOMAIN p : ~p[f]}
Init == l = 1 /\ bad = {}
Step == /\ l <= Len(Trace) /\ l' = l + 1
        /\ LET fl == Failed(Trace[l]) IN
             /\ bad' = IF fl = {} THEN bad ELSE bad \cup {l}
             /\ (IF fl = {} THEN TRUE ELSE PrintT(<<"VERIF-WHY", l, fl>>))
Report == /\ l = Len(Trace) + 1
          /\ PrintT(<<"VERIF-CONSUMED", l - 1>>) /\ PrintT(<<"VERIF-REJECTED", bad>>)
          /\ l' = l + 1 /\ UNCHANGED bad
Next == Step \/ Report
Spec == Init /\ [][Next]_<<l, bad>>
=============================================================================
