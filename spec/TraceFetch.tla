----------------------------- MODULE TraceFetch -----------------------------
(***************************************************************************)
(* Binding B for C16: each event is one real multi-source pprof run with a *)
(* gating, fault-injecting Fetcher (and transport): which sources were     *)
(* made to fail, the order in which the merged result lists the sources    *)
(* (read off the comments each source contributes), which sources were     *)
(* reported as errors, whether the run failed.  The chunk size of the real *)
(* code (128) is crossed by runs with 127..300 sources.                    *)
(***************************************************************************)
EXTENDS Integers, Sequences, FiniteSets, TLC, SequencesExt, Json
Trace == ndJsonDeserialize("trace.ndjson")
VARIABLES l, bad
OkIdx(v) == SetToSortSeq({i \in DOMAIN v : v[i]}, <)
Want(e) == [k \in 1..Len(OkIdx(e.srcok)) |-> [g |-> "src", i |-> OkIdx(e.srcok)[k]]]
           \o [k \in 1..Len(OkIdx(e.baseok)) |-> [g |-> "base", i |-> OkIdx(e.baseok)[k]]]
WantErrs(e) == {[g |-> "src", i |-> i] : i \in {x \in DOMAIN e.srcok : ~e.srcok[x]}} \cup {[g |-> "base", i |-> i] : i \in {x \in DOMAIN e.baseok : ~e.baseok[x]}}
ShouldFail(e) == OkIdx(e.srcok) = <<>> \/ (Len(e.baseok) > 0 /\ OkIdx(e.baseok) = <<>>)
Failed(e) ==
  LET p == [ fails   |-> e.failed = ShouldFail(e),
             merged  |-> ~e.failed => e.merged = Want(e),                       \* exactly the succeeded ones, in command-line order
             samples |-> ~e.failed => e.nsamples = Len(Want(e)),                \* nothing lost, nothing doubled
             errors  |-> ToSet(e.errs) = WantErrs(e) /\ Len(e.errs) = Cardinality(WantErrs(e)) ]   \* one error per failed source
  IN {f \in DOMAIN p : ~p[f]}
Init == l = 1 /\ bad = {}
Step == /\ l <= Len(Trace) /\ l' = l + 1
        /\ LET fl == Failed(Trace[l]) IN
             /\ bad' = IF fl = {} THEN bad ELSE bad \cup {l}
             /\ (IF fl = {} THEN TRUE ELSE PrintT(<<"VERIF-WHY", l, fl>>))
Report == /\ l = Len(Trace) + 1
          /\ PrintT(<<"VERIF-CONSUMED", l - 1>>) /\ PrintT(<<"VERIF-REJECTED", bad>>)
          /\ l' = l + 1 /\ UNCHANGED bad
Next == Step \/ Report
Spec == Init /\ [][Next]_<<l, bad>>
=============================================================================
