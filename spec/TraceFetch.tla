----------------------------- MODULE TraceFetch -----------------------------
(***************************************************************************)
(* Binding B for C16: each event is one real multi-source pprof run with a *)
(* gating, fault-injecting Fetcher (and transport): the class of every     *)
(* source as in Fetch.tla ("ok", "fail", "errbody": answered with an error *)
(* status and a profile as the body, "remote": answered with 200 and a     *)
(* profile through the shared transport) and whether the transport's       *)
(* one-time initialisation could succeed (tlsok); the outcome of a source  *)
(* is Fetch.tla's Ok: a function of its class and of tlsok alone.  Then    *)
(* the order in which the merged result lists the sources                  *)
(* (read off the comments each source contributes), which sources were     *)
(* reported as errors, whether the run failed.  The chunk size of the real *)
(* code (128) is crossed by runs with 127..300 sources.                    *)
(***************************************************************************)
EXTENDS Integers, Sequences, FiniteSets, TLC, SequencesExt, Json
Trace == ndJsonDeserialize("trace.ndjson")
VARIABLES l, bad
OutClasses == {"ok", "fail", "errbody", "remote"}
Ok(c, tlsok) == c = "ok" \/ (c = "remote" /\ tlsok)
OkSet(v, tlsok) == {i \in DOMAIN v : Ok(v[i], tlsok)}
OkIdx(v, tlsok) == SetToSortSeq(OkSet(v, tlsok), <)
SrcOk(e) == OkIdx(e.srcout, e.tlsok)
BaseOk(e) == OkIdx(e.baseout, e.tlsok)
Want(e) == [k \in 1..Len(SrcOk(e)) |-> [g |-> "src", i |-> SrcOk(e)[k]]]
           \o [k \in 1..Len(BaseOk(e)) |-> [g |-> "base", i |-> BaseOk(e)[k]]]
WantErrs(e) == {[g |-> "src", i |-> i] : i \in DOMAIN e.srcout \ OkSet(e.srcout, e.tlsok)} \cup {[g |-> "base", i |-> i] : i \in DOMAIN e.baseout \ OkSet(e.baseout, e.tlsok)}
ShouldFail(e) == SrcOk(e) = <<>> \/ (Len(e.baseout) > 0 /\ BaseOk(e) = <<>>)
WellFormed(e) == e.tlsok \in BOOLEAN /\ (\A i \in DOMAIN e.srcout : e.srcout[i] \in OutClasses) /\ (\A i \in DOMAIN e.baseout : e.baseout[i] \in OutClasses)
Failed(e) ==
  LET p == [ fails   |-> e.failed = ShouldFail(e),
             merged  |-> ~e.failed => e.merged = Want(e),                       \* exactly the succeeded ones, in command-line order
             samples |-> ~e.failed => e.nsamples = Len(Want(e)),                \* nothing lost, nothing doubled
             errors  |-> ToSet(e.errs) = WantErrs(e) /\ Len(e.errs) = Cardinality(WantErrs(e)) ]   \* one error per failed source
  IN {f \in DOMAIN p : ~p[f]}
Init == l = 1 /\ bad = {}
Step == /\ l <= Len(Trace) /\ l' = l + 1
        /\ Assert(WellFormed(Trace[l]), <<"malformed event", l>>)      \* a problem of the harness, not a verdict
        /\ LET fl == Failed(Trace[l]) IN
             /\ bad' = IF fl = {} THEN bad ELSE bad \cup {l}
             /\ (IF fl = {} THEN TRUE ELSE PrintT(<<"VERIF-WHY", l, fl>>))
Report == /\ l = Len(Trace) + 1
          /\ PrintT(<<"VERIF-CONSUMED", l - 1>>) /\ PrintT(<<"VERIF-REJECTED", bad>>)
          /\ l' = l + 1 /\ UNCHANGED bad
Next == Step \/ Report
Spec == Init /\ [][Next]_<<l, bad>>
=============================================================================
