----------------------------- MODULE TraceTrim -----------------------------
(***************************************************************************)
(* Binding B for C05: each event is one real trimmed report (-top, -tree   *)
(* or -dot with nodecount / nodefraction / edgefraction / sort) together   *)
(* with the abstract profile it was produced from.  The set of entries the *)
(* real report shows is the witness K; TLC checks                          *)
(*   - K is admissible for the options (text: exactly the entries at or    *)
(*     above the cum cutoff, cut to the top N of the active order; dot:    *)
(*     any subset of those),                                               *)
(*   - every shown entry carries its UNTRIMMED flat and cum,               *)
(*   - every shown edge joins shown entries, carries the weight the        *)
(*     definition gives for K and is marked residual iff it bypasses       *)
(*     removed entries; text reports show every such edge at or above the  *)
(*     edge cutoff,                                                        *)
(*   - the legend's "accounting for" is the sum of the flats shown.        *)
(***************************************************************************)
EXTENDS TrimRules, Json

Trace == ndJsonDeserialize("trace.ndjson")
VARIABLES l, bad

Names(rows) == {rows[i].name : i \in DOMAIN rows}
Key(r, sort) == IF sort = "cum" THEN AbsI(r.rawcum) ELSE AbsI(r.rawflat)
MinN(a, b) == IF a <= b THEN a ELSE b

Parts(e) ==
  LET T0 == NodeTableD(e.samples, e.cfg)
      K1 == IF e.nc > 0 THEN {r \in T0 : AbsI(r.rawcum) >= e.nc} ELSE T0
      S  == {r \in T0 : PName(r.e) \in Names(e.nodes)}
      K  == {r.e : r \in S}
      text == e.form \in {"top", "tree"}
      want == IF e.n > 0 THEN MinN(e.n, Cardinality(K1)) ELSE Cardinality(K1)
      \* the reference is the untrimmed report, in which a path through a zero entry is no adjacency (ZeroEntries);
      \* the code bridges zero entries like trimmed ones when it rebuilds the graph for trimming: accepted as a
      \* separately named failure (zerobridge) so that it is reported as the known finding it is, nothing else
      Z0 == ZeroEntries(e.samples, e.cfg)
      EdgesOK(TEx) == \A i \in DOMAIN e.edges :
                        \E x \in TEx : /\ PName(x.src) = e.edges[i].src /\ PName(x.dst) = e.edges[i].dst
                                        /\ x.w = e.edges[i].w
                                        /\ AbsI(x.w) >= e.ec
      \* text: every direct edge at or above the cutoff is listed (under the reading Zx)
      AllListed(TEx, Zx) == e.form = "tree" =>
                   \A x \in TEx : (AbsI(x.w) >= e.ec /\ NoBypassZ(e.samples, e.cfg, K, Zx, x.src, x.dst)) =>
                      \E i \in DOMAIN e.edges : e.edges[i].src = PName(x.src) /\ e.edges[i].dst = PName(x.dst)
      cutOK == EdgesOK(TrimEdgesDZ(e.samples, e.cfg, K, Z0))
      brOK == Z0 # {} /\ EdgesOK(TrimEdgesDZ(e.samples, e.cfg, K, {}))
      \* a reading explains the report when the edges shown are its edges AND none of its edges is missing (the bridged
      \* weight of an edge may fall below the edge cutoff, so the known finding also shows as an edge that is absent)
      cutAll == cutOK /\ AllListed(TrimEdgesDZ(e.samples, e.cfg, K, Z0), Z0)
      brAll == brOK /\ AllListed(TrimEdgesDZ(e.samples, e.cfg, K, {}), {})
      Z == IF cutAll \/ ~brAll THEN Z0 ELSE {}
      TE == TrimEdgesDZ(e.samples, e.cfg, K, Z)
  IN
  [ op       |-> e.op = "trim",
    dangling |-> e.dangling = 0,                                                 \* no edge refers to a removed entry
    cutoff   |-> Names(e.nodes) \subseteq {PName(r.e) : r \in K1},               \* nothing below the cutoff is shown
    known    |-> Cardinality(S) = Len(e.nodes),
    count    |-> IF text THEN Cardinality(S) = want ELSE Cardinality(S) <= want,  \* exactly the top N of those above the cutoff
    topn     |-> text => \A a \in S : \A b \in K1 \ S : Key(a, e.sort) >= Key(b, e.sort),
    numbers  |-> \A i \in DOMAIN e.nodes :                                       \* untrimmed numbers
                   \E r \in S : PName(r.e) = e.nodes[i].name /\ r.flat = e.nodes[i].flat /\ r.cum = e.nodes[i].cum,
    account  |-> e.shown = FoldSet(LAMBDA r, acc : acc + r.flat, 0, S),
    edges    |-> cutOK \/ brOK,
    zerobridge |-> cutAll \/ ~brAll,
    residual |-> \A i \in DOMAIN e.edges :
                   \A x \in TE : (PName(x.src) = e.edges[i].src /\ PName(x.dst) = e.edges[i].dst)
                                  => ResidualOKZ(e.samples, e.cfg, K, Z, x.src, x.dst, e.edges[i].res),
    alledges |-> AllListed(TE, Z) ]
Failed(e) == LET p == Parts(e) IN {f \in DOMAIN p : ~p[f]}

TInit == l = 1 /\ bad = {}
TStep == /\ l <= Len(Trace)
         /\ l' = l + 1
         /\ LET fl == Failed(Trace[l]) IN
              /\ bad' = IF fl = {} THEN bad ELSE bad \cup {l}
              /\ (IF fl = {} THEN TRUE ELSE PrintT(<<"VERIF-WHY", l, fl>>))
TReport == /\ l = Len(Trace) + 1
           /\ PrintT(<<"VERIF-CONSUMED", l - 1>>)
           /\ PrintT(<<"VERIF-REJECTED", bad>>)
           /\ l' = l + 1 /\ UNCHANGED bad
TNext == TStep \/ TReport
TSpec == TInit /\ [][TNext]_<<l, bad>>
=============================================================================
