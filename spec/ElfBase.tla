------------------------------- MODULE ElfBase -------------------------------
(***************************************************************************)
(* C13, the arithmetic core, for UNBOUNDED integers (checked by Apalache;   *)
(* TLC enumerates small layouts in ElfLoad.tla).                           *)
(*                                                                         *)
(* Loader semantics (System V gABI): a PT_LOAD segment [off, vaddr, memsz]  *)
(* with off = vaddr (mod page) is mapped at bias + floor(vaddr) with file   *)
(* offset floor(off); the profile's mapping is the part of it that starts   *)
(* k pages in.  pprof's computation, transcribed from elfexec.GetBase      *)
(* (ET_DYN and user-space ET_EXEC with the segment known) and              *)
(* binutils file.computeBase and HeaderForFileOffset:                   *)
(*     fileOffset(x) = x - start + offset                                  *)
(*     base          = start - offset + off - vaddr                        *)
(*     ObjAddr(x)    = x - base                                            *)
(* BaseIsBias: for every such layout the base is exactly the load bias, so  *)
(* ObjAddr(x) is the link-time address; OwnerContainsFileOffset: the file  *)
(* offset computed for an address backed by the segment lies in the         *)
(* segment's file range, so HeaderForFileOffset can select it.             *)
(***************************************************************************)
EXTENDS Integers

VARIABLES
  \* @type: Int;
  off,
  \* @type: Int;
  vaddr,
  \* @type: Int;
  memsz,
  \* @type: Int;
  bias,
  \* @type: Int;
  k,
  \* @type: Int;
  x

Page == 4096
Floor(a) == (a \div Page) * Page
Ceil(a) == ((a + Page - 1) \div Page) * Page

Start == bias + Floor(vaddr) + k * Page
Offset == Floor(off) + k * Page
Limit == bias + Ceil(vaddr + memsz)

Init == /\ off \in Nat /\ vaddr \in Nat /\ memsz \in Nat /\ bias \in Nat /\ k \in Nat /\ x \in Nat
        /\ memsz > 0
        /\ off % Page = vaddr % Page            \* gABI: file offset and virtual address congruent modulo the page size
        /\ bias % Page = 0                      \* the loader moves the object by whole pages
        /\ Start < Limit                        \* the mapping is a non-empty tail of the segment's mapping
        /\ x >= Start /\ x < Limit              \* a sampled address inside the mapping ...
        /\ x >= bias + vaddr /\ x < bias + vaddr + memsz   \* ... that the segment backs
Next == UNCHANGED <<off, vaddr, memsz, bias, k, x>>

Base == Start - Offset + off - vaddr
FileOffset == x - Start + Offset
ObjAddr == x - Base

BaseIsBias == Base = bias
LinkAddress == ObjAddr = x - bias /\ ObjAddr >= vaddr /\ ObjAddr < vaddr + memsz
OwnerContainsFileOffset == FileOffset >= off /\ FileOffset < off + memsz
Inv == BaseIsBias /\ LinkAddress /\ OwnerContainsFileOffset
\* vacuity guard: without the gABI congruence the claim is false and Apalache must find a counterexample
InitNoCongruence == /\ off \in Nat /\ vaddr \in Nat /\ memsz \in Nat /\ bias \in Nat /\ k \in Nat /\ x \in Nat
                    /\ memsz > 0 /\ bias % Page = 0 /\ Start < Limit /\ x >= Start /\ x < Limit
                    /\ x >= bias + vaddr /\ x < bias + vaddr + memsz
=============================================================================
