----------------------------- MODULE SharedState -----------------------------
(***************************************************************************)
(* C20, two further lock protocols (Shared.tla has encode, exclusive       *)
(* create and copy-on-write reads):                                        *)
(*                                                                         *)
(*  (d) the registry of temporary files (internal/driver/tempfile.go):     *)
(*      Register appends a path under the mutex; Cleanup removes every     *)
(*      registered file and empties the registry in ONE critical section.  *)
(*      NoLeak: a file that was registered is either still registered or   *)
(*      has been removed - whatever the interleaving, exactly as if the    *)
(*      calls had run one at a time.                                       *)
(*      Broken = "cleanupUnlocked": snapshot, remove without the lock,     *)
(*      then empty the registry.                                           *)
(*                                                                         *)
(*  (e) lazy tool discovery (internal/binutils get/update): the first user *)
(*      installs the default configuration; a setter copies the current    *)
(*      one (or the default), changes a field and installs the copy; both  *)
(*      inside the mutex.  SetterNeverLost: once a setter has returned the *)
(*      field keeps its value until another setter changes it.             *)
(*      Broken = "lazyInitUnlocked": the first user discovers the tools    *)
(*      outside the mutex and stores the result unconditionally.           *)
(***************************************************************************)
EXTENDS Integers, FiniteSets, TLC
CONSTANTS Procs, Broken

VARIABLES pc, reg, removed, registered, snap, rep, local, setDone
vars == <<pc, reg, removed, registered, snap, rep, local, setDone>>

Roles == {"register", "cleanup", "get", "set"}
Init == /\ pc \in [Procs -> Roles]
        /\ reg = {} /\ removed = {} /\ registered = {} /\ snap = [p \in Procs |-> {}]
        /\ rep = "nil" /\ local = [p \in Procs |-> "nil"] /\ setDone = FALSE

\* ---- (d)
Register(p) == /\ pc[p] = "register" /\ reg' = reg \cup {p} /\ registered' = registered \cup {p}
               /\ pc' = [pc EXCEPT ![p] = "cleanup"]          \* every caller cleans up afterwards (deferred in driver.PProf)
               /\ UNCHANGED <<removed, snap, rep, local, setDone>>
Cleanup(p) == /\ pc[p] = "cleanup" /\ Broken # "cleanupUnlocked"
              /\ removed' = removed \cup reg /\ reg' = {} /\ pc' = [pc EXCEPT ![p] = "done"]
              /\ UNCHANGED <<registered, snap, rep, local, setDone>>
CleanupSnap(p) == /\ pc[p] = "cleanup" /\ Broken = "cleanupUnlocked"
                  /\ snap' = [snap EXCEPT ![p] = reg] /\ pc' = [pc EXCEPT ![p] = "cleanup2"]
                  /\ UNCHANGED <<reg, removed, registered, rep, local, setDone>>
CleanupReset(p) == /\ pc[p] = "cleanup2" /\ removed' = removed \cup snap[p] /\ reg' = {} /\ pc' = [pc EXCEPT ![p] = "done"]
                   /\ UNCHANGED <<registered, snap, rep, local, setDone>>
NoLeak == registered \subseteq (reg \cup removed)

\* ---- (e) rep: "nil", "default" (fast = FALSE) or "fast"
Get(p) == /\ pc[p] = "get" /\ Broken # "lazyInitUnlocked"
          /\ rep' = (IF rep = "nil" THEN "default" ELSE rep) /\ pc' = [pc EXCEPT ![p] = "done"]
          /\ UNCHANGED <<reg, removed, registered, snap, local, setDone>>
GetRead(p) == /\ pc[p] = "get" /\ Broken = "lazyInitUnlocked"
              /\ local' = [local EXCEPT ![p] = rep] /\ pc' = [pc EXCEPT ![p] = IF rep = "nil" THEN "getstore" ELSE "done"]
              /\ UNCHANGED <<reg, removed, registered, snap, rep, setDone>>
GetStore(p) == /\ pc[p] = "getstore" /\ rep' = "default" /\ pc' = [pc EXCEPT ![p] = "done"]
               /\ UNCHANGED <<reg, removed, registered, snap, local, setDone>>
Set(p) == /\ pc[p] = "set" /\ rep' = "fast" /\ setDone' = TRUE /\ pc' = [pc EXCEPT ![p] = "done"]
          /\ UNCHANGED <<reg, removed, registered, snap, local>>
SetterNeverLost == setDone => rep = "fast"

Next == \E p \in Procs : Register(p) \/ Cleanup(p) \/ CleanupSnap(p) \/ CleanupReset(p) \/ Get(p) \/ GetRead(p) \/ GetStore(p) \/ Set(p)
Spec == Init /\ [][Next]_vars /\ WF_vars(Next)
Terminates == <>(\A p \in Procs : pc[p] = "done")
=============================================================================
