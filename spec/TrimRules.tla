------------------------------ MODULE TrimRules ------------------------------
(***************************************************************************)
(* Declarative meaning of a trimmed report for a kept set K (C05), shared  *)
(* by the model (Trim.tla) and the trace specification (TraceTrim.tla).    *)
(***************************************************************************)
EXTENDS ReportRules

Strip(es, K) == SelectSeq(es, LAMBDA x : x \in K)
TrimNodesD(samples, cfg, K) == { r \in NodeTableD(samples, cfg) : r.e \in K }
\* Entries whose flat and cum are both zero are never part of a report, trimmed or not, and a path through one
\* of them is not an adjacency of its neighbours: in the untrimmed report (the reference of C05) their edges are
\* simply absent.  Z is that set of entries; Z = {} gives the reading in which they are bridged like trimmed ones.
ZeroEntries(samples, cfg) == { e \in AllEntries(samples, cfg) : FlatD(samples, cfg, e, W) = 0 /\ CumD(samples, cfg, e, W) = 0 }
\* adjacency (a,b) in the stripped sequence; Bypass = some removed entry lies between them
AdjPosZ(es, K, Z, a, b) ==
  { <<i, j>> \in (DOMAIN es) \X (DOMAIN es) :
      i < j /\ es[i] = a /\ es[j] = b /\ \A m \in (i + 1)..(j - 1) : es[m] \notin K /\ es[m] \notin Z }
TrimEdgeWZ(samples, cfg, K, Z, a, b) ==
  SumOver(samples, cfg, LAMBDA s : AdjPosZ(Entries(s, cfg), K, Z, a, b) # {}, W)
TrimEdgesDZ(samples, cfg, K, Z) ==
  { [src |-> a, dst |-> b, w |-> TrimEdgeWZ(samples, cfg, K, Z, a, b)] :
      <<a, b>> \in { p \in K \X K : p[1] # p[2] /\ \E i \in DOMAIN samples :
                        Counted(samples[i], cfg) /\ AdjPosZ(Entries(samples[i], cfg), K, Z, p[1], p[2]) # {} } }
\* residual flag of an edge: within one sample only the FIRST occurrence (root to leaf) of the adjacency counts
\* (later ones are de-duplicated), and that occurrence is residual iff it bypasses a removed entry; the edge is
\* residual iff some sample contributes a residual occurrence (any-of), direct contributions notwithstanding
FirstOcc(P) == CHOOSE p \in P : \A q \in P : p[2] <= q[2]
ResidualD(samples, cfg, K, Z, a, b) ==
  \E i \in DOMAIN samples : Counted(samples[i], cfg) /\
     LET P == AdjPosZ(Entries(samples[i], cfg), K, Z, a, b) IN P # {} /\ FirstOcc(P)[2] > FirstOcc(P)[1] + 1
AllBypassZ(samples, cfg, K, Z, a, b) ==
  \A i \in DOMAIN samples : Counted(samples[i], cfg) =>
     \A p \in AdjPosZ(Entries(samples[i], cfg), K, Z, a, b) : p[2] > p[1] + 1
NoBypassZ(samples, cfg, K, Z, a, b) ==
  \A i \in DOMAIN samples : Counted(samples[i], cfg) =>
     \A p \in AdjPosZ(Entries(samples[i], cfg), K, Z, a, b) : p[2] = p[1] + 1
ResidualOKZ(samples, cfg, K, Z, a, b, flag) == flag = ResidualD(samples, cfg, K, Z, a, b)
\* the reading used for an explicit kept set (Trim.tla: graph.New with KeptNodes): everything outside K is bridged
AdjPos(es, K, a, b) == AdjPosZ(es, K, {}, a, b)
TrimEdgeW(samples, cfg, K, a, b) == TrimEdgeWZ(samples, cfg, K, {}, a, b)
TrimEdgesD(samples, cfg, K) == TrimEdgesDZ(samples, cfg, K, {})
AllBypass(samples, cfg, K, a, b) == AllBypassZ(samples, cfg, K, {}, a, b)
NoBypass(samples, cfg, K, a, b) == NoBypassZ(samples, cfg, K, {}, a, b)
ResidualOK(samples, cfg, K, a, b, flag) == ResidualOKZ(samples, cfg, K, {}, a, b, flag)

=============================================================================
