------------------------------ MODULE TrimRules ------------------------------
(***************************************************************************)
(* Declarative meaning of a trimmed report for a kept set K (C05), shared  *)
(* by the model (Trim.tla) and the trace specification (TraceTrim.tla).    *)
(***************************************************************************)
EXTENDS ReportRules

Strip(es, K) == SelectSeq(es, LAMBDA x : x \in K)
TrimNodesD(samples, cfg, K) == { r \in NodeTableD(samples, cfg) : r.e \in K }
\* adjacency (a,b) in the stripped sequence; Bypass = some removed entry lies between them
AdjPos(es, K, a, b) ==
  { <<i, j>> \in (DOMAIN es) \X (DOMAIN es) :
      i < j /\ es[i] = a /\ es[j] = b /\ \A m \in (i + 1)..(j - 1) : es[m] \notin K }
TrimEdgeW(samples, cfg, K, a, b) ==
  SumOver(samples, cfg, LAMBDA s : AdjPos(Entries(s, cfg), K, a, b) # {}, W)
TrimEdgesD(samples, cfg, K) ==
  { [src |-> a, dst |-> b, w |-> TrimEdgeW(samples, cfg, K, a, b)] :
      <<a, b>> \in { p \in K \X K : p[1] # p[2] /\ \E i \in DOMAIN samples :
                        Counted(samples[i], cfg) /\ AdjPos(Entries(samples[i], cfg), K, p[1], p[2]) # {} } }
\* three-valued residual flag: TRUE if every contributing adjacency bypasses a removed entry,
\* FALSE if none does, otherwise either (the code decides by the first occurrence in each sample)
AllBypass(samples, cfg, K, a, b) ==
  \A i \in DOMAIN samples : Counted(samples[i], cfg) =>
     \A p \in AdjPos(Entries(samples[i], cfg), K, a, b) : p[2] > p[1] + 1
NoBypass(samples, cfg, K, a, b) ==
  \A i \in DOMAIN samples : Counted(samples[i], cfg) =>
     \A p \in AdjPos(Entries(samples[i], cfg), K, a, b) : p[2] = p[1] + 1
ResidualOK(samples, cfg, K, a, b, flag) ==
  /\ (AllBypass(samples, cfg, K, a, b) => flag)
  /\ (NoBypass(samples, cfg, K, a, b) => ~flag)

=============================================================================
