-------------------------------- MODULE Fetch --------------------------------
(***************************************************************************)
(* C16 - multi-source fetch merges whatever succeeded, independent of      *)
(* timing.  Two groups (sources, bases) run in parallel; each group is     *)
(* processed in chunks of ChunkSize; inside a chunk every source has its   *)
(* own goroutine: Start(g, i), Complete(g, i) - independently enabled, so  *)
(* TLC explores every completion order -, then the barrier, Collect (by    *)
(* index, errors reported and skipped), merge into the group's running     *)
(* result, next chunk; Decide when both groups are done                    *)
(* (internal/driver/fetch.go grabSourcesAndBases / chunkedGrab /           *)
(* concurrentGrab).  The outcome of every fetch is fixed up front (ok).    *)
(* Broken designs, rejected by TLC: "completionOrder" (results appended    *)
(* when a fetch completes), "emptyChunkFails" (a chunk in which every      *)
(* fetch failed aborts the group), "noBarrier" (collect when the first     *)
(* fetch of a chunk completes).                                            *)
(***************************************************************************)
EXTENDS Integers, Sequences, FiniteSets, TLC, SequencesExt, Json

CONSTANTS NSrc, NBase, ChunkSize, Emit, Broken

Groups == {"src", "base"}
N(g) == IF g = "src" THEN NSrc ELSE NBase
ChunkOf(i) == (i - 1) \div ChunkSize + 1
NChunks(g) == (N(g) + ChunkSize - 1) \div ChunkSize
Members(g, c) == {i \in 1..N(g) : ChunkOf(i) = c}

VARIABLES ok,        \* ok[g][i]: will this fetch succeed (fixed at the start)
          st,        \* st[g][i] \in {"idle", "running", "done"}
          chunk,     \* chunk[g]: the chunk being fetched (NChunks+1 = group finished)
          acc,       \* acc[g]: sources merged so far, in merge order
          errs,      \* errs[g]: sources reported as failed
          aborted,   \* aborted[g]: the group gave up with an error
          order,     \* history: the order in which fetches completed
          result     \* "pending" | "report" | "fail"
vars == <<ok, st, chunk, acc, errs, aborted, order, result>>

Init == /\ ok \in [Groups -> [1..3 -> BOOLEAN]] /\ \A g \in Groups : \A i \in 1..3 : i > N(g) => ok[g][i]
        /\ st = [g \in Groups |-> [i \in 1..3 |-> "idle"]]
        /\ chunk = [g \in Groups |-> 1] /\ acc = [g \in Groups |-> <<>>] /\ errs = [g \in Groups |-> <<>>]
        /\ aborted = [g \in Groups |-> FALSE] /\ order = <<>> /\ result = "pending"

Active(g) == chunk[g] <= NChunks(g) /\ ~aborted[g]
Start(g, i) == /\ Active(g) /\ i \in Members(g, chunk[g]) /\ st[g][i] = "idle"
               /\ st' = [st EXCEPT ![g][i] = "running"]
               /\ UNCHANGED <<ok, chunk, acc, errs, aborted, order, result>>
Complete(g, i) ==
  /\ Active(g) /\ st[g][i] = "running"
  /\ st' = [st EXCEPT ![g][i] = "done"]
  /\ order' = Append(order, <<g, i>>)
  /\ acc' = IF Broken = "completionOrder" /\ ok[g][i] THEN [acc EXCEPT ![g] = Append(@, i)] ELSE acc
  /\ UNCHANGED <<ok, chunk, errs, aborted, result>>
\* after the barrier: results collected by index, failures reported and skipped, chunk merged into the group
InOrder(S) == SetToSortSeq(S, <)
Collect(g) ==
  /\ Active(g)
  /\ IF Broken = "noBarrier" THEN \E i \in Members(g, chunk[g]) : st[g][i] = "done"
     ELSE \A i \in Members(g, chunk[g]) : st[g][i] = "done"
  /\ LET good == {i \in Members(g, chunk[g]) : ok[g][i] /\ st[g][i] = "done"}
         bad == {i \in Members(g, chunk[g]) : ~ok[g][i]} IN
     /\ acc' = IF Broken = "completionOrder" THEN acc ELSE [acc EXCEPT ![g] = @ \o InOrder(good)]
     /\ errs' = [errs EXCEPT ![g] = @ \o InOrder(bad)]
     /\ aborted' = IF Broken = "emptyChunkFails" /\ good = {} THEN [aborted EXCEPT ![g] = TRUE] ELSE aborted
  /\ chunk' = [chunk EXCEPT ![g] = @ + 1]
  /\ UNCHANGED <<ok, st, order, result>>
Finished(g) == chunk[g] > NChunks(g) \/ aborted[g]
Decide == /\ result = "pending" /\ Finished("src") /\ Finished("base")
          /\ result' = IF aborted["src"] \/ aborted["base"] \/ Len(acc["src"]) = 0 \/ (NBase > 0 /\ Len(acc["base"]) = 0) THEN "fail" ELSE "report"
          /\ (Emit => PrintT(ToJson([nsrc |-> NSrc, nbase |-> NBase, srcok |-> [i \in 1..NSrc |-> ok["src"][i]], baseok |-> [i \in 1..NBase |-> ok["base"][i]],
                                     order |-> [k \in DOMAIN order |-> [g |-> order[k][1], i |-> order[k][2]]]])))
          /\ UNCHANGED <<ok, st, chunk, acc, errs, aborted, order>>
Next == (\E g \in Groups : \E i \in 1..3 : Start(g, i) \/ Complete(g, i)) \/ (\E g \in Groups : Collect(g)) \/ Decide
Spec == Init /\ [][Next]_vars /\ WF_vars(Next)

\* ---- properties
Succeeded(g) == InOrder({i \in 1..N(g) : ok[g][i]})
Failed(g) == {i \in 1..N(g) : ~ok[g][i]}
ResultIsMergeOfSucceededInOrder == result # "pending" => \A g \in Groups : ~aborted[g] => acc[g] = Succeeded(g)
OneErrorPerFailure == result # "pending" => \A g \in Groups : ~aborted[g] => (ToSet(errs[g]) = Failed(g) /\ Len(errs[g]) = Cardinality(Failed(g)))
FailsIffGroupEmpty == result # "pending" => (result = "fail" <=> (Succeeded("src") = <<>> \/ (NBase > 0 /\ Succeeded("base") = <<>>)))
\* nothing is read before every goroutine of the chunk has finished
NoReadBeforeBarrier == \A g \in Groups : \A i \in 1..N(g) : (ChunkOf(i) < chunk[g]) => st[g][i] = "done"
Terminates == <>(result # "pending")
=============================================================================
