-------------------------------- MODULE Fetch --------------------------------
(***************************************************************************)
(* C16 - multi-source fetch merges whatever succeeded, independent of      *)
(* timing.  Two groups (sources, bases) run in parallel; each group is     *)
(* processed in chunks of ChunkSize; inside a chunk every source has its   *)
(* own goroutine: Start(g, i), Complete(g, i) - independently enabled, so  *)
(* TLC explores every completion order -, then the barrier, Collect (by    *)
(* index, errors reported and skipped), merge into the group's running     *)
(* result, next chunk; Decide when both groups are done                    *)
(* (internal/driver/fetch.go grabSourcesAndBases / chunkedGrab /           *)
(* concurrentGrab).                                                        *)
(* The outcome of a fetch is a function of the source and of the run's     *)
(* configuration, never of the schedule.  out[g][i] is the CLASS of the    *)
(* source, fixed up front:                                                 *)
(*   "ok"      delivers a profile (plug-in, readable profile file)         *)
(*   "fail"    fails by itself (plug-in error, invalid profile, missing or *)
(*             garbage file, error status with a useless body)             *)
(*   "errbody" a URL answered with a status other than 200 and a           *)
(*             well-formed profile as the body: a failed source            *)
(*   "remote"  a URL answered with 200 and a profile, fetched through the  *)
(*             transport all fetches of the run share; the transport's     *)
(*             one-time initialisation (the TLS files) succeeds or fails   *)
(*             for the whole run (tlsok): when it fails EVERY fetch that   *)
(*             goes through the transport fails, not only the one that     *)
(*             happened to run the initialisation                          *)
(* (internal/driver/fetch.go fetch / fetchURL,                             *)
(* internal/transport/transport.go RoundTrip).  Ok(g, i) is that function; *)
(* got[g][i] is what the fetch delivered when it completed.                *)
(* Broken designs, rejected by TLC: "completionOrder" (results appended    *)
(* when a fetch completes), "emptyChunkFails" (a chunk in which every      *)
(* fetch failed aborts the group), "noBarrier" (collect when the first     *)
(* fetch of a chunk completes), "initErrOnce" (only the fetch that runs    *)
(* the transport's initialisation sees its error, the later ones go        *)
(* through), "errBodyParsed" (the body of an error answer is parsed and,   *)
(* when it is a profile, taken).                                           *)
(***************************************************************************)
EXTENDS Integers, Sequences, FiniteSets, TLC, SequencesExt, Json

CONSTANTS NSrc, NBase, ChunkSize, Emit, Broken,
          Classes    \* "local": sources are "ok" / "fail"; "remote": "ok" / "errbody" / "remote", both transport set-ups; "all"

Groups == {"src", "base"}
N(g) == IF g = "src" THEN NSrc ELSE NBase
ChunkOf(i) == (i - 1) \div ChunkSize + 1
NChunks(g) == (N(g) + ChunkSize - 1) \div ChunkSize
Members(g, c) == {i \in 1..N(g) : ChunkOf(i) = c}

OutClasses == CASE Classes = "local" -> {"ok", "fail"} [] Classes = "remote" -> {"ok", "errbody", "remote"} [] OTHER -> {"ok", "fail", "errbody", "remote"}
ViaTransport == {"errbody", "remote"}

VARIABLES out,       \* out[g][i]: the class of the source (fixed at the start)
          tlsok,     \* does the one-time initialisation of the shared transport succeed (fixed at the start)
          got,       \* got[g][i]: did the completed fetch deliver a profile
          once,      \* has the transport's one-time initialisation been run
          st,        \* st[g][i] \in {"idle", "running", "done"}
          chunk,     \* chunk[g]: the chunk being fetched (NChunks+1 = group finished)
          acc,       \* acc[g]: sources merged so far, in merge order
          errs,      \* errs[g]: sources reported as failed
          aborted,   \* aborted[g]: the group gave up with an error
          order,     \* history: the order in which fetches completed
          result     \* "pending" | "report" | "fail"
vars == <<out, tlsok, got, once, st, chunk, acc, errs, aborted, order, result>>

\* the outcome as a function of the source and the configuration
Ok(g, i) == out[g][i] = "ok" \/ (out[g][i] = "remote" /\ tlsok)

Init == /\ out \in [Groups -> [1..3 -> OutClasses]] /\ \A g \in Groups : \A i \in 1..3 : i > N(g) => out[g][i] = "ok"
        \* a failing initialisation only matters to runs in which something goes through the transport
        /\ tlsok \in BOOLEAN /\ (tlsok \/ \E g \in Groups : \E i \in 1..N(g) : out[g][i] \in ViaTransport)
        /\ got = [g \in Groups |-> [i \in 1..3 |-> FALSE]] /\ once = FALSE
        /\ st = [g \in Groups |-> [i \in 1..3 |-> "idle"]]
        /\ chunk = [g \in Groups |-> 1] /\ acc = [g \in Groups |-> <<>>] /\ errs = [g \in Groups |-> <<>>]
        /\ aborted = [g \in Groups |-> FALSE] /\ order = <<>> /\ result = "pending"

Active(g) == chunk[g] <= NChunks(g) /\ ~aborted[g]
Start(g, i) == /\ Active(g) /\ i \in Members(g, chunk[g]) /\ st[g][i] = "idle"
               /\ st' = [st EXCEPT ![g][i] = "running"]
               /\ UNCHANGED <<out, tlsok, got, once, chunk, acc, errs, aborted, order, result>>
Delivered(g, i) == CASE Broken = "initErrOnce" /\ out[g][i] = "remote" /\ ~tlsok -> once     \* the error stays with the fetch that initialised
                     [] Broken = "errBodyParsed" /\ out[g][i] = "errbody" /\ tlsok -> TRUE                   \* the answer's body is taken
                     [] OTHER -> Ok(g, i)
Complete(g, i) ==
  /\ Active(g) /\ st[g][i] = "running"
  /\ st' = [st EXCEPT ![g][i] = "done"]
  /\ order' = Append(order, <<g, i>>)
  /\ got' = [got EXCEPT ![g][i] = Delivered(g, i)]
  /\ once' = (once \/ out[g][i] \in ViaTransport)
  /\ acc' = IF Broken = "completionOrder" /\ Delivered(g, i) THEN [acc EXCEPT ![g] = Append(@, i)] ELSE acc
  /\ UNCHANGED <<out, tlsok, chunk, errs, aborted, result>>
\* after the barrier: results collected by index, failures reported and skipped, chunk merged into the group
InOrder(S) == SetToSortSeq(S, <)
Collect(g) ==
  /\ Active(g)
  /\ IF Broken = "noBarrier" THEN \E i \in Members(g, chunk[g]) : st[g][i] = "done"
     ELSE \A i \in Members(g, chunk[g]) : st[g][i] = "done"
  /\ LET good == {i \in Members(g, chunk[g]) : got[g][i] /\ st[g][i] = "done"}
         bad == {i \in Members(g, chunk[g]) : ~got[g][i] /\ st[g][i] = "done"} IN
     /\ acc' = IF Broken = "completionOrder" THEN acc ELSE [acc EXCEPT ![g] = @ \o InOrder(good)]
     /\ errs' = [errs EXCEPT ![g] = @ \o InOrder(bad)]
     /\ aborted' = IF Broken = "emptyChunkFails" /\ good = {} THEN [aborted EXCEPT ![g] = TRUE] ELSE aborted
  /\ chunk' = [chunk EXCEPT ![g] = @ + 1]
  /\ UNCHANGED <<out, tlsok, got, once, st, order, result>>
Finished(g) == chunk[g] > NChunks(g) \/ aborted[g]
Decide == /\ result = "pending" /\ Finished("src") /\ Finished("base")
          /\ result' = IF aborted["src"] \/ aborted["base"] \/ Len(acc["src"]) = 0 \/ (NBase > 0 /\ Len(acc["base"]) = 0) THEN "fail" ELSE "report"
          /\ (Emit => PrintT(ToJson([nsrc |-> NSrc, nbase |-> NBase, srcout |-> [i \in 1..NSrc |-> out["src"][i]], baseout |-> [i \in 1..NBase |-> out["base"][i]], tlsok |-> tlsok,
                                     order |-> [k \in DOMAIN order |-> [g |-> order[k][1], i |-> order[k][2]]]])))
          /\ UNCHANGED <<out, tlsok, got, once, st, chunk, acc, errs, aborted, order>>
Next == (\E g \in Groups : \E i \in 1..3 : Start(g, i) \/ Complete(g, i)) \/ (\E g \in Groups : Collect(g)) \/ Decide
Spec == Init /\ [][Next]_vars /\ WF_vars(Next)

\* ---- properties
\* ---- all of them in terms of Ok: what a source delivers does not depend on which other fetches ran before it
Succeeded(g) == InOrder({i \in 1..N(g) : Ok(g, i)})
Failed(g) == {i \in 1..N(g) : ~Ok(g, i)}
ResultIsMergeOfSucceededInOrder == result # "pending" => \A g \in Groups : ~aborted[g] => acc[g] = Succeeded(g)
OneErrorPerFailure == result # "pending" => \A g \in Groups : ~aborted[g] => (ToSet(errs[g]) = Failed(g) /\ Len(errs[g]) = Cardinality(Failed(g)))
FailsIffGroupEmpty == result # "pending" => (result = "fail" <=> (Succeeded("src") = <<>> \/ (NBase > 0 /\ Succeeded("base") = <<>>)))
\* nothing is read before every goroutine of the chunk has finished
NoReadBeforeBarrier == \A g \in Groups : \A i \in 1..N(g) : (ChunkOf(i) < chunk[g]) => st[g][i] = "done"
Terminates == <>(result # "pending")
=============================================================================
