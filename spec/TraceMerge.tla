----------------------------- MODULE TraceMerge -----------------------------
(***************************************************************************)
(* Binding B for C03: validates executions of the REAL profile.Merge       *)
(* recorded by harness/c03 (one event per call, logged at return = the     *)
(* linearisation point of a sequential library call) against the           *)
(* declarative rules.  Events are fully logged, so validation is linear;   *)
(* a rejected event does not stop the run (bad accumulates line numbers).  *)
(***************************************************************************)
EXTENDS MergeRules, Json

Trace == ndJsonDeserialize("trace.ndjson")
VARIABLES l, bad

AllIn(e) == FlattenSeq(e.ins)
Accept(e) ==
  /\ e.op = "merge"
  /\ e.valid                                   \* result passes the validity contract
  /\ e.intact                                  \* inputs neither modified nor aliased
  /\ e.compact                                 \* compacting twice = compacting once, same bag
  /\ e.dups = 0                                \* nothing identical in every attribute left unmerged
  /\ BagSumA(e.out, 2) = BagSumA(AllIn(e), 2)  \* conservation per stack and label set
  /\ TotalsA(e.out, 2) = TotalsA(AllIn(e), 2)
  /\ \A i \in DOMAIN e.out : ~VecZero(e.out[i].vals)
  /\ e.hdr = HdrD(e.hdrs)                      \* header rules

Init == l = 1 /\ bad = {}
Step == /\ l <= Len(Trace)
        /\ l' = l + 1
        /\ bad' = IF Accept(Trace[l]) THEN bad ELSE bad \cup {l}
Report == /\ l = Len(Trace) + 1
          /\ PrintT(<<"VERIF-CONSUMED", l - 1>>)
          /\ PrintT(<<"VERIF-REJECTED", bad>>)
          /\ l' = l + 1 /\ UNCHANGED bad
Next == Step \/ Report
Spec == Init /\ [][Next]_<<l, bad>>
=============================================================================
