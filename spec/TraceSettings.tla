---------------------------- MODULE TraceSettings ----------------------------
(***************************************************************************)
(* C19, crash points of the REAL save path.  The trace is the sequence of  *)
(* system calls that the real /saveconfig handler issued on the settings   *)
(* directory, recorded with strace (open with O_TRUNC, create of a         *)
(* temporary file, writes, fsync, close, rename).  Every state of this     *)
(* specification is a possible crash point - after each system call, and   *)
(* in the middle of each write (a write may reach the disk partially) -    *)
(* and AtomicOnDisk demands that the target file holds the complete        *)
(* previous or the complete new contents in every one of them.             *)
(***************************************************************************)
EXTENDS Integers, Sequences, FiniteSets, TLC, Json
Trace == ndJsonDeserialize("trace.ndjson")
VARIABLES l, half, target, tmp, bad
\* target \in {"old", "empty", "partial", "new"}; tmp \in {"none", "empty", "partial", "full"}
Init == l = 1 /\ half = FALSE /\ target = "old" /\ tmp = "none" /\ bad = {}
Ev == Trace[l]
Step ==
  /\ l <= Len(Trace)
  /\ \/ /\ Ev.op = "open_trunc" /\ target' = "empty" /\ UNCHANGED <<tmp, half>> /\ l' = l + 1
     \/ /\ Ev.op = "create_tmp" /\ tmp' = "empty" /\ UNCHANGED <<target, half>> /\ l' = l + 1
     \/ /\ Ev.op = "write_target" /\ ~half /\ target' = "partial" /\ half' = TRUE /\ UNCHANGED <<tmp, l>>     \* the write in flight
     \/ /\ Ev.op = "write_target" /\ half /\ target' = (IF Ev.last THEN "new" ELSE "partial") /\ half' = FALSE /\ UNCHANGED tmp /\ l' = l + 1
     \/ /\ Ev.op = "write_tmp" /\ ~half /\ tmp' = "partial" /\ half' = TRUE /\ UNCHANGED <<target, l>>
     \/ /\ Ev.op = "write_tmp" /\ half /\ tmp' = (IF Ev.last THEN "full" ELSE "partial") /\ half' = FALSE /\ UNCHANGED target /\ l' = l + 1
     \/ /\ Ev.op = "rename" /\ target' = (IF tmp = "full" THEN "new" ELSE "partial") /\ tmp' = "none" /\ UNCHANGED half /\ l' = l + 1
     \/ /\ Ev.op \in {"close", "fsync", "mkdir", "read"} /\ UNCHANGED <<target, tmp, half>> /\ l' = l + 1
  /\ bad' = IF target' \in {"old", "new"} THEN bad ELSE bad \cup {l}
Report == /\ l = Len(Trace) + 1
          /\ PrintT(<<"VERIF-CONSUMED", l - 1>>) /\ PrintT(<<"VERIF-REJECTED", bad>>) /\ PrintT(<<"VERIF-FINAL", target>>)
          /\ l' = l + 1 /\ UNCHANGED <<half, target, tmp, bad>>
Next == Step \/ Report
Spec == Init /\ [][Next]_<<l, half, target, tmp, bad>>
\* checked as an invariant as well, so that TLC's own verdict agrees with the accumulated set
AtomicOnDisk == target \in {"old", "new"}
=============================================================================
