----------------------------- MODULE TraceReport -----------------------------
(***************************************************************************)
(* Binding B for C04: every event is one real `pprof -top` + `-tree` run   *)
(* on a random profile (harness/c04 randomDriver): the abstract samples,   *)
(* the configuration and the rows / edges / total read from the real       *)
(* output.  TLC recomputes the tables from the definition.                 *)
(***************************************************************************)
EXTENDS ReportRules, Json

Trace == ndJsonDeserialize("trace.ndjson")
VARIABLES l, bad

Accept(e) ==
  /\ e.op = "report"
  /\ Range(e.nodes) = ByName(NodeTableD(e.samples, e.cfg))
  /\ Range(e.edges) = EdgesByName(EdgeTableD(e.samples, e.cfg))
  /\ e.total = TotalD(e.samples, e.cfg)
  /\ e.shown = FoldSet(LAMBDA r, acc : acc + r.flat, 0, NodeTableD(e.samples, e.cfg))

Init == l = 1 /\ bad = {}
Step == /\ l <= Len(Trace)
        /\ l' = l + 1
        /\ bad' = IF Accept(Trace[l]) THEN bad ELSE bad \cup {l}
Report == /\ l = Len(Trace) + 1
          /\ PrintT(<<"VERIF-CONSUMED", l - 1>>)
          /\ PrintT(<<"VERIF-REJECTED", bad>>)
          /\ l' = l + 1 /\ UNCHANGED bad
Next == Step \/ Report
Spec == Init /\ [][Next]_<<l, bad>>
=============================================================================
