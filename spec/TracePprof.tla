----------------------------- MODULE TracePprof -----------------------------
(***************************************************************************)
(* Trace validation of WHOLE runs of the real driver.PProf against the     *)
(* machine of Pprof.tla.  The harness observes a run only at the plug-in   *)
(* boundaries and records, in the order they happened (one sequence        *)
(* number under one lock):                                                 *)
(*   config  the abstract content of every source and -base source (what   *)
(*           the Fetcher will answer), the profile's drop/keep frame rules *)
(*           - starts a new run                                            *)
(*   fetch   the Fetcher plug-in was called for a source                   *)
(*   sym     the Symbolizer plug-in was called; the samples it was given   *)
(*   assign  an option assignment line (or flag) was delivered             *)
(*   report  a report command was delivered; the rows read back from the   *)
(*           real output; af / ai = focus / ignore given as arguments      *)
(*   noop    a line the session rejects or ignores was delivered           *)
(*   error   driver.PProf returned an error                                *)
(*   end     driver.PProf returned normally                                *)
(* Each event must be a step of the machine from the current state; the    *)
(* conjuncts that fail are named (VERIF-WHY) and the run continues from    *)
(* the state the SPECIFICATION prescribes, so the rest is still checked.   *)
(***************************************************************************)
EXTENDS PprofRules, Json
Trace == ndJsonDeserialize("trace.ndjson")

VARIABLES l, bad, phase, srcs, bases, diff, rules, pending, prof, opts
vars == <<l, bad, phase, srcs, bases, diff, rules, pending, prof, opts>>

ToSetOf(seq) == {seq[i] : i \in DOMAIN seq}
Init == l = 1 /\ bad = {} /\ phase = "none" /\ srcs = <<>> /\ bases = <<>> /\ diff = FALSE /\ rules = [drop |-> {}, keep |-> {}] /\ pending = {} /\ prof = NoProf /\ opts = NoOpts

AnyOk == (\E i \in DOMAIN srcs : srcs[i].ok) /\ (bases = <<>> \/ \E i \in DOMAIN bases : bases[i].ok)   \* a run with -base needs one of them as well
\* arguments of a report command override the stored focus / ignore for that command only
Eff(o, e) == [o EXCEPT !.focus = IF Len(e.af) > 0 THEN ToSetOf(e.af) ELSE @, !.ignore = IF Len(e.ai) > 0 THEN ToSetOf(e.ai) ELSE @,
                       !.hide = IF Len(e.ah) > 0 THEN ToSetOf(e.ah) ELSE @,
                       !.g = IF e.ag = "" THEN @ ELSE e.ag,
                       !.tf = IF Len(e.atf) > 0 THEN ToSetOf(e.atf) ELSE @,
                       !.si = IF e.asi > 0 THEN e.asi ELSE @, !.rel = IF e.arel = "" THEN @ ELSE e.arel = "t"]
\* the named conjuncts of each kind of step; the state after the step
Checks(e) ==
  CASE e.ev = "config" -> [ previous_run_complete |-> phase \in {"none", "done", "error"} ]
    [] e.ev = "fetch"  -> [ in_fetch_phase |-> phase = "fetch",
                            once_per_source |-> e.src \in pending ]
    [] e.ev = "sym"    -> [ after_all_fetches |-> phase = "fetch" /\ pending = {},
                            something_fetched |-> AnyOk,
                            merged_is_bag_sum |-> SameBag(BagOfSamples(e.samples), CombinedOf(srcs, bases, diff)) ]
    [] e.ev = "assign" -> [ in_session |-> phase = "session" ]
    [] e.ev = "report" -> LET o == Eff(opts, e) IN
                          [ in_session |-> phase = "session",
                            rows_from_pristine_profile |->
                               IF e.kind \in {"top", "tree"}
                               THEN /\ \A i \in DOMAIN e.rows : \E r \in TopRows(prof, o) : r.fn = e.rows[i].fn /\ r.flat = e.rows[i].flat /\ r.cum = e.rows[i].cum
                                    /\ \A r \in TopRows(prof, o) : (r.rawflat # 0 \/ r.rawcum # 0) => \E i \in DOMAIN e.rows : e.rows[i].fn = r.fn
                               ELSE ToSetOf(e.stacks) = TraceRows(prof, o) /\ Len(e.stacks) = Cardinality(TraceRows(prof, o)),
                            edges_from_pristine_profile |-> e.kind = "tree" =>
                               (ToSetOf(e.edges) = TreeEdges(prof, o) /\ Len(e.edges) = Cardinality(TreeEdges(prof, o))),
                            total |-> e.kind \in {"top", "tree"} /\ e.hastotal => e.total = Total(prof, o) ]
    [] e.ev = "noop"   -> [ in_session |-> phase = "session" ]
    [] e.ev = "error"  -> [ only_if_nothing_fetched |-> phase = "fetch" /\ pending = {} /\ ~AnyOk ]
    [] e.ev = "end"    -> [ session_was_reached |-> phase = "session" ]
    [] OTHER           -> [ known_event |-> FALSE ]
Failed(e) == LET p == Checks(e) IN {f \in DOMAIN p : ~p[f]}

ApplyAssign(o, e) == CASE e.opt = "focus"  -> [o EXCEPT !.focus = ToSetOf(e.names)]
                       [] e.opt = "ignore" -> [o EXCEPT !.ignore = ToSetOf(e.names)]
                       [] e.opt = "hide"   -> [o EXCEPT !.hide = ToSetOf(e.names)]
                       [] e.opt = "show"   -> [o EXCEPT !.show = ToSetOf(e.names)]
                       [] e.opt = "tf"     -> [o EXCEPT !.tf = ToSetOf(e.names)]
                       [] e.opt = "ti"     -> [o EXCEPT !.ti = ToSetOf(e.names)]
                       [] e.opt = "g"      -> [o EXCEPT !.g = e.text]
                       [] e.opt = "mean"   -> [o EXCEPT !.mean = e.b]
                       [] e.opt = "si"     -> [o EXCEPT !.si = e.n]
                       [] e.opt = "rel"    -> [o EXCEPT !.rel = e.b]
                       [] OTHER -> o
Step ==
  /\ l <= Len(Trace) /\ l' = l + 1
  /\ LET e == Trace[l]  fl == Failed(e) IN
       /\ bad' = IF fl = {} THEN bad ELSE bad \cup {l}
       /\ (IF fl = {} THEN TRUE ELSE PrintT(<<"VERIF-WHY", l, fl>>))
       /\ CASE e.ev = "config" -> /\ phase' = "fetch" /\ srcs' = e.srcs /\ bases' = e.bases /\ diff' = e.diff
                                  /\ rules' = [drop |-> ToSetOf(e.drop), keep |-> ToSetOf(e.keep)]
                                  /\ pending' = {e.srcs[i].name : i \in DOMAIN e.srcs} \cup {e.bases[i].name : i \in DOMAIN e.bases}
                                  /\ prof' = NoProf /\ opts' = NoOpts
            [] e.ev = "fetch"  -> pending' = pending \ {e.src} /\ UNCHANGED <<phase, srcs, bases, diff, rules, prof, opts>>
            \* symbolize, then (silently) the profile's own frame-dropping rules: the session works on the pruned profile
            [] e.ev = "sym"    -> /\ phase' = "session" /\ prof' = Prof(CombinedOf(srcs, bases, diff), rules.drop, rules.keep) /\ pending' = {}
                                  /\ UNCHANGED <<srcs, bases, diff, rules, opts>>
            [] e.ev = "assign" -> opts' = ApplyAssign(opts, e) /\ UNCHANGED <<phase, srcs, bases, diff, rules, pending, prof>>
            [] e.ev \in {"report", "noop"} -> UNCHANGED <<phase, srcs, bases, diff, rules, pending, prof, opts>>   \* a report, a rejected or an ignored line change nothing
            [] e.ev = "error"  -> phase' = "error" /\ UNCHANGED <<srcs, bases, diff, rules, pending, prof, opts>>
            [] e.ev = "end"    -> phase' = "done" /\ UNCHANGED <<srcs, bases, diff, rules, pending, prof, opts>>
            [] OTHER           -> UNCHANGED <<phase, srcs, bases, diff, rules, pending, prof, opts>>
Report == /\ l = Len(Trace) + 1
          /\ PrintT(<<"VERIF-CONSUMED", l - 1>>) /\ PrintT(<<"VERIF-REJECTED", bad>>)
          /\ l' = l + 1 /\ UNCHANGED <<bad, phase, srcs, bases, diff, rules, pending, prof, opts>>
Next == Step \/ Report
Spec == Init /\ [][Next]_vars
=============================================================================
