SPECIFICATION Spec
CONSTANTS
  Tier = "quick"
  Emit = FALSE
  Broken = "none"
INVARIANTS MechanismMeetsDefinition RootSideUntouched NeverEmpties CountsValuesLabelsKept NoExprIsIdentity
CHECK_DEADLOCK FALSE
