SPECIFICATION Spec
CONSTANTS
  Tier = "quick"
  Emit = FALSE
  SharedWork = FALSE
  PersistArgs = FALSE
INVARIANTS OutputDependsOnlyOn
PROPERTIES PristineNeverChanges ArgsDoNotPersist
CHECK_DEADLOCK FALSE
