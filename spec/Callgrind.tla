------------------------------ MODULE Callgrind ------------------------------
(***************************************************************************)
(* C18 - the callgrind output obeys the name-compression grammar: a line   *)
(* is a header, blank, a keyword line "kw=(n) name" (definition) or        *)
(* "kw=(n)" (back-reference) or "kw=" (empty), a calls line or a cost      *)
(* line - nothing else (a raw newline in a name would break this);         *)
(* every back-reference "(n)" was defined earlier in its name space and no *)
(* id is defined twice; positions are absolute, or relative to the         *)
(* previous entry's address ("+n", "-n", "*") and decode to an address of  *)
(* the profile.  One state per line; the trace is the real -callgrind      *)
(* output tokenised by the harness.                                        *)
(***************************************************************************)
EXTENDS Integers, Sequences, FiniteSets, TLC, Json
Trace == ndJsonDeserialize("trace.ndjson")
VARIABLES d, i, defs, prevAddr, curAddr, afterCalls, why, bad
vars == <<d, i, defs, prevAddr, curAddr, afterCalls, why, bad>>
NS(k) == CASE k \in {"ob", "cob"} -> "obj" [] k \in {"fl", "cfl", "fi", "fe"} -> "file" [] OTHER -> "fn"
Init == d = 1 /\ i = 1 /\ defs = {} /\ prevAddr = 0 - 1 /\ curAddr = 0 - 1 /\ afterCalls = FALSE /\ why = {} /\ bad = {}
Doc == Trace[d].lines
ToSetAddrs == {Trace[d].addrs[k] : k \in DOMAIN Trace[d].addrs}
Decode(base, pt, pv) == CASE pt = "abs" -> pv [] pt = "rel" -> base + pv [] pt = "same" -> base [] OTHER -> 0 - 1
Line ==
  /\ d <= Len(Trace) /\ i <= Len(Doc)
  /\ LET ln == Doc[i] IN
     CASE ln.k \in {"hdr", "blank"} -> UNCHANGED <<defs, prevAddr, curAddr, afterCalls, why>>
       [] ln.k = "other" -> why' = why \cup {"GrammarLine"} /\ UNCHANGED <<defs, prevAddr, curAddr, afterCalls>>
       [] ln.k \in {"ob", "fl", "fn", "cfl", "cfn", "fi", "fe", "cob"} ->
            /\ IF ln.id = 0 THEN UNCHANGED <<defs, why>>                                    \* "kw=" for an empty name
               ELSE IF ln.name # ""
                    THEN /\ why' = IF \E x \in defs : x[1] = NS(ln.k) /\ x[2] = ln.id THEN why \cup {"IdDefinedTwice"}
                                   ELSE IF \E x \in defs : x[1] = NS(ln.k) /\ x[3] = ln.name THEN why \cup {"NameDefinedTwice"} ELSE why
                         /\ defs' = defs \cup {<<NS(ln.k), ln.id, ln.name>>}
                    ELSE /\ why' = IF \E x \in defs : x[1] = NS(ln.k) /\ x[2] = ln.id THEN why ELSE why \cup {"BackRefDefinedEarlier"}
                         /\ UNCHANGED defs
            /\ UNCHANGED <<prevAddr, curAddr, afterCalls>>
       [] ln.k = "calls" ->        \* target position, relative to the previous entry like the entry's own position
            /\ why' = IF ln.pt = "abs" \/ prevAddr >= 0 THEN
                        (IF Decode(prevAddr, ln.pt, ln.pv) \in ToSetAddrs THEN why ELSE why \cup {"CallTargetDecodes"})
                      ELSE why \cup {"RelativeWithoutBase"}
            /\ afterCalls' = TRUE /\ UNCHANGED <<defs, prevAddr, curAddr>>
       [] ln.k = "cost" ->
            IF afterCalls
            THEN /\ afterCalls' = FALSE /\ UNCHANGED <<defs, prevAddr, curAddr, why>>       \* the "* * n" line of a call
            ELSE \* an entry's own cost line: its position (and the targets of its calls) are relative to the PREVIOUS entry
                 LET a == Decode(curAddr, ln.pt, ln.pv) IN
                 /\ why' = IF ln.pt # "abs" /\ curAddr < 0 THEN why \cup {"RelativeWithoutBase"}
                           ELSE IF a \in ToSetAddrs THEN why ELSE why \cup {"PositionDecodesToNodeAddress"}
                 /\ prevAddr' = curAddr /\ curAddr' = a /\ UNCHANGED <<defs, afterCalls>>
       [] OTHER -> UNCHANGED <<defs, prevAddr, curAddr, afterCalls, why>>
  /\ i' = i + 1 /\ UNCHANGED <<d, bad>>
EndDoc == /\ d <= Len(Trace) /\ i = Len(Doc) + 1
          /\ bad' = IF why = {} THEN bad ELSE bad \cup {d}
          /\ (IF why = {} THEN TRUE ELSE PrintT(<<"VERIF-WHY", d, why>>))
          /\ d' = d + 1 /\ i' = 1 /\ defs' = {} /\ prevAddr' = 0 - 1 /\ curAddr' = 0 - 1 /\ afterCalls' = FALSE /\ why' = {}
Report == /\ d = Len(Trace) + 1
          /\ PrintT(<<"VERIF-CONSUMED", d - 1>>) /\ PrintT(<<"VERIF-REJECTED", bad>>)
          /\ d' = d + 1 /\ UNCHANGED <<i, defs, prevAddr, curAddr, afterCalls, why, bad>>
Next == Line \/ EndDoc \/ Report
Spec == Init /\ [][Next]_vars
=============================================================================
