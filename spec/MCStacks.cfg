SPECIFICATION Spec
CONSTANTS
  Tier = "quick"
  Emit = FALSE
  Broken = "none"
INVARIANTS MechanismMeetsDefinition ValuesSumToSignedTotal
CHECK_DEADLOCK FALSE
