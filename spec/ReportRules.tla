----------------------------- MODULE ReportRules -----------------------------
(***************************************************************************)
(* Entry identity per granularity and the declarative report tables of     *)
(* C04 (flat / cum / edge / total / call tree), shared by the model        *)
(* (Report.tla), the trim model (Trim.tla) and the trace specifications.   *)
(***************************************************************************)
EXTENDS ProfileModel

\* ------------------------------------------------------------- entries
NoAddr == [m |-> 0, r |-> 0]
GFlags(cfg) ==
  CASE cfg.gran = "functions"     -> [fn |-> TRUE,  file |-> FALSE, line |-> FALSE, col |-> FALSE, addr |-> FALSE]
    [] cfg.gran = "filefunctions" -> [fn |-> TRUE,  file |-> TRUE,  line |-> FALSE, col |-> FALSE, addr |-> FALSE]
    [] cfg.gran = "files"         -> [fn |-> FALSE, file |-> TRUE,  line |-> FALSE, col |-> FALSE, addr |-> FALSE]
    [] cfg.gran = "lines"         -> [fn |-> TRUE,  file |-> TRUE,  line |-> TRUE,  col |-> FALSE, addr |-> FALSE]
    \* show_columns ("+cols"): the column is part of an entry only where the line is; coarser granularities drop both
    [] cfg.gran = "lines+cols"     -> [fn |-> TRUE,  file |-> TRUE,  line |-> TRUE,  col |-> TRUE,  addr |-> FALSE]
    [] cfg.gran = "functions+cols" -> [fn |-> TRUE,  file |-> FALSE, line |-> FALSE, col |-> FALSE, addr |-> FALSE]
    [] cfg.gran = "files+cols"     -> [fn |-> FALSE, file |-> TRUE,  line |-> FALSE, col |-> FALSE, addr |-> FALSE]
    [] cfg.gran = "addresses" /\ cfg.noinl
                                  -> [fn |-> TRUE,  file |-> TRUE,  line |-> TRUE,  col |-> FALSE, addr |-> TRUE]
    [] OTHER                      -> [fn |-> TRUE,  file |-> TRUE,  line |-> TRUE,  col |-> TRUE,  addr |-> TRUE]  \* no aggregation

\* the entry a (location, line) pair maps to
EntryOfLine(l, ln, cfg) ==
  LET g == GFlags(cfg)
      name == IF g.fn THEN ln.fn.name ELSE ""
      anon == name = ""
  IN [ name |-> name,
       file |-> IF g.file THEN ln.fn.file ELSE "",
       line |-> IF g.line THEN ln.line ELSE 0,
       col  |-> IF g.col THEN ln.col ELSE 0,
       addr |-> IF g.addr /\ ~l.map.nil THEN [m |-> l.map.start, r |-> l.rel] ELSE NoAddr,
       obj  |-> IF anon THEN l.map.file ELSE "",
       start |-> IF anon THEN ln.fn.start ELSE 0 ]
\* a location without line information
EntryOfBare(l, cfg) ==
  [ name |-> "", file |-> "", line |-> 0, col |-> 0,
    addr |-> IF GFlags(cfg).addr THEN [m |-> l.map.start, r |-> l.rel] ELSE NoAddr,
    obj |-> l.map.file, start |-> 0 ]
\* entries of one location, ROOT side first; noinlines keeps the outermost (last) line only
LocEntries(l, cfg) ==
  IF Len(l.lines) = 0 THEN <<EntryOfBare(l, cfg)>>
  ELSE IF cfg.noinl
       THEN <<EntryOfLine(l, l.lines[Len(l.lines)], cfg)>>
       ELSE [i \in 1..Len(l.lines) |-> EntryOfLine(l, l.lines[Len(l.lines) + 1 - i], cfg)]

\* pseudo frames from labels: function name = the label's values joined by ",", file name = key
JoinComma(v) == IF Len(v) = 0 THEN "" ELSE FoldLeft(LAMBDA acc, x : acc \o "," \o x, v[1], Tail(v))
LabelValues(s, k) == IF \E i \in DOMAIN s.lab : s.lab[i].k = k
                     THEN s.lab[CHOOSE i \in DOMAIN s.lab : s.lab[i].k = k].v ELSE <<>>
TagLoc(s, k) == Loc(NoMap, 0, <<Ln(Fn(JoinComma(LabelValues(s, k)), "", k, 0), 0, 0)>>, FALSE)
\* first root key is outermost; last leaf key is innermost
TagRootEntries(s, cfg) == [i \in 1..Len(cfg.troot) |-> LocEntries(TagLoc(s, cfg.troot[i]), cfg)[1]]
TagLeafEntries(s, cfg) == [i \in 1..Len(cfg.tleaf) |-> LocEntries(TagLoc(s, cfg.tleaf[i]), cfg)[1]]

\* the sample's entries ROOT -> LEAF
Entries(s, cfg) ==
  TagRootEntries(s, cfg)
  \o FlattenSeq([i \in 1..Len(s.locs) |-> LocEntries(s.locs[Len(s.locs) + 1 - i], cfg)])
  \o TagLeafEntries(s, cfg)

W(s, cfg) == s.vals[cfg.si]
D(s, cfg) == IF cfg.mean THEN s.vals[1] ELSE 0
Counted(s, cfg) == ~(W(s, cfg) = 0 /\ D(s, cfg) = 0)    \* samples with no weight at all are skipped

\* ------------------------------------------------------------- declarative
SumOver(samples, cfg, P(_), V(_, _)) ==
  FoldFunction(LAMBDA s, acc : IF Counted(s, cfg) /\ P(s) THEN acc + V(s, cfg) ELSE acc, 0, samples)
Leaf(es) == es[Len(es)]
Adjacent(es, a, b) == \E i \in 1..(Len(es) - 1) : es[i] = a /\ es[i + 1] = b
MeanOf(sum, div) == IF div = 0 THEN sum ELSE TruncDiv(sum, div)

AllEntries(samples, cfg) == UNION {Range(Entries(samples[i], cfg)) : i \in DOMAIN samples}
FlatD(samples, cfg, e, V(_, _)) ==
  SumOver(samples, cfg, LAMBDA s : Len(Entries(s, cfg)) > 0 /\ Leaf(Entries(s, cfg)) = e, V)
CumD(samples, cfg, e, V(_, _)) ==
  SumOver(samples, cfg, LAMBDA s : e \in Range(Entries(s, cfg)), V)
EdgeD(samples, cfg, a, b, V(_, _)) ==
  SumOver(samples, cfg, LAMBDA s : Adjacent(Entries(s, cfg), a, b), V)

NodeTableD(samples, cfg) ==
  { r \in { [e |-> e,
             flat |-> MeanOf(FlatD(samples, cfg, e, W), FlatD(samples, cfg, e, D)),
             cum  |-> MeanOf(CumD(samples, cfg, e, W), CumD(samples, cfg, e, D)),
             rawflat |-> FlatD(samples, cfg, e, W), rawcum |-> CumD(samples, cfg, e, W)] :
             e \in AllEntries(samples, cfg) } :
      ~(r.rawflat = 0 /\ r.rawcum = 0) }               \* entries with no weight are not shown
EdgeTableD(samples, cfg) ==
  LET shown == {r.e : r \in NodeTableD(samples, cfg)} IN
  { r \in { [src |-> a, dst |-> b,
             w |-> MeanOf(EdgeD(samples, cfg, a, b, W), EdgeD(samples, cfg, a, b, D)),
             raw |-> EdgeD(samples, cfg, a, b, W)] :
             a \in shown, b \in shown } :
      r.src # r.dst /\ \E i \in DOMAIN samples : Counted(samples[i], cfg) /\ Adjacent(Entries(samples[i], cfg), r.src, r.dst) }
TotalD(samples, cfg) ==
  LET t == FoldFunction(LAMBDA s, acc : acc + AbsI(W(s, cfg)), 0, samples)
      d == FoldFunction(LAMBDA s, acc : acc + D(s, cfg), 0, samples)
  IN MeanOf(t, d)

\* call tree: one node per distinct root->leaf prefix
NonEmptyPrefixes(es) == {SubSeq(es, 1, n) : n \in 1..Len(es)}
AllPaths(samples, cfg) == UNION {NonEmptyPrefixes(Entries(samples[i], cfg)) : i \in DOMAIN samples}
IsPrefix2(p, es) == Len(p) <= Len(es) /\ SubSeq(es, 1, Len(p)) = p
TreeTableD(samples, cfg) ==
  { r \in { [path |-> p,
             flat |-> MeanOf(SumOver(samples, cfg, LAMBDA s : Entries(s, cfg) = p, W),
                             SumOver(samples, cfg, LAMBDA s : Entries(s, cfg) = p, D)),
             cum  |-> MeanOf(SumOver(samples, cfg, LAMBDA s : IsPrefix2(p, Entries(s, cfg)), W),
                             SumOver(samples, cfg, LAMBDA s : IsPrefix2(p, Entries(s, cfg)), D)),
             rawcum |-> SumOver(samples, cfg, LAMBDA s : IsPrefix2(p, Entries(s, cfg)), W),
             rawflat |-> SumOver(samples, cfg, LAMBDA s : Entries(s, cfg) = p, W)] :
             p \in AllPaths(samples, cfg) } :
      ~(r.rawflat = 0 /\ r.rawcum = 0) }


\* ------------------------------------------------------------- printable names
\* graph.NodeInfo.PrintableName for entries without an address (used by trace validation,
\* where observed rows are keyed by the name pprof printed)
PName(e) ==
  LET fn == IF e.name # "" THEN e.name ELSE ""
      loc == IF e.line # 0
             THEN e.file \o ":" \o ToString(e.line) \o (IF e.col # 0 THEN ":" \o ToString(e.col) ELSE "")
             ELSE IF e.file # "" THEN e.file
             ELSE IF e.name # "" THEN ""
             ELSE IF e.obj # "" THEN "[" \o e.obj \o "]"
             ELSE "<unknown>"
  IN IF fn # "" /\ loc # "" THEN fn \o " " \o loc ELSE fn \o loc
\* tables keyed by printable name (entries that print alike are added up)
ByName(rows) ==
  { [name |-> n,
     flat |-> FoldSet(LAMBDA r, acc : IF PName(r.e) = n THEN acc + r.flat ELSE acc, 0, rows),
     cum  |-> FoldSet(LAMBDA r, acc : IF PName(r.e) = n THEN acc + r.cum ELSE acc, 0, rows)] :
      n \in {PName(r.e) : r \in rows} }
EdgesByName(rows) ==
  { [src |-> p[1], dst |-> p[2],
     w |-> FoldSet(LAMBDA r, acc : IF <<PName(r.src), PName(r.dst)>> = p THEN acc + r.w ELSE acc, 0, rows)] :
      p \in {<<PName(r.src), PName(r.dst)>> : r \in rows} }
=============================================================================
