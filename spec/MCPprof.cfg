SPECIFICATION Spec
CONSTANTS
  Broken = "none"
INVARIANTS ReportsFromPristine SymAfterAllFetches SymOnce ErrorOnlyIfNothingFetched RowsConsistent
PROPERTIES PristineNeverChanges
CHECK_DEADLOCK FALSE
