----------------------------- MODULE CliGrammar -----------------------------
(***************************************************************************)
(* C09, generator side for the command line: odd-profile classes x report  *)
(* commands x option/value classes.  Every (profile, command, option)      *)
(* triple is a terminal state; the harness renders it into a real profile  *)
(* and a real command line.  The only accepted outcomes are "output" and   *)
(* "error"; "panic", "hang" and "abnormal exit" are outcomes no state of   *)
(* this specification allows (StaysUsable).                                *)
(***************************************************************************)
EXTENDS Integers, Sequences, FiniteSets, TLC, Json

CONSTANTS Tier, Emit

ProfileClasses == {"plain", "buildid0", "buildid1", "buildid2", "buildid3", "emptynames", "hugeids", "emptylabelkey", "edgeaddresses",
                   "nomappings", "nosamples", "negativevalues", "nofunctions", "nilmapping", "weirdstrings", "zerovalues", "extremevalues", "partialunits",
                   "zerocount", "oddlines"}
\* "...@addr": the argument is the address of the first location of the profile instead of a regular expression
Commands == {"top", "tree", "dot", "tags", "traces", "raw", "callgrind", "list", "disasm", "weblist", "peek", "proto", "topproto", "svg", "comments", "text",
             "list@addr", "weblist@addr", "disasm@addr", "peek@addr"}
RegexFlags == {"focus", "ignore", "hide", "show", "show_from", "tagshow", "taghide", "prune_from", "tagroot", "tagleaf"}
RegexVals == {"f", "(", "", ".*", "[", "a**", "\\", "(?i)F", "f|", "^$"}
TagVals == {"k", "-9223372036854775808:", ":9223372036854775807", "-9223372036854775808", "1:", ":1", "1mb:2gb", "99999999999999999999", "1:99999999999999999999", "1xyz:2", "-5:", "1:2:3", "bytes=1:2", "=:", "k=", "=x", "1mb:2s", "0:0", ","}
NumFlags == {"nodecount", "nodefraction", "edgefraction", "divide_by"}
NumVals == {"0", "-1", "-2", "-7", "1", "999999999999", "0.5", "2", "NaN", "1e999", "-0", "1e-300", "Inf", "abc", ""}
OtherOpts == { <<"sample_index", v>> : v \in {"0", "1", "5", "-1", "s1", "nosuch", ""} }
         \cup { <<"unit", v>> : v \in {"", "ms", "parsecs", "auto", "minimum", "B", "MB"} }
         \cup { <<"symbolize", v>> : v \in {"none", "local", "remote", "force", "fastlocal", "demangle=none", "demangle=bogus", "bogus", "force:remote:demangle=full", ""} }
         \cup { <<"tools", v>> : v \in {"bogus", "nm:/nonexistent", ":::"} }
         \cup { <<"buildid", v>> : v \in {"", "a", "ab", "abc"} }
         \cup { <<"add_comment", v>> : v \in {"", "x\ny"} }
         \cup { <<"source_path", "/nonexistent">>, <<"trim_path", "/x:/y">>, <<"trim_path", "a.c">>, <<"trim_path", "/a::/b">>, <<"trim_path", ":">>, <<"trim_path", "/">>, <<"mean", "true">>, <<"call_tree", "true">>, <<"drop_negative", "true">>,
                <<"relative_percentages", "true">>, <<"noinlines", "true">>, <<"showcolumns", "true">>, <<"compact_labels", "true">>, <<"intel_syntax", "true">>,
                <<"lines", "true">>, <<"files", "true">>, <<"addresses", "true">>, <<"filefunctions", "true">>, <<"cum", "true">> }
Options == { <<f, v>> : f \in RegexFlags, v \in RegexVals }
           \cup { <<f, v>> : f \in {"tagfocus", "tagignore"}, v \in TagVals }
           \cup { <<f, v>> : f \in NumFlags, v \in NumVals }
           \cup OtherOpts \cup { <<"", "">> }

\* the options that change which arithmetic a report does: combined with every profile class in the quick tier as well
ShapeOpts == { <<"trim_path", "/a::/b">>, <<"call_tree+nodecount", "1">>, <<"call_tree+nodecount", "2">>, <<"noinlines+hide", "f">>, <<"mean", "true">>, <<"call_tree", "true">>, <<"drop_negative", "true">>, <<"noinlines", "true">>, <<"lines", "true">>, <<"addresses", "true">>, <<"cum", "true">> }

VARIABLES pc, prof, cmd, opt
vars == <<pc, prof, cmd, opt>>
Init == pc = "start" /\ prof = "" /\ cmd = "" /\ opt = <<"", "">>
\* quick: every option with the plain profile and every command; every profile class with every command and shape option
Choose == /\ pc = "start"
          /\ \/ (\E c \in Commands, o \in Options : prof' = "plain" /\ cmd' = c /\ opt' = o)
             \/ (\E p \in ProfileClasses, c \in Commands : prof' = p /\ cmd' = c /\ opt' = <<"", "">>)
             \/ (\E p \in ProfileClasses, c \in Commands, o \in ShapeOpts : prof' = p /\ cmd' = c /\ opt' = o)
             \/ (Tier = "thorough" /\ \E p \in ProfileClasses, c \in {"top", "dot", "tags", "traces", "list"}, o \in Options : prof' = p /\ cmd' = c /\ opt' = o)
          /\ pc' = "run"
Outcomes == {"output", "error"}
Finish == /\ pc = "run" /\ pc' = "end"
          /\ (Emit => PrintT(ToJson([prof |-> prof, cmd |-> cmd, flag |-> opt[1], val |-> opt[2]])))
          /\ UNCHANGED <<prof, cmd, opt>>
Next == Choose \/ Finish
Spec == Init /\ [][Next]_vars
TypeOK == pc \in {"start", "run", "end"} /\ (pc # "start" => prof \in ProfileClasses /\ cmd \in Commands)
=============================================================================
