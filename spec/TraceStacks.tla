----------------------------- MODULE TraceStacks -----------------------------
(***************************************************************************)
(* Binding B for C17: each event is the JSON the real report.Stacks()      *)
(* (direct, and as embedded in the /flamegraph page) produced for a        *)
(* profile, with the abstract samples it came from; TLC evaluates every    *)
(* cross-referential invariant of StacksRules on it.                       *)
(***************************************************************************)
EXTENDS StacksRules, Json
Trace == ndJsonDeserialize("trace.ndjson")
VARIABLES l, bad
Init == l = 1 /\ bad = {}
Step == /\ l <= Len(Trace) /\ l' = l + 1
        /\ LET fl == StackSetFailed(Trace[l]) IN
             /\ bad' = IF fl = {} THEN bad ELSE bad \cup {l}
             /\ (IF fl = {} THEN TRUE ELSE PrintT(<<"VERIF-WHY", l, fl>>))
Report == /\ l = Len(Trace) + 1
          /\ PrintT(<<"VERIF-CONSUMED", l - 1>>) /\ PrintT(<<"VERIF-REJECTED", bad>>)
          /\ l' = l + 1 /\ UNCHANGED bad
Next == Step \/ Report
Spec == Init /\ [][Next]_<<l, bad>>
=============================================================================
