SPECIFICATION Spec
CONSTANTS
  Tier = "quick"
  Broken = "none"
INVARIANTS ShownKeepNumbers NothingElseShown EdgeWeights NonResidualKeepsWeight Accounting
CHECK_DEADLOCK FALSE
