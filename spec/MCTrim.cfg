SPECIFICATION Spec
CONSTANTS
  Tier = "quick"
  Broken = "none"
  Emit = FALSE
INVARIANTS ShownKeepNumbers NothingElseShown EdgeWeights NonResidualKeepsWeight Accounting
CHECK_DEADLOCK FALSE
