------------------------------- MODULE Session -------------------------------
(***************************************************************************)
(* C10 (each interactive command or web request sees the pristine profile) *)
(* and C09 (no typed line crashes pprof; the session stays usable).        *)
(*                                                                         *)
(* State: cfg - the PERSISTENT option store; pristine - the loaded profile *)
(* (abstract token); work - the per-command copy, which report generation  *)
(* really does mutate (filter, prune, aggregate, label removal: modelled   *)
(* as the set of mutation marks it leaves); outs - the history variable:   *)
(* for every command the pair (effective options, profile it ran on).      *)
(* Actions (internal/driver/interactive.go): Assign(opt, v) - the only way *)
(* cfg changes; Command(c, args) = NewCopy ; ApplyArgs to a COPY of cfg ;  *)
(* Generate (mutates work); BadLine - any line the grammar rejects: an     *)
(* error is reported and nothing changes.                                  *)
(* SharedWork = TRUE is the broken design (reports run on the shared       *)
(* profile); PersistArgs = TRUE lets command arguments leak into cfg. TLC  *)
(* must reject both (vacuity guards).                                      *)
(***************************************************************************)
EXTENDS Integers, Sequences, FiniteSets, TLC, Json

CONSTANTS Tier, Emit, SharedWork, PersistArgs

\* ---- the line grammar.  kind: "assign" (persists), "command" (report; args apply to it only),
\*      "bad" (rejected: error, no effect), "noop" (accepted, no effect on later output)
Lines ==
  << [kind |-> "command", line |-> "top",            opt |-> "", val |-> ""],
     [kind |-> "command", line |-> "top f -g",       opt |-> "", val |-> ""],      \* focus f, ignore g for this command only
     [kind |-> "command", line |-> "top 1",          opt |-> "", val |-> ""],      \* node count 1 for this command only
     [kind |-> "command", line |-> "top -cum",       opt |-> "", val |-> ""],
     [kind |-> "command", line |-> "tags k",         opt |-> "", val |-> ""],      \* tagfocus for this command only
     [kind |-> "command", line |-> "peek g",         opt |-> "", val |-> ""],
     [kind |-> "command", line |-> "traces",         opt |-> "", val |-> ""],
     [kind |-> "command", line |-> "tree h",         opt |-> "", val |-> ""],
     [kind |-> "command", line |-> "top10 -f",       opt |-> "", val |-> ""],
     [kind |-> "command", line |-> "raw",            opt |-> "", val |-> ""],
     [kind |-> "assign",  line |-> "focus=g",        opt |-> "focus", val |-> "g"],
     [kind |-> "assign",  line |-> "focus=",         opt |-> "focus", val |-> ""],
     [kind |-> "assign",  line |-> "hide=f",         opt |-> "hide", val |-> "f"],
     [kind |-> "assign",  line |-> "tagroot=k",      opt |-> "tagroot", val |-> "k"],
     [kind |-> "assign",  line |-> "lines=true",     opt |-> "granularity", val |-> "lines"],
     [kind |-> "assign",  line |-> "granularity=files", opt |-> "granularity", val |-> "files"],
     [kind |-> "assign",  line |-> "nodecount=2",    opt |-> "nodecount", val |-> "2"],
     [kind |-> "assign",  line |-> "nodecount=-2",   opt |-> "nodecount", val |-> "-2"],   \* negative other than the default -1: no limit
     [kind |-> "assign",  line |-> "sample_index=s1", opt |-> "sample_index", val |-> "s1"],
     [kind |-> "assign",  line |-> "cum=true",       opt |-> "sort", val |-> "cum"],
     [kind |-> "assign",  line |-> "noinlines",      opt |-> "noinlines", val |-> "true"],
     [kind |-> "assign",  line |-> "taghide=k",      opt |-> "taghide", val |-> "k"],
     [kind |-> "assign",  line |-> "relative_percentages=true", opt |-> "relative_percentages", val |-> "true"],
     \* options that feed process-wide helpers (file name trimming): only meaningful in the directed histories below
     [kind |-> "assign",  line |-> "source_path=/home/me/proj", opt |-> "source_path", val |-> "/home/me/proj"],
     [kind |-> "assign",  line |-> "source_path=/x/src", opt |-> "source_path", val |-> "/x/src"],
     [kind |-> "assign",  line |-> "trim_path=/build", opt |-> "trim_path", val |-> "/build"],
     [kind |-> "assign",  line |-> "trim_path=/build/proj", opt |-> "trim_path", val |-> "/build/proj"],
     \* source listings and disassembly read files and run tools: $SRCA / $SRCB are two directories the harness fills with
     \* DIFFERENT sources under the file names of the profile; "disasm" histories run on a profile of a real binary
     [kind |-> "assign",  line |-> "source_path=$SRCA", opt |-> "source_path", val |-> "$SRCA"],
     [kind |-> "assign",  line |-> "source_path=$SRCB", opt |-> "source_path", val |-> "$SRCB"],
     [kind |-> "assign",  line |-> "intel_syntax=true", opt |-> "intel_syntax", val |-> "true"],
     [kind |-> "assign",  line |-> "prune_from=g", opt |-> "prune_from", val |-> "g"],
     [kind |-> "assign",  line |-> "prune_from=h", opt |-> "prune_from", val |-> "h"],
     [kind |-> "command", line |-> "list g",         opt |-> "", val |-> ""],
     [kind |-> "command", line |-> "disasm main",    opt |-> "", val |-> ""],
     \* C09: lines the grammar must reject (or ignore) without any effect
     [kind |-> "bad",     line |-> "top >",          opt |-> "", val |-> ""],
     [kind |-> "bad",     line |-> "top (",          opt |-> "", val |-> ""],      \* invalid regexp
     [kind |-> "bad",     line |-> "nosuchcommand",  opt |-> "", val |-> ""],
     [kind |-> "bad",     line |-> "nodecount=abc",  opt |-> "", val |-> ""],
     [kind |-> "bad",     line |-> "nodecount=99999999999999999999", opt |-> "", val |-> ""],
     [kind |-> "bad",     line |-> "nodecount",      opt |-> "", val |-> ""],      \* value missing
     [kind |-> "bad",     line |-> "lines",          opt |-> "", val |-> ""],      \* the bare name of a choice is answered "unknown config field"
     [kind |-> "bad",     line |-> "cum",            opt |-> "", val |-> ""],
     [kind |-> "bad",     line |-> "cum=false",      opt |-> "", val |-> ""],      \* a choice can be taken, not un-taken: answered with an error
     [kind |-> "bad",     line |-> "lines=no",       opt |-> "", val |-> ""],
     [kind |-> "bad",     line |-> "sample_index=nosuch", opt |-> "", val |-> ""],
     [kind |-> "bad",     line |-> "granularity=bogus", opt |-> "", val |-> ""],
     [kind |-> "bad",     line |-> "peek",           opt |-> "", val |-> ""],      \* argument missing
     [kind |-> "bad",     line |-> "peek (",         opt |-> "", val |-> ""],
     [kind |-> "bad",     line |-> "tags 99999999999999999999:", opt |-> "", val |-> ""],   \* range beyond int64
     [kind |-> "bad",     line |-> "top -(",         opt |-> "", val |-> ""],
     [kind |-> "bad",     line |-> "list zzznomatch", opt |-> "", val |-> ""],     \* late failure after the copy was mutated
     [kind |-> "bad",     line |-> "top10 f >/nonexistent-dir/x/y", opt |-> "", val |-> ""],
     [kind |-> "bad",     line |-> "=",              opt |-> "", val |-> ""],
     [kind |-> "noop",    line |-> "",               opt |-> "", val |-> ""],
     [kind |-> "noop",    line |-> "   ",            opt |-> "", val |-> ""],
     [kind |-> "noop",    line |-> "o",              opt |-> "", val |-> ""],
     [kind |-> "noop",    line |-> "help top",       opt |-> "", val |-> ""],
     [kind |-> "noop",    line |-> "help",           opt |-> "", val |-> ""],
     [kind |-> "noop",    line |-> "help nosuch",    opt |-> "", val |-> ""] >>
Idx(K) == {i \in DOMAIN Lines : Lines[i].kind \in K}
MaxLen == IF Tier = "guard" THEN 2 ELSE 3
C09Lines == Idx({"bad", "noop"})

Opts == {"focus", "hide", "tagroot", "granularity", "nodecount", "sample_index", "sort", "noinlines", "taghide", "relative_percentages", "source_path", "trim_path", "intel_syntax", "prune_from"}
\* directed histories, longer than MaxLen: a report, a change of an option that only a LATER report can show, that report
Directed == { <<"granularity=files", "source_path=/home/me/proj", "top", "source_path=/x/src", "top">>,
              <<"granularity=files", "trim_path=/build", "top", "trim_path=/build/proj", "top">>,
              <<"lines=true", "source_path=/x/src", "top", "source_path=/home/me/proj", "tree h">>,
              <<"source_path=$SRCA", "list g", "source_path=$SRCB", "list g">>,
              <<"source_path=$SRCB", "list g", "trim_path=/build", "source_path=$SRCA", "list g">>,
              <<"disasm main", "intel_syntax=true", "disasm main">>,
              <<"prune_from=g", "traces", "prune_from=h", "traces">>,
              <<"prune_from=h", "tree h", "prune_from=g", "traces", "top10 -f">> }
OnlyDirected == {"source_path=/home/me/proj", "source_path=/x/src", "trim_path=/build", "trim_path=/build/proj",
                 "source_path=$SRCA", "source_path=$SRCB", "intel_syntax=true", "list g", "disasm main", "prune_from=g", "prune_from=h"}
Default == [o \in Opts |-> "default"]

VARIABLES hist,      \* the lines typed so far (indices into Lines)
          cfg, pristine, work, outs, pc
vars == <<hist, cfg, pristine, work, outs, pc>>

Init == hist = <<>> /\ cfg = Default /\ pristine = "P" /\ work = "none" /\ outs = <<>> /\ pc = "prompt"

\* C10 histories: mutating commands interleaved with assignments; C09: one rejected/ignored line anywhere
Admissible(i) == \/ Lines[i].kind \in {"command", "assign"}
                 \/ (Lines[i].kind \in {"bad", "noop"} /\ \A k \in DOMAIN hist : Lines[hist[k]].kind \in {"command", "assign", "noop"})
Follows(d, i) == Len(hist) < Len(d) /\ Lines[i].line = d[Len(hist) + 1] /\ \A k \in DOMAIN hist : Lines[hist[k]].line = d[k]
Fits(i) == \/ (Len(hist) < MaxLen /\ Lines[i].line \notin OnlyDirected /\ \A k \in DOMAIN hist : Lines[hist[k]].line \notin OnlyDirected)
           \/ \E d \in Directed : Follows(d, i)

Assign(i) ==
  /\ pc = "prompt" /\ Fits(i) /\ Lines[i].kind = "assign" /\ Admissible(i)
  /\ cfg' = [cfg EXCEPT ![Lines[i].opt] = Lines[i].val]
  /\ hist' = Append(hist, i) /\ outs' = Append(outs, [eff |-> cfg, on |-> "-"])
  /\ UNCHANGED <<pristine, work, pc>>
\* a command: fresh copy, arguments applied to a copy of the options, report generation mutates the copy
Command(i) ==
  /\ pc = "prompt" /\ Fits(i) /\ Lines[i].kind = "command" /\ Admissible(i)
  /\ LET on == IF SharedWork THEN (IF work = "none" THEN pristine ELSE work) ELSE pristine IN
     /\ outs' = Append(outs, [eff |-> cfg, on |-> on])
     /\ work' = "mutated-by-" \o Lines[i].line
  /\ cfg' = IF PersistArgs /\ Lines[i].line = "top f -g" THEN [cfg EXCEPT !["focus"] = "f"] ELSE cfg
  /\ hist' = Append(hist, i)
  /\ UNCHANGED <<pristine, pc>>
BadOrNoop(i) ==
  /\ pc = "prompt" /\ Fits(i) /\ Lines[i].kind \in {"bad", "noop"} /\ Admissible(i)
  /\ hist' = Append(hist, i) /\ outs' = Append(outs, [eff |-> cfg, on |-> "-"])
  /\ UNCHANGED <<cfg, pristine, work, pc>>
\* the behaviour ends: it is printed together with, for every command, the assignments in effect
AssignsBefore(h, k) == SelectSeq(SubSeq(h, 1, k - 1), LAMBDA i : Lines[i].kind = "assign")
Finish ==
  /\ pc = "prompt" /\ Len(hist) >= 1 /\ pc' = "end"
  /\ (Emit => PrintT(ToJson([ lines |-> [k \in DOMAIN hist |-> Lines[hist[k]]],
                             prefix |-> [k \in DOMAIN hist |-> [j \in DOMAIN AssignsBefore(hist, k) |-> Lines[AssignsBefore(hist, k)[j]].line]],
                             final |-> [j \in DOMAIN AssignsBefore(hist, Len(hist) + 1) |-> Lines[AssignsBefore(hist, Len(hist) + 1)[j]].line] ])))
  /\ UNCHANGED <<hist, cfg, pristine, work, outs>>
Next == (\E i \in DOMAIN Lines : Assign(i) \/ Command(i) \/ BadOrNoop(i)) \/ Finish
Spec == Init /\ [][Next]_vars

\* ---- properties
PristineNeverChanges == [][pristine' = pristine]_vars
\* only assignments change the option store
ArgsDoNotPersist == [][\A i \in DOMAIN Lines : (hist' = Append(hist, i) /\ Lines[i].kind # "assign") => cfg' = cfg]_vars
\* every command ran on the pristine profile under exactly the options assigned before it
OutputDependsOnlyOn ==
  \A k \in DOMAIN outs : Lines[hist[k]].kind = "command" =>
     /\ outs[k].on = pristine
     /\ outs[k].eff = [o \in Opts |->
                         LET as == SelectSeq(AssignsBefore(hist, k), LAMBDA i : Lines[i].opt = o) IN
                         IF Len(as) = 0 THEN "default" ELSE Lines[as[Len(as)]].val]
=============================================================================
