SPECIFICATION Spec
CONSTANTS
  Tier = "quick"
  Emit = FALSE
  Broken = "none"
INVARIANTS StrictTotalOrder Deterministic KeysSeparate
CHECK_DEADLOCK FALSE
