SPECIFICATION Spec
CONSTANTS
  Tier = "quick"
  Emit = FALSE
INVARIANTS TypeOK
CHECK_DEADLOCK FALSE
