SPECIFICATION Spec
CONSTANTS
  Tier = "quick"
  Emit = FALSE
  Broken = "none"
INVARIANTS Conservation TotalsConserved NoZeroLeft KeysInjective NoDuplicates HeaderRules
PROPERTIES InputsUntouched
CHECK_DEADLOCK FALSE
