--------------------------- MODULE TraceSymbolize ---------------------------
(***************************************************************************)
(* C12, deciding side: one event per real Symbolizer.Symbolize call with   *)
(* scripted plug-ins: the mode, the profile before and after (tables with  *)
(* ids) and whether the call returned an error.  The FRAME CONDITION:      *)
(* sample count, values, labels, stack depth and order, location           *)
(* addresses and mapping ranges never change; only function/file/line      *)
(* information is attached and has-symbols flags updated; the result is    *)
(* valid with unique ids; mappings that already carry symbols are left     *)
(* alone unless force; no non-empty name becomes empty.                    *)
(* SEQUENCES: the events of several runs on ONE profile follow each other  *)
(* (step 1..of, in order); the specification carries, from run to run, the *)
(* set of mappings that have counted as symbolised at any earlier point of *)
(* the sequence (`ever`).  A has-symbols flag never goes back to false     *)
(* (flags_kept), and what has once counted as symbolised is left alone by  *)
(* every later run without force (seq_leftalone, seq_leftalone_partly) -   *)
(* whatever the flags say by then.  The result of every run is a profile   *)
(* the library accepts: CheckValid, Write + Parse, every line's function   *)
(* an element of the function table (recorded by the harness from the real *)
(* objects: cv, reparse, intable).                                         *)
(***************************************************************************)
EXTENDS CodecRules, Json

Trace == ndJsonDeserialize("trace.ndjson")
VARIABLES l, bad, ever

Parts(s) == {s}   \* placeholder to keep SANY happy about unused EXTENDS
HasPart(mode, w) == \E i \in 1..(Len(mode) - Len(w) + 1) : SubSeq(mode, i, i + Len(w) - 1) = w
MapOf(p, id) == p.maps[CHOOSE i \in DOMAIN p.maps : p.maps[i].id = id]
\* the mappings that count as symbolised: for the symbol service (has-functions) and for the local symbolizer (any of the three)
Flagged(p) == [fn  |-> {p.maps[i].id : i \in {j \in DOMAIN p.maps : p.maps[j].hasfn}},
               any |-> {p.maps[i].id : i \in {j \in DOMAIN p.maps : p.maps[j].hasfn \/ p.maps[j].hasfile \/ p.maps[j].hasline}}]
Join(x, y) == [fn |-> x.fn \cup y.fn, any |-> x.any \cup y.any]
\* what has counted as symbolised before run e of its sequence
Before(e, ev) == IF e.step = 1 THEN Flagged(e.before) ELSE Join(ev, Flagged(e.before))
Failed(e, ev) ==
  LET b == e.before  a == e.after
      ALines(i) == IF i \in DOMAIN a.locs THEN a.locs[i].lines ELSE <<"gone">>     \* (a result with fewer locations is rejected, not an evaluation error)
      p == [
        samples  |-> /\ Len(a.samples) = Len(b.samples)
                     /\ \A i \in DOMAIN b.samples : /\ a.samples[i].vals = b.samples[i].vals
                                                    /\ a.samples[i].lab = b.samples[i].lab /\ a.samples[i].num = b.samples[i].num
                                                    /\ a.samples[i].locs = b.samples[i].locs,
        locations |-> /\ Len(a.locs) = Len(b.locs)
                      /\ \A i \in DOMAIN b.locs : a.locs[i].id = b.locs[i].id /\ a.locs[i].addr = b.locs[i].addr /\ a.locs[i].map = b.locs[i].map,
        mappings |-> /\ Len(a.maps) = Len(b.maps)
                     /\ \A i \in DOMAIN b.maps : /\ a.maps[i].id = b.maps[i].id /\ a.maps[i].start = b.maps[i].start
                                                 /\ a.maps[i].limit = b.maps[i].limit /\ a.maps[i].off = b.maps[i].off
                                                 /\ a.maps[i].file = b.maps[i].file /\ a.maps[i].build = b.maps[i].build,
        header   |-> a.st = b.st /\ a.period = b.period /\ a.time = b.time /\ a.dur = b.dur /\ a.comments = b.comments /\ a.pt = b.pt,
        \* existing functions stay (same position, same id); new ones are only appended
        functions |-> /\ Len(a.fns) >= Len(b.fns)
                      /\ \A i \in DOMAIN b.fns : a.fns[i].id = b.fns[i].id,
        names    |-> \A i \in DOMAIN b.fns : b.fns[i].name # "" => (i \in DOMAIN a.fns /\ a.fns[i].name # ""),
        valid    |-> Valid(b) => Valid(a),
        \* a mapping that already carries symbols is left alone unless force is requested
        leftalone |-> e.force \/ \A i \in DOMAIN b.locs :
                         (b.locs[i].map # 0 /\ MapOf(b, b.locs[i].map).hasfn) => ALines(i) = b.locs[i].lines,
        \* the local symbolizer also leaves a mapping alone that carries file names or line numbers only (the remote
        \* service, which supplies nothing but function names, looks at the has-functions flag alone)
        leftalone_partly |-> e.force \/ e.remote \/ \A i \in DOMAIN b.locs :
                         (b.locs[i].map # 0 /\ (MapOf(b, b.locs[i].map).hasfile \/ MapOf(b, b.locs[i].map).hasline)) => ALines(i) = b.locs[i].lines,
        \* the remote service is only asked about locations without any line: what a location already has stays
        remote_keeps_lined |-> e.force \/ e.mode # "remote" \/ \A i \in DOMAIN b.locs : Len(b.locs[i].lines) > 0 => ALines(i) = b.locs[i].lines,
        \* symbol information is only ever attached: a location never loses its lines
        attached |-> \A i \in DOMAIN b.locs : Len(b.locs[i].lines) > 0 => Len(ALines(i)) > 0,
        none     |-> e.none => (a = b),
        \* has-symbols flags are only ever set: a run that finds nothing leaves the lines AND the flags
        flags_kept |-> \A i \in DOMAIN b.maps : i \in DOMAIN a.maps =>
                         /\ (b.maps[i].hasfn => a.maps[i].hasfn) /\ (b.maps[i].hasfile => a.maps[i].hasfile)
                         /\ (b.maps[i].hasline => a.maps[i].hasline) /\ (b.maps[i].hasinl => a.maps[i].hasinl),
        \* the same two rules over the history of the sequence: symbolised ONCE (initially or by an earlier run) = left alone
        seq_leftalone |-> e.force \/ \A i \in DOMAIN b.locs :
                         (b.locs[i].map # 0 /\ b.locs[i].map \in ev.fn) => ALines(i) = b.locs[i].lines,
        seq_leftalone_partly |-> e.force \/ e.remote \/ \A i \in DOMAIN b.locs :
                         (b.locs[i].map # 0 /\ b.locs[i].map \in ev.any) => ALines(i) = b.locs[i].lines,
        \* whatever the plug-ins answer, the library accepts the result: CheckValid passes, the written profile parses,
        \* every line's function is an element of the function table (the real objects, not only their ids)
        wellformed |-> Valid(b) => (e.cv = "" /\ e.reparse /\ e.intable) ]
  IN {f \in DOMAIN p : ~p[f]}
Init == l = 1 /\ bad = {} /\ ever = [fn |-> {}, any |-> {}]
Step == /\ l <= Len(Trace) /\ l' = l + 1
        /\ LET ev == Before(Trace[l], ever)
               fl == Failed(Trace[l], ev) IN
             /\ bad' = IF fl = {} THEN bad ELSE bad \cup {l}
             /\ ever' = Join(ev, Flagged(Trace[l].after))
             /\ (IF fl = {} THEN TRUE ELSE PrintT(<<"VERIF-WHY", l, fl>>))
Report == /\ l = Len(Trace) + 1
          /\ PrintT(<<"VERIF-CONSUMED", l - 1>>) /\ PrintT(<<"VERIF-REJECTED", bad>>)
          /\ l' = l + 1 /\ UNCHANGED <<bad, ever>>
Next == Step \/ Report
Spec == Init /\ [][Next]_<<l, bad, ever>>
=============================================================================
