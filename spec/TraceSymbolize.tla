--------------------------- MODULE TraceSymbolize ---------------------------
(***************************************************************************)
(* C12, deciding side: one event per real Symbolizer.Symbolize call with   *)
(* scripted plug-ins: the mode, the profile before and after (tables with  *)
(* ids) and whether the call returned an error.  The FRAME CONDITION:      *)
(* sample count, values, labels, stack depth and order, location           *)
(* addresses and mapping ranges never change; only function/file/line      *)
(* information is attached and has-symbols flags updated; the result is    *)
(* valid with unique ids; mappings that already carry symbols are left     *)
(* alone unless force; no non-empty name becomes empty.                    *)
(***************************************************************************)
EXTENDS CodecRules, Json

Trace == ndJsonDeserialize("trace.ndjson")
VARIABLES l, bad

Parts(s) == {s}   \* placeholder to keep SANY happy about unused EXTENDS
HasPart(mode, w) == \E i \in 1..(Len(mode) - Len(w) + 1) : SubSeq(mode, i, i + Len(w) - 1) = w
MapOf(p, id) == p.maps[CHOOSE i \in DOMAIN p.maps : p.maps[i].id = id]
Failed(e) ==
  LET b == e.before  a == e.after
      ALines(i) == IF i \in DOMAIN a.locs THEN a.locs[i].lines ELSE <<"gone">>     \* (a result with fewer locations is rejected, not an evaluation error)
      p == [
        samples  |-> /\ Len(a.samples) = Len(b.samples)
                     /\ \A i \in DOMAIN b.samples : /\ a.samples[i].vals = b.samples[i].vals
                                                    /\ a.samples[i].lab = b.samples[i].lab /\ a.samples[i].num = b.samples[i].num
                                                    /\ a.samples[i].locs = b.samples[i].locs,
        locations |-> /\ Len(a.locs) = Len(b.locs)
                      /\ \A i \in DOMAIN b.locs : a.locs[i].id = b.locs[i].id /\ a.locs[i].addr = b.locs[i].addr /\ a.locs[i].map = b.locs[i].map,
        mappings |-> /\ Len(a.maps) = Len(b.maps)
                     /\ \A i \in DOMAIN b.maps : /\ a.maps[i].id = b.maps[i].id /\ a.maps[i].start = b.maps[i].start
                                                 /\ a.maps[i].limit = b.maps[i].limit /\ a.maps[i].off = b.maps[i].off
                                                 /\ a.maps[i].file = b.maps[i].file /\ a.maps[i].build = b.maps[i].build,
        header   |-> a.st = b.st /\ a.period = b.period /\ a.time = b.time /\ a.dur = b.dur /\ a.comments = b.comments /\ a.pt = b.pt,
        \* existing functions stay (same position, same id); new ones are only appended
        functions |-> /\ Len(a.fns) >= Len(b.fns)
                      /\ \A i \in DOMAIN b.fns : a.fns[i].id = b.fns[i].id,
        names    |-> \A i \in DOMAIN b.fns : b.fns[i].name # "" => (i \in DOMAIN a.fns /\ a.fns[i].name # ""),
        valid    |-> Valid(b) => Valid(a),
        \* a mapping that already carries symbols is left alone unless force is requested
        leftalone |-> e.force \/ \A i \in DOMAIN b.locs :
                         (b.locs[i].map # 0 /\ MapOf(b, b.locs[i].map).hasfn) => ALines(i) = b.locs[i].lines,
        \* the local symbolizer also leaves a mapping alone that carries file names or line numbers only (the remote
        \* service, which supplies nothing but function names, looks at the has-functions flag alone)
        leftalone_partly |-> e.force \/ e.remote \/ \A i \in DOMAIN b.locs :
                         (b.locs[i].map # 0 /\ (MapOf(b, b.locs[i].map).hasfile \/ MapOf(b, b.locs[i].map).hasline)) => ALines(i) = b.locs[i].lines,
        \* the remote service is only asked about locations without any line: what a location already has stays
        remote_keeps_lined |-> e.force \/ e.mode # "remote" \/ \A i \in DOMAIN b.locs : Len(b.locs[i].lines) > 0 => ALines(i) = b.locs[i].lines,
        \* symbol information is only ever attached: a location never loses its lines
        attached |-> \A i \in DOMAIN b.locs : Len(b.locs[i].lines) > 0 => Len(ALines(i)) > 0,
        none     |-> e.none => (a = b) ]
  IN {f \in DOMAIN p : ~p[f]}
Init == l = 1 /\ bad = {}
Step == /\ l <= Len(Trace) /\ l' = l + 1
        /\ LET fl == Failed(Trace[l]) IN
             /\ bad' = IF fl = {} THEN bad ELSE bad \cup {l}
             /\ (IF fl = {} THEN TRUE ELSE PrintT(<<"VERIF-WHY", l, fl>>))
Report == /\ l = Len(Trace) + 1
          /\ PrintT(<<"VERIF-CONSUMED", l - 1>>) /\ PrintT(<<"VERIF-REJECTED", bad>>)
          /\ l' = l + 1 /\ UNCHANGED bad
Next == Step \/ Report
Spec == Init /\ [][Next]_<<l, bad>>
=============================================================================
