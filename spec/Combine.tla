------------------------------ MODULE Combine ------------------------------
(***************************************************************************)
(* C07 - combining and subtracting profiles is linear in every entry.      *)
(*                                                                         *)
(* A case is a tuple of source profiles and base profiles, each with its   *)
(* own sample-type list (names, units, order) and samples.  The pipeline   *)
(* (internal/driver/fetch.go: per group CompatibilizeSampleTypes,          *)
(* ScaleProfiles, Merge; then base labelled for diff_base, source          *)
(* normalised, base negated, groups combined) is modelled as actions; the  *)
(* declarative meaning is                                                  *)
(*    report(case) = SUM_i report(src_i) - SUM_j report(base_j)            *)
(* entry-wise for flat and cum, in every common column, after expressing   *)
(* each column in its finest unit.  TLC checks the pipeline against it     *)
(* (Linear), p - p = empty (SelfDiffEmpty), no column value dropped by     *)
(* unit harmonisation (NoValueDropped) and the diff_base total.            *)
(***************************************************************************)
EXTENDS ReportRules, Json

CONSTANTS Tier, Emit, Broken

\* ------------------------------------------------------------- catalogue
F  == Fn("f", "f", "a.c", 0)
G  == Fn("g", "g", "a.c", 0)
M0 == Mp("B1", "bin", 16, 8, 0)
LF == Loc(M0, 3, <<Ln(F, 10, 0)>>, FALSE)
LG == Loc(M0, 4, <<Ln(G, 20, 0)>>, FALSE)
H  == Fn("h", "h", "b.c", 0)
LH == Loc(M0, 5, <<Ln(H, 30, 0)>>, FALSE)
\* 4..6: location tables of three, one and two entries that give the same ids to different functions
F2 == Fn("f", "f", "b.c", 0)      \* another function called f, in another file (7: only a file-sensitive view tells them apart)
LF2 == Loc(M0, 6, <<Ln(F2, 10, 0)>>, FALSE)
\* 9..15: a function that MOVED inside its file between two builds (same name, system name and file, another start
\* line).  The start line is an attribute of the function record (Merge keeps such records and their stacks apart:
\* StackKey contains it) but NOT of a report entry: ReportRules.EntryOfLine copies it for nameless functions only, so
\* at functions / filefunctions granularity both records are ONE entry and at lines granularity the line tells them apart.
W1 == Fn("w", "w", "a.c", 8)
W2 == Fn("w", "w", "a.c", 23)
FS == Fn("f", "f", "a.c", 5)      \* F as a newer profile records it (F itself has no start line)
LW1 == Loc(M0, 7, <<Ln(W1, 10, 0)>>, FALSE)
LW2 == Loc(M0, 2, <<Ln(W2, 25, 0)>>, FALSE)
LW3 == Loc(M0, 7, <<Ln(W2, 10, 0)>>, FALSE)     \* the other start line at the address and line of LW1
LFS == Loc(M0, 3, <<Ln(FS, 10, 0)>>, FALSE)
Stk == << <<LF>>, <<LG, LF>>, <<LG>>, <<LH, LG, LF>>, <<LH>>, <<LG, LH>>, <<LF2>>, <<LG, LF2>>,
          <<LW1>>, <<LW2>>, <<LW1, LG>>, <<LW2, LG>>, <<LW3, LG>>, <<LFS>>, <<LG, LW2>> >>
\* pairs of stacks (first build, second build) that hold the same function under two start lines
MovedPairs == { <<9, 10>>, <<11, 12>>, <<11, 13>>, <<1, 14>>, <<11, 15>>, <<2, 14>> }

Factor(u) == CASE u = "us" -> 1 [] u = "ms" -> 1000 [] u = "milliseconds" -> 1000 [] u = "s" -> 1000000 [] u = "B" -> 1 [] u = "bytes" -> 1 [] u = "kB" -> 1024 [] OTHER -> 1
VT(t, u) == [t |-> t, u |-> u]
\* sample type lists: same types in other units / other order / partially overlapping
TypeLists == << <<VT("cpu", "ms"), VT("mem", "B")>>,
                <<VT("cpu", "s"), VT("mem", "B")>>,          \* coarser unit in column 1
                <<VT("cpu", "ms"), VT("mem", "kB")>>,        \* coarser unit in column 2
                <<VT("mem", "B"), VT("cpu", "ms")>>,         \* permuted
                <<VT("cpu", "ms"), VT("extra", "B"), VT("mem", "B")>>,   \* partially overlapping
                <<VT("cpu", "us"), VT("mem", "B")>>,                     \* finest unit
                <<VT("extra", "B"), VT("mem", "B"), VT("cpu", "ms")>>,    \* three types, rotated against list 5
                <<VT("cpu", "milliseconds"), VT("mem", "bytes")>> >>      \* 8: the units of list 1 under their other spellings
P(tl, ss) == [st |-> TypeLists[tl], samples |-> ss]
S2(k, v) == Smp(Stk[k], v, <<>>, <<>>)
\* values per type list arity
V2 == { <<5, 0>>, <<0, 2>>, <<1, 3>>, <<2, 2>> }
One(tl) == IF tl = 5 THEN { <<S2(k, <<v[1], 7, v[2]>>)>> : k \in {1, 2}, v \in V2 }
           ELSE IF tl = 7 THEN { <<S2(k, <<7, v[2], v[1]>>)>> : k \in {1, 2}, v \in V2 }
           ELSE { <<S2(k, v)>> : k \in {1, 2}, v \in V2 }
Two(tl) == IF tl = 5 THEN { <<S2(1, <<1, 7, 3>>), S2(2, <<5, 7, 0>>)>> }
           ELSE IF tl = 7 THEN { <<S2(1, <<9, 3, 1>>), S2(2, <<7, 0, 5>>)>> }
           ELSE { <<S2(1, <<1, 3>>), S2(2, <<5, 0>>)>>, <<S2(2, <<0, 2>>), S2(3, <<2, 2>>)>> }
Profs(tl) == { P(tl, ss) : ss \in One(tl) \cup Two(tl) }
AnyProf == UNION { Profs(tl) : tl \in DOMAIN TypeLists }
BaseProf == Profs(1) \cup Profs(2) \cup Profs(4) \cup Profs(8)

Modes == {"plain", "base", "diff_base"}
Cases(d) ==
    { [srcs |-> <<a>>, bases |-> <<>>, mode |-> "plain", norm |-> FALSE] : a \in AnyProf }
    \cup { [srcs |-> <<a, b>>, bases |-> <<>>, mode |-> "plain", norm |-> FALSE] : a \in Profs(1), b \in AnyProf }
    \cup { [srcs |-> <<a>>, bases |-> <<b>>, mode |-> m, norm |-> FALSE] : a \in Profs(1) \cup Profs(3), b \in BaseProf, m \in {"base", "diff_base"} }
    \cup { [srcs |-> <<a>>, bases |-> <<a>>, mode |-> m, norm |-> n] : a \in AnyProf, m \in {"base", "diff_base"}, n \in BOOLEAN }   \* p - p
    \* -normalize with exact ratios: the source is scaled, column by column, by (base total / source total) - 2 and 2;
    \* 3 and 1; 2 and, for a column whose source total is 0, nothing
    \cup { [srcs |-> <<a>>, bases |-> <<b>>, mode |-> m, norm |-> TRUE] : m \in {"base", "diff_base"},
             a \in { P(1, <<S2(1, <<1, 3>>), S2(2, <<1, 1>>)>>) },
             b \in { P(1, <<S2(3, <<4, 8>>)>>), P(1, <<S2(1, <<6, 4>>)>>), P(1, <<S2(2, <<2, 2>>), S2(3, <<2, 6>>)>>) } }
    \cup { [srcs |-> <<P(1, <<S2(1, <<5, 0>>)>>)>>, bases |-> <<P(1, <<S2(2, <<10, 7>>)>>)>>, mode |-> "base", norm |-> TRUE] }
    \* three shared sample types listed in rotated order by the second profile / the base
    \cup { [srcs |-> <<a, b>>, bases |-> <<>>, mode |-> "plain", norm |-> FALSE] : a \in Profs(5), b \in Profs(7) }
    \cup { [srcs |-> <<a>>, bases |-> <<b>>, mode |-> m, norm |-> FALSE] : a \in Profs(5), b \in Profs(7), m \in {"base", "diff_base"} }
    \* -normalize against a base whose total in one column is zero: that column of the source is scaled to nothing
    \cup { [srcs |-> <<P(1, <<S2(1, <<1, 3>>), S2(2, <<1, 1>>)>>)>>, bases |-> <<b>>, mode |-> m, norm |-> TRUE] : m \in {"base", "diff_base"},
             b \in { P(1, <<S2(3, <<4, 0>>)>>), P(1, <<S2(3, <<3, 2>>), S2(2, <<1, 0 - 2>>)>>) } }   \* a zero column total without any zero value
    \* three units in the order coarse, finest, intermediate
    \cup { [srcs |-> <<P(2, <<S2(1, a)>>), P(6, <<S2(k, b)>>), P(1, <<S2(1, <<1, 3>>)>>)>>, bases |-> <<>>, mode |-> "plain", norm |-> FALSE] :
             a \in {<<1, 3>>, <<2, 2>>}, b \in {<<5, 0>>, <<1, 3>>, <<7, 1>>}, k \in {1, 2} }
    \* three and four sources whose location tables have different sizes, in every order (per-source id maps)
    \cup { [srcs |-> <<q[o[1]], q[o[2]], q[o[3]]>>, bases |-> <<>>, mode |-> "plain", norm |-> FALSE] :
             o \in {x \in [1..3 -> 1..3] : \A i, j \in 1..3 : x[i] = x[j] => i = j},
             q \in { <<P(1, <<S2(4, <<1, 3>>)>>), P(1, <<S2(sm, <<5, 0>>)>>), P(1, <<S2(md, <<2, 2>>)>>)>> : sm \in {1, 5}, md \in {2, 6} } }
    \cup { [srcs |-> <<P(1, <<S2(4, <<1, 3>>)>>), P(1, <<S2(5, <<5, 0>>)>>)>>, bases |-> <<P(1, <<S2(6, <<2, 2>>)>>)>>, mode |-> m, norm |-> FALSE] : m \in {"base", "diff_base"} }
    \* homonymous functions of different files across the inputs
    \cup { [srcs |-> <<P(1, <<S2(1, <<1, 3>>), S2(2, <<2, 2>>)>>), P(1, <<S2(7, <<5, 1>>)>>)>>, bases |-> <<>>, mode |-> "plain", norm |-> FALSE] }
    \cup { [srcs |-> <<P(1, <<S2(1, <<1, 3>>)>>)>>, bases |-> <<P(1, <<S2(k, <<5, 1>>)>>)>>, mode |-> m, norm |-> FALSE] : k \in {7, 8}, m \in {"base", "diff_base"} }
    \* a function with different start lines across the inputs (moved between two builds) and within one input;
    \* type list 2 has a coarser unit in column 1; no zero values (they belong to the class of the ScaleN finding)
    \cup { [srcs |-> <<P(1, <<S2(p[1], <<9, 3>>)>>), P(tl, <<S2(p[2], <<10, 4>>)>>)>>, bases |-> <<>>, mode |-> "plain", norm |-> FALSE] :
             p \in MovedPairs, tl \in {1, 2} }
    \cup { [srcs |-> <<P(1, <<S2(p[2], v)>>)>>, bases |-> <<P(tl, <<S2(p[1], <<9, 3>>)>>)>>, mode |-> m, norm |-> FALSE] :
             p \in MovedPairs, tl \in {1, 2}, m \in {"base", "diff_base"}, v \in {<<10, 4>>, <<9, 3>>} }   \* <<9, 3>> against list 1: the entry cancels
    \cup { [srcs |-> <<P(1, <<S2(p[1], <<9, 3>>), S2(p[2], <<10, 4>>)>>)>>, bases |-> <<>>, mode |-> "plain", norm |-> FALSE] : p \in MovedPairs }
    \cup { [srcs |-> <<P(1, <<S2(p[1], <<9, 3>>), S2(p[2], <<10, 4>>)>>)>>, bases |-> <<P(1, <<S2(q, <<1, 1>>)>>)>>, mode |-> m, norm |-> FALSE] :
             p \in {<<11, 12>>, <<11, 13>>}, q \in {11, 12, 13, 2}, m \in {"base", "diff_base"} }
    \cup { [srcs |-> <<P(1, <<S2(11, <<9, 3>>), S2(12, <<10, 4>>)>>), P(1, <<S2(12, <<2, 2>>), S2(13, <<1, 3>>)>>)>>,
             bases |-> b, mode |-> IF b = <<>> THEN "plain" ELSE "base", norm |-> FALSE] : b \in {<<>>, <<P(1, <<S2(11, <<1, 1>>), S2(15, <<2, 2>>)>>)>>} }
    \cup { [srcs |-> <<a>>, bases |-> <<a>>, mode |-> m, norm |-> FALSE] : m \in {"base", "diff_base"},
             a \in { P(1, <<S2(11, <<9, 3>>), S2(12, <<10, 4>>)>>) } }
    \cup (IF Tier = "thorough"
          THEN { [srcs |-> <<a, b, c>>, bases |-> <<e>>, mode |-> m, norm |-> FALSE] :
                   a \in Profs(1), b \in Profs(2), c \in Profs(3) \cup Profs(5), e \in Profs(4), m \in {"base", "diff_base"} }
          ELSE {})
GuardCases == { [srcs |-> <<P(1, <<S2(1, <<1, 3>>)>>), P(3, <<S2(1, <<5, 0>>)>>)>>, bases |-> <<>>, mode |-> "plain", norm |-> FALSE] }
AllCases == IF Tier = "guard" THEN GuardCases ELSE Cases(0)

\* ------------------------------------------------------------- declarative
TypesOf(p) == {p.st[i].t : i \in DOMAIN p.st}
AllProfs(c) == c.srcs \o c.bases
\* common types in the order of the first source
Common(c) == SelectSeq([i \in DOMAIN c.srcs[1].st |-> c.srcs[1].st[i].t],
                       LAMBDA t : \A j \in DOMAIN AllProfs(c) : t \in TypesOf(AllProfs(c)[j]))
ColOf(p, t) == CHOOSE i \in DOMAIN p.st : p.st[i].t = t
FinestFactor(c, t) == Min({Factor(AllProfs(c)[j].st[ColOf(AllProfs(c)[j], t)].u) : j \in DOMAIN AllProfs(c)})
FinestUnit(c, t) == LET ps == AllProfs(c) IN
                    ps[CHOOSE j \in DOMAIN ps : Factor(ps[j].st[ColOf(ps[j], t)].u) = FinestFactor(c, t)].st[ColOf(ps[CHOOSE j \in DOMAIN ps : Factor(ps[j].st[ColOf(ps[j], t)].u) = FinestFactor(c, t)], t)].u
\* a profile's samples expressed in the common columns and finest units, times sign
\* -normalize: the ratio (base total / source total) of a column, taken on the values as fetched; 0 when the source
\* has nothing in that column (the cases keep the ratios integral: float rounding is C15's subject)
ColTotal(ps, t) == FoldLeft(LAMBDA acc, p : acc + FoldLeft(LAMBDA a2, smp : a2 + smp.vals[ColOf(p, t)], 0, p.samples), 0, ps)
NormRatio(c, t) == IF ~c.norm \/ Len(c.bases) = 0 THEN 1
                   ELSE IF ColTotal(c.srcs, t) = 0 THEN 0 ELSE ColTotal(c.bases, t) \div ColTotal(c.srcs, t)
Norm1(c, p, sign, lab, isSrc) ==
  [i \in DOMAIN p.samples |->
     [p.samples[i] EXCEPT
        !.vals = [k \in DOMAIN Common(c) |->
                    sign * (IF isSrc THEN NormRatio(c, Common(c)[k]) ELSE 1) * p.samples[i].vals[ColOf(p, Common(c)[k])]
                         * (Factor(p.st[ColOf(p, Common(c)[k])].u) \div FinestFactor(c, Common(c)[k]))],
        !.lab = lab]]
BaseLab(c) == IF c.mode = "diff_base" THEN <<SLab("pprof::base", <<"true">>)>> ELSE <<>>
AllD(c) == FlattenSeq([i \in DOMAIN c.srcs |-> Norm1(c, c.srcs[i], 1, <<>>, TRUE)])
           \o FlattenSeq([j \in DOMAIN c.bases |-> Norm1(c, c.bases[j], 0 - 1, BaseLab(c), FALSE)])
\* merge by stack identity (values of identical stacks add up; all-zero stacks disappear)
MergeSeq(ss, n) ==
  LET step(acc, s) ==
        IF \E m \in DOMAIN acc : StackKey(acc[m]) = StackKey(s)
        THEN LET m == CHOOSE m \in DOMAIN acc : StackKey(acc[m]) = StackKey(s) IN [acc EXCEPT ![m].vals = VecAdd(@, s.vals)]
        ELSE Append(acc, s)
  IN SelectSeq(FoldLeft(step, <<>>, ss), LAMBDA s : ~VecZero(s.vals))
NC(c) == Len(Common(c))
CombinedD(c) == MergeSeq(AllD(c), NC(c))
RCfg(si) == [gran |-> "functions", noinl |-> FALSE, si |-> si, mean |-> FALSE, troot |-> <<>>, tleaf |-> <<>>]
\* rows of the report of column si: name -> flat, cum  (the base label is not an entry attribute)
RowsD(c, si) == { [name |-> r.e.name, flat |-> r.rawflat, cum |-> r.rawcum] : r \in NodeTableD(CombinedD(c), RCfg(si)) }
\* the same at a granularity that keeps the file: entries are (function, file)
RCfgF(si) == [gran |-> "filefunctions", noinl |-> FALSE, si |-> si, mean |-> FALSE, troot |-> <<>>, tleaf |-> <<>>]
RowsDF(c, si) == { [name |-> r.e.name \o " " \o r.e.file, flat |-> r.rawflat, cum |-> r.rawcum] : r \in NodeTableD(CombinedD(c), RCfgF(si)) }
\* the same at lines granularity: entries are (function, file, line), named as pprof prints them
RCfgL(si) == [gran |-> "lines", noinl |-> FALSE, si |-> si, mean |-> FALSE, troot |-> <<>>, tleaf |-> <<>>]
RowsDL(c, si) == { [name |-> PName(r.e), flat |-> r.rawflat, cum |-> r.rawcum] : r \in NodeTableD(CombinedD(c), RCfgL(si)) }
\* does the case hold one function (name, system name, file) under two start lines?
FnsOf(c) == UNION { UNION { UNION { {p.samples[i].locs[j].lines[k].fn : k \in DOMAIN p.samples[i].locs[j].lines} :
                                      j \in DOMAIN p.samples[i].locs } : i \in DOMAIN p.samples } : p \in Range(AllProfs(c)) }
Moved(c) == \E a, b \in FnsOf(c) : a.name = b.name /\ a.sys = b.sys /\ a.file = b.file /\ a.start # b.start
IsBase(s) == \E i \in DOMAIN s.lab : s.lab[i].k = "pprof::base"
TotalOf(c, si) ==
  LET m == CombinedD(c)
      b == FoldFunction(LAMBDA s, acc : IF IsBase(s) THEN acc + AbsI(s.vals[si]) ELSE acc, 0, m)
      a == FoldFunction(LAMBDA s, acc : acc + AbsI(s.vals[si]), 0, m)
  IN IF b > 0 THEN b ELSE a
\* entry-wise sum of the individual reports
RowsOfProfile(c, p, si, isSrc) == NodeTableD(Norm1(c, p, 1, <<>>, isSrc), RCfg(si))
SumRows(c, si, name, f(_)) ==
    FoldFunction(LAMBDA p, acc : acc + FoldSet(LAMBDA r, a2 : IF r.e.name = name THEN a2 + f(r) ELSE a2, 0, RowsOfProfile(c, p, si, TRUE)), 0, c.srcs)
  - FoldFunction(LAMBDA p, acc : acc + FoldSet(LAMBDA r, a2 : IF r.e.name = name THEN a2 + f(r) ELSE a2, 0, RowsOfProfile(c, p, si, FALSE)), 0, c.bases)

\* ------------------------------------------------------------- operational
VARIABLES case, pc, work, basework
vars == <<case, pc, work, basework>>
Init == case \in AllCases /\ pc = "align" /\ work = <<>> /\ basework = <<>>

\* ScaleN's keep rule: a sample survives unit scaling iff SOME value is non-zero afterwards.
\* Broken = "keepScaledOnly": the rule before the fix, which looked at the rescaled columns only.
KeepAfterScale(p, s, c) ==
  IF Broken = "keepScaledOnly"
  THEN \/ \E k \in DOMAIN Common(c) :
             (Factor(p.st[ColOf(p, Common(c)[k])].u) # FinestFactor(c, Common(c)[k])) /\ (s.vals[ColOf(p, Common(c)[k])] # 0)
       \/ \A k \in DOMAIN Common(c) : Factor(p.st[ColOf(p, Common(c)[k])].u) = FinestFactor(c, Common(c)[k])
  ELSE TRUE
ScaleGroup(c, ps, sign, lab, isSrc) ==
  FlattenSeq([i \in DOMAIN ps |->
     LET kept == SelectSeq(ps[i].samples, LAMBDA s : KeepAfterScale(ps[i], s, c))
     IN Norm1(c, [ps[i] EXCEPT !.samples = kept], sign, lab, isSrc)])
Align ==
  /\ pc = "align"
  /\ work' = MergeSeq(ScaleGroup(case, case.srcs, 1, <<>>, TRUE), NC(case))
  /\ basework' = MergeSeq(ScaleGroup(case, case.bases, 1, <<>>, FALSE), NC(case))
  /\ pc' = "subtract"
  /\ UNCHANGED case
Subtract ==
  /\ pc = "subtract"
  /\ work' = MergeSeq(work \o [i \in DOMAIN basework |-> [basework[i] EXCEPT !.vals = [k \in DOMAIN @ |-> 0 - @[k]], !.lab = BaseLab(case)]],
                      NC(case))
  /\ pc' = "done"
  /\ UNCHANGED <<case, basework>>

\* the class of inputs on which ScaleN's keep decision (it looks at the rescaled columns only) loses a sample:
\* some column is rescaled (units differ across the inputs, or -normalize) and some sample has a zero
\* next to a non-zero value in the common columns
Rescaled(c) == c.norm \/ \E k \in DOMAIN Common(c) : \E j \in DOMAIN AllProfs(c) :
                  Factor(AllProfs(c)[j].st[ColOf(AllProfs(c)[j], Common(c)[k])].u) # FinestFactor(c, Common(c)[k])
MixedZero(c) == \E j \in DOMAIN AllProfs(c) : \E i \in DOMAIN AllProfs(c)[j].samples :
                  LET p == AllProfs(c)[j]  v == p.samples[i].vals IN
                  (\E k \in DOMAIN Common(c) : v[ColOf(p, Common(c)[k])] = 0) /\ (\E k \in DOMAIN Common(c) : v[ColOf(p, Common(c)[k])] # 0)
Class(c) == IF Rescaled(c) /\ MixedZero(c) THEN "zero-beside-nonzero-rescaled" ELSE "plain"
Expected ==
  [ cls |-> Class(case), cols  |-> [k \in 1..NC(case) |-> [t |-> Common(case)[k], u |-> FinestUnit(case, Common(case)[k]),
                                      rows |-> RowsD(case, k), frows |-> RowsDF(case, k), lrows |-> RowsDL(case, k), total |-> TotalOf(case, k)]],
    empty |-> CombinedD(case) = <<>>, moved |-> Moved(case) ]
Finish ==
  /\ pc = "done" /\ pc' = "end"
  /\ (Emit => PrintT(ToJson([srcs |-> case.srcs, bases |-> case.bases, mode |-> case.mode, norm |-> case.norm, exp |-> Expected])))
  /\ UNCHANGED <<case, work, basework>>
Next == Align \/ Subtract \/ Finish
Spec == Init /\ [][Next]_vars

\* ------------------------------------------------------------- properties
Done == pc = "done"
PipelineMeetsDefinition == Done => BagSum(work, NC(case)) = BagSum(CombinedD(case), NC(case))
Linear ==
  Done => \A si \in 1..NC(case) : \A r \in RowsD(case, si) :
            /\ r.flat = SumRows(case, si, r.name, LAMBDA x : x.rawflat)
            /\ r.cum = SumRows(case, si, r.name, LAMBDA x : x.rawcum)
SelfDiffEmpty == (Done /\ case.srcs = case.bases /\ case.mode = "base") => work = <<>>
\* totals per column are conserved by the harmonisation: sum over the combined profile = signed sum over the inputs
NoValueDropped ==
  Done => \A k \in 1..NC(case) :
            FoldFunction(LAMBDA s, acc : acc + s.vals[k], 0, work) = FoldFunction(LAMBDA s, acc : acc + s.vals[k], 0, AllD(case))
=============================================================================
