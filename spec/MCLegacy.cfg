SPECIFICATION Spec
CONSTANTS
  Tier = "quick"
  Emit = FALSE
  Broken = "none"
INVARIANTS OneSamplePerRecord LeafKept ThreadzCountsAllThreads AddressesFromInput MappingsCoverAddresses
CHECK_DEADLOCK FALSE
