----------------------------- MODULE DotSyntax -----------------------------
(***************************************************************************)
(* C18 - DOT output is a syntactically valid Graphviz document whose edges *)
(* reference only declared nodes.                                          *)
(*                                                                         *)
(* A character-level lexer (top, identifier, quoted string, escape inside  *)
(* a quoted string, '-' awaiting '>') feeding a statement-level grammar    *)
(*     graph     : "digraph" ID "{" stmt* "}"                              *)
(*     stmt      : ID [attrs] | ID ("->" ID)+ [attrs]                      *)
(*               | "subgraph" ID "{" stmt* "}" | ";"                       *)
(*     attrs     : "[" (ID "=" ID [","|";"])* "]"                          *)
(* as ONE state machine that consumes one character per step.  The trace   *)
(* is the real `pprof -dot` output, one document per line, as a sequence   *)
(* of one-character strings.  NeverReject: no character drives the machine *)
(* into the reject state; EndsAccepting: the document ends with all braces *)
(* closed outside any token; EdgesReferenceDeclaredNodes: every edge       *)
(* endpoint has a node statement; IdsUnique: no node is declared twice.    *)
(***************************************************************************)
EXTENDS Integers, Sequences, FiniteSets, TLC, Json

Trace == ndJsonDeserialize("trace.ndjson")

Letters == {"a","b","c","d","e","f","g","h","i","j","k","l","m","n","o","p","q","r","s","t","u","v","w","x","y","z",
            "A","B","C","D","E","F","G","H","I","J","K","L","M","N","O","P","Q","R","S","T","U","V","W","X","Y","Z","_"}
Digits == {"0","1","2","3","4","5","6","7","8","9"}
Space == {" ", "\t", "\n", "\r"}
IdStart(c) == c \in Letters \/ c \in Digits \/ c = "." \/ c = "#"       \* numerals and colour literals are unquoted only inside quotes in pprof's output, but harmless
IdChar(c) == IdStart(c)

VARIABLES d,        \* document index
          i,        \* next character of the document
          lex,      \* "top" | "id" | "quoted" | "esc" | "dash" | "reject"
          tok,      \* text of the token being read
          gs,       \* grammar state
          depth,    \* open braces
          first,    \* first ID of the current statement
          declared, referenced, dup, bad
vars == <<d, i, lex, tok, gs, depth, first, declared, referenced, dup, bad>>

Init == d = 1 /\ i = 1 /\ lex = "top" /\ tok = "" /\ gs = "start" /\ depth = 0 /\ first = "" /\ declared = {} /\ referenced = {} /\ dup = FALSE /\ bad = {}

Keywords == {"node", "edge", "graph"}
\* grammar transition on a complete token: kind \in {"id", "{", "}", "[", "]", "=", "->", ";", ","}, text for ids
Declare(x, decl) == IF x \in Keywords THEN decl ELSE decl \cup {x}
G(kind, text, s) ==
  \* s = [gs, depth, first, declared, referenced, dup]
  CASE s.gs = "start"    -> IF kind = "id" /\ text = "digraph" THEN [s EXCEPT !.gs = "title"] ELSE [s EXCEPT !.gs = "reject"]
    [] s.gs = "title"    -> IF kind = "id" THEN [s EXCEPT !.gs = "open"] ELSE [s EXCEPT !.gs = "reject"]
    [] s.gs = "open"     -> IF kind = "{" THEN [s EXCEPT !.gs = "body", !.depth = @ + 1] ELSE [s EXCEPT !.gs = "reject"]
    [] s.gs = "body"     -> CASE kind = "}" -> IF s.depth = 1 THEN [s EXCEPT !.gs = "end", !.depth = 0] ELSE [s EXCEPT !.depth = @ - 1]
                              [] kind = ";" -> s
                              [] kind = "id" /\ text = "subgraph" -> [s EXCEPT !.gs = "title"]
                              [] kind = "id" -> [s EXCEPT !.gs = "stmt1", !.first = text]
                              [] OTHER -> [s EXCEPT !.gs = "reject"]
    [] s.gs = "stmt1"    -> CASE kind = "[" -> [s EXCEPT !.gs = "attrname", !.dup = @ \/ (s.first \in s.declared /\ s.first \notin Keywords),
                                                        !.declared = Declare(s.first, @)]
                              [] kind = "->" -> [s EXCEPT !.gs = "edgeto", !.referenced = @ \cup {s.first}]
                              [] kind = ";" -> [s EXCEPT !.gs = "body", !.declared = Declare(s.first, @)]
                              [] kind = "}" -> IF s.depth = 1 THEN [s EXCEPT !.gs = "end", !.depth = 0, !.declared = Declare(s.first, @)]
                                               ELSE [s EXCEPT !.gs = "body", !.depth = @ - 1, !.declared = Declare(s.first, @)]
                              [] kind = "id" /\ text = "subgraph" -> [s EXCEPT !.gs = "title", !.declared = Declare(s.first, @)]
                              [] kind = "id" -> [s EXCEPT !.first = text, !.declared = Declare(s.first, @)]
                              [] OTHER -> [s EXCEPT !.gs = "reject"]
    [] s.gs = "edgeto"   -> IF kind = "id" THEN [s EXCEPT !.gs = "edge2", !.referenced = @ \cup {text}] ELSE [s EXCEPT !.gs = "reject"]
    [] s.gs = "edge2"    -> CASE kind = "[" -> [s EXCEPT !.gs = "attrname"]
                              [] kind = "->" -> [s EXCEPT !.gs = "edgeto"]
                              [] kind = ";" -> [s EXCEPT !.gs = "body"]
                              [] kind = "}" -> IF s.depth = 1 THEN [s EXCEPT !.gs = "end", !.depth = 0] ELSE [s EXCEPT !.gs = "body", !.depth = @ - 1]
                              [] kind = "id" /\ text = "subgraph" -> [s EXCEPT !.gs = "title"]
                              [] kind = "id" -> [s EXCEPT !.gs = "stmt1", !.first = text]
                              [] OTHER -> [s EXCEPT !.gs = "reject"]
    [] s.gs = "attrname" -> CASE kind = "]" -> [s EXCEPT !.gs = "body"]
                              [] kind = "id" -> [s EXCEPT !.gs = "attreq"]
                              [] kind \in {",", ";"} -> s
                              [] OTHER -> [s EXCEPT !.gs = "reject"]
    [] s.gs = "attreq"   -> IF kind = "=" THEN [s EXCEPT !.gs = "attrval"] ELSE [s EXCEPT !.gs = "reject"]
    [] s.gs = "attrval"  -> IF kind = "id" THEN [s EXCEPT !.gs = "attrname"] ELSE [s EXCEPT !.gs = "reject"]
    [] s.gs = "end"      -> [s EXCEPT !.gs = "reject"]                     \* nothing may follow the closing brace
    [] OTHER             -> s
S == [gs |-> gs, depth |-> depth, first |-> first, declared |-> declared, referenced |-> referenced, dup |-> dup]
Apply(s) == /\ gs' = s.gs /\ depth' = s.depth /\ first' = s.first /\ declared' = s.declared /\ referenced' = s.referenced /\ dup' = s.dup
Punct == {"{", "}", "[", "]", "=", ";", ","}

Doc == Trace[d].chars
\* one character
Char ==
  /\ d <= Len(Trace) /\ i <= Len(Doc)
  /\ LET c == Doc[i] IN
     CASE lex = "top" ->
            (CASE c \in Space -> UNCHANGED <<lex, tok, gs, depth, first, declared, referenced, dup>>
               [] c = "\"" -> lex' = "quoted" /\ tok' = "" /\ UNCHANGED <<gs, depth, first, declared, referenced, dup>>
               [] c = "-" -> lex' = "dash" /\ UNCHANGED <<tok, gs, depth, first, declared, referenced, dup>>
               [] c \in Punct -> Apply(G(c, "", S)) /\ UNCHANGED <<lex, tok>>
               [] IdStart(c) -> lex' = "id" /\ tok' = c /\ UNCHANGED <<gs, depth, first, declared, referenced, dup>>
               [] OTHER -> lex' = "reject" /\ UNCHANGED <<tok, gs, depth, first, declared, referenced, dup>>)
       [] lex = "id" ->
            (CASE IdChar(c) -> tok' = tok \o c /\ UNCHANGED <<lex, gs, depth, first, declared, referenced, dup>>
               [] c \in Space -> lex' = "top" /\ Apply(G("id", tok, S)) /\ UNCHANGED tok
               [] c \in Punct -> lex' = "top" /\ Apply(G(c, "", G("id", tok, S))) /\ UNCHANGED tok
               [] c = "-" -> lex' = "dash" /\ Apply(G("id", tok, S)) /\ UNCHANGED tok
               [] OTHER -> lex' = "reject" /\ UNCHANGED <<tok, gs, depth, first, declared, referenced, dup>>)
       [] lex = "quoted" ->
            (CASE c = "\\" -> lex' = "esc" /\ UNCHANGED <<tok, gs, depth, first, declared, referenced, dup>>
               [] c = "\"" -> lex' = "top" /\ Apply(G("id", "\"" \o tok \o "\"", S)) /\ UNCHANGED tok
               [] OTHER -> tok' = tok \o c /\ UNCHANGED <<lex, gs, depth, first, declared, referenced, dup>>)
       [] lex = "esc" -> lex' = "quoted" /\ tok' = tok \o "\\" \o c /\ UNCHANGED <<gs, depth, first, declared, referenced, dup>>
       [] lex = "dash" ->
            (IF c = ">" THEN lex' = "top" /\ Apply(G("->", "", S)) /\ UNCHANGED tok
             ELSE lex' = "reject" /\ UNCHANGED <<tok, gs, depth, first, declared, referenced, dup>>)
       [] OTHER -> UNCHANGED <<lex, tok, gs, depth, first, declared, referenced, dup>>
  /\ i' = i + 1 /\ UNCHANGED <<d, bad>>
\* end of a document: verdict, next document
Verdict == IF lex = "reject" \/ gs = "reject" THEN {"NeverReject"}
           ELSE (IF lex # "top" \/ gs # "end" THEN {"EndsAccepting"} ELSE {})
                \cup (IF referenced \subseteq declared THEN {} ELSE {"EdgesReferenceDeclaredNodes"})
                \cup (IF dup THEN {"IdsUnique"} ELSE {})
EndDoc ==
  /\ d <= Len(Trace) /\ i = Len(Doc) + 1
  /\ bad' = IF Verdict = {} THEN bad ELSE bad \cup {d}
  /\ (IF Verdict = {} THEN TRUE ELSE PrintT(<<"VERIF-WHY", d, Verdict>>))
  /\ d' = d + 1 /\ i' = 1 /\ lex' = "top" /\ tok' = "" /\ gs' = "start" /\ depth' = 0 /\ first' = "" /\ declared' = {} /\ referenced' = {} /\ dup' = FALSE
Report == /\ d = Len(Trace) + 1
          /\ PrintT(<<"VERIF-CONSUMED", d - 1>>) /\ PrintT(<<"VERIF-REJECTED", bad>>)
          /\ d' = d + 1 /\ UNCHANGED <<i, lex, tok, gs, depth, first, declared, referenced, dup, bad>>
Next == Char \/ EndDoc \/ Report
Spec == Init /\ [][Next]_vars
=============================================================================
