----------------------------- MODULE TraceParse -----------------------------
(***************************************************************************)
(* C02, deciding side: one event per input fed to the real ParseData.      *)
(* outcome is "err", "ok", "panic" or "timeout"; for "ok" the event        *)
(* carries the SHAPE of the returned profile (ids rank-compressed: only    *)
(* equality and zero matter; a nil pointer is -1), the outcome of every    *)
(* follow-up operation (write, copy, compact, rewrite = write, edit,     *)
(* write again and parse back; each report format) and                     *)
(* whether the profile survived a second round trip (C01's second          *)
(* quantifier: all byte strings that Parse accepts).                       *)
(* Accepted: an error, or a profile that satisfies the validity contract   *)
(* and whose follow-ups all end in "ok" or "err".  "panic" and "timeout"   *)
(* are outcomes nothing accepts; parsing must be prompt.                   *)
(***************************************************************************)
EXTENDS Integers, Sequences, FiniteSets, TLC, Functions, Json

Trace == ndJsonDeserialize("trace.ndjson")
VARIABLES l, bad

Unique(ids) == /\ \A i \in DOMAIN ids : ids[i] > 0
               /\ \A i, j \in DOMAIN ids : i # j => ids[i] # ids[j]
ValidShape(o) ==
  LET locids == [i \in DOMAIN o.locs |-> o.locs[i].id] IN
  /\ Unique(o.fns) /\ Unique(o.maps) /\ Unique(locids)
  /\ \A i \in DOMAIN o.samples :
       /\ o.samples[i].nvals = o.nst                                    \* exactly one value per sample type
       /\ \A j \in DOMAIN o.samples[i].locs : o.samples[i].locs[j] \in Range(locids)
  /\ \A i \in DOMAIN o.locs :
       /\ (o.locs[i].map = 0 \/ o.locs[i].map \in Range(o.maps))
       /\ \A j \in DOMAIN o.locs[i].lines : o.locs[i].lines[j] \in Range(o.fns)

Failed(e) ==
  LET p == [ outcome  |-> e.outcome \in {"ok", "err"},
             prompt   |-> e.ms < 4000,
             valid    |-> e.outcome = "ok" => ValidShape(e.out),
             followup |-> e.outcome = "ok" => \A i \in DOMAIN e.follow : e.follow[i].outcome \in {"ok", "err"},
             writable |-> e.outcome = "ok" => \A i \in DOMAIN e.follow :
                             e.follow[i].name \in {"write", "copy", "compact", "rewrite"} => e.follow[i].outcome = "ok",
             survives |-> e.outcome = "ok" => (e.fix /\ e.bytes) ]
  IN {f \in DOMAIN p : ~p[f]}
Init == l = 1 /\ bad = {}
Step == /\ l <= Len(Trace) /\ l' = l + 1
        /\ LET fl == Failed(Trace[l]) IN
             /\ bad' = IF fl = {} THEN bad ELSE bad \cup {l}
             /\ (IF fl = {} THEN TRUE ELSE PrintT(<<"VERIF-WHY", l, fl>>))
Report == /\ l = Len(Trace) + 1
          /\ PrintT(<<"VERIF-CONSUMED", l - 1>>) /\ PrintT(<<"VERIF-REJECTED", bad>>)
          /\ l' = l + 1 /\ UNCHANGED bad
Next == Step \/ Report
Spec == Init /\ [][Next]_<<l, bad>>
=============================================================================
