------------------------------ MODULE EmitSites ------------------------------
(***************************************************************************)
(* C18, generator side: the emitter model - the sites at which             *)
(* profile-derived text enters the DOT, callgrind and HTML outputs - times *)
(* payload strings built from the metacharacter classes, times the         *)
(* graph-producing options.  Each terminal state is rendered by the real   *)
(* code; DotSyntax.tla / Callgrind.tla / the HTML acceptance decide.       *)
(***************************************************************************)
EXTENDS Integers, Sequences, FiniteSets, TLC, Json
CONSTANTS Tier, Emit
Sites == {"function", "file", "binary", "buildid", "comment", "labelkey", "labelvalue", "numlabelkey", "numlabelunit", "sampletype", "sampleunit", "doc_url"}
\* metacharacter classes: plain, double quote, backslash, newline, angle brackets, brace, bar, non-ASCII, ::, dot, ampersand, percent
Classes == <<"a", "\"", "\\", "\n", "<", ">", "{", "|", "NONASCII", "::", ".", "&", "'", "%s", "\\n", "</script>", "\\\"", "]", ";", "-->", "\\l",
             "LONG253", "LONG254", "LONG255", "LONG256">>      \* LONGn: n plain characters (a metacharacter right after them sits at a length boundary)
LongIdx == {i \in DOMAIN Classes : i > 21}   \* ("\\l": backslash + l is DOT's left-justified line break; a payload may END in it)
Payloads == { <<c>> : c \in DOMAIN Classes \ LongIdx } \cup { <<l, q>> : l \in LongIdx, q \in {2, 3} } \cup (IF Tier = "thorough" THEN { <<c1, c2>> : c1, c2 \in DOMAIN Classes \ LongIdx } ELSE { <<1, c>> : c \in DOMAIN Classes \ LongIdx } \cup { <<c, 1>> : c \in DOMAIN Classes \ LongIdx })
Options == { [calltree |-> ct, gran |-> g, tags |-> TRUE] : ct \in BOOLEAN, g \in {"functions", "lines", "files"} }
VARIABLES pc, c
Init == pc = "gen" /\ c = <<>>
Gen == /\ pc = "gen"
       /\ \E s \in Sites, p \in Payloads, o \in Options :
            /\ (Tier = "thorough" \/ (o.gran = "functions" /\ ~o.calltree) \/ (s \in {"function", "file", "labelvalue"}))
            /\ c' = [site |-> s, payload |-> [k \in DOMAIN p |-> Classes[p[k]]], opt |-> o]
       /\ pc' = "emit"
Finish == pc = "emit" /\ pc' = "end" /\ (Emit => PrintT(ToJson(c))) /\ UNCHANGED c
Next == Gen \/ Finish
Spec == Init /\ [][Next]_<<pc, c>>
TypeOK == pc \in {"gen", "emit", "end"}
=============================================================================
