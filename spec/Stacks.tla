------------------------------- MODULE Stacks -------------------------------
(***************************************************************************)
(* C17 - operational model of internal/report/stacks.go: MakeStack (one    *)
(* action per sample: frames appended caller -> callee, sources interned   *)
(* by (name-with-line, file, inlined), self added to the leaf source) and  *)
(* FillPlaces (one action per stack, with a per-stack seen set), checked   *)
(* by TLC against the declarative acceptance predicate of StacksRules on   *)
(* every catalogue profile (recursion, inlining, frames without function,  *)
(* empty stacks, equal names in different files) x granularity.            *)
(* Broken = "placesAdjacentOnly": skip a repeated source only when it      *)
(* equals the previous frame; Broken = "internNoInlined": the inlined flag *)
(* is not part of the interning key.                                       *)
(***************************************************************************)
EXTENDS StacksRules, Json

CONSTANTS Tier, Emit, Broken

F  == Fn("f", "f", "a.c", 0)
G  == Fn("g", "g", "a.c", 0)
F2 == Fn("f", "f", "b.c", 0)
M0 == Mp("B1", "bin", 16, 8, 0)
LF  == Loc(M0, 3, <<Ln(F, 10, 0)>>, FALSE)
LG  == Loc(M0, 4, <<Ln(G, 20, 0)>>, FALSE)
LGF == Loc(M0, 6, <<Ln(G, 21, 0), Ln(F, 11, 0)>>, FALSE)
LFF == Loc(M0, 7, <<Ln(F, 10, 0), Ln(G, 20, 0)>>, FALSE)     \* f:10 inlined here, a real call elsewhere
LF2 == Loc(M0, 9, <<Ln(F2, 10, 0)>>, FALSE)
LU  == Loc(M0, 8, <<>>, FALSE)
L3  == Loc(M0, 10, <<Ln(G, 22, 0), Ln(F, 12, 0), Ln(F2, 13, 0)>>, FALSE)   \* an inline chain of three: the middle frame is inlined as well
FR  == Fn("root", "root", "", 0)                           \* a real function that is called like the synthetic root, without file or line
LR  == Loc(M0, 11, <<Ln(FR, 0, 0)>>, FALSE)
StackShapes == { <<LR>>, <<LF, LR, LG>>, <<>>, <<LF>>, <<LG, LF>>, <<LF, LG, LF>>, <<LG, LF, LG, LF>>, <<LF, LF, LG>>, <<LGF, LG>>, <<LF, LFF>>, <<LFF, LF>>, <<LU>>, <<LF, LU, LG>>, <<LF2, LF>>, <<LF, LG, LG, LF, LG>>, <<L3>>, <<LF, L3>> }
Grans == IF Tier = "thorough" THEN {"functions", "filefunctions", "files", "lines", "addresses"} ELSE {"functions", "lines", "files"}
Cfg0(g, ni) == [gran |-> g, noinl |-> ni, si |-> 2, mean |-> FALSE, troot |-> <<>>, tleaf |-> <<>>]
Cases == IF Tier = "guard"
         THEN { [samples |-> << Smp(<<LF, LG, LF>>, <<1, 3>>, <<>>, <<>>), Smp(<<LF, LFF>>, <<1, 0 - 2>>, <<>>, <<>>) >>, cfg |-> Cfg0("lines", FALSE)] }
         ELSE { [samples |-> << Smp(a, <<1, 3>>, <<>>, <<>>), Smp(b, <<1, 0 - 2>>, <<>>, <<>>) >>, cfg |-> Cfg0(g, ni)] :
                  a \in StackShapes, b \in StackShapes, g \in Grans, ni \in BOOLEAN }
              \cup { [samples |-> << Smp(<<LF>>, <<1, 0>>, <<>>, <<>>), Smp(<<LG, LF>>, <<2, 0>>, <<>>, <<>>) >>, cfg |-> Cfg0(g, FALSE)] : g \in Grans }   \* every selected value is zero
              \cup { [samples |-> <<>>, cfg |-> Cfg0(g, FALSE)] : g \in Grans }                  \* no sample at all: only the root

VARIABLES case, pc, idx, sources, stacks
vars == <<case, pc, idx, sources, stacks>>
Root == [full |-> "root", file |-> "", inlined |-> FALSE, self |-> 0, places |-> <<>>, ndisplay |-> 1]
Init == case \in Cases /\ pc = (IF Len(case.samples) = 0 THEN "places" ELSE "stacks") /\ idx = 1 /\ sources = <<Root>> /\ stacks = <<>>

Key(fr) == IF Broken = "internNoInlined" THEN <<fr.full, fr.file>> ELSE <<fr.full, fr.file, fr.inlined>>
\* intern the frames of one sample in order; returns the extended source table and the index list
InternAll(srcs, frames) ==
  FoldLeft(LAMBDA acc, fr :
             LET hit == {k \in 2..Len(acc.srcs) : Key(FrameOfSource(acc.srcs[k])) = Key(fr)} IN
             IF hit # {} THEN [acc EXCEPT !.ix = Append(@, (CHOOSE k \in hit : TRUE) - 1)]
             ELSE [srcs |-> Append(acc.srcs, [full |-> fr.full, file |-> fr.file, inlined |-> fr.inlined, self |-> 0, places |-> <<>>, ndisplay |-> 1]),
                   ix |-> Append(acc.ix, Len(acc.srcs))],
           [srcs |-> srcs, ix |-> <<0>>], frames)
MakeStack ==
  /\ pc = "stacks" /\ idx <= Len(case.samples)
  /\ LET s == case.samples[idx]
         r == InternAll(sources, StackFrames(s, case.cfg))
         leaf == r.ix[Len(r.ix)] + 1
     IN /\ sources' = [r.srcs EXCEPT ![leaf].self = @ + W(s, case.cfg)]
        /\ stacks' = Append(stacks, [value |-> W(s, case.cfg), sources |-> r.ix])
  /\ idx' = idx + 1
  /\ pc' = IF idx = Len(case.samples) THEN "places" ELSE "stacks"
  /\ UNCHANGED case
FillPlaces ==
  /\ pc = "places"
  /\ sources' = [k \in DOMAIN sources |->
       [sources[k] EXCEPT !.places =
          FlattenSeq([i \in DOMAIN stacks |->
             LET q == stacks[i].sources
                 pos == {j \in DOMAIN q : q[j] = k - 1 /\
                            (IF Broken = "placesAdjacentOnly" THEN (j = 1 \/ q[j - 1] # k - 1) ELSE \A m \in 1..(j - 1) : q[m] # k - 1)}
             IN [n \in 1..Cardinality(pos) |-> [stack |-> i - 1, pos |-> SetToSortSeq(pos, <)[n] - 1]]])]]
  /\ pc' = "done" /\ UNCHANGED <<case, idx, stacks>>
AsEvent == [samples |-> case.samples, cfg |-> case.cfg, stacks |-> stacks, sources |-> sources, nulls |-> 0]
Finish == /\ pc = "done" /\ pc' = "end"
          /\ (Emit => PrintT(ToJson([samples |-> case.samples, cfg |-> case.cfg])))
          /\ UNCHANGED <<case, idx, sources, stacks>>
Next == MakeStack \/ FillPlaces \/ Finish
Spec == Init /\ [][Next]_vars
MechanismMeetsDefinition == pc = "done" => StackSetFailed(AsEvent) = {}
ValuesSumToSignedTotal == pc = "done" => FoldFunction(LAMBDA st, acc : acc + st.value, 0, stacks)
                                          = FoldFunction(LAMBDA s, acc : acc + W(s, case.cfg), 0, case.samples)
=============================================================================
