SPECIFICATION Spec
CONSTANTS
  Procs = {1, 2, 3}
  Broken = "none"
INVARIANTS NoTornEncode DistinctNames ReadersSeeConsistentRep
PROPERTIES Terminates
CHECK_DEADLOCK FALSE
