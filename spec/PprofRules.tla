------------------------------ MODULE PprofRules ------------------------------
(***************************************************************************)
(* Rule operators of the whole-tool machine (Pprof.tla) and of its trace   *)
(* specification (TracePprof.tla): merge of the fetched sources, the       *)
(* samples the name filters keep, flat / cum / total, top and traces rows. *)
(***************************************************************************)
EXTENDS Integers, Sequences, FiniteSets, TLC, SequencesExt, FiniteSetsExt

\* ---- rules (a bag is a function sample key -> <<v1, v2>>; a stack is a leaf-first sequence of function names)
NCols == 2
SamplesOf(srcs) == FoldLeft(LAMBDA acc, s : IF s.ok THEN acc \o s.samples ELSE acc, <<>>, srcs)
\* A sample of the merged profile is identified by its stack AND by whether it carries the diff-base mark
\* (-diff_base labels the base samples, so they never merge with source samples of the same stack).
\* ... and by its label: t is the value of the sample's label "k" ("" = no label)
Tag(samples, b) == [i \in DOMAIN samples |-> [stack |-> samples[i].stack, v |-> samples[i].v, b |-> b, t |-> samples[i].t]]
KeysIn(samples) == {[s |-> samples[i].stack, b |-> samples[i].b, t |-> samples[i].t] : i \in DOMAIN samples}
ColSum(samples, key, k) == FoldLeft(LAMBDA acc, x : IF x.stack = key.s /\ x.b = key.b /\ x.t = key.t THEN acc + x.v[k] ELSE acc, 0, samples)
BagOfSamples(samples) == [key \in KeysIn(samples) |-> [k \in 1..NCols |-> ColSum(samples, key, k)]]
MergedOf(srcs) == BagOfSamples(Tag(SamplesOf(srcs), FALSE))
\* -base / -diff_base sources are subtracted: their samples count negatively
Negated(samples) == [i \in DOMAIN samples |-> [samples[i] EXCEPT !.v = [k \in DOMAIN samples[i].v |-> 0 - samples[i].v[k]]]]
CombinedOf(srcs, bases, diff) == BagOfSamples(Tag(SamplesOf(srcs), FALSE) \o Tag(Negated(SamplesOf(bases)), diff))
\* the profile's own frame-dropping rules (RemoveUninteresting, after symbolization): a frame matches when its
\* name is in drop and not in keep; a stack is cut at the root-most matching frame that has a non-matching frame
\* on its root side: that frame and everything on its leaf side go
CutIdx(st, drop, keep) ==
  LET M(f) == f \in drop /\ f \notin keep
      c == {i \in DOMAIN st : M(st[i]) /\ \E j \in (i + 1)..Len(st) : ~M(st[j])}
  IN IF c = {} THEN 0 ELSE CHOOSE i \in c : \A j \in c : j <= i
Cut(st, drop, keep) == SubSeq(st, CutIdx(st, drop, keep) + 1, Len(st))
Val(bag, st, k) == IF st \in DOMAIN bag THEN bag[st][k] ELSE 0
SameBag(b1, b2) == \A st \in (DOMAIN b1) \cup (DOMAIN b2) : \A k \in 1..NCols : Val(b1, st, k) = Val(b2, st, k)
HasFrame(st, S) == \E i \in DOMAIN st : st[i] \in S
NoOpts == [focus |-> {}, ignore |-> {}, hide |-> {}, show |-> {}, tf |-> {}, ti |-> {}, si |-> NCols, rel |-> FALSE, g |-> "functions", mean |-> FALSE]
\* granularity: the entry a frame is counted under; at files granularity the functions a and b share a file
FileOf(f) == CASE f \in {"a", "b"} -> "zz1.x" [] f = "c" -> "zz2.x" [] f = "d" -> "zz3.x" [] OTHER -> "zz4.x"
Ent(o, f) == IF o.g = "files" THEN FileOf(f) ELSE f
HasEntry(st, o, e) == \E i \in DOMAIN st : Ent(o, st[i]) = e
\* The session's profile: the merged bag keyed by the stacks AS MERGED, seen through the frame-dropping rules.
\* (Pruning does not re-merge samples whose pruned stacks coincide, and the total adds the magnitude of every
\* sample, so the sample granularity of the merged profile stays observable.)
Prof(bag, drop, keep) == [bag |-> bag, drop |-> drop, keep |-> keep]
NoProf == Prof(<<>>, {}, {})
V(p, st) == Cut(st.s, p.drop, p.keep)
\* tagfocus / tagignore (restricted to the key "k"): on the label value, independently of the name filters
Kept(p, o) == {st \in DOMAIN p.bag : /\ (o.focus = {} \/ HasFrame(V(p, st), o.focus)) /\ ~HasFrame(V(p, st), o.ignore)
                                      /\ (o.tf = {} \/ st.t \in o.tf) /\ st.t \notin o.ti}
SumOver(S, f(_)) == FoldSet(LAMBDA st, acc : acc + f(st), 0, S)
Abs(x) == IF x < 0 THEN 0 - x ELSE x
\* hide removes the frames it names, show keeps only the frames it names; focus and ignore were decided on the
\* stack before that (Kept); a sample whose frames are all gone is removed with them (Visible)
Shown(p, o, st) == SelectSeq(V(p, st), LAMBDA f : (o.show = {} \/ f \in o.show) /\ f \notin o.hide)
Visible(p, o) == {st \in Kept(p, o) : Len(Shown(p, o, st)) > 0}
\* -mean: every figure is the sum of the selected column divided by the sum of the FIRST column over the same
\* samples (integer division truncating toward zero; an empty or zero divisor leaves the sum as it is)
TDiv(a, b) == IF (a < 0) = (b < 0) THEN Abs(a) \div Abs(b) ELSE 0 - (Abs(a) \div Abs(b))
MeanOf(o, w, d) == IF o.mean /\ d # 0 THEN TDiv(w, d) ELSE w
Sum1(p, S, k) == SumOver(S, LAMBDA st : p.bag[st][k])
FlatSet(p, o, e) == {st \in Kept(p, o) : Len(Shown(p, o, st)) > 0 /\ Ent(o, Shown(p, o, st)[1]) = e}
CumSet(p, o, e) == {st \in Kept(p, o) : HasEntry(Shown(p, o, st), o, e)}
RawFlat(p, o, e) == Sum1(p, FlatSet(p, o, e), o.si)
RawCum(p, o, e) == Sum1(p, CumSet(p, o, e), o.si)
Flat(p, o, e) == MeanOf(o, RawFlat(p, o, e), Sum1(p, FlatSet(p, o, e), 1))
Cum(p, o, e) == MeanOf(o, RawCum(p, o, e), Sum1(p, CumSet(p, o, e), 1))
\* with -diff_base only the base samples count, if they have any weight: percentages are relative to the base
Total(p, o) ==
  LET S == IF o.rel THEN Visible(p, o) ELSE DOMAIN p.bag
      B == {st \in S : st.b}
      base == SumOver(B, LAMBDA st : Abs(p.bag[st][o.si]))
      T == IF base > 0 THEN B ELSE S
  IN MeanOf(o, SumOver(T, LAMBDA st : Abs(p.bag[st][o.si])), Sum1(p, T, 1))
FnsOf(p) == UNION {{V(p, st)[i] : i \in DOMAIN V(p, st)} : st \in DOMAIN p.bag}
TopRows(p, o) == {[fn |-> e, flat |-> Flat(p, o, e), cum |-> Cum(p, o, e), rawflat |-> RawFlat(p, o, e), rawcum |-> RawCum(p, o, e)] : e \in {Ent(o, f) : f \in FnsOf(p)}}
\* caller -> callee edges of a tree report. A stack is leaf first, so the caller of st[i] is st[i + 1]; an adjacency
\* counts once per sample; samples whose selected value is 0 do not build the graph; an entry with flat = cum = 0 is not
\* part of a report and its edges go with it (nothing bridges over it)
EntSeq(p, o, st) == [i \in DOMAIN Shown(p, o, st) |-> Ent(o, Shown(p, o, st)[i])]
AdjIn(es, a, b) == a # b /\ \E i \in 1..(Len(es) - 1) : es[i + 1] = a /\ es[i] = b
Builders(p, o) == {st \in Visible(p, o) : p.bag[st][o.si] # 0 \/ (o.mean /\ p.bag[st][1] # 0)}
ShownEntries(p, o) == {r.fn : r \in {x \in TopRows(p, o) : x.rawflat # 0 \/ x.rawcum # 0}}
EdgeSet(p, o, a, b) == {st \in Builders(p, o) : AdjIn(EntSeq(p, o, st), a, b)}
EdgeW(p, o, a, b) == MeanOf(o, Sum1(p, EdgeSet(p, o, a, b), o.si), Sum1(p, EdgeSet(p, o, a, b), 1))
TreeEdges(p, o) == {[src |-> a, dst |-> b, w |-> EdgeW(p, o, a, b)] :
                      <<a, b>> \in {pr \in ShownEntries(p, o) \X ShownEntries(p, o) : \E st \in Builders(p, o) : AdjIn(EntSeq(p, o, st), pr[1], pr[2])}}
\* a traces report: the kept stacks as seen, with their value in the selected column (zero entries are not printed)
TraceRows(p, o) ==
  LET K == {st \in Kept(p, o) : Len(Shown(p, o, st)) > 0}
      E(st) == [i \in DOMAIN Shown(p, o, st) |-> Ent(o, Shown(p, o, st)[i])]
      T == {E(st) : st \in K}
      W(t) == SumOver({st \in K : E(st) = t}, LAMBDA st : MeanOf(o, p.bag[st][o.si], p.bag[st][1]))
  IN {[stack |-> t, w |-> W(t)] : t \in {x \in T : W(x) # 0}}

=============================================================================
