-------------------------------- MODULE Pprof --------------------------------
(***************************************************************************)
(* The whole tool as ONE state machine, at the grain of the plug-in        *)
(* boundaries of driver.PProf:                                             *)
(*                                                                         *)
(*   fetch phase   every source is handed to the Fetcher exactly once, in  *)
(*                 any order (the goroutines race); a source answers with  *)
(*                 a profile or fails;                                     *)
(*   merge         when all have returned: if none succeeded the run ends  *)
(*                 with an error, otherwise the successful profiles are    *)
(*                 merged (bag sum by stack identity, C03/C16);            *)
(*   symbolize     the Symbolizer plug-in sees the merged profile exactly  *)
(*                 once, after every fetch;                                *)
(*   session       option assignments change the option store only; every  *)
(*                 report is computed from the PRISTINE merged profile     *)
(*                 under the options in effect (C10), with the numbers the *)
(*                 definitions give (C04) for the samples the filters keep *)
(*                 (C06); the total is taken before focus/ignore unless    *)
(*                 relative_percentages is set.                            *)
(*                                                                         *)
(* The rule operators are shared with TracePprof.tla, which validates      *)
(* recorded whole runs of the real driver against this machine.  Here the  *)
(* machine is model-checked over a small configuration space:              *)
(* ReportsFromPristine, SymAfterAllFetches, ErrorOnlyIfNothingFetched.     *)
(***************************************************************************)
EXTENDS PprofRules
CONSTANT Broken   \* "none"; "reportFiltersInPlace": the report filters the shared profile (vacuity guard)

\* ---- the machine over a small configuration space
S(st, a, b) == [stack |-> st, v |-> <<a, b>>, t |-> ""]
Contents == { <<S(<<"a", "b">>, 1, 10)>>, <<S(<<"a", "b">>, 2, 0), S(<<"c">>, 0, 5)>>, <<S(<<"b">>, 3, 3), S(<<"a", "a", "b">>, 1, 1)>> }
Names == {"s1", "s2", "s3"}
Assignments == { <<"focus", {"a"}>>, <<"focus", {}>>, <<"ignore", {"c"}>>, <<"hide", {"b"}>>, <<"g", "files">>, <<"si", 1>>, <<"rel", TRUE>> }
MaxLines == 3

VARIABLES phase, srcs, pending, prof, symSeen, opts, lines, lastReport, usedForReport
vars == <<phase, srcs, pending, prof, symSeen, opts, lines, lastReport, usedForReport>>

Init == /\ phase = "fetch"
        /\ srcs \in {<<[name |-> "s1", ok |-> o1, samples |-> c1], [name |-> "s2", ok |-> o2, samples |-> c2]>> :
                        o1, o2 \in BOOLEAN, c1, c2 \in Contents}
        /\ pending = {1, 2} /\ prof = NoProf /\ symSeen = 0 /\ opts = NoOpts /\ lines = 0
        /\ lastReport = {} /\ usedForReport = NoProf
FetchReturn(i) == /\ phase = "fetch" /\ i \in pending /\ pending' = pending \ {i}
                  /\ UNCHANGED <<phase, srcs, prof, symSeen, opts, lines, lastReport, usedForReport>>
Merge == /\ phase = "fetch" /\ pending = {}
         /\ IF \E i \in DOMAIN srcs : srcs[i].ok
            THEN phase' = "sym" /\ prof' = Prof(MergedOf(srcs), {}, {})
            ELSE phase' = "error" /\ UNCHANGED prof
         /\ UNCHANGED <<srcs, pending, symSeen, opts, lines, lastReport, usedForReport>>
Symbolize == /\ phase = "sym" /\ symSeen' = symSeen + 1 /\ phase' = "session"
             /\ UNCHANGED <<srcs, pending, prof, opts, lines, lastReport, usedForReport>>
Apply(o, a) == CASE a[1] = "focus" -> [o EXCEPT !.focus = a[2]]
                 [] a[1] = "ignore" -> [o EXCEPT !.ignore = a[2]]
                 [] a[1] = "hide" -> [o EXCEPT !.hide = a[2]]
                 [] a[1] = "show" -> [o EXCEPT !.show = a[2]]
                 [] a[1] = "g" -> [o EXCEPT !.g = a[2]]
                 [] a[1] = "si" -> [o EXCEPT !.si = a[2]]
                 [] a[1] = "rel" -> [o EXCEPT !.rel = a[2]]
Assign(a) == /\ phase = "session" /\ lines < MaxLines /\ lines' = lines + 1
             /\ opts' = Apply(opts, a)
             /\ UNCHANGED <<phase, srcs, pending, prof, symSeen, lastReport, usedForReport>>
\* a report works on a private copy: filtering happens on the copy, prof stays pristine
Report == /\ phase = "session" /\ lines < MaxLines /\ lines' = lines + 1
          /\ usedForReport' = prof
          /\ lastReport' = TopRows(prof, opts)
          /\ prof' = IF Broken = "reportFiltersInPlace" THEN [prof EXCEPT !.bag = [st \in Kept(prof, opts) |-> prof.bag[st]]] ELSE prof
          /\ UNCHANGED <<phase, srcs, pending, symSeen, opts>>
Quit == phase = "session" /\ phase' = "done" /\ UNCHANGED <<srcs, pending, prof, symSeen, opts, lines, lastReport, usedForReport>>
Next == (\E i \in 1..2 : FetchReturn(i)) \/ Merge \/ Symbolize \/ (\E a \in Assignments : Assign(a)) \/ Report \/ Quit
Spec == Init /\ [][Next]_vars

ReportsFromPristine == usedForReport # NoProf => SameBag(usedForReport.bag, MergedOf(srcs))
SymAfterAllFetches == symSeen > 0 => pending = {}
SymOnce == symSeen <= 1 /\ (phase \in {"session", "done"} => symSeen = 1)
ErrorOnlyIfNothingFetched == phase = "error" <=> (pending = {} /\ phase # "fetch" /\ ~\E i \in DOMAIN srcs : srcs[i].ok)
\* cum >= flat for non-negative values, flat of all functions sums to the kept total
RowsConsistent == \A r \in lastReport : r.rawcum >= r.rawflat
PristineNeverChanges == [][prof # NoProf => prof' = prof]_vars
=============================================================================
