------------------------------- MODULE Merge -------------------------------
(***************************************************************************)
(* C03 - profile.Merge / Profile.Compact.                               *)
(*                                                                         *)
(* Declarative meaning (what the property states):                         *)
(*   MergeD(ps) = bag over StackKey of element-wise value sums, all-zero   *)
(*   entries removed; header rules HdrD.                                   *)
(* Operational model (what the code does, profile/merge.go):               *)
(*   a merger with memo tables keyed by hand-written keys (FnKey, MapKey,  *)
(*   LocKey, SampleKey) consuming one sample per step, skipping zero       *)
(*   samples, then a DropZero re-merge.                                    *)
(* TLC checks the operational model against the declarative one for every  *)
(* case of the catalogue, and prints each case with its expected           *)
(* observable result for replay on the real code (Binding A).              *)
(***************************************************************************)
EXTENDS MergeRules, Json

CONSTANTS Tier          \* "quick" | "thorough" : size of the enumerated catalogue
          , Emit         \* TRUE: print every case as JSON at its terminal state
          , Broken       \* "none", or the name of a deliberately defective mechanism (vacuity guard)

\* ------------------------------------------------------------- catalogue
F0     == Fn("f", "f", "a.c", 1)
FName  == Fn("g", "f", "a.c", 1)
FSys   == Fn("f", "f_", "a.c", 1)
FNoSys == Fn("f", "", "a.c", 1)          \* no system name at all (F0 has one equal to its name)
FFile  == Fn("f", "f", "b.c", 1)
FStart == Fn("f", "f", "a.c", 2)
G      == Fn("h", "h", "a.c", 5)
RootF  == Fn("main", "main", "m.c", 1)

\* one page = 2 units
M0      == Mp("B1", "bin", 16, 8, 0)
MMoved  == Mp("B1", "bin", 32, 8, 0)     \* same binary at another address: SAME binary identity
MSize7  == Mp("B1", "bin", 16, 7, 0)     \* size equal after 4K rounding: same identity
MSize10 == Mp("B1", "bin", 16, 10, 0)    \* other size, same binary identity (merging them or not is Unspecified)
MOff    == Mp("B1", "bin", 16, 8, 2)     \* other file offset, same binary identity (Unspecified as well)
MBuild  == Mp("B2", "bin", 16, 8, 0)     \* other build id: another binary
MFileA  == Mp("", "bin", 16, 8, 0)       \* no build id: identified by file
MFileB  == Mp("", "bin2", 16, 8, 0)
MFake   == Mp("", "", 16, 8, 0)

L0 == Loc(M0, 3, <<Ln(F0, 10, 1)>>, FALSE)
I2(c1, l1, c2) == <<Ln(G, l1, c1), Ln(F0, 10, c2)>>           \* G inlined into F0
I3(cm)        == <<Ln(G, 20, 1), Ln(G, 30, cm), Ln(F0, 10, 1)>>

VariantLocs ==
  << L0,
     Loc(M0, 3, <<Ln(FName, 10, 1)>>, FALSE),
     Loc(M0, 3, <<Ln(FSys, 10, 1)>>, FALSE),
     Loc(M0, 3, <<Ln(FNoSys, 10, 1)>>, FALSE),
     Loc(M0, 3, <<Ln(FFile, 10, 1)>>, FALSE),
     Loc(M0, 3, <<Ln(FStart, 10, 1)>>, FALSE),
     Loc(M0, 3, <<Ln(F0, 11, 1)>>, FALSE),
     Loc(M0, 3, <<Ln(F0, 10, 2)>>, FALSE),
     Loc(M0, 3, <<Ln(F0, 10, 1)>>, TRUE),
     Loc(M0, 4, <<Ln(F0, 10, 1)>>, FALSE),
     Loc(MMoved, 3, <<Ln(F0, 10, 1)>>, FALSE),
     Loc(MSize7, 3, <<Ln(F0, 10, 1)>>, FALSE),
     Loc(MSize10, 3, <<Ln(F0, 10, 1)>>, FALSE),
     Loc(MOff, 3, <<Ln(F0, 10, 1)>>, FALSE),
     Loc(MBuild, 3, <<Ln(F0, 10, 1)>>, FALSE),
     Loc(MFileA, 3, <<Ln(F0, 10, 1)>>, FALSE),
     Loc(MFileB, 3, <<Ln(F0, 10, 1)>>, FALSE),
     Loc(MFake, 3, <<Ln(F0, 10, 1)>>, FALSE),
     Loc(NoMap, 3, <<Ln(F0, 10, 1)>>, FALSE),
     Loc(M0, 3, <<>>, FALSE),                                  \* unsymbolised
     Loc(M0, 3, I2(1, 20, 1), FALSE),                          \* inlined, 2 lines
     Loc(M0, 3, I2(2, 20, 1), FALSE),                          \* column of the NON-LAST line differs
     Loc(M0, 3, I2(1, 21, 1), FALSE),                          \* line of the non-last line differs
     Loc(M0, 3, I2(1, 20, 2), FALSE),                          \* column of the last line differs
     Loc(M0, 3, <<Ln(F0, 10, 1), Ln(G, 20, 1)>>, FALSE),       \* nesting order swapped
     Loc(M0, 3, I3(1), FALSE),                                 \* 3 lines
     Loc(M0, 3, I3(2), FALSE),                                 \* column of the middle line differs
     Loc(M0, 3, <<Ln(G, 20, 1), Ln(G, 30, 1), Ln(FName, 10, 1)>>, FALSE)
  >>
LR == Loc(M0, 1, <<Ln(RootF, 1, 1)>>, FALSE)

\* the inline variants that the two-line base is compared with
InlineBase == Loc(M0, 3, I2(1, 20, 1), FALSE)
Inline3Base == Loc(M0, 3, I3(1), FALSE)
BaseLocs == IF Tier = "quick" THEN <<L0, InlineBase, Inline3Base>> ELSE VariantLocs

Shape(k, l) == CASE k = 1 -> <<l>>
                 [] k = 2 -> <<l, LR>>
                 [] k = 3 -> <<LR, l>>
                 [] k = 4 -> <<l, l>>
Shapes == IF Tier = "quick" THEN {1, 2} ELSE {1, 2, 3, 4}

LabVariants ==
  << [lab |-> <<>>, num |-> <<>>],
     [lab |-> <<SLab("k", <<"x">>)>>, num |-> <<>>],
     [lab |-> <<SLab("k", <<"y">>)>>, num |-> <<>>],
     [lab |-> <<SLab("k", <<"x", "x">>)>>, num |-> <<>>],          \* multiplicity
     [lab |-> <<SLab("k2", <<"x">>)>>, num |-> <<>>],
     [lab |-> <<>>, num |-> <<NLab("n", <<1>>, <<"u">>)>>],
     [lab |-> <<>>, num |-> <<NLab("n", <<1>>, <<"v">>)>>],        \* unit only
     [lab |-> <<>>, num |-> <<NLab("n", <<1>>, <<"">>)>>],
     [lab |-> <<>>, num |-> <<NLab("n", <<1, 1>>, <<"u", "u">>)>>],\* multiplicity
     [lab |-> <<>>, num |-> <<NLab("n", <<2>>, <<"u">>)>>],
     [lab |-> <<SLab("k", <<"x">>)>>, num |-> <<NLab("n", <<1>>, <<"u">>)>>],
     [lab |-> <<>>, num |-> <<NLab("n", <<1, 1>>, <<"u", "v">>)>>],\* 12: same values, same first unit, a later unit differs
     [lab |-> <<>>, num |-> <<NLab("n", <<1, 1>>, <<"v", "u">>)>>] \* 13: the same units in the other order
  >>
\* (the thorough catalogue widens the location pairs, shapes and splits; TLC caps an enumerated set at 10^6 elements)
ValsA == {<<1, 2>>}
\* <<3, -3>>: non-zero values whose sum is zero.  The thorough catalogue takes every pair of the 29 location variants
\* and pays with fewer value pairs (the quick one has them all on the 3 base locations): the product stays below 10^6
\* and the run within its time limit
ValsB == IF Tier = "quick" THEN {<<1, 2>>, <<1, -3>>, <<-1, -2>>, <<0, 0>>, <<3, -3>>} ELSE {<<1, 2>>, <<3, -3>>}

Hdr0 == [period |-> 1, time |-> 0, dur |-> 0, comments |-> <<>>, dflt |-> "", doc |-> "",
         drop |-> "", keep |-> ""]
Prof(samples, hdr) == [samples |-> samples, hdr |-> hdr]

\* pair cases: a base sample and a variant sample of the same shape, in one profile, in two,
\* or in three (the base sample twice)
LabPairs == {<<1, lb>> : lb \in DOMAIN LabVariants}
            \cup {<<2, lb>> : lb \in {2, 3, 4, 5, 11}}
            \cup {<<6, lb>> : lb \in {6, 7, 8, 9, 10, 11}}
\* per-value units of one numeric label (a separate, smaller product: TLC caps an enumerated set at 10^6 elements)
LabPairsUnits == {<<9, lb>> : lb \in {9, 12, 13}} \cup {<<12, 12>>, <<12, 13>>}
Splits == IF Tier = "quick" THEN {1, 2} ELSE {1, 2, 3}
MkSmp(k, l, v, li) == Smp(Shape(k, l), v, LabVariants[li].lab, LabVariants[li].num)
PairCasesOf(shapes, bases, variants, valsA, valsB, labPairs, splits) ==
  { [kind |-> "pair",
     profs |-> (LET a == MkSmp(c[1], BaseLocs[c[2]], c[4], c[6][1])
                    b == MkSmp(c[1], VariantLocs[c[3]], c[5], c[6][2]) IN
                CASE c[7] = 1 -> << Prof(<<a, b>>, Hdr0) >>
                  [] c[7] = 2 -> << Prof(<<a>>, Hdr0), Prof(<<b>>, Hdr0) >>
                  [] c[7] = 3 -> << Prof(<<a>>, Hdr0), Prof(<<b>>, Hdr0), Prof(<<a>>, Hdr0) >>)] :
      c \in shapes \X bases \X variants \X valsA \X valsB \X labPairs \X splits }
PairCases == PairCasesOf(Shapes, DOMAIN BaseLocs, DOMAIN VariantLocs, ValsA, ValsB, LabPairs, Splits)
             \cup PairCasesOf({1, 2}, DOMAIN BaseLocs, DOMAIN VariantLocs, ValsA, {<<1, 2>>, <<1, -3>>}, LabPairsUnits, Splits)
\* the small catalogue used when a mechanism is deliberately broken (vacuity guard)
GuardCases == PairCasesOf({1}, DOMAIN BaseLocs, DOMAIN VariantLocs, {<<1, 2>>}, {<<1, 2>>}, {<<1, 1>>}, {2})

\* header cases: three profiles with one sample each
HdrChoices == { [period |-> p, time |-> t, dur |-> d, comments |-> c, dflt |-> df, doc |-> dc,
                 drop |-> dr, keep |-> ""] :
                 p \in {0, 2, 7}, t \in {0, 3, 5}, d \in {4}, c \in {<<>>}, df \in {""}, dc \in {""}, dr \in {""} }
HdrChoices2 == { [period |-> 1, time |-> 0, dur |-> d, comments |-> c, dflt |-> df, doc |-> dc,
                 drop |-> dr, keep |-> dr] :
                 d \in {0, 4}, c \in {<<>>, <<"a">>, <<"b", "a">>, <<"a", "a">>}, df \in {"", "t1", "t2"},
                 dc \in {"", "http://x"}, dr \in {"", "d.*"} }
S1 == Smp(<<L0>>, <<1, 2>>, <<>>, <<>>)
HdrCases ==
  { [kind |-> "hdr", profs |-> <<Prof(<<S1>>, h1), Prof(<<S1>>, h2), Prof(<<S1>>, h3)>>] :
      h1 \in HdrChoices, h2 \in HdrChoices, h3 \in HdrChoices }
  \cup
  { [kind |-> "hdr", profs |-> <<Prof(<<S1>>, h1), Prof(<<S1>>, h2)>>] :
      h1 \in HdrChoices2, h2 \in HdrChoices2 }

Cases == IF Broken = "none" THEN PairCases \cup HdrCases ELSE GuardCases

NT == 2   \* sample types per profile in this catalogue

\* ------------------------------------------------------------- declarative
Hdrs(ps) == [i \in 1..Len(ps) |-> ps[i].hdr]
AllSamples(ps) == FlattenSeq([i \in 1..Len(ps) |-> ps[i].samples])
MergeD(ps) == BagSum(AllSamples(ps), NT)

\* ------------------------------------------------------------- operational
\* the hand-written keys of profile/merge.go (as intended by their comments)
RoundUp(n, k) == ((n + k - 1) \div k) * k
FnKey(f)  == <<f.start, f.name, f.sys, f.file>>
MapKey(m) == IF m.nil THEN <<"nil">>
             ELSE <<RoundUp(m.size, 2), m.off, IF m.build # "" THEN m.build ELSE m.file>>
\* Broken = "lockey": the key as the code had it before the fix (3*n slots, written at i*2..i*2+2:
\* line i's column slot is overwritten by line i+1's function)
LineSlots(l) == IF Broken = "lockey"
                THEN [i \in 1..Len(l.lines) |-> <<FnKey(l.lines[i].fn), l.lines[i].line,
                                                  IF i < Len(l.lines) THEN 0 ELSE l.lines[i].col>>]
                ELSE [i \in 1..Len(l.lines) |-> <<FnKey(l.lines[i].fn), l.lines[i].line, l.lines[i].col>>]
LocKey(l) == <<MapKey(l.map), l.rel, LineSlots(l), l.folded>>
SortedBy(S, key(_)) == SetToSortSeq(S, LAMBDA a, b : TRUE)  \* order is irrelevant for identity: use the set
SampleKey(s) == <<[i \in 1..Len(s.locs) |-> LocKey(s.locs[i])], Range(s.lab), Range(s.num)>>

\* combineHeaders: one pass over the sources, as the code is written (with the rule
\* "earliest NON-ZERO time" as documented)
HdrStep(acc, h) ==
  [ acc EXCEPT
      !.time     = IF h.time # 0 /\ (acc.time = 0 \/ h.time < acc.time) THEN h.time ELSE acc.time,
      !.dur      = acc.dur + h.dur,
      !.period   = IF acc.period = 0 \/ acc.period < h.period THEN h.period ELSE acc.period,
      !.comments = FoldLeft(LAMBDA a, c : IF c \in Range(a) THEN a ELSE Append(a, c), acc.comments, h.comments),
      !.dflt     = IF acc.dflt = "" THEN h.dflt ELSE acc.dflt,
      !.doc      = IF acc.doc = "" THEN h.doc ELSE acc.doc ]
HdrO(ps) == FoldLeft(HdrStep,
                     [period |-> 0, time |-> 0, dur |-> 0, comments |-> <<>>, dflt |-> "", doc |-> "",
                      drop |-> ps[1].hdr.drop, keep |-> ps[1].hdr.keep],
                     [i \in 1..Len(ps) |-> ps[i].hdr])

VARIABLES case,     \* the input of this behaviour
          pc,       \* "merge" | "gc" | "done"
          src, idx, \* next sample to consume
          memo,     \* sequence of [k |-> SampleKey, s |-> merged sample]  (insertion order = output order)
          hdr       \* combined header
vars == <<case, pc, src, idx, memo, hdr>>

Init == /\ case \in Cases
        /\ pc = "merge" /\ src = 1 /\ idx = 1 /\ memo = <<>>
        /\ hdr = HdrO(case.profs)      \* combineHeaders runs first

CurSample == case.profs[src].samples[idx]
Advance == IF idx < Len(case.profs[src].samples)
           THEN /\ idx' = idx + 1 /\ src' = src /\ pc' = pc
           ELSE IF src < Len(case.profs)
                THEN /\ src' = src + 1 /\ idx' = 1 /\ pc' = pc
                ELSE /\ src' = src /\ idx' = idx /\ pc' = "gc"

\* mapSample: zero samples are skipped, others are added to the memo entry with the same key
MapSample ==
  /\ pc = "merge"
  /\ LET s == CurSample
         k == SampleKey(s)
         hit == {m \in DOMAIN memo : memo[m].k = k}
     IN IF VecZero(s.vals) THEN memo' = memo
        ELSE IF hit # {}
             THEN LET m == CHOOSE m \in hit : TRUE IN
                  memo' = [memo EXCEPT ![m].s.vals = VecAdd(@, s.vals)]
             ELSE memo' = Append(memo, [k |-> k, s |-> s])
  /\ Advance
  /\ UNCHANGED <<case, hdr>>

\* the re-merge that garbage-collects samples whose sum became zero
DropZero ==
  /\ pc = "gc"
  /\ memo' = SelectSeq(memo, LAMBDA e : ~VecZero(e.s.vals))
  /\ pc' = "done"
  /\ UNCHANGED <<case, src, idx, hdr>>

OutSamples == [m \in DOMAIN memo |-> memo[m].s]
Expected == [ bag    |-> MergeD(case.profs),
              totals |-> Totals(AllSamples(case.profs), NT),
              hdr    |-> HdrD(Hdrs(case.profs)),
              \* the number of samples the identity rules (SampleKey: mapping sizes by page count, every line attribute,
              \* label units ...) leave after all-zero ones are gone: the result is neither conflated nor left unmerged
              nsamples |-> Len(memo) ]

Finish ==
  /\ pc = "done"
  /\ pc' = "end"
  /\ (Emit => PrintT(ToJson([kind |-> case.kind, profs |-> case.profs, exp |-> Expected])))
  /\ UNCHANGED <<case, src, idx, memo, hdr>>

Next == MapSample \/ DropZero \/ Finish
Spec == Init /\ [][Next]_vars

\* ------------------------------------------------------------- properties
Done == pc \in {"done", "end"}
\* the mechanism yields the declared bag (regrouped by the property's identity, because the
\* mechanism may keep apart stacks that the property does not require to be kept apart)
Conservation == Done => BagSum(OutSamples, NT) = MergeD(case.profs)
TotalsConserved == Done => Totals(OutSamples, NT) = Totals(AllSamples(case.profs), NT)
NoZeroLeft == Done => \A m \in DOMAIN memo : ~VecZero(memo[m].s.vals)
\* a key never identifies two stacks that the property distinguishes
KeysInjective == \A m \in DOMAIN memo :
                   \A s \in Range(AllSamples(case.profs)) :
                      SampleKey(s) = memo[m].k => StackKey(s) = StackKey(memo[m].s)
\* ... and no two output entries are identical in every attribute (under-merging)
NoDuplicates == \A m, n \in DOMAIN memo : m # n => memo[m].k # memo[n].k
\* inputs are never modified (the input is part of the state and no action changes it)
InputsUntouched == [][case' = case]_vars
HeaderRules == Done => hdr = HdrD(Hdrs(case.profs))
=============================================================================
