SPECIFICATION Spec
CONSTANTS
  Tier = "quick"
  Emit = FALSE
  Broken = "none"
INVARIANTS RejectedFetchesNothing AcceptedHasMode BinaryIsNoSource CliNeedsOneFormat ErrorOrder NormalizeNeedsBase
CHECK_DEADLOCK FALSE
