----------------------------- MODULE MergeRules -----------------------------
(***************************************************************************)
(* The declarative rules of C03 that both the model (Merge.tla) and the    *)
(* trace specification (TraceMerge.tla) use: bag-sum over abstract         *)
(* samples and the documented header combination rules.                    *)
(***************************************************************************)
EXTENDS ProfileModel

\* bag-sum over a sequence of [key, vals] records (already projected samples)
KeysA(abs) == {abs[i].key : i \in DOMAIN abs}
SumForA(abs, k, n) ==
    FoldFunction(LAMBDA a, acc : IF a.key = k THEN VecAdd(acc, a.vals) ELSE acc, ZeroVec(n), abs)
BagSumA(abs, n) ==
    {r \in {[key |-> k, vals |-> SumForA(abs, k, n)] : k \in KeysA(abs)} : ~VecZero(r.vals)}
TotalsA(abs, n) == FoldFunction(LAMBDA a, acc : VecAdd(acc, a.vals), ZeroVec(n), abs)

NonZero(S) == {x \in S : x # 0}
MinSet(S) == CHOOSE x \in S : \A y \in S : x <= y
MaxSet(S) == CHOOSE x \in S : \A y \in S : x >= y
DedupSeq(s) == FoldLeft(LAMBDA acc, x : IF x \in Range(acc) THEN acc ELSE Append(acc, x), <<>>, s)
FirstNonEmpty(s) == IF \E i \in DOMAIN s : s[i] # ""
                    THEN s[CHOOSE i \in DOMAIN s : s[i] # "" /\ \A j \in 1..(i-1) : s[j] = ""]
                    ELSE ""
HdrD(hs) ==
  [ period   |-> MaxSet({hs[i].period : i \in DOMAIN hs}),
    time     |-> IF NonZero({hs[i].time : i \in DOMAIN hs}) = {} THEN 0
                 ELSE MinSet(NonZero({hs[i].time : i \in DOMAIN hs})),
    dur      |-> SeqSum([i \in DOMAIN hs |-> hs[i].dur]),
    comments |-> DedupSeq(FlattenSeq([i \in DOMAIN hs |-> hs[i].comments])),
    dflt     |-> FirstNonEmpty([i \in DOMAIN hs |-> hs[i].dflt]),
    doc      |-> FirstNonEmpty([i \in DOMAIN hs |-> hs[i].doc]),
    drop     |-> hs[1].drop,
    keep     |-> hs[1].keep ]

=============================================================================
