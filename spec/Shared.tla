------------------------------- MODULE Shared -------------------------------
(***************************************************************************)
(* C20 - shared profile and tool state is safe under concurrent use.       *)
(* Three lock protocols, one process per concurrent caller:                *)
(*  (a) Encode (profile/profile.go serialize): Lock, PreEncode writes the  *)
(*      profile's scratch fields, Marshal reads them, Unlock.              *)
(*      NoTornEncode: what Marshal reads was written by the same caller.   *)
(*  (b) Temp files (internal/driver/tempfile.go): pick an index, create    *)
(*      with O_EXCL (atomic in the kernel), retry on collision.            *)
(*      DistinctNames / NeverOverwritten.                                  *)
(*  (c) Tool configuration (internal/binutils): copy-on-write rep; readers *)
(*      keep the rep they obtained.  ReadersSeeConsistentRep.              *)
(* Broken \in {"noMutex", "unlockEarly", "noExcl", "inPlaceUpdate"} must   *)
(* each make TLC find a violation (vacuity guards).                        *)
(***************************************************************************)
EXTENDS Integers, Sequences, FiniteSets, TLC

CONSTANTS Procs, Broken

VARIABLES pc, mu, scratch, read, files, idx, made, rep, held, seen
vars == <<pc, mu, scratch, read, files, idx, made, rep, held, seen>>

Init == /\ pc = [p \in Procs |-> "start"] /\ mu = 0 /\ scratch = 0 /\ read = [p \in Procs |-> 0]
        /\ files = {} /\ idx = [p \in Procs |-> 1] /\ made = [p \in Procs |-> 0]
        /\ rep = [ver |-> 0, a |-> 0, b |-> 0] /\ held = [p \in Procs |-> [ver |-> 0, a |-> 0, b |-> 0]] /\ seen = [p \in Procs |-> <<>>]

\* ---- (a) encode
UseMutex == Broken # "noMutex"
Lock(p) == /\ pc[p] = "start" /\ (UseMutex => mu = 0) /\ mu' = (IF UseMutex THEN p ELSE mu) /\ pc' = [pc EXCEPT ![p] = "pre"]
           /\ UNCHANGED <<scratch, read, files, idx, made, rep, held, seen>>
PreEncode(p) == /\ pc[p] = "pre" /\ scratch' = p
                /\ mu' = (IF Broken = "unlockEarly" /\ mu = p THEN 0 ELSE mu)
                /\ pc' = [pc EXCEPT ![p] = "marshal"] /\ UNCHANGED <<read, files, idx, made, rep, held, seen>>
Marshal(p) == /\ pc[p] = "marshal" /\ read' = [read EXCEPT ![p] = scratch] /\ pc' = [pc EXCEPT ![p] = "unlock"]
              /\ UNCHANGED <<mu, scratch, files, idx, made, rep, held, seen>>
Unlock(p) == /\ pc[p] = "unlock" /\ mu' = (IF mu = p THEN 0 ELSE mu) /\ pc' = [pc EXCEPT ![p] = "tmp"]
             /\ UNCHANGED <<scratch, read, files, idx, made, rep, held, seen>>
NoTornEncode == \A p \in Procs : pc[p] \in {"unlock", "tmp", "cfg", "use", "done"} => read[p] = p

\* ---- (b) temp files: name = index; O_EXCL makes "exists? create" one atomic step
CreateExcl(p) == /\ pc[p] = "tmp"
                 /\ IF Broken = "noExcl"
                    THEN /\ pc' = [pc EXCEPT ![p] = "tmpcreate"] /\ UNCHANGED <<files, idx, made>>     \* the existence check alone; create follows
                    ELSE IF idx[p] \in files THEN idx' = [idx EXCEPT ![p] = @ + 1] /\ UNCHANGED <<files, made, pc>>
                         ELSE files' = files \cup {idx[p]} /\ made' = [made EXCEPT ![p] = idx[p]] /\ pc' = [pc EXCEPT ![p] = "cfg"] /\ UNCHANGED idx
                 /\ UNCHANGED <<mu, scratch, read, rep, held, seen>>
CheckThenCreate(p) == /\ pc[p] = "tmpcreate"      \* broken: between the check and the create another process may create the same name
                      /\ files' = files \cup {idx[p]} /\ made' = [made EXCEPT ![p] = idx[p]] /\ pc' = [pc EXCEPT ![p] = "cfg"]
                      /\ UNCHANGED <<mu, scratch, read, idx, rep, held, seen>>
DistinctNames == \A p, q \in Procs : (p # q /\ made[p] # 0 /\ made[q] # 0) => made[p] # made[q]

\* ---- (c) copy-on-write configuration: an update installs a NEW rep (two fields set together); a reader keeps its rep
Update(p) == /\ pc[p] = "cfg"
             /\ IF Broken = "inPlaceUpdate"
                THEN rep' = [rep EXCEPT !.a = p] /\ pc' = [pc EXCEPT ![p] = "cfg2"]                  \* first half of an in-place update
                ELSE rep' = [ver |-> rep.ver + 1, a |-> p, b |-> p] /\ pc' = [pc EXCEPT ![p] = "use"]
             /\ UNCHANGED <<mu, scratch, read, files, idx, made, held, seen>>
Update2(p) == /\ pc[p] = "cfg2" /\ rep' = [rep EXCEPT !.b = p, !.ver = @ + 1] /\ pc' = [pc EXCEPT ![p] = "use"]
              /\ UNCHANGED <<mu, scratch, read, files, idx, made, held, seen>>
Get(p) == /\ pc[p] = "use" /\ Len(seen[p]) < 2 /\ held' = [held EXCEPT ![p] = rep] /\ seen' = [seen EXCEPT ![p] = Append(@, rep)]
          /\ pc' = [pc EXCEPT ![p] = IF Len(seen[p]) = 1 THEN "done" ELSE "use"]
          /\ UNCHANGED <<mu, scratch, read, files, idx, made, rep>>
ReadersSeeConsistentRep == \A p \in Procs : \A i \in DOMAIN seen[p] : seen[p][i].a = seen[p][i].b

Next == \E p \in Procs : Lock(p) \/ PreEncode(p) \/ Marshal(p) \/ Unlock(p) \/ CreateExcl(p) \/ CheckThenCreate(p) \/ Update(p) \/ Update2(p) \/ Get(p)
Spec == Init /\ [][Next]_vars /\ WF_vars(Next)
Terminates == <>(\A p \in Procs : pc[p] = "done")
=============================================================================
